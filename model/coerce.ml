(* C04 / C05 driver: coercion leaf sweeps. *)
module ZA = Z   (* zarith, before the extracted module Z shadows it *)
open Model
open Conv
module S = Sexp

(* arbitrary-size integers travel as decimal atoms *)
let rec pos_of_zarith (n : ZA.t) : positive =
  if ZA.equal n ZA.one then XH
  else if ZA.is_even n then XO (pos_of_zarith (ZA.shift_right n 1))
  else XI (pos_of_zarith (ZA.shift_right n 1))
let z_of_decimal (s : string) : Model.z =
  let n = ZA.of_string s in
  if ZA.sign n = 0 then Z0 else if ZA.sign n > 0 then Zpos (pos_of_zarith n) else Zneg (pos_of_zarith (ZA.neg n))
let rec zarith_of_pos = function
  | XH -> ZA.one | XO p -> ZA.shift_left (zarith_of_pos p) 1 | XI p -> ZA.succ (ZA.shift_left (zarith_of_pos p) 1)
let decimal_of_z = function
  | Z0 -> "0" | Zpos p -> ZA.to_string (zarith_of_pos p) | Zneg p -> ZA.to_string (ZA.neg (zarith_of_pos p))

let kind_of = function
  | "int" -> KInt | "int8" -> KInt8 | "int16" -> KInt16 | "int32" -> KInt32 | "int64" -> KInt64
  | "uint" -> KUint | "uint8" -> KUint8 | "uint16" -> KUint16 | "uint32" -> KUint32 | "uint64" -> KUint64
  | k -> failwith ("coerce: kind " ^ k)
let kind_name = function
  | KInt -> "int" | KInt8 -> "int8" | KInt16 -> "int16" | KInt32 -> "int32" | KInt64 -> "int64"
  | KUint -> "uint" | KUint8 -> "uint8" | KUint16 -> "uint16" | KUint32 -> "uint32" | KUint64 -> "uint64"

let flts : (int, flt) Hashtbl.t = Hashtbl.create 16
let strs : (int, S.t) Hashtbl.t = Hashtbl.create 16

let flt_of = function
  | S.L [S.A "f"; id; w32; fin; tr; integral; fits] ->
    let f = { f_id = z_of_int (S.int id); f_w32 = S.int w32 <> 0; f_finite = S.int fin <> 0;
              f_trunc = z_of_decimal (S.atom tr); f_integral = S.int integral <> 0; f_fits32 = S.int fits <> 0 } in
    Hashtbl.replace flts (S.int id) f; f
  | x -> failwith ("coerce: flt " ^ S.to_string x)

let dflt_str = { s_id = z_of_int (-1); s_int = None; s_flt = None; s_bool = None; s_time = None }

let rec cv_of (v : S.t) : cv =
  match v with
  | S.A "nil" -> CNil
  | S.A "other" -> COther
  | S.L [S.A "i"; S.A k; z] -> CI (kind_of k, z_of_decimal (S.atom z))
  | S.L (S.A "f" :: _) -> CFl (FIn (flt_of v))
  | S.L [S.A "s"; id; pi; pf; pb; pt] ->
    Hashtbl.replace strs (S.int id) v;
    CStr { s_id = z_of_int (S.int id);
           s_int = (match pi with S.A "-" -> None | x -> Some (z_of_decimal (S.atom x)));
           s_flt = (match pf with S.A "-" -> None | x -> Some (flt_of x));
           s_bool = (match pb with S.A "-" -> None | x -> Some (S.int x <> 0));
           s_time = (match pt with S.A "-" -> None | x -> Some (z_of_int (S.int x))) }
  | S.L [S.A "b"; x] -> CBool (S.int x <> 0)
  | S.L [S.A "sym"; e] -> CSym (nat_of_int (S.int e))
  | S.L (S.A "l" :: xs) -> CList (List.map cv_of xs)
  | S.L (S.A "m" :: kvs) -> CMap (List.map (function S.L [k; x] -> (nat_of_int (S.int k), cv_of x) | _ -> failwith "coerce: map") kvs)
  | S.L [S.A "time"; id] -> CTime (TIn (z_of_int (S.int id)))
  (* forms that only occur in outputs *)
  | S.L [S.A "fin"; id] -> CFl (FIn (Hashtbl.find flts (S.int id)))
  | S.L [S.A "f32of"; id] -> CFl (F32Of (Hashtbl.find flts (S.int id)))
  | S.L [S.A "f64of"; id] -> CFl (F64Of (Hashtbl.find flts (S.int id)))
  | S.L [S.A "f32ofint"; z] -> CFl (F32OfInt (z_of_decimal (S.atom z)))
  | S.L [S.A "f64ofint"; z] -> CFl (F64OfInt (z_of_decimal (S.atom z)))
  | S.L [S.A "soi"; z] -> CStrOfInt (z_of_decimal (S.atom z))
  | S.L [S.A "sob"; b] -> CStrOfBool (S.int b <> 0)
  | S.L [S.A "sof"; id] -> CStrOfFlt (Hashtbl.find flts (S.int id))
  | S.L [S.A "symname"; e] -> CSymName (nat_of_int (S.int e))
  | S.L [S.A "dflt"] -> CStr dflt_str
  | S.L [S.A "timev"; t] -> CTime (tval_of t)
  | S.L [S.A "timetext"; t] -> CTimeText (tval_of t)
  | x -> failwith ("coerce: value " ^ S.to_string x)
and tval_of = function
  | S.L [S.A "tin"; id] -> TIn (z_of_int (S.int id))
  | S.L [S.A "secs"; z] -> TOfSecs (z_of_decimal (S.atom z))
  | S.L [S.A "tp"; id] -> TParsed (z_of_int (S.int id))
  | S.L [S.A "tf"; id] -> TOfFlt (z_of_int (S.int id))
  | x -> failwith ("coerce: tval " ^ S.to_string x)

let sexp_of_tval = function
  | TIn id -> S.L [S.A "tin"; S.of_int (int_of_z id)]
  | TOfSecs z -> S.L [S.A "secs"; S.A (decimal_of_z z)]
  | TParsed id -> S.L [S.A "tp"; S.of_int (int_of_z id)]
  | TOfFlt id -> S.L [S.A "tf"; S.of_int (int_of_z id)]

let rec sexp_of_cv = function
  | CNil -> S.A "nil"
  | COther -> S.A "other"
  | CI (k, z) -> S.L [S.A "i"; S.A (kind_name k); S.A (decimal_of_z z)]
  | CFl (FIn f) -> S.L [S.A "fin"; S.of_int (int_of_z f.f_id)]
  | CFl (F32Of f) -> S.L [S.A "f32of"; S.of_int (int_of_z f.f_id)]
  | CFl (F64Of f) -> S.L [S.A "f64of"; S.of_int (int_of_z f.f_id)]
  | CFl (F32OfInt z) -> S.L [S.A "f32ofint"; S.A (decimal_of_z z)]
  | CFl (F64OfInt z) -> S.L [S.A "f64ofint"; S.A (decimal_of_z z)]
  | CStr s -> let id = int_of_z s.s_id in if id < 0 then S.L [S.A "dflt"] else Hashtbl.find strs id
  | CStrOfInt z -> S.L [S.A "soi"; S.A (decimal_of_z z)]
  | CStrOfBool b -> S.L [S.A "sob"; S.of_int (if b then 1 else 0)]
  | CStrOfFlt f -> S.L [S.A "sof"; S.of_int (int_of_z f.f_id)]
  | CBool b -> S.L [S.A "b"; S.of_int (if b then 1 else 0)]
  | CSym e -> S.L [S.A "sym"; S.of_int (int_of_nat e)]
  | CSymName e -> S.L [S.A "symname"; S.of_int (int_of_nat e)]
  | CList l -> S.L (S.A "l" :: List.map sexp_of_cv l)
  | CMap kvs -> S.L (S.A "m" :: List.map (fun (k, v) -> S.L [S.of_int (int_of_nat k); sexp_of_cv v])
                      (List.sort (fun (a, _) (b, _) -> compare (int_of_nat a) (int_of_nat b)) kvs))
  | CTime t -> S.L [S.A "timev"; sexp_of_tval t]
  | CTimeText t -> S.L [S.A "timetext"; sexp_of_tval t]

let skind_of = function
  | "Int" -> SInt | "Int64" -> SInt64 | "Float" -> SFloat | "Float64" -> SFloat64 | "String" -> SString
  | "Boolean" -> SBoolean | "ID" -> SID | "Time" -> STime | _ -> SCustom

let rec cty_of = function
  | S.L [S.A "sc"; S.A n] -> TScalar (skind_of n)
  | S.L [S.A "enum"; S.L vals] -> TEnum (List.map (fun x -> nat_of_int (S.int x)) vals)
  | S.L [S.A "input"; _; S.L (S.A "fields" :: fs)] ->
    TInput (List.map (function
        | S.L [S.A "f"; n; t; d] -> (nat_of_int (S.int n), (cty_of t, (match d with S.A "-" -> None | _ -> Some (CStr dflt_str))))
        | _ -> failwith "coerce: field") fs)
  | S.L [S.A "l"; t] -> TListOf (cty_of t)
  | S.L [S.A "nn"; t] -> TNonNullOf (cty_of t)
  | x -> failwith ("coerce: type " ^ S.to_string x)

let run (prop : string) (input : S.t) (observed : S.t) : S.t * string =
  Hashtbl.reset flts; Hashtbl.reset strs;
  match input with
  | S.L [S.A "coerce"; S.A "outx"; t; S.L (S.A "vals" :: vs)] ->
    (* a list field answered with a slice: every element is coerced like a leaf *)
    let ty = cty_of t in
    let one v =
      let value = cv_of v in
      (* an element that stands where a list is declared: nil is the null list, anything else is not a list *)
      let (w, bad) = (match ty, value with
          | TListOf _, CNil -> (CNil, false)
          | _ -> Model.leaf_out ty value) in
      ((if bad then S.L [S.A "err"] else S.L [S.A "ok"; sexp_of_cv w]), value) in
    let exps = List.map one vs in
    let expected = S.L (S.A "okx" :: List.map fst exps) in
    let verdict =
      (try
         match observed with
         | S.L (S.A "okx" :: os) when List.length os = List.length exps ->
           let rec go os exps = match os, exps with
             | S.L [S.A "err"] :: os', _ :: exps' -> go os' exps'
             | S.L [S.A "err-with-value"; _] :: _, _ -> "fails:unconverted-value-returned-with-the-error"
             | S.L [S.A "ok"; w] :: os', (_, value) :: exps' ->
               let w = cv_of w in
               if not (Model.has_shape ty w) then "fails:list-element-does-not-have-the-shape-of-its-declared-type"
               else if not (Model.out_faithful value w) then "fails:list-element-is-not-the-value-the-resolver-returned"
               else go os' exps'
             | [], [] -> "holds"
             | _ -> "fails:malformed-observation" in
           go os exps
         | S.L (S.A "panic" :: _) -> "fails:panic"
         | _ -> "fails:list-not-answered-element-by-element"
       with Failure _ | Not_found -> "fails:value-outside-the-representable-forms") in
    (expected, verdict)
  | S.L [S.A "coerce"; S.A dir; t; v] ->
    let ty = cty_of t in
    let value = cv_of v in
    (* "reql" / "reqv": the value travels through a request (literal / variable) to the resolver's
       argument; the delivered argument is what coercion by the declared type yields *)
    (* "inb": the input types are bound to Go structs; the harness writes the struct back as a map *)
    let dir = if (String.length dir >= 3 && String.sub dir 0 3 = "req") || dir = "inb" then "in" else dir in
    let expected =
      if dir = "in" then
        (match Model.coerce_input ty value with
         | Some w -> S.L [S.A "ok"; sexp_of_cv w]
         | None -> S.L [S.A "err"])
      else
        (let (w, bad) = Model.leaf_out ty value in
         if bad then S.L [S.A "err"] else S.L [S.A "ok"; sexp_of_cv w]) in
    let verdict =
      (try
         match observed with
         | S.L [S.A "err"] -> "holds"
         | S.L [S.A "err-and-called"] -> "fails:resolver-invoked-although-the-request-could-not-be-coerced"
         | S.L [S.A "err-with-value"; _] -> "fails:unconverted-value-returned-with-the-error"
         | S.L (S.A "panic" :: _) -> "fails:panic"
         | S.L (S.A "reuse-differs" :: S.A what :: _) -> "fails:" ^ what
         | S.L [S.A "ok"; w] ->
           let w = cv_of w in
           if dir = "in" then
             (if not (Model.conforms ty w) then "fails:delivered-value-does-not-conform-to-the-declared-type"
              else if not (Model.denotes value w) then "fails:delivered-value-does-not-denote-what-the-client-wrote"
              else if not (Model.only_declared ty value) then "fails:input-object-with-an-undeclared-key-accepted"
              else "holds")
           else (if not (Model.has_shape ty w) then (match ty with TEnum _ -> "fails:enum-leaf-is-not-a-declared-value" | _ -> "fails:leaf-does-not-have-the-shape-of-its-declared-type")
                 else if not (Model.out_faithful value w) then "fails:leaf-is-not-the-value-the-resolver-returned"
                 else "holds")
         | _ -> "fails:malformed-observation"
       with Failure _ | Not_found -> "fails:value-outside-the-representable-forms") in
    (expected, verdict)
  | _ -> failwith "coerce: input"
