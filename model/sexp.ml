(* s-expression reader/printer for case files (trusted glue). *)
type t = A of string | L of t list

let parse (s : string) : t =
  let n = String.length s in
  let pos = ref 0 in
  let rec skip () = while !pos < n && (s.[!pos] = ' ' || s.[!pos] = '\t' || s.[!pos] = '\n' || s.[!pos] = '\r') do incr pos done
  and item () =
    skip ();
    if !pos >= n then failwith "sexp: unexpected end";
    if s.[!pos] = '(' then begin
      incr pos;
      let acc = ref [] in
      let fin = ref false in
      while not !fin do
        skip ();
        if !pos >= n then failwith "sexp: unclosed";
        if s.[!pos] = ')' then (incr pos; fin := true) else acc := item () :: !acc
      done;
      L (List.rev !acc)
    end else begin
      let st = !pos in
      while !pos < n && not (s.[!pos] = ' ' || s.[!pos] = '(' || s.[!pos] = ')' || s.[!pos] = '\n' || s.[!pos] = '\t' || s.[!pos] = '\r') do incr pos done;
      A (String.sub s st (!pos - st))
    end
  in
  item ()

let rec to_buf b = function
  | A a -> Buffer.add_string b a
  | L l ->
    Buffer.add_char b '(';
    List.iteri (fun i x -> if i > 0 then Buffer.add_char b ' '; to_buf b x) l;
    Buffer.add_char b ')'

let to_string x = let b = Buffer.create 256 in to_buf b x; Buffer.contents b

let atom = function A a -> a | L _ -> failwith "sexp: atom expected"
let list = function L l -> l | A a -> failwith ("sexp: list expected, got " ^ a)
let int x = int_of_string (atom x)
let of_int i = A (string_of_int i)

(* byte strings travel as x<hex> *)
let hex_of_string s =
  let b = Buffer.create (2 * String.length s + 1) in
  Buffer.add_char b 'x';
  String.iter (fun c -> Buffer.add_string b (Printf.sprintf "%02x" (Char.code c))) s;
  Buffer.contents b

let string_of_hex a =
  if String.length a = 0 || a.[0] <> 'x' then failwith ("sexp: hex atom expected: " ^ a);
  let n = (String.length a - 1) / 2 in
  String.init n (fun i -> Char.chr (int_of_string ("0x" ^ String.sub a (1 + 2 * i) 2)))
