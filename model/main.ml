(* modelrun <casefile>: one line per case:
     (case <id> <prop> <input> <observed>)
   prints  <id> ok|mismatch <verdict> <expected>  *)
module S = Sexp

let dispatch prop input observed =
  match prop with
  | "C19" -> C19.run input observed
  | "C20" -> C20.run input observed
  | "C04" | "C05" -> Coerce.run prop input observed
  | "C18" | "C03" -> Text.run prop input observed
  | "C13" | "C14" | "C16" -> Schema.run prop input observed
  | "C17" -> Schema.run17 input observed
  | "C15" -> Schema.run15 input observed
  | "C07" -> Exec.run_c07 input observed
  | "C02" -> Exec.run_c02 input observed
  | "C12" -> C20.run_c12 input observed
  | "C11" when (match input with S.L (S.A "coerce" :: _) -> true | _ -> false) -> Coerce.run "C04" input observed
  | "C01" | "C06" | "C08" | "C09" | "C10" | "C11" -> Exec.run prop input observed
  | p -> failwith ("modelrun: unknown property " ^ p)

let () =
  let ic = if Array.length Sys.argv > 1 then open_in Sys.argv.(1) else stdin in
  (try
     while true do
       let line = input_line ic in
       if String.length line > 0 && line.[0] = '(' then begin
         match S.parse line with
         | S.L [S.A "case"; S.A id; S.A prop; _; S.L [S.A "invalid"]] ->
           Printf.printf "%s invalid holds ()\n" id
         | S.L [S.A "case"; S.A id; S.A prop; input; observed] ->
           (try
              let (expected, verdict) = dispatch prop input observed in
              let observed = if prop = "C18" || prop = "C03" then Text.norm_floats observed
                else if prop = "C13" || prop = "C14" || prop = "C16" then Schema.project observed
                else if prop = "C17" then Schema.project17 observed
                else if prop = "C15" then Schema.project15 observed
                else if prop = "C12" then C20.project_c12 observed
                else if prop = "C07" then Exec.c07_project_rejected expected (Exec.c07_project (snd (Exec.c07_sections input)) observed) else observed in
              let ok = S.to_string expected = S.to_string observed in
              Printf.printf "%s %s %s %s\n" id (if ok then "ok" else "mismatch") verdict (S.to_string expected);
              if not ok && Sys.getenv_opt "MODELRUN_DEBUG" <> None then Printf.printf "#observed %s\n" (S.to_string observed)
            with Failure m -> Printf.printf "%s error %s ()\n" id (String.map (fun c -> if c = ' ' then '_' else c) m))
         | _ -> Printf.printf "? error malformed-case ()\n"
       end
     done
   with End_of_file -> ());
  close_in ic
