(* C20 driver: run the interleaving model on (threads, schedule); oracle = the executable
   C20 guarantees (once / visible / trace_ok) applied to the implementation's observed block log. *)
open Model
open Conv
module S = Sexp

let thread_of = function
  | S.L [S.A "sub"; s] -> TSub [C19.sub_of s]
  | S.L [S.A "pub"; id; S.L ev] -> TPub1 (nat_of_int (S.int id), List.map C19.ev_of ev)
  | S.L [S.A "unsub"; id] -> TUnsub (nat_of_int (S.int id))
  | x -> failwith ("c20: bad thread " ^ S.to_string x)

let sorted l = List.sort compare l
let sexp_of_del dl =
  S.L (List.map (fun ((u, m), ok) ->
      S.L [S.of_int (int_of_nat u);
           S.L (List.map (fun (i, v) -> S.L [S.of_int (int_of_nat i); C19.sexp_of_ev v]) m);
           S.of_int (if ok then 1 else 0)]) dl)
let sexp_of_clean cl = S.L (List.map S.of_int (sorted (List.map int_of_nat cl)))

let sexp_of_block (i, b) =
  let i = S.of_int (int_of_nat i) in
  match b with
  | BSub _ -> S.L [S.A "bsub"; i]
  | BUnsub (_, c, cl) -> S.L [S.A "bunsub"; i; S.of_int (int_of_nat c); sexp_of_clean cl]
  | BPub1 (_, c, dl) -> S.L [S.A "bpub1"; i; S.of_int (int_of_nat c); sexp_of_del dl]
  | BPub2 cl -> S.L [S.A "bpub2"; i; sexp_of_clean cl]

let del_of dl =
  List.map (function
      | S.L [u; S.L m; ok] ->
        ((nat_of_int (S.int u),
          List.map (function S.L [i; v] -> (nat_of_int (S.int i), C19.ev_of v) | _ -> failwith "c20: msg") m),
         S.int ok <> 0)
      | _ -> failwith "c20: del") dl

(* rebuild a block log from the observation; thread parameters come from the input *)
let block_of threads = function
  | S.L [S.A "bsub"; i] ->
    let i = S.int i in
    (match List.nth threads i with TSub news -> (nat_of_int i, BSub news) | _ -> failwith "c20: bsub of non-sub thread")
  | S.L [S.A "bunsub"; i; c; S.L cl] ->
    let i = S.int i in
    (match List.nth threads i with
     | TUnsub id -> (nat_of_int i, BUnsub (id, nat_of_int (S.int c), List.map (fun x -> nat_of_int (S.int x)) cl))
     | _ -> failwith "c20: bunsub of non-unsub thread")
  | S.L [S.A "bpub1"; i; c; S.L dl] ->
    let i = S.int i in
    (match List.nth threads i with
     | TPub1 (id, _) -> (nat_of_int i, BPub1 (id, nat_of_int (S.int c), del_of dl))
     | _ -> failwith "c20: bpub1 of non-pub thread")
  | S.L [S.A "bpub2"; i; S.L cl] -> (nat_of_int (S.int i), BPub2 (List.map (fun x -> nat_of_int (S.int x)) cl))
  | x -> failwith ("c20: bad block " ^ S.to_string x)

let run (input : S.t) (observed : S.t) : S.t * string =
  let threads, sched, share =
    match input with
    | S.L (S.A "conc" :: S.L (S.A "threads" :: ts) :: S.L (S.A "sched" :: sc) :: rest) ->
      (List.map thread_of ts, List.map (fun x -> nat_of_int (S.int x)) sc, rest <> [])
    | _ -> failwith "c20: input" in
  (* (share): the subscribers of one pattern are one Go value whose clean-up is logged under the pattern
     (1000+pattern+1, see c19.ml); the model's clean-ups are renamed the same way *)
  let pat_of u =
    List.fold_left (fun acc t -> match t with
        | TSub news -> List.fold_left (fun acc s -> if s.uid = u then (match s.pat with None -> -1 | Some p -> int_of_nat p) else acc) acc news
        | _ -> acc) 0 threads in
  let lead u = if share then nat_of_int (1000 + pat_of u + 1) else u in
  let rename (i, b) = match b with
    | BUnsub (id, c, cl) -> (i, BUnsub (id, c, List.map lead cl))
    | BPub2 cl -> (i, BPub2 (List.map lead cl))
    | _ -> (i, b) in
  let expected =
    match Model.exec sched [] threads with
    | None -> S.L [S.A "panic"]
    | Some ((_, ts'), bs) ->
      S.L [S.L (List.map (fun b -> sexp_of_block (rename b)) bs); S.A (if Model.all_done ts' then "alldone" else "unfinished")] in
  let verdict =
    match observed with
    | S.L [S.A "panic"] -> "fails:panic"
    | S.L [S.A "deadlock"] -> "fails:deadlock-or-timeout"
    | S.L [S.L obs; S.A fin] ->
      (try
         let bs = List.map (block_of threads) obs in
         (* a subscriber whose delivery failed receives nothing once the publish that saw the failure has
            finished its second section (Sched.late_okb; C20_failed_subscriber_receives_nothing_afterwards) *)
         let late = not (Model.late_okb bs) in
         if fin <> "alldone" then "fails:calls-did-not-finish"
         else if late then "fails:failed-subscriber-still-receives-events"
         else if share then begin
           (* the clean-ups carry the connection's name, not the subscription's: the oracles over
              subscription names do not apply. What can be told without them: a subscription that never
              fails, whose request returned and that no Unsubscribe has matched since, receives every
              matching event that is published *)
           let matches pat id = (match pat with None -> true | Some p -> p = id) in
           let arr = Array.of_list bs in
           let missed = ref false in
           Array.iteri (fun k (_, b) ->
               match b with
               | BPub1 (id, _, dl) ->
                 Array.iteri (fun j (_, bj) ->
                     match bj with
                     | BSub news when j < k ->
                       List.iter (fun s ->
                           if not (List.mem true s.sched) && matches s.pat id then begin
                             let removed = ref false in
                             for x = j + 1 to k - 1 do
                               (match snd arr.(x) with BUnsub (id', _, _) when matches s.pat id' -> removed := true | _ -> ())
                             done;
                             if not !removed && not (List.exists (fun ((u, _), _) -> u = s.uid) dl) then missed := true
                           end) news
                     | _ -> ()) arr
               | _ -> ()) arr;
           if !missed then "fails:live-matching-subscriber-missed" else "holds"
         end
         else if not (Model.once_okb bs) then "fails:delivered-more-than-once-or-wrong-count"
         else if not (Model.trace_okb [] (Model.strace bs)) then "fails:delivery-or-cleanup-after-cleanup"
         else if not (Model.visible_okb [] bs) then "fails:live-matching-subscriber-missed"
         else "holds"
       with Failure m -> "fails:malformed-log")
    | _ -> "fails:malformed-observation" in
  (expected, verdict)


(* ---- C12: every request of a concurrent round on a cold root answers as it does alone ---- *)
let project_c12 = function
  | S.L (S.A "round" :: rs) -> S.L (S.A "round" :: List.map (function S.A "same" -> S.A "same" | _ -> S.A "differs") rs)
  | x -> x

let run_c12 (input : S.t) (observed : S.t) : S.t * string =
  let n = (match input with S.L [S.A "round"; S.L (S.A "reqs" :: rs); _] -> List.length rs | _ -> failwith "c12: input") in
  let expected = S.L (S.A "round" :: List.init n (fun _ -> S.A "same")) in
  let verdict = (match observed with
      | S.L [S.A "deadlock"] -> "fails:deadlock-a-round-of-concurrent-requests-did-not-finish"
      | S.L (S.A "serialised" :: _) -> "fails:two-concurrent-requests-cannot-be-inside-one-resolver-method-at-the-same-time"
      | S.L (S.A "round" :: rs) ->
        if List.exists (function S.A "same" -> false | _ -> true) rs then "fails:response-differs-from-the-response-the-request-gets-alone" else "holds"
      | _ -> "fails:shape") in
  (expected, verdict)
