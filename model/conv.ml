(* conversions between OCaml values and the extracted datatypes (trusted glue). *)
open Model

let rec nat_of_int i = if i <= 0 then O else S (nat_of_int (i - 1))
let int_of_nat n = let rec go acc = function O -> acc | S m -> go (acc + 1) m in go 0 n

let rec pos_of_int i = if i <= 1 then XH else if i land 1 = 0 then XO (pos_of_int (i lsr 1)) else XI (pos_of_int (i lsr 1))
let rec int_of_pos = function XH -> 1 | XO p -> 2 * int_of_pos p | XI p -> 2 * int_of_pos p + 1
let z_of_int i = if i = 0 then Z0 else if i > 0 then Zpos (pos_of_int i) else Zneg (pos_of_int (- i))
let int_of_z = function Z0 -> 0 | Zpos p -> int_of_pos p | Zneg p -> - (int_of_pos p)
