(* Executor driver: parse (schema, graph, doc, call history), run the extracted executor model,
   print the canonical observation. Shared by C01 C02 C06 C08 C09 C10 C11. *)
open Model
open Conv
module S = Sexp

let nat x = nat_of_int (S.int x)
let z x = z_of_int (S.int x)
let opt_nat = function S.A "-" -> None | x -> Some (nat x)

let rec ty_of = function
  | S.L [S.A "n"; x] -> TNamed (nat x)
  | S.L [S.A "l"; t] -> TList (ty_of t)
  | S.L [S.A "nn"; t] -> TNonNull (ty_of t)
  | x -> failwith ("exec: type " ^ S.to_string x)

let adef_of = function
  | S.L [S.A "a"; n; t] -> { a_name = nat n; a_type = ty_of t; a_default = None }
  | x -> failwith ("exec: adef " ^ S.to_string x)

let fdef_of = function
  | S.L [S.A "f"; n; t; S.L (S.A "args" :: args)] -> { f_name = nat n; f_type = ty_of t; f_args = List.map adef_of args }
  | x -> failwith ("exec: fdef " ^ S.to_string x)

let lkind_of = function
  | "int" -> LInt | "string" -> LString | "bool" -> LBool | "id" -> LID | "float" -> LFloat | "custom" -> LCustom
  | k -> failwith ("exec: leaf kind " ^ k)

let tdef_of = function
  | S.L [S.A "leaf"; id; S.A k] -> (nat id, DLeaf (lkind_of k))
  | S.L [S.A "enum"; id; S.L vals] -> (nat id, DLeaf (LEnum (List.map nat vals)))
  | S.L [S.A "obj"; id; S.L (S.A "fields" :: fs); S.L (S.A "ifaces" :: is)] -> (nat id, DObject (List.map fdef_of fs, List.map nat is))
  | S.L [S.A "iface"; id; S.L (S.A "fields" :: fs)] -> (nat id, DInterface (List.map fdef_of fs))
  | S.L [S.A "union"; id; S.L (S.A "members" :: ms)] -> (nat id, DUnion (List.map nat ms))
  | S.L [S.A "input"; id; S.L (S.A "fields" :: fs)] -> (nat id, DInput (List.map adef_of fs))
  | x -> failwith ("exec: tdef " ^ S.to_string x)

let rec value_of = function
  | S.A "null" -> VNull
  | S.L [S.A "i"; x] -> VInt (z x)
  | S.L [S.A "s"; x] -> VStr (z x)
  | S.L [S.A "b"; x] -> VBool (S.int x <> 0)
  | S.L [S.A "e"; x] -> VEnum (nat x)
  | S.L [S.A "v"; x] -> VVar (nat x)
  | S.L (S.A "l" :: xs) -> VList (List.map value_of xs)
  | S.L (S.A "undecl" :: _) -> VList []   (* a directive use that also carries an argument its directive does not declare: no condition the directive takes *)
  | S.L (S.A "o" :: kvs) -> VObj (List.map (function S.L [k; v] -> (nat k, value_of v) | _ -> failwith "exec: obj") kvs)
  | x -> failwith ("exec: value " ^ S.to_string x)

let rec sexp_of_value = function
  | VNull -> S.A "null"
  | VInt x -> S.L [S.A "i"; S.of_int (int_of_z x)]
  | VStr x -> S.L [S.A "s"; S.of_int (int_of_z x)]
  | VBool b -> S.L [S.A "b"; S.of_int (if b then 1 else 0)]
  | VEnum e -> S.L [S.A "e"; S.of_int (int_of_nat e)]
  | VVar v -> S.L [S.A "v"; S.of_int (int_of_nat v)]
  | VList l -> S.L (S.A "l" :: List.map sexp_of_value l)
  | VObj kvs -> S.L (S.A "o" :: List.map (fun (k, v) -> S.L [S.of_int (int_of_nat k); sexp_of_value v])
                       (List.sort (fun (a, _) (b, _) -> compare (int_of_nat a) (int_of_nat b)) kvs))

(* strat: type id -> true when nodes of that type implement Resolver *)
let rec gv_of strat_of_node = function
  | S.A "nil" -> GNil
  | S.L [S.A "int"; x] -> GInt (z x)
  | S.L [S.A "str"; x] -> GStr (z x)
  | S.L [S.A "bool"; x] -> GBool (S.int x <> 0)
  | S.L [S.A "sym"; x] -> GSym (nat x)
  | S.L [S.A "node"; x] -> if strat_of_node (S.int x) then GNodeR (nat x) else GNodeA (nat x)
  | S.L (S.A "list" :: xs) -> GList (List.map (gv_of strat_of_node) xs)
  (* a typed Go slice of objects: resolved member by member like a []interface{} *)
  | S.L (S.A "tlist" :: xs) -> GList (List.map (gv_of strat_of_node) xs)
  | S.L (S.A "lres" :: xs) -> GLRes (List.map (gv_of strat_of_node) xs)
  (* typed Go slices ([]string, []int, []bool): resolved element by element like a []interface{} *)
  | S.L (S.A "tstrs" :: xs) -> GList (List.map (fun x -> GStr (z x)) xs)
  | S.L (S.A "tints" :: xs) -> GList (List.map (fun x -> GInt (z x)) xs)
  | S.L (S.A "tbools" :: xs) -> GList (List.map (fun x -> GBool (S.int x <> 0)) xs)
  | S.L (S.A "alist" :: xs) -> GAList (List.map (function S.A "fail" -> None | x -> Some (gv_of strat_of_node x)) xs)
  | S.L [S.A "other"; x] -> GOther (nat x)
  | x -> failwith ("exec: gv " ^ S.to_string x)

let behav_of son = function
  | S.L [S.A "const"; g] -> BConst (gv_of son g)
  | S.L [S.A "fail"; k; g] -> BFail (nat k, gv_of son g)
  | S.L [S.A "echo"; a] -> BEcho (nat a)
  | x -> failwith ("exec: behav " ^ S.to_string x)

let dir_of = function
  | S.L [S.A "d"; S.A nm; v] ->
    { d_name = (match nm with "skip" -> DSkip | "include" -> DInclude | o -> DOther (nat_of_int (int_of_string o)));
      d_if = (match v with S.A "-" -> None | v -> Some (value_of v)) }
  | x -> failwith ("exec: dir " ^ S.to_string x)

let arg_of = function S.L [S.A "a"; n; v] -> (nat n, value_of v) | x -> failwith ("exec: arg " ^ S.to_string x)

let rec sel_of = function
  | S.L (S.A "f" :: id :: alias :: name :: S.L (S.A "args" :: args) :: S.L (S.A "dirs" :: dirs) :: sels) ->
    SField (nat id, opt_nat alias, nat name, List.map arg_of args, List.map dir_of dirs, List.map sel_of sels)
  | S.L (S.A "in" :: id :: cond :: S.L (S.A "dirs" :: dirs) :: sels) ->
    SInline (nat id, opt_nat cond, List.map dir_of dirs, List.map sel_of sels)
  | S.L [S.A "fr"; id; name; S.L (S.A "dirs" :: dirs)] -> SFrag (nat id, nat name, List.map dir_of dirs)
  | x -> failwith ("exec: sel " ^ S.to_string x)

let var_of = function
  | S.L [S.A "v"; n; t; d] -> { vd_name = nat n; vd_type = ty_of t; vd_default = (match d with S.A "-" -> None | d -> Some (value_of d)) }
  | x -> failwith ("exec: vardef " ^ S.to_string x)

let op_of = function
  | S.L (S.A "op" :: S.A k :: name :: S.L (S.A "vars" :: vs) :: sels) ->
    { op_kind = (match k with "query" -> OpQuery | "mutation" -> OpMutation | _ -> OpSubscription);
      op_name = opt_nat name; op_vars = List.map var_of vs; op_sels = List.map sel_of sels }
  | x -> failwith ("exec: op " ^ S.to_string x)

let frag_of = function
  | S.L (S.A "frag" :: name :: cond :: S.L (S.A "fdirs" :: ds) :: sels) ->
    (nat name, { fr_cond = opt_nat cond; fr_sels = List.map sel_of sels; fr_dirs = List.map dir_of ds })
  | S.L (S.A "frag" :: name :: cond :: sels) -> (nat name, { fr_cond = opt_nat cond; fr_sels = List.map sel_of sels; fr_dirs = [] })
  | x -> failwith ("exec: frag " ^ S.to_string x)

(* ---- canonical printing of observations ---- *)
let rec sexp_of_rv = function
  | RNull -> S.A "null"
  | RInt x -> S.L [S.A "i"; S.of_int (int_of_z x)]
  | RStr x -> S.L [S.A "s"; S.of_int (int_of_z x)]
  | RStrOfInt x -> S.L [S.A "soi"; S.of_int (int_of_z x)]
  | RStrOfBool b -> S.L [S.A "sob"; S.of_int (if b then 1 else 0)]
  | RBool b -> S.L [S.A "b"; S.of_int (if b then 1 else 0)]
  | REnum e -> S.L [S.A "en"; S.of_int (int_of_nat e)]
  | RTypeName t -> S.L [S.A "tn"; S.of_int (int_of_nat t)]
  | RFloatOfInt x ->
    (* Float is a float32: the integer as that type holds it (exact up to 2^24, rounded beyond) *)
    S.L [S.A "foi"; S.of_int (int_of_float (Int32.float_of_bits (Int32.bits_of_float (float_of_int (int_of_z x)))))]
  | RList l -> S.L (S.A "l" :: List.map sexp_of_rv l)
  | RObj kvs ->
    S.L (S.A "o" :: List.map (fun (k, v) -> S.L [S.of_int (int_of_nat k); sexp_of_rv v])
           (List.sort (fun (a, _) (b, _) -> compare (int_of_nat a) (int_of_nat b)) kvs))
  | RLeak g -> sexp_of_leak g

(* a Go value handed back unconverted (depth budget exhausted), as the harness sees it in "data":
   plain Go ints, strings, booleans and []interface{} are recognisable, everything else is opaque *)
and sexp_of_leak = function
  | GNil -> S.A "null"
  | GInt x -> S.L [S.A "goint"; S.of_int (int_of_z x)]
  | GStr x -> S.L [S.A "s"; S.of_int (int_of_z x)]
  | GBool b -> S.L [S.A "b"; S.of_int (if b then 1 else 0)]
  | GList l -> S.L (S.A "l" :: List.map sexp_of_leak l)
  | _ -> S.L [S.A "leak"]

let sexp_of_seg = function
  | PKey k -> S.L [S.A "k"; S.of_int (int_of_nat k)]
  | PIdx i -> S.L [S.A "i"; S.of_int (int_of_nat i)]
  | PFragAt id -> S.L [S.A "fa"; S.of_int (int_of_nat id)]
  | PArg a -> S.L [S.A "a"; S.of_int (int_of_nat a)]

let kind_name = function
  | EResolver -> "resolver" | ENotField -> "notfield" | ENotLeaf -> "notleaf" | ECoerceOut -> "coerceout"
  | ENotList -> "notlist" | EBadArg -> "badarg" | EMissingArg -> "missingarg" | ECoerceIn -> "coercein"
  | EBadEnum -> "badenum" | ESkipVar -> "skipvar" | ENth -> "nth" | EReflect -> "reflect" | EOpChoice -> "opchoice"

let sexp_of_err e =
  S.L [S.A "e"; S.L (List.map sexp_of_seg e.e_path);
       (match e.e_loc with LNone -> S.A "none" | LNode id -> S.L [S.A "n"; S.of_int (int_of_nat id)] | LOther -> S.A "other");
       S.A (kind_name e.e_kind)]

let sorted_sexps l = List.sort (fun a b -> compare (S.to_string a) (S.to_string b)) l

let sexp_of_call c =
  S.L [S.A "c"; S.of_int (int_of_nat c.c_node); S.of_int (int_of_nat c.c_field);
       S.L (List.map (fun (a, v) -> S.L [S.of_int (int_of_nat a); sexp_of_value v])
              (List.sort (fun (a, _) (b, _) -> compare (int_of_nat a) (int_of_nat b)) c.c_args))]

let sexp_of_resp r =
  S.L [S.A "resp"; (match r.r_data with None -> S.A "nodata" | Some d -> sexp_of_rv d);
       S.L (sorted_sexps (List.map sexp_of_err r.r_errs));
       S.L (List.map sexp_of_call r.r_calls)]

type parsed = {
  schema : (nat * tdef) list; graph : (nat * node) list; any : bool; doc : doc;
  roots : (int * int); calls : (nat option * (nat * value) list) list; strat_r : int -> bool;
  defect : (string * int * int) option;
  max_depth : nat;   (* ggql.MaxResolveDepth of the run *)
}

let find_section name l =
  match List.find_opt (function S.L (S.A n :: _) when n = name -> true | _ -> false) l with
  | Some (S.L (_ :: rest)) -> rest
  | _ -> failwith ("exec: missing section " ^ name)

let parse (input : S.t) : parsed =
  let secs = match input with S.L (S.A "exec" :: l) -> l | _ -> failwith "exec: input" in
  let schema = List.map tdef_of (find_section "schema" secs) in
  let strat = List.map (function S.L [t; S.A s] -> (S.int t, s = "R") | _ -> failwith "exec: strat") (find_section "strat" secs) in
  let nodes_raw = find_section "graph" secs in
  let node_type = List.map (function S.L (S.A "node" :: id :: gt :: _) -> (S.int id, S.int gt) | _ -> failwith "exec: node") nodes_raw in
  let strat_of_node n = match List.assoc_opt n node_type with
    | Some gt -> (match List.assoc_opt gt strat with Some b -> b | None -> true)
    | None -> true in
  let graph = List.map (function
      | S.L (S.A "node" :: id :: gt :: fs) ->
        (nat id, { n_gotype = nat gt;
                   n_fields = List.map (function S.L [S.A "field"; n; b] -> (nat n, behav_of strat_of_node b) | _ -> failwith "exec: field") fs })
      | _ -> failwith "exec: node") nodes_raw in
  let any = (match find_section "any" secs with [x] -> S.int x <> 0 | _ -> false) in
  let docs = find_section "doc" secs in
  let ops = List.map op_of (find_section "ops" docs) in
  let frags = List.map frag_of (find_section "frags" docs) in
  let roots = (match find_section "root" secs with [q; m] -> (S.int q, S.int m) | _ -> failwith "exec: root") in
  let calls = List.map (function
      | S.L [S.A "call"; name; S.L (S.A "vars" :: vs)] ->
        (opt_nat name, List.map (function S.L [n; v] -> (nat n, value_of v) | _ -> failwith "exec: var") vs)
      | _ -> failwith "exec: call") (find_section "calls" secs) in
  let defect = (match List.find_opt (function S.L (S.A "defect" :: _) -> true | _ -> false) secs with
      | Some (S.L [_; S.A k; id; x]) -> Some (k, S.int id, S.int x)
      | _ -> None) in
  let max_depth = (match List.find_opt (function S.L [S.A "maxdepth"; _] -> true | _ -> false) secs with
      | Some (S.L [_; n]) -> nat_of_int (S.int n)
      | _ -> nat_of_int 100) in
  { schema; graph; any; doc = { d_ops = ops; d_frags = frags }; roots; calls; strat_r = strat_of_node; defect; max_depth }

let fuel = nat_of_int 100000

(* every Field node of the document: (id, name, args) *)
let rec fields_of_sel acc = function
  | SField (id, _, name, args, _, sels) -> List.fold_left fields_of_sel ((id, name, args) :: acc) sels
  | SInline (_, _, _, sels) -> List.fold_left fields_of_sel acc sels
  | SFrag _ -> acc

let printed_changed (p : parsed) (st : st) : bool =
  let fs = List.fold_left (fun acc o -> List.fold_left fields_of_sel acc o.op_sels) [] p.doc.d_ops in
  let fs = List.fold_left (fun acc (_, fr) -> List.fold_left fields_of_sel acc fr.fr_sels) fs p.doc.d_frags in
  List.exists (fun (id, name, args) -> Model.printed_args p.schema st.s_args id name args <> args) fs

let run_model (p : parsed) : S.t =
  if Model.doc_rejects p.schema p.doc then S.L (List.map (fun _ -> S.L [S.A "rejected"]) p.calls @ [S.L [S.A "printed"; S.A "same"]]) else
  let st = ref { s_args = []; s_calls = [] } in
  let outs = List.map (fun (name, vars) ->
      let rootobj =
        match Model.choose_op p.doc name with
        | Some o ->
          let n = (match o.op_kind with OpQuery -> fst p.roots | _ -> snd p.roots) in
          if n < 0 then GNil else if p.strat_r n then GNodeR (nat_of_int n) else GNodeA (nat_of_int n)
        | None -> GNil in
      match Model.exec_op p.schema p.graph p.any p.max_depth fuel p.doc name vars rootobj !st with
      | OutOfFuel -> S.L [S.A "diverge"]
      | Done (r, st') -> st := st'; sexp_of_resp r) p.calls in
  S.L (outs @ [S.L [S.A "printed"; S.A (if printed_changed p !st then "changed" else "same")]])

(* ids of the inline fragments of the document of the case at hand *)
let inline_ids : int list ref = ref []
let rec collect_inline (s : S.t) : int list =
  match s with
  | S.L (S.A "in" :: S.A id :: rest) -> (try [int_of_string id] with _ -> []) @ List.concat_map collect_inline rest
  | S.L l -> List.concat_map collect_inline l
  | _ -> []

(* a "fragment at" segment that points at an inline fragment (or at nothing the document holds) *)
let has_inline_fragseg (e : S.t) : bool =
  match e with
  | S.L [S.A "e"; S.L path; _; _] ->
    List.exists (function S.L [S.A "fa"; S.A id] -> (try List.mem (int_of_string id) !inline_ids with _ -> false) | _ -> false) path
  | _ -> false

let has_fragseg (e : S.t) : bool =
  match e with
  | S.L [S.A "e"; S.L path; _; _] -> List.exists (function S.L [S.A "fa"; _] -> true | _ -> false) path
  | _ -> false

let strip_sexp_err (e : S.t) : S.t =
  match e with
  | S.L [S.A "e"; S.L path; loc; k] ->
    S.L [S.A "e"; S.L (List.filter (function S.L [S.A "fa"; _] -> false | _ -> true) path); loc; k]
  | x -> x

(* the specification (ExecSpec.sem_op) evaluated on the case; stateless, so every call of a
   history is specified independently of the calls before it *)
let run_spec (p : parsed) : (S.t * bool) list =
  List.map (fun (name, vars) ->
      let rootobj =
        match Model.choose_op p.doc name with
        | Some o ->
          let n = (match o.op_kind with OpQuery -> fst p.roots | _ -> snd p.roots) in
          if n < 0 then GNil else if p.strat_r n then GNodeR (nat_of_int n) else GNodeA (nat_of_int n)
        | None -> GNil in
      match Model.sem_op p.schema p.graph p.any p.max_depth fuel p.doc name vars rootobj with
      | OutOfFuel -> (S.L [S.A "diverge"], true)
      | Done r ->
        let nodup = (match r.r_data with Some d -> Model.nodup_keys d | None -> true) in
        (sexp_of_resp r, nodup)) p.calls

(* C10: property-shaped checks on the response to a document with one injected defect.
   Whether execution reaches the defective selection is decided with the specification: the selection
   is replaced by an undefined field and the specification reports "not a field" there iff it is reached. *)
let rec replace_node id = function
  | SField (i, a, n, args, d, sels) ->
    if int_of_nat i = id then SField (i, a, nat_of_int 99, [], d, []) else SField (i, a, n, args, d, List.map (replace_node id) sels)
  | SInline (i, c, d, sels) -> SInline (i, c, d, List.map (replace_node id) sels)
  | s -> s

let reached (p : parsed) (id : int) (name, vars) : bool =
  let doc = { d_ops = List.map (fun o -> { o with op_sels = List.map (replace_node id) o.op_sels }) p.doc.d_ops;
              d_frags = List.map (fun (n, fr) -> (n, { fr with fr_sels = List.map (replace_node id) fr.fr_sels })) p.doc.d_frags } in
  let rootobj =
    match Model.choose_op doc name with
    | Some o ->
      let n = (match o.op_kind with OpQuery -> fst p.roots | _ -> snd p.roots) in
      if n < 0 then GNil else if p.strat_r n then GNodeR (nat_of_int n) else GNodeA (nat_of_int n)
    | None -> GNil in
  match Model.sem_op p.schema p.graph p.any p.max_depth fuel doc name vars rootobj with
  | Done r -> List.exists (fun e -> e.e_kind = ENotField && e.e_loc = LNode (nat_of_int id)) r.r_errs
  | OutOfFuel -> false

(* universal part: no resolver is ever invoked for a field the node's object type does not define *)
let undefined_field_call (p : parsed) (observed : S.t) : bool =
  let resps = (match observed with S.L l -> l | _ -> []) in
  List.exists (function
      | S.L [S.A "resp"; _; _; S.L calls] ->
        List.exists (function
            | S.L [S.A "c"; n; fn; _] ->
              (match List.assoc_opt (S.int n) (List.map (fun (k, nd) -> (int_of_nat k, nd)) p.graph) with
               | Some nd when int_of_nat nd.n_gotype = 900 -> false     (* bound to no object type: its container is an interface *)
               | Some nd ->
                 (match Model.get_field_def p.schema nd.n_gotype (nat_of_int (S.int fn)) with
                  | None -> true
                  | Some _ -> false)
               | None -> false)
            | _ -> false) calls
      | _ -> false) resps

(* universal part: every invocation carries only arguments the field of the node's object type
   declares, and every required (non-null) one of them, with a value *)
let bad_argument_call (p : parsed) (observed : S.t) : string option =
  let resps = (match observed with S.L l -> l | _ -> []) in
  let graph = List.map (fun (k, nd) -> (int_of_nat k, nd)) p.graph in
  let verdict_of_call = function
    | S.L [S.A "c"; n; fn; S.L args] ->
      (match List.assoc_opt (S.int n) graph with
       | Some nd ->
         (* a value bound to no object type (900) answers for the interface (28) it stands under *)
         let ct = if int_of_nat nd.n_gotype = 900 then nat_of_int 28 else nd.n_gotype in
         (match Model.get_field_def p.schema ct (nat_of_int (S.int fn)) with
          | Some fd ->
            let declared = List.map (fun d -> int_of_nat d.a_name) fd.f_args in
            let given = List.filter_map (function S.L [an; v] -> Some (S.int an, v) | _ -> None) args in
            if List.exists (fun (a, _) -> not (List.mem a declared)) given
            then Some "fails:resolver-invoked-with-an-argument-its-field-does-not-declare"
            else if List.exists (fun d -> Model.is_nonnull d.a_type &&
                                          (match List.assoc_opt (int_of_nat d.a_name) given with
                                           | None | Some (S.A "null") -> true
                                           | Some _ -> false)) fd.f_args
            then Some "fails:resolver-invoked-without-a-required-argument"
            else None
          | None -> None)
       | None -> None)
    | _ -> None in
  List.fold_left (fun acc r ->
      match acc, r with
      | Some _, _ -> acc
      | None, S.L [S.A "resp"; _; _; S.L calls] ->
        List.fold_left (fun acc c -> match acc with Some _ -> acc | None -> verdict_of_call c) None calls
      | None, _ -> None) None resps

(* does the specification report a missing required argument at selection id for this call?  (the
   selection may only ever be evaluated in object types whose field of that name declares other
   arguments: then another defect - an undeclared argument - is what the response must name) *)
let spec_reports_missing (p : parsed) (id : int) (name, vars) : bool =
  let rootobj =
    match Model.choose_op p.doc name with
    | Some o ->
      let n = (match o.op_kind with OpQuery -> fst p.roots | _ -> snd p.roots) in
      if n < 0 then GNil else if p.strat_r n then GNodeR (nat_of_int n) else GNodeA (nat_of_int n)
    | None -> GNil in
  match Model.sem_op p.schema p.graph p.any p.max_depth fuel p.doc name vars rootobj with
  | Done r -> List.exists (fun e -> e.e_kind = EMissingArg && e.e_loc = LNode (nat_of_int id)) r.r_errs
  | OutOfFuel -> false

let oracle_c10 (p : parsed) (observed : S.t) : string =
  if undefined_field_call p observed then "fails:resolver-invoked-for-a-field-its-type-does-not-define" else
  match bad_argument_call p observed with Some v -> v | None ->
  match p.defect with
  | None -> "holds"
  | Some (kind, id, x) ->
    let resps = (match observed with S.L l -> List.filter (function S.L (S.A "printed" :: _) -> false | _ -> true) l | _ -> []) in
    if List.length resps <> List.length p.calls then "fails:malformed-observation" else
    let check call = function
      | S.L [S.A "rejected"] -> "holds"
      | S.L [S.A "resp"; _; S.L errs; S.L calls] ->
        let err_at_node k = List.exists (function
            | S.L [S.A "e"; _; S.L [S.A "n"; n]; S.A kk] -> S.int n = id && kk = k
            | _ -> false) errs in
        let err_kind k = List.exists (function S.L [S.A "e"; _; _; S.A kk] -> kk = k | _ -> false) errs in
        let call_with_field f = List.exists (function S.L [S.A "c"; _; fn; _] -> S.int fn = f | _ -> false) calls in
        let call_with_arg a = List.exists (function
            | S.L [S.A "c"; _; _; S.L args] -> List.exists (function S.L [an; _] -> S.int an = a | _ -> false) args
            | _ -> false) calls in
        let is_reached = lazy (reached p id call) in
        (match kind with
         | "unknown-field" ->
           if call_with_field x then "fails:resolver-invoked-for-undefined-field"
           else if Lazy.force is_reached && not (err_at_node "notfield") then "fails:no-error-naming-the-undefined-field"
           else "holds"
         | "undeclared-arg" ->
           if call_with_arg x then "fails:resolver-invoked-with-undeclared-argument"
           else if Lazy.force is_reached && not (err_kind "badarg") && not (err_at_node "notfield") then "fails:no-error-naming-the-undeclared-argument"
           else "holds"
         | "missing-required" ->
           if Lazy.force is_reached && spec_reports_missing p id call && not (err_at_node "missingarg") then "fails:no-error-for-the-missing-required-argument"
           else "holds"
         | "undefined-fragment-cond" -> "fails:fragment-on-undefined-type-accepted"
         | _ -> "fails:defective-document-not-rejected")
      | S.L (S.A "panic" :: _) -> "fails:panic"
      | _ -> "fails:malformed-observation" in
    (match List.find_opt (fun v -> v <> "holds") (List.map2 check p.calls resps) with Some v -> v | None -> "holds")

let oracle (prop : string) (p : parsed) (observed : S.t) : string =
  if prop = "C10" then oracle_c10 p observed else
  let spec = run_spec p in
  if not (Model.wf_doc p.schema p.doc) then "holds:outside-claim-repeated-argument-or-argument-undeclared-by-an-interface" else
  let observed, printed =
    (match observed with
     | S.L l when l <> [] ->
       (match List.rev l with
        | S.L [S.A "printed"; S.A x] :: rest -> (S.L (List.rev rest), x)
        | _ -> (observed, "same"))
     | _ -> (observed, "same")) in
  match observed with
  | S.L obs when List.length obs = List.length spec ->
    let verdicts = List.map2 (fun o (sp, nodup) ->
        match o, sp with
        | S.L [S.A "resp"; od; S.L oe; S.L oc], S.L [S.A "resp"; sd; S.L se; S.L sc] ->
          let data_ok = S.to_string od = S.to_string sd in
          let calls_ok = S.to_string (S.L oc) = S.to_string (S.L sc) in
          let oes = sorted_sexps (List.map strip_sexp_err oe) in
          let errs_ok = S.to_string (S.L oes) = S.to_string (S.L (sorted_sexps se)) in
          let fragseg = List.exists has_fragseg oe in
          let check_data = List.mem prop ["C01"; "C08"; "C09"; "C11"; "C02"; "C06"; "C10"] in
          let check_calls = List.mem prop ["C01"; "C09"; "C10"; "C11"; "C02"] in
          let check_errs = List.mem prop ["C06"; "C10"; "C11"; "C02"] in
          if not nodup then (if prop = "C01" then "fails:dupkey-selections-with-one-response-key-not-merged" else "holds")
          else if check_data && not data_ok then "fails:data-differs-from-selection-semantics"
          else if check_calls && not calls_ok then "fails:resolver-calls-differ-from-selection-semantics"
          else if check_errs && not errs_ok then "fails:errors-differ-(path-location-kind-multiset)"
          else if prop = "C06" && List.exists has_inline_fragseg oe then "fails:errpath-segment-for-an-inline-fragment-in-error-path"
          else if prop = "C06" && fragseg then "fails:errpath-fragment-segment-in-error-path"
          else "holds"
        | S.L [S.A "diverge"], _ | _, S.L [S.A "diverge"] -> "fails:diverge"
        | S.L (S.A "panic" :: _), _ -> "fails:panic"
        | _, _ -> "fails:malformed-observation") obs spec in
    (match List.find_opt (fun v -> v <> "holds") verdicts with
     | Some v -> v
     | None ->
       if prop = "C11" && printed = "unstable" then "fails:printing-the-request-changed-it-(two-prints-in-a-row-differ)"
       else if prop = "C11" && printed = "rewritten" then "fails:request-text-rewritten-by-resolving-(text-the-request-did-not-hold)"
       else if prop = "C11" && printed <> "same" then "fails:printed-form-of-the-executable-changed" else "holds")
  | S.L (S.A "panic" :: _) -> "fails:panic"
  | _ -> "fails:malformed-observation"

let run (prop : string) (input : S.t) (observed : S.t) : S.t * string =
  let p = parse input in
  inline_ids := collect_inline input;
  (run_model p, oracle prop p observed)

(* ---- C07: envelope, locations under layouts, JSON text ---- *)
let c07_dup = ref false
let c07_sections (input : S.t) =
  match input with
  | S.L (S.A "exec" :: secs) ->
    let layouts = List.map S.int (try find_section "layouts" secs with _ -> []) in
    let g = (match (try find_section "garble" secs with _ -> []) with [g] -> S.int g | _ -> 0) in
    (* damaged bytes (nothing is predicted) or, every fourth, the whole document written twice: refused, and
       the refusal is located at the same token in every layout *)
    let garbled = g > 0 && g mod 4 <> 0 in
    c07_dup := (g > 0 && g mod 4 = 0);
    (layouts, garbled)
  | _ -> failwith "c07: input"

let c07_project (garbled : bool) (observed : S.t) : S.t =
  if garbled then S.L [S.A "malformed"] else
  match observed with
  | S.L (S.A "layouts" :: lays) ->
    S.L (S.A "layouts" :: List.map (function
        | S.L (S.A "lay" :: style :: rs) ->
          S.L (S.A "lay" :: style :: List.map (function
              | S.L [S.A "r"; keys; dk; shape; S.L (S.A "errs" :: es); js] ->
                let dk' = (match dk with S.A "map" -> S.A "map" | S.A "other" -> S.A "other" | _ -> S.A "nodata") in
                let es' = List.map (function S.L (S.A "e" :: p :: l :: k :: _) -> S.L [S.A "e"; p; l; k] | x -> x) es in
                S.L [S.A "r"; keys; dk'; shape; S.L (S.A "errs" :: es'); js]
              | x -> x) rs)
        | x -> x) lays)
  | x -> x

let run_c07 (input : S.t) (observed : S.t) : S.t * string =
  let (layouts, garbled) = c07_sections input in
  let p = parse input in
  let same3 = S.L [S.A "json"; S.A "same"; S.A "same"; S.A "same"] in
  let expected =
    if garbled then S.L [S.A "malformed"] else
    let outs = (match run_model p with S.L l -> List.filter (function S.L (S.A "printed" :: _) -> false | _ -> true) l | _ -> []) in
    let outs = if !c07_dup then List.map (fun _ -> S.L [S.A "rejected"]) outs else outs in
    let one = List.map (function
        | S.L [S.A "rejected"] -> S.L [S.A "r"; S.A "1"; S.A "nodata"; S.A "list"; S.A "rejected-errors"; same3]
        | S.L [S.A "resp"; data; S.L errs; _] ->
          let errs = List.map (function
              | S.L [S.A "e"; S.L path; l; k] ->
                S.L [S.A "e"; S.L (List.map (function S.L (S.A "fa" :: _) -> S.L [S.A "fa"] | x -> x) path); l; k]
              | x -> x) errs in
          let errs = sorted_sexps errs in
          let dk = (match data with S.A "nodata" | S.A "null" -> "nodata" | _ -> "map") in
          S.L [S.A "r"; S.A "1"; S.A dk; S.A (if errs = [] then "absent" else "list"); S.L (S.A "errs" :: errs); same3]
        | x -> x) outs in
    S.L (S.A "layouts" :: List.map (fun st -> S.L (S.A "lay" :: S.of_int st :: one)) layouts) in
  (* what the model does not predict (the errors of a request refused before execution) is not compared *)
  let fails = ref [] in
  let add f = if not (List.mem f !fails) then fails := !fails @ [f] in
  let per_layout = ref [] in
  (match observed with
   | S.L (S.A "layouts" :: lays) ->
     List.iter (function
         | S.L (S.A "lay" :: _ :: rs) ->
           let sigs = List.map (function
               | S.L [S.A "r"; keys; dk; shape; S.L (S.A "errs" :: es); S.L (S.A "json" :: js)] ->
                 if S.to_string keys <> "1" then add "fails:response-has-other-keys-than-data-and-errors";
                 (match shape with
                  | S.A "absent" -> if (match dk with S.A "absent" -> true | _ -> false) then add "fails:response-has-neither-data-nor-errors"
                  | S.A "list" -> ()
                  | S.A "empty" -> add "fails:errors-list-is-empty"
                  | _ -> add "fails:errors-is-not-a-list");
                 if (match dk with S.A "other" -> true | _ -> false) then add "fails:data-is-neither-a-map-nor-null";
                 List.iter (fun j -> if S.to_string j <> "same" then add ("fails:response-json-" ^ S.to_string j)) js;
                 List.map (function
                     | S.L [S.A "e"; path; _; kind; S.L (S.A "env" :: m :: pa :: lo :: _); tok] ->
                       if S.to_string m <> "1" then add "fails:error-without-a-non-empty-message";
                       if S.to_string pa <> "1" then add "fails:error-path-has-other-than-strings-and-non-negative-integers";
                       if S.to_string lo = "u" then add "fails:union-member-error-located-in-the-schema-text"
                       else if S.to_string lo <> "1" then add "fails:error-location-not-positive-or-outside-the-document";
                       S.to_string (S.L [path; kind; tok])
                     | x -> S.to_string x) es
               | x -> add "fails:shape"; [S.to_string x]) rs in
           per_layout := !per_layout @ [List.map (fun l -> List.sort compare l) sigs]
         | _ -> add "fails:shape") lays
   | S.L (S.A "panic" :: _) -> add "fails:request-panicked"
   | _ -> add "fails:shape");
  (* the same document in another layout: the same errors at the same tokens *)
  (if not garbled then match !per_layout with
      | first :: rest -> if List.exists (fun o -> o <> first) rest then add "fails:error-locations-or-messages-depend-on-the-layout"
      | [] -> ());
  (* refused before execution: no data entry or a null one *)
  (if not garbled then match expected, observed with
      | S.L (S.A "layouts" :: elays), S.L (S.A "layouts" :: olays) when List.length elays = List.length olays ->
        List.iter2 (fun e o -> match e, o with
            | S.L (S.A "lay" :: _ :: ers), S.L (S.A "lay" :: _ :: ors) when List.length ers = List.length ors ->
              List.iter2 (fun er orr -> match er, orr with
                  | S.L [S.A "r"; _; _; _; S.A "rejected-errors"; _], S.L [S.A "r"; _; S.A "map"; _; _; _] ->
                    add "fails:refused-request-carries-data"
                  | _ -> ()) ers ors
            | _ -> ()) elays olays
      | _ -> ());
  (* an error the model predicts, reported with the same path and kind but located at another node of
     the document than the offending one *)
  (if not garbled then
     match expected, c07_project false observed with
     | S.L (S.A "layouts" :: elays), S.L (S.A "layouts" :: olays) when List.length elays = List.length olays ->
       List.iter2 (fun e o -> match e, o with
           | S.L (S.A "lay" :: _ :: ers), S.L (S.A "lay" :: _ :: ors) when List.length ers = List.length ors ->
             List.iter2 (fun er orr -> match er, orr with
                 | S.L [S.A "r"; _; _; _; S.L (S.A "errs" :: ee); _], S.L [S.A "r"; _; _; _; S.L (S.A "errs" :: oe); _] ->
                   let noloc = List.map (function S.L [S.A "e"; p; _; k] -> S.to_string (S.L [p; k]) | x -> S.to_string x) in
                   let strs l = List.sort compare (List.map S.to_string l) in
                   if List.sort compare (noloc ee) = List.sort compare (noloc oe) && strs ee <> strs oe
                   then add "fails:error-located-at-another-place-than-the-offending-selection"
                 | _ -> ()) ers ors
           | _ -> ()) elays olays
     | _ -> ());
  (expected, match !fails with [] -> "holds" | f :: _ -> f)

(* a refused request: only its shape is compared *)
let c07_project_rejected (expected : S.t) (observed : S.t) : S.t =
  match expected, observed with
  | S.L (S.A "layouts" :: elays), S.L (S.A "layouts" :: olays) when List.length elays = List.length olays ->
    S.L (S.A "layouts" :: List.map2 (fun e o -> match e, o with
        | S.L (S.A "lay" :: _ :: ers), S.L (S.A "lay" :: st :: ors) when List.length ers = List.length ors ->
          S.L (S.A "lay" :: st :: List.map2 (fun er orr -> match er, orr with
              | S.L [S.A "r"; _; _; _; S.A "rejected-errors"; _], S.L [S.A "r"; k; dk; sh; _; js] -> S.L [S.A "r"; k; dk; sh; S.A "rejected-errors"; js]
              | _, x -> x) ers ors)
        | _, x -> x) elays olays)
  | _, x -> x

(* ---- C02: the strategies agree ---- *)
let strip_fa path = List.map (function S.L (S.A "fa" :: _) -> S.L [S.A "fa"] | x -> x) path

let run_c02 (input : S.t) (observed : S.t) : S.t * string =
  let secs = match input with S.L (S.A "exec" :: l) -> l | _ -> failwith "c02: input" in
  let asgs = find_section "assignments" secs in
  let model_run asg =
    match asg with
    | S.L (S.A "asg" :: _ :: pairs) ->
      (* reflection nodes are answered, in the model, as resolver nodes: that they agree is the property *)
      let strat = S.L (S.A "strat" :: List.map (function
          | S.L [t; S.A s] -> S.L [t; S.A (if s = "A" then "A" else "R")]
          | x -> x) pairs) in
      let any = List.exists (function S.L [_; S.A "A"] -> true | _ -> false) pairs in
      let secs' = List.map (function
          | S.L (S.A "strat" :: _) -> strat
          | S.L (S.A "any" :: _) -> S.L [S.A "any"; S.A (if any then "1" else "0")]
          | x -> x) secs in
      let p = parse (S.L (S.A "exec" :: secs')) in
      (match run_model p with
       | S.L outs ->
         S.L (S.A "run" :: List.filter_map (function
             | S.L [S.A "resp"; data; S.L errs; _] ->
               let paths = sorted_sexps (List.map (function S.L (S.A "e" :: S.L path :: _) -> S.L (strip_fa path) | x -> x) errs) in
               Some (S.L [S.A "resp"; (match data with S.A "null" -> S.A "nodata" | d -> d); S.L paths])
             | S.L [S.A "rejected"] -> Some (S.L [S.A "rejected"])
             | _ -> None) outs)
       | x -> x)
    | _ -> failwith "c02: assignment" in
  let expected = S.L (S.A "runs" :: List.map model_run asgs) in
  (* data that does not fit its declared type (a non-list where a list is declared, a value a leaf type
     cannot take) is interpreted by the application's AnyResolver / by reflection on the Go value, not
     by ggql: such cases are outside the feature set the strategies share *)
  let ill_typed =
    let p = parse (S.L (S.A "exec" :: secs)) in
    (match run_model p with
     | S.L outs -> List.exists (function
         | S.L [S.A "resp"; _; S.L errs; _] ->
           List.exists (function S.L [S.A "e"; _; _; S.A k] -> List.mem k ["notlist"; "nth"; "notleaf"; "coerceout"; "reflect"] | _ -> false) errs
         | _ -> false) outs
     | _ -> false) in
  let verdict =
    if ill_typed then "holds-outside-the-common-feature-set-(ill-typed-data)" else
    match observed with
    | S.L (S.A "runs" :: (first :: _ as runs)) ->
      if List.exists (function S.L (S.A "panic" :: _) -> true | _ -> false) runs then "fails:a-strategy-panicked"
      else begin
        let names = [| "all-resolver"; "all-any"; "all-reflection-registered"; "all-reflection-discovered"; "mix-resolver-any"; "mix-resolver-reflection"; "mix-resolver-reflection-discovered"; "all-reflection-fields-registered-in-another-order" |] in
        let rec find i = function
          | [] -> "holds"
          | r :: rest -> if S.to_string r <> S.to_string first then "fails:strategies-disagree:" ^ (if i < Array.length names then names.(i) else string_of_int i)
            else find (i + 1) rest in
        find 0 runs
      end
    | _ -> "fails:shape" in
  (expected, verdict)
