#!/bin/bash
# Build the extracted model + driver into ./modelrun. Run from /verif/model after the Coq build.
set -e
cd "$(dirname "$0")"
timeout 600 coqc -Q ../coq/theories GG Extract.v > extract.log 2>&1 || { cat extract.log; exit 1; }
rm -f model.mli
ocamlfind ocamlopt -O2 -w -a -package str,zarith -linkpkg model.ml sexp.ml conv.ml c19.ml c20.ml exec.ml coerce.ml text.ml schema.ml main.ml -o modelrun 2>/dev/null \
  || ocamlfind ocamlopt -w -a -package str,zarith -linkpkg model.ml sexp.ml conv.ml c19.ml c20.ml exec.ml coerce.ml text.ml schema.ml main.ml -o modelrun
