(* Schema driver (C13, C14, C16): run the specification on a history of loads and compare with what
   the root did and holds. *)
open Model
open Conv
module S = Sexp

let n i = nat_of_int (S.int i)
let desc = function
  | S.A a when String.length a > 0 && a.[0] = 'x' ->
    let h = String.sub a 1 (String.length a - 1) in
    List.init (String.length h / 2) (fun i -> nat_of_int (int_of_string ("0x" ^ String.sub h (2 * i) 2)))
  | x -> failwith ("schema: bad desc " ^ S.to_string x)

let rec tref_of = function
  | S.L [S.A "n"; k] -> TN (n k)
  | S.L [S.A "l"; t] -> TL (tref_of t)
  | S.L [S.A "nn"; t] -> TNN (tref_of t)
  | x -> failwith ("schema: bad type " ^ S.to_string x)

let rec cval_of = function
  | S.A "null" -> QNull
  | S.L [S.A "i"; z] -> QInt (z_of_int (S.int z))
  | S.L [S.A "s"; k] -> QStr (n k)
  | S.L [S.A "b"; b] -> QBool (S.int b <> 0)
  | S.L [S.A "y"; k] -> QSym (n k)
  | S.L (S.A "l" :: l) -> QList (List.map cval_of l)
  | S.L (S.A "o" :: kvs) -> QObj (List.map (function S.L [k; v] -> (n k, cval_of v) | _ -> failwith "schema: object constant") kvs)
  | x -> failwith ("schema: bad value " ^ S.to_string x)

let dus_of = function
  | S.L (S.A "dirs" :: l) ->
    List.map (function
        | S.L (S.A "du" :: d :: avs) ->
          { du_name = n d;
            du_args = List.map (function S.L [S.A "av"; a; v] -> (n a, cval_of v) | x -> failwith "schema: av") avs }
        | x -> failwith ("schema: bad du " ^ S.to_string x)) l
  | x -> failwith ("schema: bad dirs " ^ S.to_string x)

let arg_of = function
  | S.L [S.A "a"; nm; d; t; def; dirs] ->
    { ad_name = n nm; a_desc = desc d; a_ty = tref_of t;
      a_def = (match def with S.A "none" -> None | S.L [S.A "some"; v] -> Some (cval_of v) | _ -> failwith "schema: def");
      a_dirs = dus_of dirs }
  | x -> failwith ("schema: bad arg " ^ S.to_string x)

let tail tag = function
  | S.L (S.A t :: l) when t = tag -> l
  | x -> failwith ("schema: expected " ^ tag ^ " in " ^ S.to_string x)

let kind_of_int = function
  | 0 -> KScalar | 1 -> KObject | 2 -> KInterface | 3 -> KUnion | 4 -> KEnum | 5 -> KInput | 6 -> KDirective
  | 7 -> KSchema | _ -> failwith "schema: kind"
let int_of_kind = function
  | KScalar -> 0 | KObject -> 1 | KInterface -> 2 | KUnion -> 3 | KEnum -> 4 | KInput -> 5 | KDirective -> 6 | KSchema -> 7

let item_of = function
  | S.L [S.A "it"; ext; k; nm; d; dirs; ifaces; fields; members; vals; inputs; locs] ->
    { it_ext = S.int ext <> 0; it_kind = kind_of_int (S.int k); it_name = n nm; it_desc = desc d;
      it_dirs = dus_of dirs; it_ifaces = List.map n (tail "ifaces" ifaces);
      it_fields = List.map (function
          | S.L [S.A "f"; fn; fd; t; args; fdirs] ->
            { fd_name = n fn; f_desc = desc fd; f_ty = tref_of t; fd_args = List.map arg_of (tail "args" args);
              f_dirs = dus_of fdirs }
          | x -> failwith ("schema: bad field " ^ S.to_string x)) (tail "fields" fields);
      it_members = List.map n (tail "members" members);
      it_vals = List.map (function
          | S.L [S.A "v"; vn; vd; vdirs] -> { ev_name = n vn; ev_desc = desc vd; ev_dirs = dus_of vdirs }
          | x -> failwith ("schema: bad value def " ^ S.to_string x)) (tail "vals" vals);
      it_inputs = List.map arg_of (tail "inputs" inputs);
      it_locs = List.map n (tail "locs" locs) }
  | x -> failwith ("schema: bad item " ^ S.to_string x)

(* ---- canonical printing of a view: every component sorted ---- *)
let i x = S.of_int (int_of_nat x)
let sdesc d = S.A ("x" ^ String.concat "" (List.map (fun b -> Printf.sprintf "%02x" (int_of_nat b)) d))
let rec s_tref = function TN k -> S.L [S.A "n"; i k] | TL t -> S.L [S.A "l"; s_tref t] | TNN t -> S.L [S.A "nn"; s_tref t]
let sort_s l = List.sort (fun a b -> compare (S.to_string a) (S.to_string b)) l
let rec s_cval = function
  | QNull -> S.A "null" | QInt z -> S.L [S.A "i"; S.of_int (int_of_z z)] | QStr k -> S.L [S.A "s"; i k]
  | QBool b -> S.L [S.A "b"; S.of_int (if b then 1 else 0)] | QSym k -> S.L [S.A "y"; i k]
  | QList l -> S.L (S.A "l" :: List.map s_cval l)
  | QObj kvs -> S.L (S.A "o" :: sort_s (List.map (fun (k, v) -> S.L [i k; s_cval v]) kvs))
let s_du d = S.L (S.A "du" :: i d.du_name :: sort_s (List.map (fun (a, v) -> S.L [i a; s_cval v]) d.du_args))
let s_dus l = S.L (sort_s (List.map s_du l))
let s_arg a =
  S.L [S.A "a"; i a.ad_name; sdesc a.a_desc; s_tref a.a_ty;
       (match a.a_def with None -> S.A "none" | Some v -> s_cval v); s_dus a.a_dirs]
let s_field f =
  S.L [S.A "f"; i f.fd_name; sdesc f.f_desc; s_tref f.f_ty; S.L (sort_s (List.map s_arg f.fd_args)); s_dus f.f_dirs]
let s_key (a, b) = S.L [i a; i b]
let s_view v =
  let comp tag f l = S.L (S.A tag :: sort_s (List.map f l)) in
  S.L [S.A "view";
       comp "defs" (fun b -> S.L [S.of_int (int_of_kind b.b_kind); i b.b_name; sdesc b.b_desc]) v.v_defs;
       comp "dirs" (fun (k, d) -> S.L [s_key k; s_du d]) v.v_dirs;
       comp "ifaces" (fun (k, x) -> S.L [s_key k; i x]) v.v_ifaces;
       comp "fields" (fun (k, f) -> S.L [s_key k; s_field f]) v.v_fields;
       comp "members" (fun (k, x) -> S.L [s_key k; i x]) v.v_members;
       comp "vals" (fun (k, e) -> S.L [s_key k; S.L [i e.ev_name; sdesc e.ev_desc; s_dus e.ev_dirs]]) v.v_vals;
       comp "inputs" (fun (k, a) -> S.L [s_key k; s_arg a]) v.v_inputs;
       comp "locs" (fun (k, x) -> S.L [s_key k; i x]) v.v_locs;
       comp "ops" (fun (o, t) -> S.L [i o; i t]) v.v_ops]

let rule_name = function
  | 1 -> "undefined-reference" | 2 -> "duplicate-name" | 3 -> "reserved-name" | 4 -> "wrong-type-class"
  | 5 -> "interface-not-implemented" | 6 -> "bad-union" | 7 -> "empty-definition" | 8 -> "directive-location"
  | 9 -> "directive-argument-undeclared" | 10 -> "directive-argument-value" | 11 -> "enum-value-keyword"
  | 12 -> "non-null-of-non-null" | 13 -> "directive-cycle" | 14 -> "schema-operation" | 15 -> "bad-extension"
  | 16 -> "directive-required-argument-missing"
  | 28 -> "member-directive-location" | 29 -> "member-directive-argument-undeclared"
  | 30 -> "member-directive-argument-value" | 36 -> "member-directive-required-argument-missing"
  | _ -> "rule"

(* observed per load: (r accepted|rejected (cites..) msg (same a b c) (view item...) (ops (o t)...)) *)
type oload = { acc : bool; panicked : bool; cites : (int * int) list; same : bool list; oview : S.t;
               listed : ((Model.nat * Model.nat list) list * (Model.nat * Model.nat list) list) option }

let oload_of = function
  | S.L (S.A "r" :: S.A res :: S.L (S.A "cites" :: cs) :: _ :: S.L (S.A "same" :: sm) :: S.L (S.A "view" :: items) :: S.L (S.A "ops" :: ops) :: rest) ->
    let entries l = List.map (function S.L [k; S.L bs] -> (n k, List.map n bs) | _ -> failwith "schema: listed") l in
    let listed = match rest with
      | [S.L [S.A "listed"; S.L (S.A "types" :: ts); S.L (S.A "dirs" :: ds)]] -> Some (entries ts, entries ds)
      | _ -> None in
    let its = List.map item_of items in
    let ops = List.map (function S.L [o; t] -> (n o, n t) | _ -> failwith "schema: op") ops in
    { acc = (res = "accepted"); panicked = (res = "panicked");
      cites = List.map (function S.L [a; b] -> (S.int a, S.int b) | _ -> failwith "schema: cite") cs;
      same = List.map (fun x -> S.int x <> 0) sm;
      oview = s_view (Model.view_of_items its ops); listed }, its
  | x -> failwith ("schema: bad load observation " ^ S.to_string x)

let project_load (o, _) = S.L [S.A (if o.acc then "accepted" else if o.panicked then "panicked" else "rejected"); o.oview]

(* what main compares against the model's expectation *)
let project = function
  | S.L (S.A "loads" :: l) -> S.L (List.map (fun x -> project_load (oload_of x)) l)
  | x -> x

let run (prop : string) (input : S.t) (observed : S.t) : S.t * string =
  let believed_wf = (match input with S.L (S.A "wfdocs" :: _) -> true | _ -> false) in
  let docs = match input with
    | S.L (S.A ("docs" | "wfdocs") :: ds) ->
      List.map (function
          | S.L (S.A "doc" :: mode :: items) -> ((match mode with S.A "ok" | S.A "api" | S.L [S.A "files"; _] -> false | _ -> true), List.map item_of items)
          | x -> failwith ("schema: bad doc " ^ S.to_string x)) ds
    | _ -> failwith "schema: input" in
  let results = Model.loads_m [] docs in
  let expected = S.L (List.map (fun (acc, st) ->
      S.L [S.A (if acc then "accepted" else "rejected"); s_view (Model.observe st)]) results) in
  let obs = match observed with S.L (S.A "loads" :: l) -> List.map oload_of l | _ -> failwith "schema: observed" in
  if List.length obs <> List.length docs then failwith "schema: load count";
  (* the state before each load and the errors the specification finds in each candidate *)
  let befores = [] :: List.map snd results in
  let rec zip4 a b c d = match a, b, c, d with
    | x :: a', y :: b', z :: c', w :: d' -> (x, y, z, w) :: zip4 a' b' c' d'
    | _ -> [] in
  let fails = ref [] in
  let add f = if not (List.mem f !fails) then fails := f :: !fails in
  let prev_view = ref (s_view (Model.view_of_items [] [])) in
  List.iteri (fun idx ((broken, doc), (macc, _), before, (o, walked)) ->
      let errs = if broken then [] else Model.errors_in (before @ Model.drop_core_redecl doc) in
      let rules = List.sort_uniq compare (List.map (fun (r, _) -> int_of_nat r) errs) in
      let rules_s = String.concat "+" (List.map rule_name rules) in
      if o.panicked then add "fails:load-panicked";
      (match prop with
       | "C13" ->
         (* a set built rule by rule by the generator must pass the catalogue: the two notions of
            well-formed are independent *)
         if believed_wf && not macc then add ("fails:constructed-well-formed-set-refused-by-the-catalogue:" ^ rules_s);
         if macc && not o.acc then add "fails:well-formed-schema-refused"
         else if not macc && o.acc then add ("fails:violation-accepted:" ^ rules_s)
         else if not macc && not broken then begin
           let offenders = List.concat_map (fun (_, cs) -> List.map (fun (a, b) -> (int_of_nat a, int_of_nat b)) cs) errs in
           (* T!! cannot be written in SDL at all: the reader refuses the text at that position and names
              nothing; any refusal is the right answer to such a document *)
           if not (List.mem 12 rules) && not (List.exists (fun c -> List.mem c o.cites) offenders)
           then add ("fails:offender-not-named:" ^ rules_s)
         end;
         (* every accepted schema passes the independent re-check of what the root now holds *)
         if o.acc && not (Model.ok walked) then begin
           let es = Model.errors_in walked in
           add ("fails:accepted-schema-fails-recheck:" ^
                String.concat "+" (List.sort_uniq compare (List.map (fun (r, _) -> rule_name (int_of_nat r)) es)))
         end
       | "C14" ->
         if not o.acc then begin
           if S.to_string o.oview <> S.to_string !prev_view then add "fails:failed-load-changed-the-definitions";
           (match o.same with
            | a :: b :: c :: _ ->
              if not a then add "fails:failed-load-changed-the-printed-schema";
              if not b then add "fails:failed-load-changed-introspection";
              if not c then add "fails:failed-load-changed-responses"
            | _ -> failwith "schema: same flags")
         end;
         if macc <> o.acc then add (if macc then "fails:valid-load-refused-after-history" else "fails:invalid-load-accepted:" ^ rules_s)
         else if macc && S.to_string o.oview <> S.to_string (s_view (Model.observe (snd (List.nth results idx)))) then
           add "fails:later-load-differs-from-clean-history"
       | _ ->
         if macc <> o.acc then add (if macc then "fails:arrangement-refused" else "fails:arrangement-accepted:" ^ rules_s)
         else if macc && S.to_string o.oview <> S.to_string (s_view (Model.observe (snd (List.nth results idx)))) then
           add "fails:arrangement-defines-a-different-schema"
         else if o.acc && (match o.same with [_; _; _; false] -> true | _ -> false) then
           add "fails:arrangement-lists-the-types-in-another-order"
         else if o.acc && (match o.listed with Some (ts, ds) -> not (Model.listed_okb ts && Model.listed_okb ds) | None -> false) then
           add "fails:types-not-listed-by-rank-and-name");
      prev_view := o.oview)
    (zip4 docs results befores obs);
  let verdict = match List.rev !fails with [] -> "holds" | f :: _ -> f in
  (expected, verdict)

(* ---- C17: introspection ---- *)
let rec s_jt = function
  | INull -> S.A "null"
  | IBool b -> S.L [S.A "b"; S.of_int (if b then 1 else 0)]
  | IKind k -> S.L [S.A "k"; i k]
  | IName (ns, k) -> S.L [S.A "nm"; i ns; i k]
  | IDesc d -> S.L [S.A "d"; sdesc d]
  | IVal v -> S.L [S.A "val"; s_cval v]
  | ILoc l -> S.L [S.A "loc"; i l]
  | IList l -> S.L (S.A "l" :: List.map s_jt l)
  | ISet l -> S.L (S.A "l" :: sort_s (List.map s_jt l))
  | IObj l -> S.L (S.A "o" :: List.map s_jt l)

let project17 = function
  | S.L [S.A "answer"; sch; S.L [S.A "errors"; nerr; _]; lk] -> S.L [S.A "answer"; sch; S.L [S.A "errors"; nerr]; lk]
  | S.L (S.A "load-failed" :: _) -> S.L [S.A "load-failed"]
  | x -> x

let type_parts = [| "kind"; "name"; "description"; "fields"; "interfaces"; "possibleTypes"; "enumValues"; "inputFields"; "ofType" |]

(* where two type records differ *)
let type_diff e o =
  match e, o with
  | S.L (S.A "o" :: es), S.L (S.A "o" :: os) when List.length es = 9 && List.length os = 9 ->
    let rec go k es os = match es, os with
      | x :: es', y :: os' -> if S.to_string x <> S.to_string y then type_parts.(k) else go (k + 1) es' os'
      | _ -> "shape" in
    go 0 es os
  | S.A "null", _ -> "unknown-name-not-null"
  | _, S.A "null" -> "known-type-null"
  | _ -> "shape"

let run17 (input : S.t) (observed : S.t) : S.t * string =
  let (incl, lookups, docs) = match input with
    | S.L [S.A "intro"; _; S.L [S.A "incl"; b]; S.L (S.A "lookups" :: ns); S.L (S.A "docs" :: ds)] ->
      (S.int b <> 0, List.map n ns,
       List.map (function
           | S.L (S.A "doc" :: mode :: items) -> ((match mode with S.A "ok" | S.A "api" | S.L [S.A "files"; _] -> false | _ -> true), List.map item_of items)
           | x -> failwith ("schema: bad doc " ^ S.to_string x)) ds)
    | _ -> failwith "c17: input" in
  let results = Model.loads_m [] docs in
  if List.exists (fun (acc, _) -> not acc) results then begin
    (* C17 speaks about accepted schemas; whether a load is rightly accepted is C13's question.  When the
       catalogue refuses a load ONLY for directive uses on field definitions, field arguments or input
       fields (which ggql never validates: known finding F13 of C13/C14/C16) the case is outside C17. *)
    let befores = [] :: List.map snd results in
    let rec first_refused ds rs bs = match ds, rs, bs with
      | (broken, doc) :: ds', (acc, _) :: rs', before :: bs' ->
        if acc then first_refused ds' rs' bs' else Some (broken, doc, before)
      | _ -> None in
    let only_f13 = (match first_refused docs results befores with
        | Some (false, doc, before) ->
          let errs = Model.errors_in (before @ Model.drop_core_redecl doc) in
          errs <> [] && List.for_all (fun (r, _) -> List.mem (int_of_nat r) [28; 29; 30; 36]) errs
        | _ -> false) in
    match observed with
    | S.L (S.A "load-failed" :: _) -> (S.L [S.A "load-failed"], "holds-load-refused-by-both")
    | _ when only_f13 -> (project17 observed, "holds:outside-claim-load-accepted-through-unvalidated-member-directive-uses-(F13)")
    | _ -> (S.L [S.A "load-failed"], "fails:model-refuses-a-load")
  end else begin
    let st = match List.rev results with (_, st) :: _ -> st | [] -> [] in
    let sch = s_jt (Model.schema_answer st incl) in
    (* names from 5000 on are names of directives: no type has such a name (the rendering keeps the two
       name spaces apart), so the answer is that of an unknown name *)
    let lks = List.map (fun nm -> s_jt (Model.type_answer st incl (if int_of_nat nm >= 5000 then nat_of_int 999 else nm))) lookups in
    let expected = S.L [S.A "answer"; sch; S.L [S.A "errors"; S.of_int 0]; S.L (S.A "lookups" :: lks)] in
    let verdict =
      match observed with
      | S.L [S.A "answer"; osch; S.L [S.A "errors"; nerr; _]; S.L (S.A "lookups" :: olks)] ->
        if S.int nerr <> 0 then "fails:introspection-reports-errors"
        else begin
          match sch, osch with
          | S.L [S.A "o"; q; m; s; S.L (S.A "l" :: ets); eds], S.L [S.A "o"; oq; om; os; S.L (S.A "l" :: ots); ods] ->
            if S.to_string (S.L [q; m; s]) <> S.to_string (S.L [oq; om; os]) then "fails:introspection-differs:operation-roots"
            else if List.length ets <> List.length ots then "fails:introspection-differs:type-list"
            else begin
              match List.find_opt (fun (e, o) -> S.to_string e <> S.to_string o) (List.combine ets ots) with
              | Some (e, o) -> "fails:introspection-differs:type:" ^ type_diff e o
              | None ->
                if S.to_string eds <> S.to_string ods then "fails:introspection-differs:directives"
                else if List.length lks <> List.length olks then "fails:introspection-differs:lookups"
                else match List.find_opt (fun (e, o) -> S.to_string e <> S.to_string o) (List.combine lks olks) with
                  | Some (e, o) -> "fails:introspection-differs:__type:" ^ type_diff e o
                  | None -> "holds"
            end
          | _ -> "fails:introspection-differs:shape"
        end
      | S.L (S.A "panic" :: _) -> "fails:introspection-panicked"
      | S.L (S.A "load-failed" :: _) -> "fails:accepted-schema-refused"
      | _ -> "fails:introspection-differs:shape" in
    (expected, verdict)
  end

(* ---- C15: printed SDL ---- *)
let bytes_of_hex = function
  | S.A a when String.length a > 0 && a.[0] = 'x' ->
    let h = String.sub a 1 (String.length a - 1) in
    List.init (String.length h / 2) (fun k -> nat_of_int (int_of_string ("0x" ^ String.sub h (2 * k) 2)))
  | x -> failwith ("c15: bad bytes " ^ S.to_string x)
let hex_of_bytes l = S.A ("x" ^ String.concat "" (List.map (fun b -> Printf.sprintf "%02x" (int_of_nat b)) l))
let bytes_of_string s = List.init (String.length s) (fun k -> nat_of_int (Char.code s.[k]))

let run15 (input : S.t) (observed : S.t) : S.t * string =
  let descs = match input with
    | S.L [S.A "print"; _; S.L (S.A "descs" :: ds); _] -> List.map bytes_of_hex ds
    | _ -> failwith "c15: input" in
  let text0 d = Model.write_desc d O @ bytes_of_string "scalar S\n" in
  let text1 d = bytes_of_string "type O {\n" @ Model.write_desc d (S O) @ bytes_of_string "f(" @ Model.write_desc d (S (S O))
                @ bytes_of_string "a: Int): Int\n}\n" in
  let edescs = List.concat_map (fun d -> [S.L [S.A "d"; S.A "0"; hex_of_bytes (text0 d)]; S.L [S.A "d"; S.A "1"; hex_of_bytes (text1 d)]]) descs in
  let expected = S.L [S.A "printed"; S.L [S.A "whole"; S.A "1"; S.A "1"; S.A "1"]; S.L [S.A "pertype"; S.A "1"; S.A "1"]; S.L [S.A "ggqlgen"; S.A "1"; S.A "1"]; S.L (S.A "descs" :: edescs)] in
  let fails = ref [] in
  let add f = if not (List.mem f !fails) then fails := !fails @ [f] in
  (match observed with
   | S.L [S.A "printed"; S.L [S.A "whole"; p; s; t]; S.L [S.A "pertype"; pp; ps]; S.L [S.A "ggqlgen"; gw; ge]; S.L (S.A "descs" :: ods); _] ->
     if S.int gw = 0 then add "fails:ggqlgen-rewrite-loses-or-alters-the-schema";
     if S.int ge = 0 then add "fails:ggqlgen-embed-loses-or-alters-the-schema";
     if S.int p = 0 then add "fails:printed-schema-is-refused"
     else begin
       if S.int s = 0 then add "fails:printed-schema-defines-another-schema";
       if S.int t = 0 then add "fails:printing-again-gives-another-text"
     end;
     if S.int pp = 0 then add "fails:per-type-printed-form-is-refused"
     else if S.int ps = 0 then add "fails:per-type-printed-form-defines-another-schema";
     (* what the library printed for each description reads back, with the model's reader, as that description *)
     let rec skip_ws = function b :: r when int_of_nat b = 10 || int_of_nat b = 32 -> skip_ws r | l -> l in
     let rec go ds ods = match ds, ods with
       | d :: ds', S.L [S.A "d"; S.A "0"; t0] :: S.L [S.A "d"; S.A "1"; _] :: ods' ->
         (match Model.read_desc_text (bytes_of_hex t0) with
          | Some (d', rest) when d' = d && skip_ws rest = bytes_of_string "scalar S\n" -> ()
          | _ -> add "fails:printed-description-does-not-read-back");
         (match Model.read_desc_text (text0 d) with
          | Some (d', rest) when d' = d && skip_ws rest = bytes_of_string "scalar S\n" -> ()
          | _ -> add "fails:model-description-does-not-read-back");
         go ds' ods'
       | [], [] -> ()
       | _ -> add "fails:description-count" in
     go descs ods
   | S.L (S.A "panic" :: _) -> add "fails:printing-panicked"
   | S.L (S.A "load-failed" :: _) -> add "fails:generated-schema-refused"
   | _ -> add "fails:shape");
  (expected, match !fails with [] -> "holds" | f :: _ -> f)

let project15 = function
  | S.L [S.A "printed"; w; p; g; d; _] -> S.L [S.A "printed"; w; p; g; d]
  | x -> x
