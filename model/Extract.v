(* Extraction of the executable model.  Directives: exactly those of ExtrOcamlBasic
   (bool, option, unit, list, prod, sumbool, sumor; andb/orb inlined).  nat, N, Z, positive,
   ascii and string stay extracted inductive datatypes.  No Extract Constant of our own. *)
Require Extraction.
Require ExtrOcamlBasic.
From GG Require Registry Sched Listing Exec ExecSpec Coerce Text Json Schema Introspect Sdl.
Extraction Language OCaml.
Extraction "model.ml"
  Registry.run Registry.a_run Registry.trace Registry.trace_okb
  Sched.exec Sched.all_done Sched.strace Sched.once_okb Sched.visible_okb Sched.late_okb Listing.listed_okb
  Exec.exec_op Exec.printed_args Exec.doc_rejects Exec.get_field_def ExecSpec.sem_op ExecSpec.nodup_keys ExecSpec.wf_doc
  Coerce.coerce_input Coerce.leaf_out Coerce.conforms Coerce.denotes Coerce.only_declared Coerce.has_shape Coerce.out_faithful
  Text.parse_value Text.write_value Text.parse_int64 Json.json_parse Json.to_json
  Schema.loads_m Schema.observe Schema.view_of_items Schema.ok Schema.errors_in Schema.drop_core_redecl
  Introspect.schema_answer Introspect.type_answer Introspect.dec_type
  Sdl.write_desc Sdl.read_desc_text Sdl.canonical.
