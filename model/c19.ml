(* C19 driver: run the registry model and the abstract specification on a history. *)
open Model
open Conv
module S = Sexp

(* the value of an event field: an integer, or "null" for a field whose resolution fails *)
let ev_of = function S.A "null" -> None | x -> Some (z_of_int (S.int x))
let sexp_of_ev = function None -> S.A "null" | Some v -> S.of_int (int_of_z v)

let sub_of = function
  | S.L [S.A "s"; u; p; S.L sl; S.L sc] ->
    let p = S.int p in
    { uid = nat_of_int (S.int u); pat = (if p < 0 then None else Some (nat_of_int p));
      sel = List.map (fun x -> nat_of_int (S.int x)) sl;
      sched = List.map (fun x -> S.int x <> 0) sc }
  | x -> failwith ("c19: bad sub " ^ S.to_string x)

let op_of = function
  | S.L (S.A "sub" :: subs) -> OSub (List.map sub_of subs)
  | S.L [S.A "pub"; id; S.L ev] -> OPub (nat_of_int (S.int id), List.map ev_of ev)
  | S.L [S.A "unsub"; id] -> OUnsub (nat_of_int (S.int id))
  | x -> failwith ("c19: bad op " ^ S.to_string x)

let sorted l = List.sort compare l

let sexp_of_out = function
  | RSub -> S.L [S.A "rsub"]
  | RPub po ->
    S.L [S.A "rpub"; S.of_int (int_of_nat po.p_cnt); S.of_int (if po.p_err then 1 else 0);
         S.L (List.map (fun ((u, m), ok) ->
             S.L [S.of_int (int_of_nat u);
                  S.L (List.map (fun (i, v) -> S.L [S.of_int (int_of_nat i); sexp_of_ev v]) m);
                  S.of_int (if ok then 1 else 0)]) po.p_del);
         S.L (List.map S.of_int (sorted (List.map int_of_nat po.p_clean)))]
  | RUnsub (c, cl) ->
    S.L [S.A "runsub"; S.of_int (int_of_nat c); S.L (List.map S.of_int (sorted (List.map int_of_nat cl)))]

let out_of = function
  | S.L [S.A "rsub"] -> RSub
  | S.L [S.A "rpub"; c; e; S.L dl; S.L cl] ->
    RPub { p_cnt = nat_of_int (S.int c); p_err = S.int e <> 0;
           p_del = List.map (function
               | S.L [u; S.L m; ok] ->
                 ((nat_of_int (S.int u),
                   List.map (function S.L [i; v] -> (nat_of_int (S.int i), ev_of v) | _ -> failwith "c19: msg") m),
                  S.int ok <> 0)
               | _ -> failwith "c19: del") dl;
           p_clean = List.map (fun x -> nat_of_int (S.int x)) cl }
  | S.L [S.A "runsub"; c; S.L cl] -> RUnsub (nat_of_int (S.int c), List.map (fun x -> nat_of_int (S.int x)) cl)
  | x -> failwith ("c19: bad out " ^ S.to_string x)

(* returns (expected observable, oracle verdict on the observed outputs) *)
let run (input : S.t) (observed : S.t) : S.t * string =
  (* (reuse) tells the harness to resolve parsed subscription requests again instead of parsing anew:
     the specification does not know the difference *)
  let ops = match input with S.L (S.A "hist" :: ops) -> ops | _ -> failwith "c19: input" in
  let h = List.map op_of (List.filter (function S.L [S.A "reuse"] | S.L [S.A "share"] | S.L [S.A "frag"] | S.L (S.A "subfail" :: _) -> false | _ -> true) ops) in
  (* (share): the subscribers of one pattern are one Go value; its clean-up cannot tell for which
     subscription it is called, the harness logs it under the pattern (1000+pattern+1): the clean-ups the
     model expects are renamed the same way (still one per subscription that is cleaned up) *)
  let share = List.exists (function S.L [S.A "share"] -> true | _ -> false) ops in
  let pat_of = Hashtbl.create 16 in
  List.iter (function
      | S.L (S.A "sub" :: subs) -> List.iter (function S.L [S.A "s"; u; p; _; _] -> Hashtbl.replace pat_of (S.int u) (S.int p) | _ -> ()) subs
      | _ -> ()) ops;
  let lead u = if share then nat_of_int (1000 + (try Hashtbl.find pat_of (int_of_nat u) with Not_found -> 0) + 1) else u in
  (* (reuse) without (share)/(frag): the requests of the subscribers whose uid is a multiple of 3 hold one
     more field, k, under a variable that is true when uid mod 4 < 2: their messages end with it
     (rendered as field 99, value 0); the specification's selection does not know it *)
  let reuse = List.exists (function S.L [S.A "reuse"] -> true | _ -> false) ops in
  let frag = List.exists (function S.L [S.A "frag"] -> true | _ -> false) ops in
  let extra ((u, m), ok) =
    if reuse && not share && not frag && int_of_nat u mod 3 = 0 && int_of_nat u mod 4 < 2 then ((u, m @ [(nat_of_int 99, Some (z_of_int 0))]), ok) else ((u, m), ok) in
  let rename = function
    | RPub po -> RPub { po with p_clean = List.map lead po.p_clean; p_del = List.map extra po.p_del }
    | RUnsub (c, cl) -> RUnsub (c, List.map lead cl)
    | x -> x in
  let expected =
    match Model.run [] h with
    | None -> S.L [S.A "panic"]
    | Some (_, xs) -> S.L (List.map (fun x -> sexp_of_out (rename x)) xs) in
  (* oracle: the abstract registry (specification) and the trace predicate, on the code's outputs *)
  let verdict =
    match observed with
    | S.L [S.A "panic"] -> "fails:panic"
    | S.L obs ->
      let (_, axs) = Model.a_run [] h in
      let spec = S.L (List.map (fun x -> sexp_of_out (rename x)) axs) in
      if S.to_string spec <> S.to_string observed then "fails:differs-from-abstract-registry"
      else if share then "holds" (* equal to the specification's outputs, whose trace is well-formed by C19_cleanup_once_nothing_after *)
      else if not (Model.trace_okb [] (Model.trace (List.map out_of obs))) then "fails:delivery-or-cleanup-after-cleanup"
      else "holds"
    | _ -> "fails:malformed-observation" in
  (expected, verdict)
