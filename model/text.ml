(* Text family driver: value writer / reader (C18), robustness of the value reader (C03). *)
open Model
open Conv
module S = Sexp

let bytes_of_string (s : string) : nat list = List.init (String.length s) (fun i -> nat_of_int (Char.code s.[i]))
let string_of_bytes (l : nat list) : string =
  let b = Buffer.create 64 in List.iter (fun n -> Buffer.add_char b (Char.chr (int_of_nat n land 255))) l; Buffer.contents b
let hex_of_bytes l = S.A (S.hex_of_string (string_of_bytes l))
let bytes_of_hex a = bytes_of_string (S.string_of_hex (S.atom a))

let wrunes l = List.map (function
    | S.L [S.A "r"; c; u] -> { wr_rune = nat_of_int (S.int c); wr_utf8 = bytes_of_hex u }
    | x -> failwith ("text: rune " ^ S.to_string x)) l

let rec wv_of = function
  | S.A "null" -> WNull
  | S.L [S.A "b"; x] -> WBool (S.int x <> 0)
  | S.L [S.A "num"; _; t] -> WNum (bytes_of_hex t)
  | S.L (S.A "str" :: _ :: rs) -> WStr (wrunes rs)
  | S.L (S.A "sym" :: _ :: rs) -> WSym (wrunes rs)
  | S.L (S.A "var" :: _ :: rs) -> WVar (wrunes rs)
  | S.L (S.A "l" :: xs) -> WList (List.map wv_of xs)
  | S.L (S.A "m" :: kvs) -> WMap (List.map (function S.L [S.L (S.A "k" :: _ :: rs); v] -> (wrunes rs, wv_of v) | _ -> failwith "text: map") kvs)
  | S.L [S.A "other"; t] -> WOther (List.map (fun b -> { wr_rune = b; wr_utf8 = [b] }) (bytes_of_hex t))
  | x -> failwith ("text: wv " ^ S.to_string x)

(* UTF-8 encoding of a code unit produced by an escape (Go's buf.WriteRune: surrogates become U+FFFD) *)
let utf8_of_rune (r : int) : string =
  let r = if (r >= 0xD800 && r <= 0xDFFF) || r > 0x10FFFF then 0xFFFD else r in
  let b = Buffer.create 4 in
  if r < 0x80 then Buffer.add_char b (Char.chr r)
  else if r < 0x800 then (Buffer.add_char b (Char.chr (0xC0 lor (r lsr 6))); Buffer.add_char b (Char.chr (0x80 lor (r land 0x3F))))
  else if r < 0x10000 then (Buffer.add_char b (Char.chr (0xE0 lor (r lsr 12)));
                            Buffer.add_char b (Char.chr (0x80 lor ((r lsr 6) land 0x3F))); Buffer.add_char b (Char.chr (0x80 lor (r land 0x3F))))
  else (Buffer.add_char b (Char.chr (0xF0 lor (r lsr 18))); Buffer.add_char b (Char.chr (0x80 lor ((r lsr 12) land 0x3F)));
        Buffer.add_char b (Char.chr (0x80 lor ((r lsr 6) land 0x3F))); Buffer.add_char b (Char.chr (0x80 lor (r land 0x3F))));
  Buffer.contents b

let string_of_items (l : sitem list) : string =
  String.concat "" (List.map (function SB b -> String.make 1 (Char.chr (int_of_nat b land 255)) | SR r -> utf8_of_rune (int_of_nat r)) l)

let decimal_of_z = Coerce.decimal_of_z

let rec sexp_of_pv = function
  | PNull -> S.A "null"
  | PBool b -> S.L [S.A "b"; S.of_int (if b then 1 else 0)]
  | PInt z -> S.L [S.A "int"; S.A (decimal_of_z z)]
  | PFloat t ->
    (* Go returns the float; its canonical text is FormatFloat of the parsed value, which the harness prints *)
    S.L [S.A "flt"; S.A (S.hex_of_string (Printf.sprintf "%s" (string_of_bytes t)))]
  | PStr s -> S.L [S.A "str"; S.A (S.hex_of_string (string_of_items s))]
  | PSym t -> S.L [S.A "sym"; hex_of_bytes t]
  | PVar t -> S.L [S.A "var"; hex_of_bytes t]
  | PList l -> S.L (S.A "l" :: List.map sexp_of_pv l)
  | PMap kvs ->
    (* a Go map: the last binding of a key wins; keys sorted *)
    let tbl = Hashtbl.create 8 in
    List.iter (fun (k, v) -> Hashtbl.replace tbl (string_of_items k) v) kvs;
    let keys = List.sort compare (Hashtbl.fold (fun k _ acc -> k :: acc) tbl []) in
    S.L (S.A "m" :: List.map (fun k -> S.L [S.A (S.hex_of_string k); sexp_of_pv (Hashtbl.find tbl k)]) keys)

(* floats are compared by value on the Go side (it prints FormatFloat of what it parsed); the model keeps the
   token, so both sides are normalised through OCaml's float_of_string / shortest round-trip printing *)
let norm_float_text (s : string) : string =
  try Printf.sprintf "%h" (float_of_string s) with _ -> s
let rec norm_floats = function
  | S.L [S.A "flt"; S.A h] -> S.L [S.A "flt"; S.A (norm_float_text (S.string_of_hex h))]
  | S.L l -> S.L (List.map norm_floats l)
  | x -> x

let float_table (sec : S.t) : nat list -> bool =
  let tbl = Hashtbl.create 16 in
  (match sec with
   | S.L (S.A "floats" :: l) ->
     List.iter (function S.L [t; ok] -> Hashtbl.replace tbl (S.string_of_hex (S.atom t)) (S.int ok <> 0) | _ -> ()) l
   | _ -> ());
  fun tok -> (match Hashtbl.find_opt tbl (string_of_bytes tok) with Some b -> b | None -> false)

let parse_res float_ok (bs : nat list) : S.t =
  match Model.parse_value float_ok bs false with
  | ROk (v, _) -> S.L [S.A "ok"; sexp_of_pv v]
  | RErr _ -> S.L [S.A "err"]
  | RFuel -> S.L [S.A "fuel"]

let find_sec name = function
  | S.L l -> (match List.find_opt (function S.L (S.A n :: _) when n = name -> true | _ -> false) l with
      | Some x -> x | None -> S.L [S.A name])
  | _ -> S.L [S.A name]

(* the value a writer output must read back as *)
let rec expected_pv (sdl : bool) = function
  | WNull -> PNull
  | WBool b -> PBool b
  | WNum t -> (match Model.parse_int64 t with Some z -> PInt z | None -> PFloat t)
  | WStr s -> PStr (List.concat_map (fun r -> List.map (fun b -> SB b) r.wr_utf8) s)
  | WSym s -> if sdl then PSym (List.concat_map (fun r -> r.wr_utf8) s) else PStr (List.concat_map (fun r -> List.map (fun b -> SB b) r.wr_utf8) s)
  | WVar s -> if sdl then PVar (List.concat_map (fun r -> r.wr_utf8) s)
    else PStr (SB (nat_of_int 36) :: List.concat_map (fun r -> List.map (fun b -> SB b) r.wr_utf8) s)
  | WTime t -> PStr (List.map (fun b -> SB b) t)
  | WOther t -> PStr (List.concat_map (fun r -> List.map (fun b -> SB b) r.wr_utf8) t)
  | WList l -> PList (List.map (expected_pv sdl) l)
  | WMap kvs -> PMap (List.map (fun (k, v) -> (List.concat_map (fun r -> List.map (fun b -> SB b) r.wr_utf8) k, expected_pv sdl v)) kvs)

let run_c18 (input : S.t) (observed : S.t) : S.t * string =
  match input with
  | S.L [S.A "val"; v; ind] ->
    let w = wv_of v in
    let indent = z_of_int (S.int ind) in
    let sdl = Model.write_value true indent w O in
    let js = Model.write_value false indent w O in
    let ftab = find_sec "floats" observed in
    let float_ok = float_table ftab in
    let parsed = parse_res float_ok sdl in
    let jparsed = parse_res float_ok js in
    let stdjson = (match Model.json_parse js with
        | Some j -> if j = Model.to_json w then "same" else "differs"
        | None -> "invalid") in
    let expected = S.L [S.L [S.A "sdl"; hex_of_bytes sdl]; S.L [S.A "json"; hex_of_bytes js];
                        S.L [S.A "parsed"; parsed]; S.L [S.A "jparsed"; jparsed];
                        S.L [S.A "unsorted-parsed"; parsed]; S.L [S.A "stdjson"; S.A stdjson]; ftab] in
    (* oracle on the implementation's own output: what it wrote reads back as the value it was given *)
    let want_sdl = S.to_string (norm_floats (S.L [S.A "ok"; sexp_of_pv (expected_pv true w)])) in
    let want_js = S.to_string (norm_floats (S.L [S.A "ok"; sexp_of_pv (expected_pv false w)])) in
    let got name = (match find_sec name observed with S.L [_; x] -> S.to_string (norm_floats x) | _ -> "?") in
    let verdict =
      if got "parsed" <> want_sdl then "fails:sdl-text-does-not-parse-back-to-the-value"
      else if got "unsorted-parsed" <> want_sdl then "fails:unsorted-sdl-text-does-not-parse-back-to-the-value"
      else if got "jparsed" <> want_js then "fails:json-text-does-not-parse-back-to-the-value"
      else if (match find_sec "stdjson" observed with S.L [_; S.A "same"] -> false | _ -> true) then "fails:json-text-rejected-or-decoded-differently-by-a-standard-json-parser"
      else (match find_sec "json" observed with
          | S.L [_; jb] -> (match Model.json_parse (bytes_of_hex jb) with
              | Some j -> if j = Model.to_json w then "holds" else "fails:json-text-decodes-to-another-structure-(reference-reader)"
              | None -> "fails:json-text-is-not-valid-json-(reference-reader)")
          | _ -> "fails:malformed-observation") in
    (norm_floats expected, verdict)
  | _ -> failwith "text: c18 input"

let run_c03 (input : S.t) (observed : S.t) : S.t * string =
  match input with
  | S.L (S.A "bytes" :: S.A entry :: data :: rest) ->
    let cls = (match observed with S.L (S.A "class" :: S.A c :: _) -> c | _ -> "?") in
    let verdict = if cls = "ok" || cls = "error" then "holds" else "fails:" ^ cls in
    (* reader modes of the value entry that run in process: r1 (EOF with the last bytes) and r2 (one byte
       per Read) deliver the same bytes; r3kN fails after N bytes: the model's failing reader *)
    let mode = (match rest with [] -> Some (None) | [S.A "r1"] | [S.A "r2"] -> Some None
                              | [S.A r] when String.length r > 3 && String.sub r 0 3 = "r3k" ->
                                (match int_of_string_opt (String.sub r 3 (String.length r - 3)) with Some k -> Some (Some k) | None -> None)
                              | _ -> None) in
    if entry = "value" && mode <> None then begin
      let ftab = find_sec "floats" observed in
      let float_ok = float_table ftab in
      let bytes = bytes_of_hex data in
      let rec take k l = if k <= 0 then [] else (match l with [] -> [] | x :: r -> x :: take (k - 1) r) in
      let (bytes, flt) = (match mode with Some (Some k) -> (take k bytes, true) | _ -> (bytes, false)) in
      let expected =
        (match Model.parse_value float_ok bytes flt with
         | ROk (v, _) -> S.L [S.A "class"; S.A "ok"; norm_floats (sexp_of_pv v); ftab]
         | RErr _ -> S.L [S.A "class"; S.A "error"; S.A "-"; ftab]
         | RFuel -> S.L [S.A "class"; S.A "fuel"; S.A "-"; ftab]) in
      (expected, verdict)
    end else
      (* no byte-level model of this entry point yet: the outcome class must be a result or an error *)
      ((if cls = "ok" || cls = "error" then observed else S.L [S.A "class"; S.A "ok-or-error"]), verdict)
  | _ -> failwith "text: c03 input"

let run (prop : string) (input : S.t) (observed : S.t) : S.t * string =
  if prop = "C18" then run_c18 input observed else run_c03 input (norm_floats observed)
