#!/usr/bin/env python3
"""scshow.py <prop> <pattern>: for the first case whose modelrun line matches, print message and SDL."""
import sys,re,json,subprocess
from binascii import unhexlify
prop,pat=sys.argv[1],sys.argv[2]
n=int(sys.argv[3]) if len(sys.argv)>3 else 0
ids=[l.split(' ')[0] for l in open('/tmp/%s.out'%prop) if pat in l]
if not ids: sys.exit('none')
cid=ids[min(n,len(ids)-1)]
print('==',cid, len(ids),'matching')
print(subprocess.run(['/verif/tools/mm3.py','/tmp/%s.cases'%prop,cid],capture_output=True,text=True).stdout[:6000])
for l in open('/tmp/%s.cases'%prop):
    if l.startswith('(case %s '%cid):
        obs=l[l.find('(loads'):]
        for m in re.finditer(r'\(r (\w+) \(cites.*?\) x([0-9a-f]*) \(same ([01 ]*)\)',obs):
            print(m.group(1), m.group(3), unhexlify(m.group(2)).decode()[:400])
