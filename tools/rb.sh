#!/bin/bash
# rebuild coq + model + harness quickly (dev aid)
set -e -o pipefail
export GOFLAGS=-mod=mod GOPROXY=off GOSUMDB=off GOTOOLCHAIN=local
(cd /verif/coq && timeout 1200 make -j16 > /tmp/rb_make.log 2>&1 || { grep -v "^Closed under\|^COQC\|^COQDEP" /tmp/rb_make.log | head -40; exit 1; })
(cd /verif/model && ./build.sh)
(cd /verif/harness && go build -tags verif -o h ./cmd/h)
