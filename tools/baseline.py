#!/usr/bin/env python3
"""Run /repo's test suite (guard off) and compare with /root/.vp/BASELINE.json stable_pass."""
import json, subprocess, os, sys
env = dict(os.environ, GOFLAGS='-mod=mod', GOPROXY='off', GOSUMDB='off', GOTOOLCHAIN='local')
repo = sys.argv[1] if len(sys.argv) > 1 else '/repo'
p = subprocess.run(['go', 'test', '-json', '-vet=off', '-count=1', '-timeout', '25m', './...'], cwd=repo, env=env, capture_output=True, text=True)
res = {}
for line in p.stdout.splitlines():
    try: d = json.loads(line)
    except Exception: continue
    if d.get('Test') and d.get('Action') in ('pass', 'fail', 'skip') and '/' not in d['Test']:
        res[d['Package'] + '::' + d['Test']] = d['Action']
base = json.load(open('/root/.vp/BASELINE.json'))
bad = [t for t in base['stable_pass'] if res.get(t) != 'pass']
print('stable tests passing: %d/%d' % (len(base['stable_pass']) - len(bad), len(base['stable_pass'])))
for t in bad: print('  NOT PASSING:', t, res.get(t))
if not res: print(p.stdout[-2000:], p.stderr[-2000:])
sys.exit(1 if bad else 0)
