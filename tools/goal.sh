#!/bin/bash
# usage: goal.sh <file.v> <line>  -- show the proof state after <line> lines (debug aid, not part of any check)
f=$1; n=$2
d=$(mktemp -d /tmp/goalXXXX)
head -n "$n" "$f" > $d/G.v
printf '\nShow.\n' >> $d/G.v
cd /verif/coq && timeout 120 coqc -Q theories GG $d/G.v 2>&1 | head -${3:-60}
rm -rf $d
