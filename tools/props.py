"""Per-property configuration of ./check (what is compared, how evidence is described)."""

COMMON_TB = [
    'Coq 8.16.1 kernel (coqc, full .vo build; no -vos); vm_compute used only in Example/refuted witnesses and finite sweeps; native_compute not used',
    'no Axiom/Parameter/Admitted in the development (grep-checked on every run over the cone of the property file)',
    'extraction: Require Extraction + ExtrOcamlBasic only (bool, option, unit, list, prod, sumbool, sumor; andb/orb inlined); nat/N/Z/positive stay extracted datatypes; no Extract Constant of our own',
    'OCaml 4.13.1 compiler and the hand-written driver model/*.ml (case reader, conversions, printers)',
    'Go correspondence harness /verif/harness (generators, canonicalisation), built with -tags verif against /repo working tree',
]

PROPS = {
    'C19': {
        'level': 'proof',
        'correspondence': 'Registry.run == root.subscribe/AddEvent/Unsubscribe on histories',
        'rule': ('histories over {subscribe, publish, unsubscribe}: every history up to length 3 (quick) / 4 (thorough) over a 14-letter '
                 'alphabet (4 match patterns x 2 failure patterns, 3 event ids) plus seeded random histories up to length 12/16 with 1-3 ids, '
                 'random selections and failure schedules; run on the real registry and on the extracted Coq model, outputs compared call by call '
                 '(count, error flag, deliveries in order with message content, clean-ups as a set). non-trivial = some subscriber registered, '
                 'some later publish, and either a failing delivery or an unsubscribe after a subscribe; distinct = by input text'),
        'explanation': ('Theorems C19_refines, C19_delivery_exact, C19_cleanup_once_nothing_after, C19_unsubscribe_exact (Coq, all finite histories, '
                        'no bound) about the model Registry.v; the model is tied to root.go by running both on the same histories.'),
        'trusted_base': COMMON_TB + ['modelled rather than verified: pkg/ggql/root.go subscribe/Unsubscribe/AddEvent, Subscription.prep; '
                                     'subscriber Send/Match/Unsubscribe are data of the case (failure schedules), rendering is the harness event resolver'],
        'assumptions': ['each *Subscription value is registered once (fresh identities; a resolver returning the same *Subscription twice is outside the claim)',
                        'subscriber callbacks do not re-enter the root', 'single goroutine (C20 covers concurrency)'],
    },
    'C20': {
        'level': 'proof',
        'correspondence': 'Sched.exec == real registry under the same block-level schedule (verif yield hooks)',
        'rule': ('(threads, schedule): threads are concurrent calls subscribe/publish/unsubscribe; a schedule is a complete interleaving of their '
                 'critical sections (subscribe 1, unsubscribe 1, publish 2), forced on the real code through the verif yield hooks placed before every '
                 'subLock.Lock(); three named scenarios (two publishers failing on the same subscriber while unsubscribe races; etc.) are interleaved '
                 'exhaustively, random mixes of 2-4 (thorough 2-5) calls get up to 40 (400) sampled interleavings each; the observed block log is compared with '
                 'the extracted model run of the same schedule and checked with the extracted once/visible/trace_ok predicates. '
                 'non-trivial = has a subscribe and a publish and (a publish whose two sections are separated by another call, or an unsubscribe, or a failing '
                 'subscriber); distinct = by input text. Supporting legs: lock-discipline scan (every access to root.subscriptions lies under subLock) and a '
                 'free-running stress under the Go race detector with log checks.'),
        'explanation': ('Theorems C20_safe_cleanup_once_no_late_delivery, C20_once, C20_visible, C20_no_deadlock, C20_checks_hold (Coq, every schedule, any number '
                        'of threads) about the interleaving model Sched.v built on the registry model; tied to root.go by forcing the same schedules on the real code. '
                        'PARTIAL: the theorem assumes each critical section is atomic and the mutex is a correct lock; memory-level data races and the Go scheduler '
                        'are outside the model and are looked for by the race-detector leg and the lock-discipline scan.'),
        'trusted_base': COMMON_TB + ['modelled rather than verified: root.go subscribe/Unsubscribe/AddEvent as sequences of critical sections under subLock; sync.Mutex assumed correct',
                                     'verif yield hooks (add-only, build tag verif) and the harness scheduler that runs one goroutine at a time',
                                     'Go race detector (-race) and cmd/lockscan for the atomicity assumption'],
        'assumptions': ['critical sections under root.subLock are atomic (checked syntactically by lockscan and dynamically by -race stress, not proved)',
                        'subscriber callbacks do not re-enter the root (would self-deadlock on the non-reentrant mutex)',
                        'each *Subscription value is registered once'],
        'legs': [('lockscan', 'subLock', 'subscriptions'), ('stress', 'stress20', 6, 120)],
    },
}
