"""Per-property configuration of ./check (what is compared, how evidence is described)."""

COMMON_TB = [
    'Coq 8.16.1 kernel (coqc, full .vo build; no -vos); vm_compute used only in Example/refuted witnesses and finite sweeps; native_compute not used',
    'no Axiom/Parameter/Admitted in the development (grep-checked on every run over the cone of the property file)',
    'extraction: Require Extraction + ExtrOcamlBasic only (bool, option, unit, list, prod, sumbool, sumor; andb/orb inlined); nat/N/Z/positive stay extracted datatypes; no Extract Constant of our own',
    'OCaml 4.13.1 compiler and the hand-written driver model/*.ml (case reader, conversions, printers)',
    'Go correspondence harness /verif/harness (generators, canonicalisation), built with -tags verif against /repo working tree',
]

PROPS = {
    'C19': {
        'level': 'proof',
        'correspondence': 'Registry.run == root.subscribe/AddEvent/Unsubscribe on histories',
        'rule': ('histories over {subscribe, publish, unsubscribe}: every history up to length 3 (quick) / 4 (thorough) over a 14-letter '
                 'alphabet (4 match patterns x 2 failure patterns, 3 event ids) plus seeded random histories up to length 12/16 with 1-3 ids, '
                 'random selections and failure schedules; run on the real registry and on the extracted Coq model, outputs compared call by call '
                 '(count, error flag, deliveries in order with message content, clean-ups as a set). non-trivial = some subscriber registered, '
                 'some later publish, and either a failing delivery or an unsubscribe after a subscribe; distinct = by input text'),
        'explanation': ('Theorems C19_refines, C19_delivery_exact, C19_cleanup_once_nothing_after, C19_unsubscribe_exact (Coq, all finite histories, '
                        'no bound) about the model Registry.v; the model is tied to root.go by running both on the same histories.'),
        'trusted_base': COMMON_TB + ['modelled rather than verified: pkg/ggql/root.go subscribe/Unsubscribe/AddEvent, Subscription.prep; '
                                     'subscriber Send/Match/Unsubscribe are data of the case (failure schedules), rendering is the harness event resolver'],
        'assumptions': ['each *Subscription value is registered once (fresh identities; a resolver returning the same *Subscription twice is outside the claim)',
                        'subscriber callbacks do not re-enter the root', 'single goroutine (C20 covers concurrency)'],
    },
    'C20': {
        'level': 'proof',
        'correspondence': 'Sched.exec == real registry under the same block-level schedule (verif yield hooks)',
        'rule': ('(threads, schedule): threads are concurrent calls subscribe/publish/unsubscribe; a schedule is a complete interleaving of their '
                 'critical sections (subscribe 1, unsubscribe 1, publish 2), forced on the real code through the verif yield hooks placed before every '
                 'subLock.Lock(); three named scenarios (two publishers failing on the same subscriber while unsubscribe races; etc.) are interleaved '
                 'exhaustively, random mixes of 2-4 (thorough 2-5) calls get up to 40 (400) sampled interleavings each; the observed block log is compared with '
                 'the extracted model run of the same schedule and checked with the extracted once/visible/trace_ok predicates. '
                 'non-trivial = has a subscribe and a publish and (a publish whose two sections are separated by another call, or an unsubscribe, or a failing '
                 'subscriber); distinct = by input text. Supporting legs: lock-discipline scan (every access to root.subscriptions lies under subLock) and a '
                 'free-running stress under the Go race detector with log checks.'),
        'explanation': ('Theorems C20_safe_cleanup_once_no_late_delivery, C20_once, C20_visible, C20_no_deadlock, C20_checks_hold (Coq, every schedule, any number '
                        'of threads) about the interleaving model Sched.v built on the registry model; tied to root.go by forcing the same schedules on the real code. '
                        'PARTIAL: the theorem assumes each critical section is atomic and the mutex is a correct lock; memory-level data races and the Go scheduler '
                        'are outside the model and are looked for by the race-detector leg and the lock-discipline scan.'),
        'trusted_base': COMMON_TB + ['modelled rather than verified: root.go subscribe/Unsubscribe/AddEvent as sequences of critical sections under subLock; sync.Mutex assumed correct',
                                     'verif yield hooks (add-only, build tag verif) and the harness scheduler that runs one goroutine at a time',
                                     'Go race detector (-race) and cmd/lockscan for the atomicity assumption'],
        'assumptions': ['critical sections under root.subLock are atomic (checked syntactically by lockscan and dynamically by -race stress, not proved)',
                        'subscriber callbacks do not re-enter the root (would self-deadlock on the non-reentrant mutex)',
                        'each *Subscription value is registered once'],
        'legs': [('lockscan', 'subLock', 'subscriptions'), ('stress', 'stress20', 6, 120)],
    },
    'C01': {
        'level': 'proof',
        'correspondence': 'Exec.exec_op == Root.ResolveExecutable on (schema, graph, document, call); oracle ExecSpec.sem_op (data, calls)',
        'rule': 'random (schema, typed data graph, document, call) cases: schemas of 2-4 object types, optional interface and union, enums, custom scalar, fields with wrappers up to list-of-list/non-null and 0-2 arguments; data graphs with 1-3 nodes per type incl. cycles, nulls, empty lists, ListResolver / []interface{} / AnyResolver-served lists, failing resolvers and accessors, a few ill-typed leaves and wrongly-typed nodes; per-type strategy Resolver or AnyResolver; documents of depth <= 4 with aliases, __typename, inline and named fragments (conditions: same type, possible type, implemented interface, containing union, unrelated), @skip/@include with literals and variables (defaults, unset), arguments as literals or variables, 1-3 operations, valid and invalid operation names. The real library and the extracted model run the same case; data, error multiset (path, location, kind) and resolver call log are compared; the extracted specification ExecSpec.sem_op is evaluated as oracle on the output of the library. non-trivial = at least two of {alias, named fragment, inline fragment, list, several operations, variable, directive, abstract field, resolver failure, argument}; distinct by input text.',
        'explanation': 'Theorems C01_data_exact (executor model refines the stateless entry-list specification for every schema/graph/document with declared arguments/variables/state/fuel; data equal entry for entry when no response key repeats), C01_op_choice, C01_op_named, C01_one_entry_per_selection, C01_typename; C01_refuted_dupkey records finding F12. Lock-step proof ExecSpec_proofs.lockstep (7 mutually recursive functions).',
        'trusted_base': COMMON_TB + ['modelled rather than verified: pkg/ggql/resolve.go (ResolveExecutable operation choice and variable binding, resolve, resolveList, resolveFieldSels, resolveSels, skipSel, formArgs, replaceArgVars for scalar arguments, resolveField incl. ConType/sortArgs first-visit block, __typename, strategy switch Resolver/AnyResolver, addError flattening, path prefixing, resolveInline, resolveFragRef, condApplies), field.go sortArgs; reflection strategy only as the fallback outcome on non-node values',
                                     'resolver behaviour (values, failures, echo of an argument), Go type bindings (every object type registered to its own Go type) and the JSON-shaped variable values are data of the case',
                                     'leaf coercion on the small Go-value universe of Exec.v (C04/C05 cover the full universe)'],
        'assumptions': ['documents satisfy wf_doc (every supplied argument declared by every type defining the field, no repeated argument) - checked per case by the extracted wf_doc; others are compared model-vs-code only', 'object types are registered to Go types (RegisterType) before resolving', 'within MaxResolveDepth (the specification carries the same depth cut-off)', 'selection sets producing two entries with one response key are finding F12 (known)'],
    },
    'C06': {
        'level': 'proof',
        'correspondence': 'Exec.exec_op == Root.ResolveExecutable; oracle ExecSpec.sem_op (error multiset after erasing fragment segments, data)',
        'rule': 'random (schema, typed data graph, document, call) cases: schemas of 2-4 object types, optional interface and union, enums, custom scalar, fields with wrappers up to list-of-list/non-null and 0-2 arguments; data graphs with 1-3 nodes per type incl. cycles, nulls, empty lists, ListResolver / []interface{} / AnyResolver-served lists, failing resolvers and accessors, a few ill-typed leaves and wrongly-typed nodes; per-type strategy Resolver or AnyResolver; documents of depth <= 4 with aliases, __typename, inline and named fragments (conditions: same type, possible type, implemented interface, containing union, unrelated), @skip/@include with literals and variables (defaults, unset), arguments as literals or variables, 1-3 operations, valid and invalid operation names. The real library and the extracted model run the same case; data, error multiset (path, location, kind) and resolver call log are compared; the extracted specification ExecSpec.sem_op is evaluated as oracle on the output of the library. This profile injects failures densely (22% of fields fail, grouped errors, failing list accessors, 10% ill-typed leaves). non-trivial as for C01 and must contain a failure; distinct by input text.',
        'explanation': 'Theorems C06_errors_exact (bottom-up prefixed error paths of the executor = top-down response paths of the specification, as multisets with location and kind, for every input), C06_failure_at_position, C06_nth_failure, C06_coercion_failure; C06_refuted_fragment_segment records finding F11. PARTIAL: the frame clause (positions not below a failure keep the value they have without the failure) is carried by the correspondence + oracle, not yet by a theorem; a resolver returning a value together with an error keeps the value (assumed not to happen: failing resolvers return nil).',
        'trusted_base': COMMON_TB + ['modelled rather than verified: pkg/ggql/resolve.go (ResolveExecutable operation choice and variable binding, resolve, resolveList, resolveFieldSels, resolveSels, skipSel, formArgs, replaceArgVars for scalar arguments, resolveField incl. ConType/sortArgs first-visit block, __typename, strategy switch Resolver/AnyResolver, addError flattening, path prefixing, resolveInline, resolveFragRef, condApplies), field.go sortArgs; reflection strategy only as the fallback outcome on non-node values',
                                     'resolver behaviour (values, failures, echo of an argument), Go type bindings (every object type registered to its own Go type) and the JSON-shaped variable values are data of the case',
                                     'leaf coercion on the small Go-value universe of Exec.v (C04/C05 cover the full universe)'],
        'assumptions': ['wf_doc as in C01', 'a failing resolver returns a nil value', 'errors inside named-fragment spreads carry an extra path segment: finding F11 (known; the theorem erases those segments)'],
    },
    'C08': {
        'level': 'proof',
        'correspondence': 'Exec.exec_op == Root.ResolveExecutable; oracle ExecSpec.sem_op (data)',
        'rule': 'random (schema, typed data graph, document, call) cases: schemas of 2-4 object types, optional interface and union, enums, custom scalar, fields with wrappers up to list-of-list/non-null and 0-2 arguments; data graphs with 1-3 nodes per type incl. cycles, nulls, empty lists, ListResolver / []interface{} / AnyResolver-served lists, failing resolvers and accessors, a few ill-typed leaves and wrongly-typed nodes; per-type strategy Resolver or AnyResolver; documents of depth <= 4 with aliases, __typename, inline and named fragments (conditions: same type, possible type, implemented interface, containing union, unrelated), @skip/@include with literals and variables (defaults, unset), arguments as literals or variables, 1-3 operations, valid and invalid operation names. The real library and the extracted model run the same case; data, error multiset (path, location, kind) and resolver call log are compared; the extracted specification ExecSpec.sem_op is evaluated as oracle on the output of the library. This profile is dense in inline fragments (30%) and named fragments with conditions on possible types, implemented interfaces and containing unions. non-trivial as for C01; distinct by input text.',
        'explanation': 'Theorems C08_applies, C08_applies_iff (condApplies = is / implements / member-of), C08_interface_concrete, C08_concrete_type_bound, C08_union_member, C08_typename plus the C01 refinement; defect F05 repaired by fix commit 2bc0186.',
        'trusted_base': COMMON_TB + ['modelled rather than verified: pkg/ggql/resolve.go (ResolveExecutable operation choice and variable binding, resolve, resolveList, resolveFieldSels, resolveSels, skipSel, formArgs, replaceArgVars for scalar arguments, resolveField incl. ConType/sortArgs first-visit block, __typename, strategy switch Resolver/AnyResolver, addError flattening, path prefixing, resolveInline, resolveFragRef, condApplies), field.go sortArgs; reflection strategy only as the fallback outcome on non-node values',
                                     'resolver behaviour (values, failures, echo of an argument), Go type bindings (every object type registered to its own Go type) and the JSON-shaped variable values are data of the case',
                                     'leaf coercion on the small Go-value universe of Exec.v (C04/C05 cover the full universe)'],
        'assumptions': ['every object type is bound to a Go type (registration); the interface-resolver-only case without binding is outside the claim as the property says'],
    },
    'C09': {
        'level': 'proof',
        'correspondence': 'Exec.exec_op == Root.ResolveExecutable; oracle ExecSpec.sem_op (data keys, calls)',
        'rule': 'the full table {absent, literal true/false, variable true/false, defaulted variable true/false}^2 x both orders x {field, inline fragment, fragment spread} x depth 1-3 (882 documents) on a fixed schema, then random (schema, typed data graph, document, call) cases: schemas of 2-4 object types, optional interface and union, enums, custom scalar, fields with wrappers up to list-of-list/non-null and 0-2 arguments; data graphs with 1-3 nodes per type incl. cycles, nulls, empty lists, ListResolver / []interface{} / AnyResolver-served lists, failing resolvers and accessors, a few ill-typed leaves and wrongly-typed nodes; per-type strategy Resolver or AnyResolver; documents of depth <= 4 with aliases, __typename, inline and named fragments (conditions: same type, possible type, implemented interface, containing union, unrelated), @skip/@include with literals and variables (defaults, unset), arguments as literals or variables, 1-3 operations, valid and invalid operation names. The real library and the extracted model run the same case; data, error multiset (path, location, kind) and resolver call log are compared; the extracted specification ExecSpec.sem_op is evaluated as oracle on the output of the library. with directives on 60% of selections. non-trivial = carries a directive; distinct by input text.',
        'explanation': 'Theorems C09_inclusion (skipSel = inclusion rule for every directive list and variable map), C09_included_iff, C09_order_independent, C09_no_effect_spec, C09_no_effect_model, C09_table (finite table by vm_compute); defect F04 repaired by fix commit ee72641.',
        'trusted_base': COMMON_TB + ['modelled rather than verified: pkg/ggql/resolve.go (ResolveExecutable operation choice and variable binding, resolve, resolveList, resolveFieldSels, resolveSels, skipSel, formArgs, replaceArgVars for scalar arguments, resolveField incl. ConType/sortArgs first-visit block, __typename, strategy switch Resolver/AnyResolver, addError flattening, path prefixing, resolveInline, resolveFragRef, condApplies), field.go sortArgs; reflection strategy only as the fallback outcome on non-node values',
                                     'resolver behaviour (values, failures, echo of an argument), Go type bindings (every object type registered to its own Go type) and the JSON-shaped variable values are data of the case',
                                     'leaf coercion on the small Go-value universe of Exec.v (C04/C05 cover the full universe)'],
        'assumptions': ['conditions are Boolean literals or variables (validated at parse time); a non-Boolean variable value excludes the selection and is reported'],
    },
    'C11': {
        'level': 'proof',
        'correspondence': 'Exec.exec_op threaded over call histories == ResolveExecutable on one parsed Executable; oracle: stateless ExecSpec.sem_op per call + Executable.String() before/after',
        'rule': 'random (schema, typed data graph, document, call) cases: schemas of 2-4 object types, optional interface and union, enums, custom scalar, fields with wrappers up to list-of-list/non-null and 0-2 arguments; data graphs with 1-3 nodes per type incl. cycles, nulls, empty lists, ListResolver / []interface{} / AnyResolver-served lists, failing resolvers and accessors, a few ill-typed leaves and wrongly-typed nodes; per-type strategy Resolver or AnyResolver; documents of depth <= 4 with aliases, __typename, inline and named fragments (conditions: same type, possible type, implemented interface, containing union, unrelated), @skip/@include with literals and variables (defaults, unset), arguments as literals or variables, 1-3 operations, valid and invalid operation names. The real library and the extracted model run the same case; data, error multiset (path, location, kind) and resolver call log are compared; the extracted specification ExecSpec.sem_op is evaluated as oracle on the output of the library. Histories of 2-8 calls on one parsed document varying operation and variables (incl. omitted after supplied); each response is compared with the model threaded over the same history and with the stateless specification; the printed form before and after is compared. non-trivial as for C01; distinct by input text.',
        'explanation': 'Theorems C11_state_independent, C11_repeatable (every call of every finite history returns what a fresh parse returns, for every AST state the earlier calls left); C11_print_refuted records finding F08a (argument re-ordering changes the printed form). PARTIAL: list/object literals containing variables (finding F08, in-place substitution) are outside the model of this commit.',
        'trusted_base': COMMON_TB + ['modelled rather than verified: pkg/ggql/resolve.go (ResolveExecutable operation choice and variable binding, resolve, resolveList, resolveFieldSels, resolveSels, skipSel, formArgs, replaceArgVars for scalar arguments, resolveField incl. ConType/sortArgs first-visit block, __typename, strategy switch Resolver/AnyResolver, addError flattening, path prefixing, resolveInline, resolveFragRef, condApplies), field.go sortArgs; reflection strategy only as the fallback outcome on non-node values',
                                     'resolver behaviour (values, failures, echo of an argument), Go type bindings (every object type registered to its own Go type) and the JSON-shaped variable values are data of the case',
                                     'leaf coercion on the small Go-value universe of Exec.v (C04/C05 cover the full universe)'],
        'assumptions': ['wf_doc as in C01', 'scalar arguments only (no list / input-object literals)', 'printed form changes when arguments are not written in declaration order: finding F08a (known)'],
    },
    'C10': {
        'level': 'proof',
        'correspondence': 'Exec.exec_op / Exec.doc_rejects == ParseExecutable + ResolveExecutable on documents with one injected defect; property-shaped oracle',
        'rule': ('valid generated (schema, graph, document) cases as for C01 into which exactly one defect of the catalogue is injected at a random field selection '
                 '(any depth, any container kind incl. interface / union member / root type): unknown field, undeclared argument, missing required argument, unknown directive, '
                 'misplaced directive (@deprecated on a field), inline fragment on an undefined type, fragment definition on an undefined type; every fifth case resolves the parsed '
                 'document three times. Compared: rejection-before-execution flag, data, error multiset, call log (model vs code); oracle: the response is rejected or carries an error of the '
                 'right kind located at the defective selection whenever the extracted specification says the selection is reached, and no call carries the undefined field / argument. '
                 'non-trivial = a defect was placed; distinct by input text.'),
        'explanation': ('Theorems C10_unknown_field, C10_undeclared_argument (first and every later visit), C10_missing_required_reported, C10_argument_errors_no_call, '
                        'C10_siblings_after_unknown_field, C10_unknown_directive_rejected, C10_undefined_inline_condition_rejected about the executor model, for every container type and depth; '
                        'C10_refuted_fragment_on_undefined_type records finding F10a; defects F10b, F10c repaired by fix commits 9ef6df0, af9bccf. PARTIAL: directive validation and type-condition '
                        'resolution happen in the parser/validator, which is modelled only as the rejection predicate doc_rejects (not byte-level); the __type(name:) meta-field is outside this model.'),
        'trusted_base': COMMON_TB + ['modelled rather than verified: resolve.go resolveField/formArgs/sortArgs/getFieldDef; the parser+validator only as Exec.doc_rejects (directive known-and-allowed, inline type condition defined, repeated argument)',
                                     'error kinds are recognised on the Go side by message text (the message names the field / argument)'],
        'assumptions': ['exactly one defect per document', 'object types registered to Go types', 'fragment definitions on undefined types are finding F10a (known, pinned by the test-suite)'],
    },
    'C04': {
        'level': 'proof',
        'correspondence': 'Coerce.coerce_input == InCoercer.CoerceIn of the library type objects; oracle Coerce.conforms / Coerce.denotes',
        'rule': ('leaf sweep: every input leaf type (Int, Int64, Float, Float64, String, Boolean, ID, Time, enum), bare and under NonNull, x a zoo of ~330 Go values: every integer kind '
                 '(int..uint64) at 0, +-1, 127/128/255, 32767/65535, +-2^31 and +-1 around, 2^32 and +-1, 2^53+1, +-2^63, 2^64-1; float64 and float32 incl. 2^31, 2^32+1, 2^53+1, +-9.3e18, +-1e39 (float32 overflow), '
                 '3.4e38, 1e-50, NaN, +-Inf; 20 strings (numeric, out-of-range numeric, boolean words, RFC 3339, empty, padded); symbols (member / not), times, a foreign struct; then random nestings of lists, '
                 'non-null and two input-object types (required field, default, list field, nested input, undeclared keys) with values of the right family and leaves of the zoo. Floats, strconv and time '
                 'results are computed by Go and enter the model as abstract facts. non-trivial = every case (each is a distinct type x value); distinct by input text.'),
        'explanation': ('Theorems C04_delivered_values_conform (coerce_input_sound: for every input type expression and every value, a successful coercion delivers a value that conforms to the declared '
                        'type and denotes what the client wrote), C04_reject (contrapositive), C04_non_null; defects F07 repaired by fix commits. PARTIAL: the end-to-end path (literals and variables of a '
                        'request reaching a resolver) is covered for scalar and enum arguments by the executor model (C01 call log) and for lists/input objects only at this leaf level; reflection-strategy '
                        'arguments (finding F03) are outside.'),
        'trusted_base': COMMON_TB + ['modelled rather than verified: CoerceIn of intscalar.go, int64scalar.go, floatscalar.go, float64scalar.go, stringscalar.go, booleanscalar.go, idscalar.go, timescalar.go, enum.go, list.go, nonnull.go, input.go (map values, no registered Go struct)',
                                     'IEEE arithmetic, strconv.ParseInt/ParseFloat/ParseBool/FormatFloat and time.Parse/Format are Go\'s: their results enter the model as data of the case (flt / str records)'],
        'assumptions': ['Go map keys are distinct; declared defaults conform to their field types (schema validation)', 'Relaxed = false'],
    },
    'C05': {
        'level': 'proof',
        'correspondence': 'Coerce.leaf_out == OutCoercer.CoerceOut of the library type objects; oracle Coerce.has_shape / out_faithful; the composite levels are the executor theorems (C01/C06)',
        'rule': ('leaf sweep: every output leaf type (Int, Int64, Float, Float64, String, Boolean, ID, Time, enum) x the same zoo of ~330 Go values as C04 (every numeric kind and boundary, numeric and '
                 'non-numeric strings, NaN/Inf, wrong kinds, times, foreign values); typed slices and ill-typed leaves inside whole responses are exercised by the executor checks (C01/C06 profiles). '
                 'non-trivial = every case; distinct by input text.'),
        'explanation': ('Theorems C05_leaf_well_typed (output coercion yields the declared JSON shape or fails), C05_no_leak (a failing coercion returns nil: nothing unconverted reaches the response), '
                        'C05_leaf_faithful (no wrapping / re-interpretation); C05_refuted_enum_membership records finding F06e; six defects repaired by fix commits. PARTIAL: object/list shape and null-plus-error '
                        'placement are carried by the executor refinement (C01/C06), where leaf coercion is modelled on a smaller value universe.'),
        'trusted_base': COMMON_TB + ['modelled rather than verified: CoerceOut of the scalar files and enum.go; resolve.go stores what CoerceOut returns',
                                     'IEEE arithmetic, strconv and time formatting are Go\'s (abstract facts supplied by the harness)'],
        'assumptions': ['within MaxResolveDepth', 'enum leaves are not checked for membership: finding F06e (known, pinned by the test-suite)'],
    },
    'C18': {
        'level': 'proof',
        'correspondence': 'Text.write_value == WriteSDLValue/WriteJSONValue byte for byte; Text.parse_value == ParseValueString on the written text; Json.json_parse (RFC 8259 reference reader) and encoding/json on the JSON text',
        'rule': ('random values of depth <= 4 over null, booleans, integers (incl. +-2^31, 2^32+1, 2^53+1, +-2^63 boundaries), non-integral finite float64/float32, strings over an alphabet of 37 runes '
                 '(quotes, backslash, slash, all short escapes, NUL, U+0001, U+001F, DEL, structural punctuation, 2-, 3- and 4-byte runes, U+FFFD, U+D7FF, U+E000), name symbols, variables, lists, maps '
                 'with name keys (every tenth case also non-name keys); indent -1 / 0 / 2; sorted key order byte-compared, unsorted order parsed back. non-trivial = has a container, an escape-needing string or a non-name key; distinct by input text.'),
        'explanation': ('Executable byte-level model of the scanner, value reader and value writer (Text.v) plus an independent RFC 8259 reader (Json.v); theorems: scanner-level totality and read-back lemmas '
                        '(see Properties/C18.v); the unbounded round-trip statement for whole values is carried in this commit by the correspondence (model = code on bytes) plus the oracle (what the '
                        'library wrote reads back, by the library, by the reference reader and by encoding/json, as the value it was given); defect F18 repaired by fix commit 509158d.'),
        'trusted_base': COMMON_TB + ['modelled rather than verified: parser.go readByte/putBack/skipSpace/readToken/readNumberToken/readString/readEscaped/readValue; value.go writeValue/writeMap/elementSep/isCollection/writeString/isName',
                                     'character-class tables are regenerated from parser.go on every run (harness/cmd/gentables)',
                                     'strconv.FormatInt/FormatFloat/ParseFloat and UTF-8 encoding are Go\'s: number texts, float validity of tokens and the UTF-8 bytes of runes enter as data of the case'],
        'assumptions': ['values of the property domain: integers within int64, non-integral finite floats, valid UTF-8 strings, symbols that are names other than true/false/null, variables with non-empty names'],
    },
    'C03': {
        'level': 'proof',
        'correspondence': 'Text.parse_value == ParseValueString on arbitrary bytes (outcome class and value); SDL / request entry points: outcome class only, each case in a child process with a watchdog',
        'rule': ('byte strings obtained by 1-4 random mutations (delete, insert junk incl. NUL/BOM/brackets/quotes, replace, truncate, duplicate a slice, repeat a byte) of valid seeds for the value parser '
                 '(also of freshly written random values), the SDL parser and the request path (parse, validate, resolve over a cyclic data graph with omitted/null/mistyped arguments and variables); plus nesting bombs '
                 '([[[[..., {a:{a:..., a{a{..., [[[[Int) of depth 1,000 and 100,000 (thorough: 5,000,000) in child processes. non-trivial = every mutated or adversarial case; distinct by input text.'),
        'explanation': ('Theorems about the scanner and value reader model (fuel linear in the input suffices; never a fuel exhaustion on the explored inputs is checked per case) - see Properties/C03.v. '
                        'PARTIAL: the SDL and request parsers have no byte-level model in this commit: for them the check is the watchdogged outcome class (result or error; never panic, fatal error or timeout); '
                        'stack size versus nesting depth is measured, not proved. Defects repaired by fix commits f248908, 0ac6830, 5a6d717.'),
        'trusted_base': COMMON_TB + ['modelled rather than verified: the scanner and readValue of parser.go', 'child processes with a wall-clock watchdog decide panic / fatal / timeout'],
        'assumptions': ['io.Reader either delivers bytes, fails, or reports EOF (a reader returning (0, nil) forever is outside)', 'user resolvers do not panic'],
    },
    'C13': {
        'level': 'proof',
        'correspondence': 'Schema.loads_m (rule catalogue Schema.errors over the flat reading of the definitions) == Root.ParseString accept/refuse; Root.Types()/directives/operation roots read back == Schema.observe; error message cites an offender the catalogue cites',
        'rule': ('generated well-formed definition sets (1-12 definitions: enums, directives with scalar/enum arguments, defaults and uses of earlier directives on their arguments, custom scalars, input objects, interfaces, objects implementing them with covariant/non-null results and extra optional arguments, unions, Query/Mutation, optional schema block; wrappers up to three deep; directive uses with literal arguments incl. nested lists at every location; descriptions) '
                 'rendered by the harness printer, in written, shuffled or extend-split order; and for each set up to 8 (thorough: every applicable one of 37) single-rule violations: undefined type/directive/member/interface, duplicate type/field/argument/value/input field, reserved names in every position, input type in field position and output type (bare or wrapped) in argument / input-field / directive-argument position, missing/incompatible interface field or argument, union of non-object, empty definitions, directive at wrong location / undeclared argument / uncoercible value / missing required argument / bad default / unknown location / cycle of length 1-3, unknown schema operation, extension without base / of another kind / repeating a member. '
                 'The real root loads the text; the extracted specification runs the same definitions; accept/refuse and the definitions read back from the root are compared, refusals must cite a name (or a line holding a name) the catalogue cites, and what an accepting root holds is re-checked with the extracted catalogue. non-trivial = a violation case or a set of at least 4 definitions; distinct by input text.'),
        'explanation': ('Theorems C13_reachable_states_pass_the_catalogue, C13_type_names, C13_fields, C13_input_positions, C13_nonempty_and_unions, C13_interfaces (Coq; every definition list, every position incl. extend blocks, every wrapper depth) about the specification Schema.v; '
                        'the specification is tied to root.go/sdlparser.go and the Validate methods by running both on the same documents. PARTIAL: the theorems state what acceptance implies for names, type classes, non-emptiness, unions and interfaces; the directive-use rules and the converse (a rule-abiding set is accepted) are carried by the correspondence only. '
                        'Nine defects repaired by fix commits (see known_findings.json); F13 (directive uses on field definitions, field arguments and input fields are never validated) is pinned by TestInput/TestRootParseInput/TestRootReplaceRefsOk and recorded as known.'),
        'trusted_base': COMMON_TB + ['modelled rather than verified: root.go addTypes/addExtends/ReplaceRefs/validate*/ParseReader, the Validate and Extend methods of every kind, sdlparser.go (as the map from text to definitions: the harness printer and the read-back walker are its inverse and are trusted)',
                                     'the driver sorts every component of the flat reading before comparing (canonical form of a permutation class)',
                                     'verif accessors VerifDirectives/VerifSchema/VerifArgs (read-only)'],
        'assumptions': ['explicit "= null" defaults, duplicate directive uses on one definition, scalars declared twice, object-literal constants and body-less extensions (which the SDL parser refuses) are not generated', 'constants are judged for Int, Float, String, Boolean, ID, Int64, Float64 and enum types'],
    },
    'C14': {
        'level': 'proof',
        'correspondence': 'Schema.loads_m == a history of Root.ParseString/ParseReader calls on one root: accept/refuse per load, definitions and operation roots read back after every load; printed SDL(true,true), a full introspection response and two request responses compared before/after every refused load',
        'rule': ('histories of 2-6 loads on one root: a valid first part; then 1-3 failing documents drawn from {a single-rule violation after valid content, valid content after which the text breaks off, a reader failing at a random offset, extensions of an accepted object/interface/enum/union/input followed by a failure (repeated member or undefined reference), a schema block followed by a failure}; then the valid remainder; sometimes the first part again (refused as duplicate). '
                 'Observed after every load: accept/refuse, the definitions and operation roots read back, and whether SDL(true,true), the introspection response and the responses to two requests are byte-identical to before. non-trivial = at least one failing load; distinct by input text.'),
        'explanation': ('Theorems C14_atomic, C14_history, C14_state_is_accepted_documents (Coq; every history, every failure class) about the history machine of Schema.v, where a refused load returns the state unchanged and every observable is a function of the state; tied to root.go ParseReader by running the same histories. '
                        'Defects repaired by fix commits: operation roots left pointing at a rejected document (c087977), in-place extensions surviving a failed load (103b220).'),
        'trusted_base': COMMON_TB + ['modelled rather than verified: root.go ParseReader (save tables, load, restore, undo extensions), sdlparser.go readSchema, Extend of every kind',
                                     'AddTypes is not exercised by this check (ParseString/ParseReader only)'],
        'assumptions': ['loads are sequential (no concurrent load)', 'reader faults are an error return from Read (not a panic)'],
    },
    'C16': {
        'level': 'proof',
        'correspondence': 'Schema.loads_m on an arrangement == the same arrangement loaded into a real root: accept/refuse per load, definitions and operation roots read back (sorted flat reading, directive-argument defaults filled in from the definitions now in the root)',
        'rule': ('for each generated well-formed definition set (as for C13, incl. Subscription and schema blocks) the plain arrangement and 5 (thorough: 12) others drawn from: a random permutation in one document; members, values, interfaces and directives moved into extend blocks placed anywhere, then permuted; a cut into 1-3 successive loads in dependency order; extend-split then cut. '
                 'Every arrangement is run through the real root and through the extracted specification, which is arrangement-independent by theorem; a partition that breaks references is refused by both. non-trivial = every non-plain arrangement; distinct by input text.'),
        'explanation': ('Theorems C16_order_accept, C16_order_same_schema, C16_order_same_operation_roots, C16_defaults_filled_alike, C16_extend_split_accept, C16_extend_split_same_members, C16_partition (Coq; every definition list, every permutation, every split position, every partition) about Schema.v: the rule catalogue is invariant under permutation and under moving members into extend blocks (proof: every check is a fold of order-insensitive combinators over the flat reading; Schema_perm.v), and a fully accepted partition equals the one-document load of its concatenation. '
                        'Tied to sdlparser.go/root.go by running arrangements on the real root. Introspection and request answers are functions of the definitions read back (C17 and C01 carry that step); they are not compared across arrangements here. Defects repaired: derived schema not following later loads (c087977), map-ordered extend input (bfac794), required directive argument accepted when the directive is defined after its use (eee00e4).'),
        'trusted_base': COMMON_TB + ['modelled rather than verified: parser.go readType/readDirUse (known type or placeholder; defaults filled at scan time only for known directives), root.go ReplaceRefs/addExtends, typelist.go',
                                     'the driver sorts every component before comparing (canonical form of a permutation class); the walker fills directive-argument defaults as the property states'],
        'assumptions': ['arrangements keep every document parseable by ggql (extensions are printed with their braces / "=", an empty "union U =" only at the end of a document)'],
    },
    'C17': {
        'level': 'proof',
        'correspondence': 'Introspect.schema_answer / type_answer == the response of a real root to the full introspection query and to __type(name:) queries, abstracted to the same positional tree (names to numbers, wrappers by kind and ofType, member lists as sets)',
        'rule': ('accepted schemas generated as for C13 (with a query operation; extra @deprecated on fields and enum values, with and without reason), loaded as one document, extend-split and shuffled, or in successive loads; for each, the three strategies for application data (interface resolvers, reflection, an installed AnyResolver) x includeDeprecated true/false (quick: a random half of the six); '
                 'the full introspection query (types with kind, name, description, fields with arguments, defaults, types unrolled 9 levels through ofType, deprecation; interfaces; possibleTypes; enumValues; inputFields; directives with locations and arguments; the three operation roots) and __type lookups of a third of the type names plus an unknown name. '
                 'The response is abstracted by the harness and compared with the tree computed by the extracted specification; any error entry in the response fails the case. non-trivial = every case; distinct by input text.'),
        'explanation': ('Theorems C17_answer_determines_description (reading the answer back yields the description: dec_type (enc_type i) = Some i), C17_distinct_descriptions_distinct_answers, C17_type_references (wrappers through ofType at any depth), C17_unknown_type_is_null, C17_known_type (Coq, every state). '
                        'The answer is a function of the accepted definitions and includeDeprecated only, so strategy independence is what the correspondence checks. PARTIAL: sub-selections other than the full one are covered by the executor model of C01, not re-proved here; the built-in __ types and directives are left out of the comparison; descriptions are compared as strings with "" for none; wrapper name/description (ggql answers "[T]" / "LIST", pinned by resolver_test.go) are not compared. '
                        'Defects repaired: interface fields ignored includeDeprecated (c073db9); interfaces answered [] under AnyResolver (3b92a27); list/object and enum default values made the whole introspection fail (c679592, bf96950); meta-fields only on a type named Query (eb7cefd).'),
        'trusted_base': COMMON_TB + ['modelled rather than verified: the Resolve methods of Root and of every schema node, root.go newUu*, resolve.go meta-field entry points',
                                     'the harness abstraction of the JSON response (names to numbers, defaultValue text read back by a small reader, sorting of set-valued lists)'],
        'assumptions': ['a string default value is answered raw (Who, not "Who"): pinned by TestResolveInterfaceInput and read accordingly', 'schemas without a query operation cannot be introspected at all and are not generated'],
    },
    'C15': {
        'level': 'proof',
        'correspondence': 'Sdl.write_desc == what the library prints for a description at indentation 0, 1 and 2 (byte for byte); the extracted reader Sdl.read_desc_text applied to the library output returns the description; whole-schema round trip and the ggqlgen -w / -e outputs are checked directly on the real code',
        'rule': ('generated accepted schemas (as for C13) whose descriptions (types, fields, arguments, enum values, input fields, directives and their arguments) and default values are then replaced through the exported fields: descriptions of 1-4 lines built from letters, quotes, doubled and tripled and quadrupled quotes, backslashes, backslash-quote, backslash-n, non-ASCII text, emoji, #, braces, tabs inside a line, back quotes; '
                 'string defaults with quotes, backslashes, every control character class, triple quotes, non-ASCII; Float defaults incl. 0.1, 1e21, 1e-7, 17-digit values, the largest and the smallest double; Int and Int64 defaults; nested list and input-object defaults. '
                 'Per case: Root.SDL(false,true) is loaded into a fresh root; the two roots are dumped (every description, default, wrapper, directive use) and compared; the fresh root is printed again and the texts compared; the per-type printed forms are concatenated and loaded likewise; the ggqlgen binary built from the working tree rewrites (-w) and embeds (-e) the file, the results are read (the Go constant evaluated as a compiler would) and loaded likewise; '
                 'six of the descriptions are printed alone at the three indentations and compared with the model printer and read back with the model reader. non-trivial = every case; distinct by input text.'),
        'explanation': ('Theorems C15_description_round_trip (every canonical description, every indentation, any following text: readDesc returns exactly the description written by writeDesc), C15_description_layout, C15_string_constant_round_trip (every string constant written by writeString is read back rune for rune by readString) - Coq, byte level, all strings, no bound. '
                        'PARTIAL: the structural part of the printers and of the SDL parser (definitions, wrappers, directive uses, numbers, lists, objects, table order) has no byte-level model; its round trip is checked on the real code for every generated schema. A whole Float default that comes back as an integer is counted as the same default (numeric value). '
                        'Defects repaired: descriptions printed unescaped (6a9361f), ggqlgen dropped directive definitions (e7b7a4c), ggqlgen -e broke on a back quote (71f326a).'),
        'trusted_base': COMMON_TB + ['modelled rather than verified: base.go writeDesc, value.go writeString, parser.go readString/readEscaped/readDesc; Unicode white space other than ASCII at line ends is outside the model of TrimSpace and not generated',
                                     'the harness dump of a root (exported fields and the verif accessors) as the notion of "same schema"; go/parser to read the file ggqlgen -e writes',
                                     'the ggqlgen binary is built from /repo/cmd/ggqlgen by ./check --setup'],
        'assumptions': ['descriptions are canonical (non-empty lines, no white space at line ends, no NUL): exactly those readDesc can return', 'runes >= 0x80 are written as their UTF-8 bytes, all >= 0x80 (Go utf8.EncodeRune)'],
    },
    'C07': {
        'level': 'proof',
        'correspondence': 'Exec.exec_op errors (path, location node, kind) and data presence == Root.ResolveString on the same request in five layouts, locations mapped to document nodes through the harness own layout table (independent of the positions ggql stores); envelope shape, location bounds, layout invariance and JSON decoding are checked directly on every response',
        'rule': ('requests generated as for C06 (failing resolvers, ill-typed leaves, unknown fields and arguments, bad variables and directive values, fragments, several operations, wrong operation names), every sixth one additionally damaged (bytes removed, doubled, replaced, truncated) to be malformed; each request is laid out five ways: one line; one token per line with indentation; the same with CRLF and tabs; commas and # comments between tokens; a random mix of spaces, LF, CRLF, CR, tabs, commas, comments and blank lines. '
                 'Every layout is sent through ResolveString with the variables of the case. Per response: keys are data/errors only, errors is a non-empty list when present, each message a non-empty string, each path made of strings and non-negative integers, each location positive and inside the submitted text; the token a location refers to must be the same token in all five layouts; a request the model refuses before execution must carry no data (or null); '
                 'the response is written by WriteJSONValue at indent -1, 0 and 2, decoded by encoding/json and compared structurally. non-trivial = every case; distinct by input text.'),
        'explanation': ('Theorems C07_scanner_position (when skipSpace returns a byte, (line, col) is the position just behind that byte - every text, every layout), C07_column_convention, C07_positions_positive, C07_scanner_stays_in_text about the scanner model of Text.v (class tables regenerated from parser.go); C07_envelope (a model response without data has at least one error). '
                        'PARTIAL: that each AST node stores the position taken at its token start (the fix 90ace6d) is checked by the correspondence, not by a model of exeparser.go; the JSON text of a response is covered by the C18 writer model and decoded here by encoding/json only; errors of requests refused before execution are checked for shape, not predicted. '
                        'Defects repaired: positions taken after the one-byte look-ahead (next line, negative column) for fields, inline fragments, variables (90ace6d), arguments, fragment spreads and two parse errors (next commit).'),
        'trusted_base': COMMON_TB + ['modelled rather than verified: parser.go readByte/putBack/skipSpace (positions), resolve.go ResolveReader envelope assembly as the executor model of C01/C06, util.go FormErrorsResult by observation',
                                     'the harness lexer/layout engine and its table of token positions; the three column conventions of ggql (start+1 for nodes, start for arguments, behind the name for fragment spreads) are read as "that token"',
                                     'encoding/json as the standard JSON parser'],
        'assumptions': ['the column convention start+1 is the one the pinned suite expects', 'a parse error at the very end of the input points at the last line, column 1'],
    },
    'C02': {
        'level': 'proof',
        'correspondence': 'Exec.exec_op (reflection nodes read as Resolver nodes) == Root.ResolveString under seven strategy assignments of one case: all Resolver objects, all plain values behind an AnyResolver, all Go methods found by reflection with RegisterType, the same with bindings discovered on first use, Resolver/AnyResolver mixture, Resolver/reflection mixtures (registered, discovered); data and error paths',
        'rule': ('cases in the feature set the strategies share: schemas of 2-4 object types without abstract types, scalar/enum/object/list fields, String and Boolean arguments that are always supplied in declaration order, variables always given, aliases, inline and named fragments on object types, @skip/@include, failing resolvers (single and multiple errors), null objects; data graphs with cycles. '
                 'Each case is run under the seven assignments (a strategy per object type); the reflection strategy is a zoo of Go types whose methods F1..F8 are found by the case-insensitive lookup and receive their arguments positionally; the root of an all-reflection run is a struct with Query/Mutation fields. '
                 'All seven responses must be equal (data and the multiset of error paths) and equal to the model; a Resolver object handed to the AnyResolver fails the run (precedence). Cases whose data does not fit its declared type (the model reports a not-a-list / coercion error) are outside the shared feature set and only compared with the model. non-trivial = every case; distinct by input text.'),
        'explanation': ('Theorems C02_every_assignment_refines_the_specification (for every assignment of Resolver/AnyResolver strategies the executor model refines the one stateless specification: hence any two assignments agree on data and error paths), C02_specification_is_strategy_blind, C02_precedence (Coq). '
                        'PARTIAL: reflection (resolveReflect, regField, formReflectArgs, assureType) is not in the model; its agreement with the other strategies is carried by the seven-way comparison on the real code. Strategies are assigned per object type, not per node. '
                        'Defect repaired: an error list returned by a reflected method was reported as one error (cc8ca25).'),
        'trusted_base': COMMON_TB + ['modelled rather than verified: resolve.go resolveField strategy switch and list dispatch for Resolver/AnyResolver; reflection observed only',
                                     'the Go-type zoo of the harness (R/A/F types per object type id), its AnyResolver and the decoy that detects a Resolver object reaching the AnyResolver'],
        'assumptions': ['arguments are String/Boolean, all supplied, non-null (reflection passes supplied arguments positionally and uncoerced: outside this set the strategies differ by design, DESIGN.md F03/F08)', 'no abstract (interface/union) field types under reflection'],
    },
}
