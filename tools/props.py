"""Per-property configuration of ./check (what is compared, how evidence is described)."""

COMMON_TB = [
    'Coq 8.16.1 kernel (coqc, full .vo build; no -vos); vm_compute used only in Example/refuted witnesses and finite sweeps; native_compute not used',
    'no Axiom/Parameter/Admitted in the development (grep-checked on every run over the cone of the property file)',
    'extraction: Require Extraction + ExtrOcamlBasic only (bool, option, unit, list, prod, sumbool, sumor; andb/orb inlined); nat/N/Z/positive stay extracted datatypes; no Extract Constant of our own',
    'OCaml 4.13.1 compiler and the hand-written driver model/*.ml (case reader, conversions, printers)',
    'Go correspondence harness /verif/harness (generators, canonicalisation), built with -tags verif against /repo working tree',
]

PROPS = {
    'C19': {
        'level': 'proof',
        'correspondence': 'Registry.run == root.subscribe/AddEvent/Unsubscribe on histories',
        'rule': ('histories over {subscribe, publish, unsubscribe}: every history up to length 3 (quick) / 4 (thorough) over a 14-letter '
                 'alphabet (4 match patterns x 2 failure patterns, 3 event ids) plus seeded random histories up to length 12/16 with 1-3 ids, '
                 'random selections and failure schedules; run on the real registry and on the extracted Coq model, outputs compared call by call '
                 '(count, error flag, deliveries in order with message content, clean-ups as a set). non-trivial = some subscriber registered, '
                 'some later publish, and either a failing delivery or an unsubscribe after a subscribe; distinct = by input text'),
        'explanation': ('Theorems C19_refines, C19_delivery_exact, C19_cleanup_once_nothing_after, C19_unsubscribe_exact (Coq, all finite histories, '
                        'no bound) about the model Registry.v; the model is tied to root.go by running both on the same histories.'),
        'trusted_base': COMMON_TB + ['modelled rather than verified: pkg/ggql/root.go subscribe/Unsubscribe/AddEvent, Subscription.prep; '
                                     'subscriber Send/Match/Unsubscribe are data of the case (failure schedules), rendering is the harness event resolver'],
        'assumptions': ['each *Subscription value is registered once (fresh identities; a resolver returning the same *Subscription twice is outside the claim)',
                        'subscriber callbacks do not re-enter the root', 'single goroutine (C20 covers concurrency)'],
    },
}
