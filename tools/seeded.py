#!/usr/bin/env python3
"""Seeded-change tooling (development aid; not used by any registered check).
  seeded.py add <srcdir> <name> <prop> "<needs>"   confirm a sub-agent's mutant in a scratch worktree and store it under /verif/seeded/<name>/
  seeded.py run <name> [props...]                  apply it to /repo, run ./check for the props (default: the one it breaks), undo
"""
import json, os, shutil, subprocess, sys, tempfile
ENV = dict(os.environ, GOFLAGS='-mod=mod', GOPROXY='off', GOSUMDB='off', GOTOOLCHAIN='local')
V = '/verif'

def sh(cmd, cwd=None, timeout=3000):
    p = subprocess.run(cmd, cwd=cwd, shell=True, env=ENV, capture_output=True, text=True, timeout=timeout)
    return p.returncode, p.stdout + p.stderr

def add(src, name, prop, needs):
    wt = tempfile.mkdtemp(prefix='seedwt-', dir='/tmp')
    os.rmdir(wt)
    rc, o = sh('git -C /repo worktree add -q --detach %s HEAD' % wt)
    assert rc == 0, o
    ran = []
    try:
        demo = open(os.path.join(src, 'demo_test.go')).read()
        tags = '-tags verif' if 'go:build verif' in demo else ''
        import re
        tests = '|'.join('^%s$' % t for t in re.findall(r'func (Test\w+)\(', demo))
        shutil.copy(os.path.join(src, 'demo_test.go'), os.path.join(wt, 'pkg/ggql/zz_demo_test.go'))
        rc0, o0 = sh('go test %s -vet=off -count=1 -run "%s" ./pkg/ggql/' % (tags, tests), cwd=wt)
        ran.append('demo on unchanged tree: ' + ('pass' if rc0 == 0 else 'FAIL'))
        rc, o = sh('git apply %s' % os.path.join(src, 'patch.diff'), cwd=wt)
        assert rc == 0, 'patch does not apply: ' + o
        rcb, ob = sh('go build ./... && go build -tags verif ./...', cwd=wt)
        ran.append('build with change: ' + ('ok' if rcb == 0 else 'FAIL'))
        rc1, o1 = sh('go test %s -vet=off -count=1 -run "%s" ./pkg/ggql/' % (tags, tests), cwd=wt)
        ran.append('demo with change: ' + ('fail (as required)' if rc1 != 0 else 'PASSES (bad)'))
        os.remove(os.path.join(wt, 'pkg/ggql/zz_demo_test.go'))
        rc2, o2 = sh('python3 /verif/tools/baseline.py %s' % wt)
        ran.append('existing suite with change: ' + o2.strip().splitlines()[0])
        ok = rc0 == 0 and rcb == 0 and rc1 != 0 and rc2 == 0
        print('\n'.join(ran))
        if not ok:
            print('NOT CONFIRMED'); print(o0[-800:] if rc0 else ''); print(o2[-800:] if rc2 else '')
            return 1
        dst = os.path.join(V, 'seeded', name)
        os.makedirs(dst, exist_ok=True)
        shutil.copy(os.path.join(src, 'patch.diff'), dst)
        shutil.copy(os.path.join(src, 'demo_test.go'), dst)
        if os.path.exists(os.path.join(src, 'notes.md')):
            shutil.copy(os.path.join(src, 'notes.md'), dst)
        json.dump({'breaks': prop, 'needs_to_manifest': needs, 'confirmed': ran,
                   'base_commit': subprocess.check_output('git -C /repo rev-parse --short HEAD', shell=True, text=True).strip(),
                   'detected_by': {}}, open(os.path.join(dst, 'meta.json'), 'w'), indent=1)
        print('stored', dst)
        return 0
    finally:
        sh('git -C /repo worktree remove --force %s' % wt)

def run(name, props):
    dst = os.path.join(V, 'seeded', name)
    meta = json.load(open(os.path.join(dst, 'meta.json')))
    props = props or [meta['breaks']]
    rc, o = sh('git -C /repo status --porcelain')
    assert o.strip() == '', '/repo not clean: ' + o
    rc, o = sh('git -C /repo apply %s' % os.path.join(dst, 'patch.diff'))
    if rc != 0:
        print('patch does not apply to current /repo:', o); return 2
    res = {}
    try:
        for p in props:
            rc, o = sh('./check %s' % p, cwd=V)
            lines = [l for l in o.splitlines() if l.startswith('VIOLATION') or l.startswith(p + ' ')]
            res[p] = {'exit': rc, 'lines': lines[:4]}
            print(p, 'exit', rc); print('\n'.join('   ' + l for l in lines[:4]))
    finally:
        sh('git -C /repo checkout -- .')
    meta.setdefault('detected_by', {})
    for p, r in res.items():
        how = 'missed'
        if r['exit'] == 1:
            how = 'detected'
            if r['lines'] and all('no-failing-input-found' in l for l in r['lines'] if l.startswith('VIOLATION')):
                how = 'detected (no-failing-input-found)'
        meta['detected_by'][p] = how
    # a change its own check misses: does it still break the property on the current tree?  (fixes in /repo
    # have made some stored changes equivalent to the unchanged code) - run its demo with the change applied
    if meta['detected_by'].get(meta['breaks']) == 'missed' and os.path.exists(os.path.join(dst, 'demo_test.go')):
        meta['demo_on_current_tree'] = demo_with_change(dst)
    meta['run_on_commit'] = subprocess.check_output('git -C /repo rev-parse --short HEAD', shell=True, text=True).strip()
    json.dump(meta, open(os.path.join(dst, 'meta.json'), 'w'), indent=1)
    return 0

def demo_with_change(dst):
    import re, tempfile
    wt = tempfile.mkdtemp(prefix='seeded-demo-', dir='/tmp')
    os.rmdir(wt)
    try:
        rc, o = sh('git -C /repo worktree add -q --detach %s HEAD' % wt)
        if rc != 0:
            return 'not run: ' + o[-200:]
        rc, o = sh('git -C %s apply %s' % (wt, os.path.join(dst, 'patch.diff')))
        if rc != 0:
            return 'patch does not apply'
        src = open(os.path.join(dst, 'demo_test.go')).read()
        names = re.findall(r'^func (Test\w+)\(', src, re.M)
        open(os.path.join(wt, 'pkg/ggql/zz_demo_test.go'), 'w').write(src)
        tags = '-tags verif ' if '//go:build verif' in src else ''
        env = 'GOFLAGS=-mod=mod GOPROXY=off GOSUMDB=off GOTOOLCHAIN=local'
        rc, o = sh('cd %s && %s timeout 600 go test %s-vet=off -count=1 -run "^(%s)$" ./pkg/ggql/' % (wt, env, tags, '|'.join(names)))
        return 'demo fails with the change (still a defect)' if rc != 0 else 'demo passes with the change: equivalent to the unchanged code on the current tree'
    finally:
        sh('git -C /repo worktree remove --force %s' % wt)
        sh('git -C /repo worktree prune')

def sweep(names):
    """run every stored change (or the named ones) against the check of the property it breaks"""
    names = names or sorted(os.listdir(os.path.join(V, 'seeded')))
    for n in names:
        if not os.path.exists(os.path.join(V, 'seeded', n, 'patch.diff')):
            continue
        print('==', n, flush=True)
        rc = run(n, [])
        if rc == 2:
            meta = json.load(open(os.path.join(V, 'seeded', n, 'meta.json')))
            meta.setdefault('detected_by', {})[meta['breaks']] = 'patch no longer applies to /repo HEAD'
            json.dump(meta, open(os.path.join(V, 'seeded', n, 'meta.json'), 'w'), indent=1)
    return 0

def table():
    """seeded/TABLE.md: every stored change, what it needs, which checks report it"""
    rows = []
    for n in sorted(os.listdir(os.path.join(V, 'seeded'))):
        mp = os.path.join(V, 'seeded', n, 'meta.json')
        if not os.path.exists(mp):
            continue
        m = json.load(open(mp))
        det = '; '.join('%s: %s' % kv for kv in sorted(m.get('detected_by', {}).items())) or 'not run'
        if m.get('demo_on_current_tree'):
            det += ' (' + m['demo_on_current_tree'] + ')'
        rows.append('| %s | %s | %s | %s |' % (n, m['breaks'], m.get('needs_to_manifest', '').replace('|', '/'), det))
    out = ['# Seeded changes', '',
           'Each directory holds `patch.diff` (the change), `demo_test.go` (fails with the change, passes without),',
           '`notes.md` (the sub-agent\'s account) and `meta.json`. The last column is what `tools/seeded.py run <name> [props]`',
           'recorded: the quick check of the named property with the change applied to /repo (exit 1 = detected).', '',
           '| change | breaks | needs | quick checks |', '|---|---|---|---|'] + rows
    open(os.path.join(V, 'seeded', 'TABLE.md'), 'w').write('\n'.join(out) + '\n')
    print(len(rows), 'rows')
    return 0

if __name__ == '__main__':
    if sys.argv[1] == 'add':
        sys.exit(add(sys.argv[2], sys.argv[3], sys.argv[4], sys.argv[5] if len(sys.argv) > 5 else ''))
    if sys.argv[1] == 'sweep':
        sys.exit(sweep(sys.argv[2:]))
    if sys.argv[1] == 'table':
        sys.exit(table())
    sys.exit(run(sys.argv[2], sys.argv[3:]))
