#!/usr/bin/env python3
import sys,re,json
pat=sys.argv[1]; n=int(sys.argv[2]) if len(sys.argv)>2 else 0
ids=[l.split(' ')[0] for l in open('/tmp/C02.out') if pat in l]
cid=ids[n]
for l in open('/tmp/C02.cases'):
    if l.startswith('(case %s '%cid):
        obs=l[l.find('(runs (run'):]
        runs=re.split(r'\) \(run ',obs)
        for i,r in enumerate(runs): print(i, r[:700])
for l in open('/tmp/C02.cases.meta'):
    m=json.loads(l)
    if m['id']==cid: print(m['human'])
