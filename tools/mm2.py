#!/usr/bin/env python3
"""debug aid for leaf sweeps: list distinct (human, observed, expected, verdict) of non-ok rows"""
import subprocess, sys, json
cf = sys.argv[1]
out = subprocess.run(['/verif/model/modelrun', cf], capture_output=True, text=True).stdout
meta = {}
for l in open(cf + '.meta'):
    d = json.loads(l); meta[d['id']] = d
lines = {l.split(' ', 2)[1]: l.rstrip('\n') for l in open(cf) if l.startswith('(case ')}
def obs(line):
    depth = 0
    for i in range(len(line) - 2, -1, -1):
        c = line[i]
        if c == ')': depth += 1
        elif c == '(':
            depth -= 1
            if depth == 0: return line[i:-1]
    return ''
n = 0
for l in out.splitlines():
    cid, status, verdict, exp = l.split(' ', 3)
    if status == 'ok' and verdict.startswith('holds'): continue
    n += 1
    if n <= int(sys.argv[2]) if len(sys.argv) > 2 else 40:
        print(status, verdict[:40], '|', meta[cid]['human'][:110], '| OBS', obs(lines[cid])[:90], '| EXP', exp[:90])
print(n, 'rows')
