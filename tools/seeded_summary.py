#!/usr/bin/env python3
"""Summary of seeded/*/meta.json for DESIGN.md section 11: per property how many stored changes the
quick check of that property reports, and every change it does not report with the reason."""
import json, os, collections

V = os.path.dirname(os.path.dirname(os.path.abspath(__file__)))
REASON = {
    'C16-type-order-ignores-case': 'needs two type names that differ only by case; the generated names are T0021-style and the definitions of an arrangement are compared as sets, not in the order of the type table',
    'C19-event-type-from-request-field': 'needs a subscription field inside a fragment on an interface that Query implements too, resolved on a reused executable between two events',
    'C19-failed-consumed-in-one-pass': 'sequential histories cannot show it (an Unsubscribe must land between the two sections of a publish on which two subscribers failed): the C20 quick check holds that scenario, exhaustively interleaved, and reports it',
    'C20-cleanup-compares-subscriber': 'needs one Subscriber value behind several subscriptions; the harness gives every subscription its own subscriber',
    'C01-list-resolved-in-place': 'reported through the correspondence: the second traversal of the same Go slice differs from the model',
    'C15-oneline-block-desc': 'after fix 6a9361f the change no longer breaks the property; the correspondence (model printer = library, byte for byte) still reports it',
    'C01-stale-contype-fielddef': 'made harmless by the per-container argument check (fix e474ae4)',
    'C08-stale-contype-narrower-sibling': 'made harmless by fix e474ae4',
    'C10-required-by-position': 'made harmless by fix e474ae4',
    'C11-stale-contype-per-call': 'made harmless by fix e474ae4',
    'C08-assuretype-rebinds': 'a struct value of a type registered as a pointer: only the struct-field reflection zoo of C02 holds such values',
    'C05-nonnull-eats-depth-r6': 'C05 has no deeply nested requests; C01 runs with a depth budget per case',
    'C18-depth-not-decremented-at-brace': 'C18 quick has no wide values (thorough has); the reader cases of C03 hold 10050 sibling objects',
    'C18-object-literals-leak-depth': 'as above',
    'C04-input-undo-leaves-dict': 'a history of loads: C14 re-adds what a refused load tried to add',
    'C04-list-literal-vars-written-back': 'a history on one parsed document: C11',
    'C13-undo-leaves-dict-entries': 'a history of loads: C14',
    'C12-copyvalue-shallow-objects': 'the printed form of the reused request changes: C11',
    'C14-copyvalue-shallow-objects': 'the printed form of the reused request changes: C11',
    'C19-cleanup-hoisted-out-of-check': 'needs an interleaving: C20',
    'C19-cleanup-hoisted-out-of-check-r6': 'needs an interleaving: C20',
    'C19-unguarded-cleanup': 'needs an interleaving: C20',
    'C10-fielddef-by-contype': 'equivalent for C10 after fix e474ae4; C01 still sees the data differ',
    'C11-fielddef-by-cached-contype': 'equivalent for C11 after fix e474ae4; C01 and C10 see it',

    'C04-undeclared-keys-dropped-for-registered-input': 'needs an input type bound to a Go struct with RegisterType; the coercion model hands input objects over as maps',
    'C11-copyvalue-shallow-objects': 'reported by C11 since the parse-once-resolve-twice argument cases (printed form of the request)',
    'C05-time-seconds-beyond-year-9999': 'patch no longer applies: fix 1e66263 replaced the code it changed (the Time scalar now builds the value with time.Unix and refuses years outside 0..9999, which is what this change removed); a change that drops the new range check is reported by C05 (the model has the range as flt_secs_ok / rfc_secs)',
    'C02-type-bound-before-strategy-dispatch': 'needs one GraphQL type whose Go values use two resolving strategies in one request (a map for one value, a struct for the next); a world of the C02 zoo uses one strategy per type',
    'C07-reflect-arg-error-at-schema-position': 'needs a reflected method whose argument fails to convert after validation accepted the request; the harness resolvers take their arguments through the Resolver interface or through methods whose parameter types match the schema',
    'C14-schema-installed-by-addtypes': 'made harmless by fix 8030e46: AddTypes now saves and restores the schema, where this change installs it',
    'C16-parsefs-joins-with-space': 'the ParseFS entry point (several files joined) is not driven by the harness; the arrangements of C16 are Parse calls',
    'C13-input-field-refs-skipped-when-resolved': 'reported, but only as a broken correspondence on a history of loads; no single load shows it',
    'C09-subscription-keeps-raw-vars-r9': 'the directive sits in the payload of a subscription: the histories of C19 subscribe with a defaulted @include variable and report it',
    'C18-depth-restored-plus-one-r9': 'as above (10001 sibling containers: the reader cases of C03)',
    'C19-sends-outside-lock-uncopied-r9': 'needs an interleaving: C20',
    'C10-resort-clears-badargs': 'patch no longer applies after fix e474ae4 rewrote the block; the mechanism is covered by C11-badargs-* and C10-badargs-*',
    'C16-validate-only-touched': 'patch no longer applies after the validation loop was changed by fix commits',
    'C20-deliver-after-unlock': 'patch no longer applies after fix ad6edfc; same mechanism as C20-send-outside-lock / C20-deliver-from-copy (reported)',
    'C20-deliver-outside-lock': 'patch no longer applies after fix ad6edfc; same mechanism as C20-send-outside-lock (reported)',
}


def main():
    per = collections.defaultdict(lambda: collections.Counter())
    rows = []
    for n in sorted(os.listdir(os.path.join(V, 'seeded'))):
        mp = os.path.join(V, 'seeded', n, 'meta.json')
        if not os.path.exists(mp):
            continue
        m = json.load(open(mp))
        d = m.get('detected_by', {})
        own = d.get(m['breaks'], 'not run')
        others = sorted(k for k, v in d.items() if k != m['breaks'] and v.startswith('detected'))
        demo = m.get('demo_on_current_tree', '')
        if own.startswith('detected'):
            cls = 'reported' if 'no-failing-input' not in own else 'reported (no-failing-input-found)'
        elif 'no longer applies' in own:
            cls = 'patch no longer applies'
        elif others:
            cls = 'reported by ' + ', '.join(others)
        elif 'equivalent' in demo:
            cls = 'equivalent to the unchanged code now'
        else:
            cls = 'not reported'
        per[m['breaks']][cls] += 1
        if cls not in ('reported',):
            rows.append((n, m['breaks'], cls, REASON.get(n, '')))
    props = sorted(per)
    total = collections.Counter()
    print('| property | stored | reported by its own quick check | reported only by a neighbouring check | equivalent after a fix | patch no longer applies | not reported |')
    print('|---|---|---|---|---|---|---|')
    for p in props:
        c = per[p]
        rep = c['reported'] + c['reported (no-failing-input-found)']
        cross = sum(v for k, v in c.items() if k.startswith('reported by'))
        eq = c['equivalent to the unchanged code now']
        na = c['patch no longer applies']
        nr = c['not reported']
        tot = sum(c.values())
        for k, v in (('stored', tot), ('rep', rep), ('cross', cross), ('eq', eq), ('na', na), ('nr', nr)):
            total[k] += v
        print('| %s | %d | %d | %d | %d | %d | %d |' % (p, tot, rep, cross, eq, na, nr))
    print('| all | %d | %d | %d | %d | %d | %d |' % (total['stored'], total['rep'], total['cross'], total['eq'], total['na'], total['nr']))
    print()
    for n, p, cls, why in rows:
        print('* `%s` (%s): %s%s' % (n, p, cls, ('; ' + why) if why else ''))


if __name__ == '__main__':
    main()
