#!/bin/bash
# run every registered quick check once; print the summary lines (dev aid)
cd /verif
for p in $(python3 -c "import json; print(' '.join(c['property_id'] for c in json.load(open('MANIFEST.json'))['checks']))"); do
  out=$(./check $p 2>&1); rc=$?
  echo "$p rc=$rc $(echo "$out" | grep -c '^VIOLATION') violations | $(echo "$out" | tail -1)"
done
