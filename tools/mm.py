#!/usr/bin/env python3
"""debug aid: show the smallest mismatching cases of a case file (observed vs model-expected)."""
import subprocess, sys, json
cf = sys.argv[1]; n = int(sys.argv[2]) if len(sys.argv) > 2 else 2
out = subprocess.run(['/verif/model/modelrun', cf], capture_output=True, text=True).stdout
lines = {l.split(' ', 2)[1]: l.rstrip('\n') for l in open(cf) if l.startswith('(case ')}
meta = {}
try:
    for l in open(cf + '.meta'):
        d = json.loads(l); meta[d['id']] = d
except Exception: pass
bad = []
for l in out.splitlines():
    cid, status, verdict, exp = l.split(' ', 3)
    if status != 'ok' and status != 'invalid' or not verdict.startswith('holds'):
        bad.append((len(lines[cid]), cid, status, verdict, exp))
bad.sort()
sys.path.insert(0, '/verif'); 
def split_obs(line):
    # observed is the last top-level sexp
    depth = 0
    for i in range(len(line) - 2, -1, -1):
        c = line[i]
        if c == ')': depth += 1
        elif c == '(':
            depth -= 1
            if depth == 0: return line[:i], line[i:-1]
    return line, ''
for ln, cid, status, verdict, exp in bad[:n]:
    inp, obs = split_obs(lines[cid])
    print('==', cid, status, verdict, meta.get(cid, {}).get('tags'))
    print('DOC:', meta.get(cid, {}).get('human', '').strip())
    print('INPUT:', inp[:3000])
    print('OBSERVED:', obs)
    print('EXPECTED:', exp)
print(len(bad), 'bad of', len(lines))
