#!/usr/bin/env python3
"""Validate MANIFEST.json and evidence/*.json against the schemas (uses the tooling venv's jsonschema)."""
import json, sys, glob, jsonschema
ok = True
m = json.load(open('/verif/MANIFEST.json'))
try:
    jsonschema.validate(m, json.load(open('/root/.vp/MANIFEST.schema.json'))); print('MANIFEST ok, checks:', [c['property_id'] for c in m['checks']])
except Exception as e:
    ok = False; print('MANIFEST INVALID', e)
es = json.load(open('/root/.vp/EVIDENCE.schema.json'))
for f in sorted(glob.glob('/verif/evidence/*.json')):
    try:
        jsonschema.validate(json.load(open(f)), es); print(f, 'ok')
    except Exception as e:
        ok = False; print(f, 'INVALID', str(e)[:300])
sys.exit(0 if ok else 1)
