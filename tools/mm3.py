#!/usr/bin/env python3
"""mm3.py <casefile> <id>: show where the expected and the projected observed s-expressions differ."""
import sys, subprocess, os, json
cf, cid = sys.argv[1], sys.argv[2]
lines = [l for l in open(cf) if l.startswith('(case %s ' % cid)]
open('/tmp/mm3.case', 'w').write(lines[0])
out = subprocess.run(['/verif/model/modelrun', '/tmp/mm3.case'], capture_output=True, text=True,
                     env=dict(os.environ, MODELRUN_DEBUG='1')).stdout.splitlines()
print(out[0][:300])
if len(out) < 2: sys.exit()
exp = out[0].split(' ', 3)[3]
obs = out[1][len('#observed '):]
def toks(s):
    return s.replace('(', ' ( ').replace(')', ' ) ').split()
a, b = toks(exp), toks(obs)
i = 0
while i < min(len(a), len(b)) and a[i] == b[i]: i += 1
print('first difference at token', i)
print('expected:', ' '.join(a[max(0, i-30):i+30]))
print('observed:', ' '.join(b[max(0, i-30):i+30]))
try:
    for l in open(cf + '.meta'):
        m = json.loads(l)
        if m['id'] == cid: print(m.get('human', ''))
except FileNotFoundError: pass
