#!/bin/bash
# sc.sh <prop> [seed]: rebuild the harness, run one generated batch through the model, summarise
export GOFLAGS=-mod=mod GOPROXY=off GOSUMDB=off GOTOOLCHAIN=local
cd /verif/harness && go build -tags verif -o /tmp/h_test ./cmd/h || exit 1
/tmp/h_test $1 -seed ${2:-1} -tier ${3:-quick} -out /tmp/$1.cases
/verif/model/modelrun /tmp/$1.cases > /tmp/$1.out
awk '{print $2,$3}' /tmp/$1.out | sort | uniq -c | sort -rn | head -40
