#!/usr/bin/env python3
"""Builders for schema-case s-expressions (witnesses of findings)."""
def T(n): return '(n %d)' % n
def L(t): return '(l %s)' % t
def NN(t): return '(nn %s)' % t
def du(n, *avs): return '(du %d%s)' % (n, ''.join(' (av %d %s)' % av for av in avs))
def dirs(*d): return '(dirs%s)' % ''.join(' ' + x for x in d)
def arg(n, t, d='none', ds=()): return '(a %d x %s %s %s)' % (n, t, d, dirs(*ds))
def field(n, t, args=(), ds=()): return '(f %d x %s (args%s) %s)' % (n, t, ''.join(' ' + a for a in args), dirs(*ds))
def val(n, ds=()): return '(v %d x %s)' % (n, dirs(*ds))
def it(kind, name, ext=0, ds=(), ifaces=(), fields=(), members=(), vals=(), inputs=(), locs=()):
    k = ['scalar', 'object', 'interface', 'union', 'enum', 'input', 'directive', 'schema'].index(kind)
    j = lambda tag, xs: '(%s%s)' % (tag, ''.join(' ' + str(x) for x in xs))
    return '(it %d %d %d x %s %s %s %s %s %s %s)' % (ext, k, name, dirs(*ds), j('ifaces', ifaces), j('fields', fields),
        j('members', members), j('vals', vals), j('inputs', inputs), j('locs', locs))
def doc(*items, mode='ok'): return '(doc %s%s)' % (mode, ''.join(' ' + i for i in items))
def docs(*ds): return '(docs%s)' % ''.join(' ' + d for d in ds)
Q = it('object', 10, fields=[field(10, T(0))])
W = {
 'F14a': docs(doc(Q, it('object', 881, fields=[field(662, T(941))]))),
 'F16a': docs(doc(it('object', 20, fields=[field(10, T(0))])), doc(Q)),
 'F23': docs(doc(it('directive', 10, inputs=[arg(10, L(T(0)))], locs=[9]), it('object', 10, ds=[du(10, (10, '(l (i 1))'))], fields=[field(10, T(0))]))),
 'F13a': docs(doc(it('directive', 10, locs=[11]), it('directive', 11, inputs=[arg(10, T(0), ds=[du(10)])], locs=[9]), Q)),
 'F13b': docs(doc(it('object', 20, fields=[field(10, T(0))]), it('directive', 10, inputs=[arg(10, L(T(20)))], locs=[9]), Q)),
 'F13c': docs(doc(it('enum', 20, vals=[val(10)]), it('scalar', 20), Q)),
 'F14': docs(doc(Q), doc(it('object', 10, ext=1, fields=[field(11, T(0))]), it('object', 10, ext=1, fields=[field(11, T(0))]))),
 'F13d': docs(doc(it('directive', 10, locs=[11]), it('directive', 11, inputs=[arg(10, T(0), ds=[du(10)]), arg(11, T(0), ds=[du(10)])], locs=[9]), Q)),
 'F13e': docs(doc(it('object', 10, ds=[du(10)], fields=[field(10, T(0))]), it('directive', 10, inputs=[arg(10, NN(T(0)))], locs=[9]))),
 'F13': docs(doc(it('directive', 10, locs=[9]), it('object', 10, fields=[field(10, T(0), ds=[du(10)])]))),
}
if __name__ == '__main__':
    import sys
    for k in sys.argv[1:]:
        print(W[k])
