(* Values_list.v — composition through the list loop of readValue: a bracketed, comma-separated text
   whose elements each read back reads back as the list of their values. *)
From Coq Require Import List Arith ZArith Bool Lia.
Import ListNotations.
From GG.gen Require Import Tables.
From GG Require Import Text Text_proofs Text_total Sdl Sdl_proofs Tokens_proofs Values_scalar.

Lemma skip_space_comma s a l g :
  ready s (44 :: a :: l) -> a <> 0 -> is_space a = false -> a <> 35 ->
  exists s1, skip_space (S (S g)) s = ROk a (put_back a s1) /\ ready (put_back a s1) (a :: l).
Proof.
  intros Hr Ha Hs H35. destruct (read_byte_ready _ _ _ Hr) as (s0 & E0 & R0).
  destruct (skip_space_nonspace s0 a l g R0 Ha Hs H35) as (s1 & E1 & R1 & _).
  exists s1. split; [|exact R1].
  remember (S g) as g' eqn:Hg. cbn [skip_space]. rewrite E0.
  change (Nat.eqb 44 0) with false. change (is_space 44) with true. cbv iota. subst g'. exact E1.
Qed.

Section Lists.
Variable float_ok : list byte -> bool.

Definition elem_reads (m d : nat) (e : list byte) (v : pv) : Prop :=
  (exists a r, e = a :: r /\ a <> 0 /\ is_space a = false /\ a <> 35 /\ a <> 93) /\
  forall f s b0 k, m <= f -> (b0 = 44 \/ b0 = 93) -> ready s (e ++ b0 :: k) ->
    exists s', read_value float_ok f d s = ROk v s' /\ ready s' (b0 :: k).

(* what follows an element: the closing bracket, or a comma and the next element *)
Fixpoint tail_text (es : list (list byte)) : list byte :=
  match es with [] => [93] | e :: r => 44 :: e ++ tail_text r end.

Lemma tail_text_head es k : exists b0 k', tail_text es ++ k = b0 :: k' /\ (b0 = 44 \/ b0 = 93).
Proof. destruct es as [|e r]; simpl; eauto. Qed.

(* one element, the scanner already standing on its first byte after skipSpace *)
Lemma read_list_tail m d : forall es vs, Forall2 (elem_reads m d) es vs ->
  forall acc s k F n, ready s (tail_text es ++ k) -> m + length es < F -> S (length es) < n ->
  exists s', read_list float_ok F n d acc s = ROk (PList (rev acc ++ vs)) s' /\ ready s' k.
Proof.
  induction 1 as [|e v es vs He Hrest IH]; intros acc s k F n Hr HF Hn.
  - destruct F as [|f]; [lia|]. destruct n as [|n']; [lia|]. simpl in Hr.
    destruct (skip_space_nonspace s 93 _ n' Hr) as (s3 & E3 & R3 & _ & _ & _); [lia|vm_compute; reflexivity|lia|].
    destruct (read_byte_ready _ _ _ R3) as (s4 & E4 & R4).
    exists s4. split; [|exact R4]. cbn [read_list]. rewrite E3.
    change (Nat.eqb 93 0) with false. change (Nat.eqb 93 (nn 93)) with true. cbv iota. rewrite E4.
    now rewrite app_nil_r.
  - destruct F as [|f]; [lia|]. destruct n as [|[|n'']]; try (simpl in Hn; lia).
    destruct He as ((a & r & -> & Ha0 & Has & Ha35 & Ha93) & Hread).
    simpl in Hr. rewrite <- app_assoc in Hr.
    destruct (skip_space_comma s a _ n'' Hr Ha0 Has Ha35) as (s1 & E1 & R1).
    destruct (tail_text_head es k) as (b0 & k' & Hk & Hb0).
    change (a :: r ++ tail_text es ++ k) with ((a :: r) ++ tail_text es ++ k) in R1. rewrite Hk in R1.
    destruct (Hread f (put_back a s1) b0 k') as (s2 & E2 & R2); [simpl in HF; lia|exact Hb0|exact R1|].
    assert (R2' : ready s2 (tail_text es ++ k)) by (rewrite Hk; exact R2).
    destruct (IH (v :: acc) s2 k f (S n'')) as (s' & E' & R'); [exact R2'|simpl in HF; lia|simpl in Hn; lia|].
    exists s'. split; [|exact R']. rewrite (read_list_eq float_ok). cbv beta iota. rewrite E1.
    destruct (Nat.eqb_spec a 0) as [|_]; [contradiction|]. change (nn 93) with 93.
    destruct (Nat.eqb_spec a 93) as [|_]; [contradiction|]. rewrite E2, E'. cbn [rev]. now rewrite <- app_assoc.
Qed.

(* the '[' branch of readValue, as an equation between the folded functions *)
Lemma read_value_bracket f d s s1 s2 x :
  skip_space (S f) s = ROk 91 s1 -> read_byte s1 = ROk x s2 -> Nat.ltb max_nesting (S d) = false ->
  read_value float_ok (S f) d s = read_list float_ok f (S f) (S d) [] s2.
Proof.
  intros E E2 El. cbn [read_value]. rewrite E.
  change (Nat.eqb 91 0) with false. change (Nat.eqb 91 (nn 34)) with false. change (Nat.eqb 91 (nn 36)) with false.
  change (Nat.eqb 91 (nn 45) || ((nn 48 <=? 91) && (91 <=? nn 57))) with false.
  change (Nat.eqb 91 (nn 91)) with true. cbv iota. rewrite E2, El. reflexivity.
Qed.

(* [e1,e2,...,en] with n >= 1 *)
Theorem read_value_list_written m d e v es vs s k F :
  elem_reads m (S d) e v -> Forall2 (elem_reads m (S d)) es vs ->
  ready s (91 :: e ++ tail_text es ++ k) -> m + length es + 3 < F -> S d <= max_nesting ->
  exists s', read_value float_ok F d s = ROk (PList (v :: vs)) s' /\ ready s' k.
Proof.
  intros He Hes Hr HF Hd. destruct F as [|[|f]]; try lia.
  destruct (skip_space_nonspace s 91 _ (S f) Hr) as (s1 & E & R1 & _ & _ & _); [lia|vm_compute; reflexivity|lia|].
  destruct (read_byte_ready _ _ _ R1) as (s2 & E2 & R2).
  destruct He as ((a & r & -> & Ha0 & Has & Ha35 & Ha93) & Hread).
  change ((a :: r) ++ tail_text es ++ k) with (a :: (r ++ tail_text es ++ k)) in R2.
  destruct (skip_space_nonspace s2 a _ (S f) R2 Ha0 Has Ha35) as (s3 & E3 & R3 & _ & _ & _).
  destruct (tail_text_head es k) as (b0 & k' & Hk & Hb0).
  change (a :: r ++ tail_text es ++ k) with ((a :: r) ++ tail_text es ++ k) in R3. rewrite Hk in R3.
  destruct (Hread f (put_back a s3) b0 k') as (s4 & E4 & R4); [lia|exact Hb0|exact R3|].
  assert (R4' : ready s4 (tail_text es ++ k)) by (rewrite Hk; exact R4).
  destruct (read_list_tail m (S d) es vs Hes [v] s4 k f (S f)) as (s' & E' & R'); [exact R4'|lia|lia|].
  exists s'. split; [|exact R'].
  assert (El : Nat.ltb max_nesting (S d) = false) by (apply Nat.ltb_ge; lia).
  rewrite (read_value_bracket _ _ _ _ _ _ E E2 El).
  rewrite (read_list_eq float_ok). cbv beta iota. rewrite E3.
  destruct (Nat.eqb_spec a 0) as [|_]; [contradiction|]. change (nn 93) with 93.
  destruct (Nat.eqb_spec a 93) as [|_]; [contradiction|]. rewrite E4, E'. reflexivity.
Qed.
(* the premises are met: a name is such an element ... *)
Lemma name_elem_reads a w d :
  name_start a = true -> Forall (fun b => is_token b = true) w ->
  elem_reads (length w + 2) d (a :: w) (keyword_value (a :: w)).
Proof.
  intros Hns Hw. destruct (name_start_props a Hns) as (Hta & _). destruct (is_token_props a Hta) as (Ha0 & Hsp & H35).
  split.
  - exists a, w. repeat split; auto; try (intros ->; vm_compute in Hta; discriminate).
  - intros f s b0 k Hm Hb0 Hr.
    apply (read_value_name_written float_ok a w s b0 k f d Hns Hw); [| |exact Hr|lia];
      destruct Hb0 as [-> | ->]; first [vm_compute; reflexivity | lia].
Qed.

(* ... and so is a bracketed list of such elements, one level further in: lists nest *)
Lemma list_elem_reads m d e v es vs :
  elem_reads m (S d) e v -> Forall2 (elem_reads m (S d)) es vs -> S d <= max_nesting ->
  elem_reads (m + length es + 4) d (91 :: e ++ tail_text es) (PList (v :: vs)).
Proof.
  intros He Hes Hd. split.
  - exists 91, (e ++ tail_text es). repeat split; try lia.
  - intros f s b0 k Hm Hb0 Hr.
    apply (read_value_list_written m d e v es vs s (b0 :: k) f He Hes); [|lia|exact Hd].
    simpl in Hr. rewrite <- app_assoc in Hr. exact Hr.
Qed.
(* ... and so is a number token *)
Lemma number_elem_reads (a : byte) (w : list byte) d v :
  (Nat.eqb a 45 || digit a) = true -> Forall (fun b => is_num b = true) (a :: w) ->
  number_value float_ok (a :: w) = Some v ->
  elem_reads (length w + 2) d (a :: w) v.
Proof.
  intros Hfirst Hw Hv. split.
  - exists a, w. split; [reflexivity|].
    apply orb_prop in Hfirst. destruct Hfirst as [H|H].
    + apply Nat.eqb_eq in H. subst a. repeat split; lia.
    + unfold digit in H. apply andb_prop in H. destruct H as [H1 H2]. apply Nat.leb_le in H1, H2.
      assert (Hin : In a (seq 48 10)) by (rewrite in_seq; lia).
      cbn in Hin. repeat (destruct Hin as [<-|Hin]; [repeat split; try lia; vm_compute; reflexivity|]). contradiction.
  - intros f s b0 k Hm Hb0 Hr.
    apply (read_value_number_written float_ok a w s b0 k f d v Hfirst Hw); [| |exact Hv|exact Hr|lia];
      destruct Hb0 as [-> | ->]; first [vm_compute; reflexivity | lia].
Qed.
(* ... and a variable *)
Lemma variable_elem_reads (w : list byte) d :
  w <> [] -> Forall (fun b => is_token b = true) w ->
  elem_reads (length w + 2) d (36 :: w) (PVar w).
Proof.
  intros Hne Hw. split.
  - exists 36, w. repeat split; try lia.
  - intros f s b0 k Hm Hb0 Hr.
    apply (read_value_variable_written float_ok w s b0 k f d Hne Hw); [| |exact Hr|lia];
      destruct Hb0 as [-> | ->]; first [vm_compute; reflexivity | lia].
Qed.
End Lists.
