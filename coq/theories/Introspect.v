(* Introspect.v — what __schema and __type must answer for an accepted state.
   Two steps: info_of reads, from the flat reading of the accepted definitions, the description of
   each type (kind, name, description, fields with arguments / types / deprecation, interfaces,
   possible types, enum values, input fields) and of each directive; enc_* lays that description
   out as the response tree of the full introspection query (type references unrolled through
   ofType).  dec_* reads the tree back (Introspect_proofs.v: dec (enc i) = Some i).  No proofs here. *)
From Coq Require Import List Arith ZArith Bool.
Import ListNotations.
From GG Require Import Schema.

(* response trees; objects are positional (the field order of each record is fixed below) *)
Inductive jt :=
| INull | IBool (b : bool) | IKind (k : nat) | IName (ns n : nat) | IDesc (d : list nat)
| IVal (v : cval) | ILoc (l : nat) | IList (l : list jt) | ISet (l : list jt) | IObj (l : list jt).

(* ---- the description ---- *)
Record arginfo := { ai_name : nat; ai_desc : list nat; ai_ty : tref; ai_def : option cval }.
Record fieldinfo := { fi_name : nat; fi_desc : list nat; fi_args : list arginfo; fi_ty : tref;
                      fi_dep : option cval }.          (* Some reason when deprecated *)
Record valinfo := { vi_name : nat; vi_desc : list nat; vi_dep : option cval }.
Record typeinfo := {
  ti_kind : nat; ti_name : nat; ti_desc : list nat;
  ti_fields : option (list fieldinfo); ti_ifaces : option (list nat);
  ti_possible : option (list nat);
  ti_vals : option (list valinfo); ti_inputs : option (list arginfo) }.
Record dirinfo := { di_name : nat; di_desc : list nat; di_locs : list nat; di_args : list arginfo }.

(* kinds as in __TypeKind: 0 SCALAR 1 OBJECT 2 INTERFACE 3 UNION 4 ENUM 5 INPUT_OBJECT 6 LIST 7 NON_NULL *)
Definition kind_num (k : kind) : nat :=
  match k with KScalar => 0 | KObject => 1 | KInterface => 2 | KUnion => 3 | KEnum => 4 | KInput => 5 | _ => 99 end.

Definition named_kind (fl : flat) (n : nat) : nat :=
  if has_kind fl KScalar n then 0 else if has_kind fl KObject n then 1 else if has_kind fl KInterface n then 2
  else if has_kind fl KUnion n then 3 else if has_kind fl KEnum n then 4 else if has_kind fl KInput n then 5 else 99.

(* @deprecated is directive 2, its argument reason is 1, the default reason is string 0 *)
Definition deprecation (dirs : list duse) : option cval :=
  match filter (fun du => Nat.eqb (du_name du) 2) dirs with
  | [] => None
  | du :: _ =>
      match filter (fun av => Nat.eqb (fst av) 1) (du_args du) with
      | [] => Some (QStr 0)
      | av :: _ => Some (snd av)
      end
  end.

Definition arg_info (a : argd) : arginfo :=
  {| ai_name := ad_name a; ai_desc := a_desc a; ai_ty := a_ty a; ai_def := a_def a |}.
Definition field_info (f : fieldd) : fieldinfo :=
  {| fi_name := fd_name f; fi_desc := f_desc f; fi_args := map arg_info (fd_args f); fi_ty := f_ty f;
     fi_dep := deprecation (f_dirs f) |}.
Definition val_info (v : evd) : valinfo :=
  {| vi_name := ev_name v; vi_desc := ev_desc v; vi_dep := deprecation (ev_dirs v) |}.

Definition keep {A} (incl : bool) (dep : A -> option cval) (l : list A) : list A :=
  filter (fun x => incl || match dep x with None => true | Some _ => false end) l.

Definition members_of {A} (k : key) (l : list (key * A)) : list A :=
  map snd (filter (fun kx => key_eqb (fst kx) k) l).

(* the description of one definition; fl is the flat reading of the accepted definitions *)
Definition info_of (fl : flat) (incl : bool) (b : bdef) : typeinfo :=
  let k := bkey b in
  let fields := keep incl fi_dep (map field_info (members_of k (fl_fields fl))) in
  let base := {| ti_kind := kind_num (b_kind b); ti_name := b_name b; ti_desc := b_desc b;
                 ti_fields := None; ti_ifaces := None; ti_possible := None;
                 ti_vals := None; ti_inputs := None |} in
  match b_kind b with
  | KObject =>
      {| ti_kind := 1; ti_name := b_name b; ti_desc := b_desc b; ti_fields := Some fields;
         ti_ifaces := Some (members_of k (fl_ifaces fl)); ti_possible := None;
         ti_vals := None; ti_inputs := None |}
  | KInterface =>
      {| ti_kind := 2; ti_name := b_name b; ti_desc := b_desc b; ti_fields := Some fields; ti_ifaces := None;
         ti_possible := Some (map b_name (filter (fun o => kind_eqb (b_kind o) KObject &&
                                                           iface_member_of fl (b_name o) (b_name b)) (fl_bases fl)));
         ti_vals := None; ti_inputs := None |}
  | KUnion =>
      {| ti_kind := 3; ti_name := b_name b; ti_desc := b_desc b; ti_fields := None; ti_ifaces := None;
         ti_possible := Some (members_of k (fl_members fl));
         ti_vals := None; ti_inputs := None |}
  | KEnum =>
      {| ti_kind := 4; ti_name := b_name b; ti_desc := b_desc b; ti_fields := None; ti_ifaces := None;
         ti_possible := None;
         ti_vals := Some (keep incl vi_dep (map val_info (members_of k (fl_vals fl)))); ti_inputs := None |}
  | KInput =>
      {| ti_kind := 5; ti_name := b_name b; ti_desc := b_desc b; ti_fields := None; ti_ifaces := None;
         ti_possible := None; ti_vals := None;
         ti_inputs := Some (map arg_info (members_of k (fl_inputs fl))) |}
  | _ => base
  end.

Definition dir_info (fl : flat) (b : bdef) : dirinfo :=
  {| di_name := b_name b; di_desc := b_desc b; di_locs := members_of (bkey b) (fl_locs fl);
     di_args := map arg_info (members_of (bkey b) (fl_inputs fl)) |}.

(* ---- the response tree ---- *)
Fixpoint enc_tref (fl : flat) (t : tref) : jt :=
  match t with
  | TN n => IObj [IKind (named_kind fl n); IName 0 n; INull]
  | TL t => IObj [IKind 6; INull; enc_tref fl t]
  | TNN t => IObj [IKind 7; INull; enc_tref fl t]
  end.

Definition enc_opt {A} (f : A -> jt) (o : option A) : jt := match o with None => INull | Some x => f x end.

Definition enc_arg (fl : flat) (ns : nat) (a : arginfo) : jt :=
  IObj [IName ns (ai_name a); IDesc (ai_desc a); enc_tref fl (ai_ty a); enc_opt IVal (ai_def a)].

Definition enc_field (fl : flat) (f : fieldinfo) : jt :=
  IObj [IName 3 (fi_name f); IDesc (fi_desc f); IList (map (enc_arg fl 4) (fi_args f)); enc_tref fl (fi_ty f);
        IBool (match fi_dep f with None => false | Some _ => true end); enc_opt IVal (fi_dep f)].

Definition enc_val (v : valinfo) : jt :=
  IObj [IName 5 (vi_name v); IDesc (vi_desc v); IBool (match vi_dep v with None => false | Some _ => true end);
        enc_opt IVal (vi_dep v)].

Definition enc_type (fl : flat) (i : typeinfo) : jt :=
  IObj [IKind (ti_kind i); IName 0 (ti_name i); IDesc (ti_desc i);
        enc_opt (fun l => ISet (map (enc_field fl) l)) (ti_fields i);
        enc_opt (fun l => ISet (map (IName 0) l)) (ti_ifaces i);
        enc_opt (fun l => ISet (map (IName 0) l)) (ti_possible i);
        enc_opt (fun l => ISet (map enc_val l)) (ti_vals i);
        enc_opt (fun l => ISet (map (enc_arg fl 3) l)) (ti_inputs i);
        INull].

Definition enc_dir (fl : flat) (d : dirinfo) : jt :=
  IObj [IName 1 (di_name d); IDesc (di_desc d); IList (map ILoc (di_locs d)); IList (map (enc_arg fl 4) (di_args d))].

(* ---- the answers ---- *)
Definition is_type_def (b : bdef) : bool := Nat.eqb (ns_of (b_kind b)) 0.

Definition op_name (st : list item) (o : nat) : jt :=
  match filter (fun p => Nat.eqb (fst p) o) (op_roots st) with
  | [] => INull
  | p :: _ => IName 0 (snd p)
  end.

(* __schema: the user's types and directives (the built-in ones are the same for every root and are
   left out of the comparison); types and directives are sets *)
Definition schema_answer (st : list item) (incl : bool) : jt :=
  let fl := flatten (core_items ++ st) in
  let ufl := flatten st in
  IObj [op_name st 1; op_name st 2; op_name st 3;
        ISet (map (fun b => enc_type fl (info_of fl incl b)) (filter is_type_def (fl_bases ufl)));
        ISet (map (fun b => enc_dir fl (dir_info fl b)) (filter (fun b => kind_eqb (b_kind b) KDirective) (fl_bases ufl)))].

(* __type(name:): the definition of that name, null when there is none *)
Definition type_answer (st : list item) (incl : bool) (n : nat) : jt :=
  let fl := flatten (core_items ++ st) in
  match filter (fun b => is_type_def b && Nat.eqb (b_name b) n) (fl_bases fl) with
  | [] => INull
  | b :: _ => enc_type fl (info_of fl incl b)
  end.

(* ---- reading the tree back ---- *)
Fixpoint dec_tref (j : jt) : option tref :=
  match j with
  | IObj [IKind _; IName 0 n; INull] => Some (TN n)
  | IObj [IKind 6; INull; o] => match dec_tref o with Some t => Some (TL t) | None => None end
  | IObj [IKind 7; INull; o] => match dec_tref o with Some t => Some (TNN t) | None => None end
  | _ => None
  end.

Fixpoint dec_list {A} (f : jt -> option A) (l : list jt) : option (list A) :=
  match l with
  | [] => Some []
  | x :: r => match f x, dec_list f r with Some a, Some b => Some (a :: b) | _, _ => None end
  end.

Definition dec_val_opt (j : jt) : option (option cval) :=
  match j with INull => Some None | IVal v => Some (Some v) | _ => None end.

Definition dec_arg (ns : nat) (j : jt) : option arginfo :=
  match j with
  | IObj [IName ns' n; IDesc d; t; dv] =>
      if Nat.eqb ns ns' then
        match dec_tref t, dec_val_opt dv with
        | Some ty, Some def => Some {| ai_name := n; ai_desc := d; ai_ty := ty; ai_def := def |}
        | _, _ => None
        end
      else None
  | _ => None
  end.

Definition dec_field (j : jt) : option fieldinfo :=
  match j with
  | IObj [IName 3 n; IDesc d; IList args; t; IBool _; dep] =>
      match dec_list (dec_arg 4) args, dec_tref t, dec_val_opt dep with
      | Some a, Some ty, Some dp => Some {| fi_name := n; fi_desc := d; fi_args := a; fi_ty := ty; fi_dep := dp |}
      | _, _, _ => None
      end
  | _ => None
  end.

Definition dec_valinfo (j : jt) : option valinfo :=
  match j with
  | IObj [IName 5 n; IDesc d; IBool _; dep] =>
      match dec_val_opt dep with Some dp => Some {| vi_name := n; vi_desc := d; vi_dep := dp |} | None => None end
  | _ => None
  end.

Definition dec_name (j : jt) : option nat := match j with IName 0 n => Some n | _ => None end.

Definition dec_opt_list {A} (f : jt -> option A) (j : jt) : option (option (list A)) :=
  match j with
  | INull => Some None
  | IList l | ISet l => match dec_list f l with Some x => Some (Some x) | None => None end
  | _ => None
  end.

Definition dec_type (j : jt) : option typeinfo :=
  match j with
  | IObj [IKind k; IName 0 n; IDesc d; fields; ifaces; possible; vals; inputs; INull] =>
      match dec_opt_list dec_field fields, dec_opt_list dec_name ifaces, dec_opt_list dec_name possible,
            dec_opt_list dec_valinfo vals, dec_opt_list (dec_arg 3) inputs with
      | Some f, Some i, Some p, Some v, Some inp =>
          Some {| ti_kind := k; ti_name := n; ti_desc := d; ti_fields := f; ti_ifaces := i; ti_possible := p;
                  ti_vals := v; ti_inputs := inp |}
      | _, _, _, _, _ => None
      end
  | _ => None
  end.
