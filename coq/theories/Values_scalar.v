(* Values_scalar.v — the SDL round trip for every scalar value through ggql's value reader (readValue of
   parser.go): a variable, an enum symbol / true / false / null, and a number, written as the SDL writer
   writes them and followed by a byte that ends a value, are read back as that value by read_value, the
   scanner left in front of the following byte - names and number tokens of any length, any nesting
   depth counter, any scanner position. *)
From Coq Require Import List Arith ZArith Bool Lia.
Import ListNotations.
From GG.gen Require Import Tables.
From GG Require Import Text Text_proofs Text_total Sdl Sdl_proofs Tokens_proofs.

(* the inner loop again, keeping what the look-ahead holds afterwards *)
Lemma read_while_written_deck (p : byte -> bool) : forall (w acc : list byte) s b0 k fuel,
  Forall (fun b => p b = true /\ b <> 0) w -> p b0 = false -> b0 <> 0 ->
  ready s (w ++ b0 :: k) -> length w < fuel ->
  exists s', read_while p fuel acc s = ROk (rev acc ++ w) s' /\ ready s' (b0 :: k) /\ ondeck s' = b0.
Proof.
  induction w as [|a w IH]; intros acc s b0 k fuel Hw Hp Hb Hr Hf.
  - destruct fuel as [|f]; [simpl in Hf; lia|]. cbn [read_while].
    destruct (read_byte_ready _ _ _ Hr) as (s1 & E & R). rewrite E.
    destruct (Nat.eqb_spec b0 0) as [|_]; [contradiction|]. rewrite Hp.
    exists (put_back b0 s1). split; [now rewrite app_nil_r|]. split; [|reflexivity].
    apply put_back_ready; [exact R| |exact Hb]. eapply read_byte_ondeck; exact E.
  - destruct fuel as [|f]; [simpl in Hf; lia|]. cbn [read_while].
    inversion Hw as [|x l [Hpa Ha] Hw']; subst.
    change ((a :: w) ++ b0 :: k) with (a :: (w ++ b0 :: k)) in Hr.
    destruct (read_byte_ready _ _ _ Hr) as (s1 & E & R). rewrite E.
    destruct (Nat.eqb_spec a 0) as [|_]; [contradiction|]. rewrite Hpa.
    destruct (IH (a :: acc) s1 b0 k f Hw' Hp Hb R) as (s' & E' & R'); [simpl in Hf; lia|].
    exists s'. split; [|exact R']. rewrite E'. cbn [rev]. now rewrite <- app_assoc.
Qed.

(* skipSpace in front of a byte that is neither white space nor '#': the byte is put back *)
Lemma skip_space_nonspace s a l f :
  ready s (a :: l) -> a <> 0 -> is_space a = false -> a <> 35 ->
  exists s1, skip_space (S f) s = ROk a (put_back a s1) /\ ready (put_back a s1) (a :: l) /\
             ondeck (put_back a s1) = a /\ ready s1 l /\ ondeck s1 = 0.
Proof.
  intros Hr Ha Hsp H35. destruct (read_byte_ready _ _ _ Hr) as (s1 & E & R).
  pose proof (read_byte_ondeck _ _ _ E) as Ho. exists s1.
  split; [|split; [apply put_back_ready; auto|split; [reflexivity|split; assumption]]].
  cbn [skip_space]. rewrite E. destruct (Nat.eqb_spec a 0) as [|_]; [contradiction|]. rewrite Hsp.
  change (nn 35) with 35. destruct (Nat.eqb_spec a 35) as [|_]; [contradiction|]. reflexivity.
Qed.

(* the first byte of a name: a token byte that is no digit; what readValue's dispatch sees of it *)
Definition digit (b : byte) : bool := (48 <=? b) && (b <=? 57).
Definition name_start (b : byte) : bool := is_token b && negb (digit b).

Lemma name_start_sweep :
  forallb (fun b => implb (name_start b)
     (negb (Nat.eqb b 34) && negb (Nat.eqb b 36) && negb (Nat.eqb b 45 || digit b) && negb (Nat.eqb b 91) && negb (Nat.eqb b 123)))
    (seq 0 256) = true.
Proof. vm_compute. reflexivity. Qed.

Lemma name_start_props b : name_start b = true ->
  is_token b = true /\ Nat.eqb b 34 = false /\ Nat.eqb b 36 = false /\ (Nat.eqb b 45 || digit b) = false /\
  Nat.eqb b 91 = false /\ Nat.eqb b 123 = false.
Proof.
  intros H. assert (Ht : is_token b = true) by (unfold name_start in H; apply andb_prop in H; tauto).
  pose proof (is_token_small b Ht) as Hb.
  pose proof name_start_sweep as S. rewrite forallb_forall in S. specialize (S b).
  rewrite in_seq in S. assert (Hi : 0 <= b < 0 + 256) by lia. specialize (S Hi). rewrite H in S. cbn [implb] in S.
  repeat (apply andb_prop in S; destruct S as [S ?]).
  repeat match goal with X : negb _ = true |- _ => apply negb_true_iff in X end. auto 10.
Qed.

Section Scalars.
Variable float_ok : list byte -> bool.

(* $name *)
Theorem read_value_variable_written (w : list byte) s b0 k fuel d :
  w <> [] -> Forall (fun b => is_token b = true) w -> is_token b0 = false -> b0 <> 0 ->
  ready s (36 :: w ++ b0 :: k) -> length w + 1 < fuel ->
  exists s', read_value float_ok fuel d s = ROk (PVar w) s' /\ ready s' (b0 :: k).
Proof.
  intros Hne Hw Hp Hb Hr Hf. destruct fuel as [|f]; [lia|].
  destruct (skip_space_nonspace s 36 _ f Hr) as (s1 & E & R1 & _ & R2 & _); [lia|vm_compute; reflexivity|lia|].
  destruct (read_byte_ready _ _ _ R1) as (s2 & E2 & R3).
  destruct (read_token_written w s2 b0 k (S f) Hne Hw Hp Hb R3) as (s' & E' & R'); [lia|].
  exists s'. split; [|exact R'].
  cbn [read_value]. rewrite E.
  change (Nat.eqb 36 0) with false. change (Nat.eqb 36 (nn 34)) with false. change (Nat.eqb 36 (nn 36)) with true.
  cbv iota. rewrite E2, E'. reflexivity.
Qed.

(* a name that is no keyword is an enum symbol; true, false, null are themselves *)
Definition keyword_value (w : list byte) : pv :=
  if eqb_bytes w tok_true then PBool true else if eqb_bytes w tok_false then PBool false
  else if eqb_bytes w tok_null then PNull else PSym w.

Theorem read_value_name_written (a : byte) (w : list byte) s b0 k fuel d :
  name_start a = true -> Forall (fun b => is_token b = true) w -> is_token b0 = false -> b0 <> 0 ->
  ready s ((a :: w) ++ b0 :: k) -> length w + 1 < fuel ->
  exists s', read_value float_ok fuel d s = ROk (keyword_value (a :: w)) s' /\ ready s' (b0 :: k).
Proof.
  intros Hns Hw Hp Hb Hr Hf. destruct fuel as [|f]; [lia|].
  destruct (name_start_props a Hns) as (Hta & H34 & H36 & H45 & H91 & H123).
  destruct (is_token_props a Hta) as (Ha0 & Hsp & H35).
  change ((a :: w) ++ b0 :: k) with (a :: (w ++ b0 :: k)) in Hr.
  destruct (skip_space_nonspace s a _ f Hr Ha0 Hsp H35) as (s1 & E & R1 & Ho & _ & _).
  assert (Hwa : Forall (fun b => is_token b = true) (a :: w)) by (constructor; assumption).
  (* readToken on the put-back state: skipSpace again finds the byte, then the loop *)
  destruct (skip_space_nonspace (put_back a s1) a _ f R1 Ha0 Hsp H35) as (s1' & E1 & R1' & Ho' & _ & _).
  change (a :: (w ++ b0 :: k)) with ((a :: w) ++ b0 :: k) in R1'.
  destruct (read_while_written_deck is_token (a :: w) [] (put_back a s1') b0 k (S f)) as (s' & E' & R' & Hd); auto.
  { eapply Forall_impl; [|exact Hwa]. intros b H. split; [exact H|]. now destruct (is_token_props b H). }
  { simpl. lia. }
  exists s'. split; [|exact R'].
  cbn [read_value]. rewrite E.
  destruct (Nat.eqb_spec a 0) as [|_]; [contradiction|].
  change (nn 34) with 34. change (nn 36) with 36. change (nn 45) with 45. change (nn 48) with 48. change (nn 57) with 57.
  change (nn 91) with 91. change (nn 123) with 123.
  rewrite H34, H36. fold (digit a). rewrite H45, H91, H123.
  unfold read_token. rewrite E1. destruct (Nat.eqb_spec a 0) as [|_]; [contradiction|]. rewrite E'.
  cbn [rev app].
  (* something was consumed: the look-ahead changed from a (a token byte) to b0 (none) *)
  assert (Hdeck : Nat.eqb (ondeck (put_back a s1)) (ondeck s') = false).
  { rewrite Ho, Hd. apply Nat.eqb_neq. intros ->. congruence. }
  rewrite Hdeck, andb_false_r.
  unfold keyword_value.
  destruct (eqb_bytes (a :: w) tok_true); [reflexivity|].
  destruct (eqb_bytes (a :: w) tok_false); [reflexivity|].
  destruct (eqb_bytes (a :: w) tok_null); [reflexivity|]. reflexivity.
Qed.

(* a number token starting with '-' or a digit, followed by a byte that may follow a value *)
Definition number_value (w : list byte) : option pv :=
  match parse_int64 w with
  | Some z => Some (PInt z)
  | None => if float_ok w then Some (PFloat w) else None
  end.

Theorem read_value_number_written (a : byte) (w : list byte) s b0 k fuel d v :
  (Nat.eqb a 45 || digit a) = true -> Forall (fun b => is_num b = true) (a :: w) ->
  value_follow b0 = true -> b0 <> 0 -> number_value (a :: w) = Some v ->
  ready s ((a :: w) ++ b0 :: k) -> length w + 1 < fuel ->
  exists s', read_value float_ok fuel d s = ROk v s' /\ ready s' (b0 :: k).
Proof.
  intros Hfirst Hw Hvf Hb Hv Hr Hf. destruct fuel as [|f]; [lia|].
  assert (Hp : is_num b0 = false).
  { unfold value_follow in Hvf. cbn [existsb] in Hvf.
    repeat (apply orb_prop in Hvf; destruct Hvf as [Hvf|Hvf]; [apply Nat.eqb_eq in Hvf; subst b0; vm_compute; reflexivity|]).
    discriminate. }
  assert (Hprops : a <> 0 /\ is_space a = false /\ a <> 35 /\ Nat.eqb a 34 = false /\ Nat.eqb a 36 = false).
  { apply orb_prop in Hfirst. destruct Hfirst as [H|H].
    - apply Nat.eqb_eq in H. subst a. repeat split; try lia; vm_compute; reflexivity.
    - unfold digit in H. apply andb_prop in H. destruct H as [H1 H2]. apply Nat.leb_le in H1, H2.
      assert (Hin : In a (seq 48 10)) by (rewrite in_seq; lia).
      cbn in Hin. repeat (destruct Hin as [<-|Hin]; [repeat split; try lia; vm_compute; reflexivity|]). contradiction. }
  destruct Hprops as (Ha0 & Hsp & H35 & H34 & H36).
  change ((a :: w) ++ b0 :: k) with (a :: (w ++ b0 :: k)) in Hr.
  destruct (skip_space_nonspace s a _ f Hr Ha0 Hsp H35) as (s1 & E & R1 & Ho & _ & _).
  change (a :: (w ++ b0 :: k)) with ((a :: w) ++ b0 :: k) in R1.
  destruct (read_while_written_deck is_num (a :: w) [] (put_back a s1) b0 k (S f)) as (s' & E' & R' & Hd); auto.
  { eapply Forall_impl; [|exact Hw]. intros b H. split; [exact H|now apply is_num_nonzero]. }
  { simpl. lia. }
  exists s'. split; [|exact R'].
  cbn [read_value]. rewrite E.
  destruct (Nat.eqb_spec a 0) as [|_]; [contradiction|].
  change (nn 34) with 34. change (nn 36) with 36. change (nn 45) with 45. change (nn 48) with 48. change (nn 57) with 57.
  rewrite H34, H36. fold (digit a). rewrite Hfirst.
  unfold read_number_token. rewrite E'. cbn [rev app]. rewrite Hd, Hvf.
  unfold number_value in Hv. destruct (parse_int64 (a :: w)) as [z|]; [now inversion Hv|].
  destruct (float_ok (a :: w)); [now inversion Hv|discriminate].
Qed.
End Scalars.

(* the empty containers: [] and {} read back as the empty list and the empty object at any depth the
   nesting bound admits *)
Section Empties.
Variable float_ok : list byte -> bool.

Theorem read_value_empty_list_written s k fuel d :
  ready s (91 :: 93 :: k) -> 2 <= fuel -> S d <= max_nesting ->
  exists s', read_value float_ok fuel d s = ROk (PList []) s' /\ ready s' k.
Proof.
  intros Hr Hf Hd. destruct fuel as [|[|f]]; try lia.
  destruct (skip_space_nonspace s 91 _ (S f) Hr) as (s1 & E & R1 & _ & _ & _); [lia|vm_compute; reflexivity|lia|].
  destruct (read_byte_ready _ _ _ R1) as (s2 & E2 & R2).
  destruct (skip_space_nonspace s2 93 _ (S f) R2) as (s3 & E3 & R3 & _ & _ & _); [lia|vm_compute; reflexivity|lia|].
  destruct (read_byte_ready _ _ _ R3) as (s4 & E4 & R4).
  exists s4. split; [|exact R4].
  cbn [read_value]. rewrite E.
  change (Nat.eqb 91 0) with false. change (Nat.eqb 91 (nn 34)) with false. change (Nat.eqb 91 (nn 36)) with false.
  change (Nat.eqb 91 (nn 45) || ((nn 48 <=? 91) && (91 <=? nn 57))) with false.
  change (Nat.eqb 91 (nn 91)) with true. cbv iota. rewrite E2.
  destruct (Nat.ltb max_nesting (S d)) eqn:El; [apply Nat.ltb_lt in El; lia|].
  cbn [read_list]. rewrite E3.
  change (Nat.eqb 93 0) with false. change (Nat.eqb 93 (nn 93)) with true. cbv iota. rewrite E4. reflexivity.
Qed.

Theorem read_value_empty_map_written s k fuel d :
  ready s (123 :: 125 :: k) -> 2 <= fuel -> S d <= max_nesting ->
  exists s', read_value float_ok fuel d s = ROk (PMap []) s' /\ ready s' k.
Proof.
  intros Hr Hf Hd. destruct fuel as [|[|f]]; try lia.
  destruct (skip_space_nonspace s 123 _ (S f) Hr) as (s1 & E & R1 & _ & _ & _); [lia|vm_compute; reflexivity|lia|].
  destruct (read_byte_ready _ _ _ R1) as (s2 & E2 & R2).
  destruct (skip_space_nonspace s2 125 _ (S f) R2) as (s3 & E3 & R3 & _ & _ & _); [lia|vm_compute; reflexivity|lia|].
  destruct (read_byte_ready _ _ _ R3) as (s4 & E4 & R4).
  exists s4. split; [|exact R4].
  cbn [read_value]. rewrite E.
  change (Nat.eqb 123 0) with false. change (Nat.eqb 123 (nn 34)) with false. change (Nat.eqb 123 (nn 36)) with false.
  change (Nat.eqb 123 (nn 45) || ((nn 48 <=? 123) && (123 <=? nn 57))) with false.
  change (Nat.eqb 123 (nn 91)) with false. change (Nat.eqb 123 (nn 123)) with true. cbv iota. rewrite E2.
  destruct (Nat.ltb max_nesting (S d)) eqn:El; [apply Nat.ltb_lt in El; lia|].
  cbn [read_map]. rewrite E3.
  change (Nat.eqb 125 0) with false. change (Nat.eqb 125 (nn 125)) with true. cbv iota. rewrite E4. reflexivity.
Qed.
End Empties.
