(* Json_value.v — the value writer of value.go in JSON mode against the reference JSON reader written
   from RFC 8259 (Json.v), for whole values: every value written at any indent setting and any
   depth is accepted by the reference reader, which stops right behind it and returns the value
   (lists element by element, objects member by member, strings as in Json_proofs.v). *)
From Coq Require Import List Arith NArith ZArith Bool Lia.
Import ListNotations.
From GG.gen Require Import Tables.
From GG Require Import Text Json Sdl Sdl_proofs Json_proofs.

Ltac jn :=
  nnorm2;
  change (nn 91) with 91 in *; change (nn 93) with 93 in *; change (nn 123) with 123 in *; change (nn 125) with 125 in *;
  change (nn 44) with 44 in *; change (nn 58) with 58 in *; change (nn 45) with 45 in *; change (nn 48) with 48 in *;
  change (nn 57) with 57 in *; change (nn 46) with 46 in *; change (nn 101) with 101 in *; change (nn 69) with 69 in *;
  change (nn 43) with 43 in *; change (nn 36) with 36 in *.

(* ------------------------------------------------------------------ what may follow a value *)
Definition numcont (b : byte) : bool :=
  is_digit b || Nat.eqb b 46 || Nat.eqb b 101 || Nat.eqb b 69 || Nat.eqb b 43 || Nat.eqb b 45.

(* the text behind a written value: nothing, or a byte that cannot continue a number *)
Definition follow_ok (k : list byte) : Prop :=
  match k with [] => True | b :: _ => numcont b = false end.

(* a number token as strconv formats finite numbers: the reference reader takes exactly the token *)
Definition num_ok (t : list byte) : Prop :=
  forall k, follow_ok k -> json_number (t ++ k) = Some (t, k).

(* bytes that stand for themselves inside a JSON string *)
Definition plain_byte (b : byte) : Prop := 32 <= b /\ b <> 34 /\ b <> 92.

Fixpoint wf_wv (v : wv) : Prop :=
  match v with
  | WNull | WBool _ => True
  | WNum t => num_ok t
  | WStr s | WSym s | WVar s => Forall wf_rune s
  | WTime t => Forall plain_byte t
  | WOther t => Forall plain_byte (flat_map wr_utf8 t)
  | WList l => (fix go (l : list wv) : Prop := match l with [] => True | x :: r => wf_wv x /\ go r end) l
  | WMap kvs =>
      (fix go (l : list (list wrune * wv)) : Prop :=
         match l with [] => True | kv :: r => (Forall wf_rune (fst kv) /\ wf_wv (snd kv)) /\ go r end) kvs
  end.

Fixpoint size (v : wv) : nat :=
  match v with
  | WList l => S ((fix go (l : list wv) : nat := match l with [] => 0 | x :: r => S (size x) + go r end) l)
  | WMap kvs =>
      S ((fix go (l : list (list wrune * wv)) : nat := match l with [] => 0 | kv :: r => S (size (snd kv)) + go r end) kvs)
  | _ => 1
  end.

Definition sizes (l : list wv) : nat := fold_right (fun x n => S (size x) + n) 0 l.
Definition msizes (l : list (list wrune * wv)) : nat := fold_right (fun kv n => S (size (snd kv)) + n) 0 l.

Lemma size_list l : size (WList l) = S (sizes l).
Proof. reflexivity. Qed.
Lemma size_map l : size (WMap l) = S (msizes l).
Proof. reflexivity. Qed.
Lemma size_pos v : 1 <= size v.
Proof. destruct v; cbn [size]; lia. Qed.

Lemma wf_list l : wf_wv (WList l) <-> Forall wf_wv l.
Proof.
  cbn [wf_wv]. induction l as [|x r IH]; [split; auto|].
  split; [intros [Hx Hr]; constructor; [exact Hx|now apply IH]|].
  intros H. inversion H; subst. split; [assumption|now apply IH].
Qed.
Lemma wf_map l : wf_wv (WMap l) <-> Forall (fun kv => Forall wf_rune (fst kv) /\ wf_wv (snd kv)) l.
Proof.
  cbn [wf_wv]. induction l as [|x r IH]; [split; auto|].
  split; [intros [Hx Hr]; constructor; [exact Hx|now apply IH]|].
  intros H. inversion H; subst. split; [assumption|now apply IH].
Qed.

(* induction over values with the hypothesis for every element / member *)
Lemma wv_ind2 (P : wv -> Prop) :
  P WNull -> (forall b, P (WBool b)) -> (forall t, P (WNum t)) -> (forall s, P (WStr s)) -> (forall s, P (WSym s)) ->
  (forall s, P (WVar s)) -> (forall t, P (WTime t)) -> (forall t, P (WOther t)) ->
  (forall l, Forall P l -> P (WList l)) ->
  (forall kvs, Forall (fun kv => P (snd kv)) kvs -> P (WMap kvs)) ->
  forall v, P v.
Proof.
  intros H1 H2 H3 H4 H5 H6 H7 H8 HL HM.
  fix IH 1. intros v.
  destruct v as [|b|t|s|s|s|t|t|l|kvs];
    [exact H1|apply H2|apply H3|apply H4|apply H5|apply H6|apply H7|apply H8| |].
  - apply HL. induction l as [|x r IHl]; constructor; [apply IH|exact IHl].
  - apply HM. induction kvs as [|x r IHl]; constructor; [apply IH|exact IHl].
Qed.

(* ------------------------------------------------------------------ white space *)
Definition ws_only (p : list byte) : Prop := Forall (fun b => jws b = true) p.

Lemma skip_ws_app p l : ws_only p -> skip_ws (p ++ l) = skip_ws l.
Proof. induction 1 as [|b p Hb Hp IH]; [reflexivity|]. cbn [app skip_ws]. now rewrite Hb. Qed.

Lemma json_value_skip p l f : ws_only p -> json_value f (p ++ l) = json_value f l.
Proof. intros H. destruct f as [|f]; [reflexivity|]. cbn [json_value]. now rewrite (skip_ws_app p l H). Qed.

Lemma ws_spaces n : ws_only (spaces n).
Proof. unfold spaces. induction n; constructor; [reflexivity|assumption]. Qed.

Lemma ws_app p q : ws_only p -> ws_only q -> ws_only (p ++ q).
Proof. intros. now apply Forall_app. Qed.

Lemma skip_ws_nows b l : jws b = false -> skip_ws (b :: l) = b :: l.
Proof. intros H. cbn [skip_ws]. now rewrite H. Qed.

(* ------------------------------------------------------------------ numbers *)
Lemma num_ok_head t : num_ok t -> exists b r, t = b :: r /\ (Nat.eqb b 45 = true \/ is_digit b = true).
Proof.
  intros H. specialize (H [] I). rewrite app_nil_r in H.
  destruct t as [|b r].
  - discriminate.
  - exists b, r. split; [reflexivity|]. unfold json_number in H. jn.
    destruct (Nat.eqb b 45) eqn:E; [now left|right].
    cbn [take_digits] in H. destruct (is_digit b) eqn:D; [reflexivity|]. cbn in H. discriminate.
Qed.

Lemma digit_facts b : is_digit b = true -> 48 <= b <= 57.
Proof. unfold is_digit. jn. intros H. apply andb_true_iff in H as [H1 H2]. apply Nat.leb_le in H1, H2. lia. Qed.

(* ------------------------------------------------------------------ strings of plain bytes *)
Lemma json_string_plain (t : list byte) : Forall plain_byte t -> forall acc (k : list byte) extra,
  json_string (extra + (length t + 1)) (t ++ 34 :: k) acc = Some (rev acc ++ map SB t, k).
Proof.
  induction 1 as [|b t Hb Ht IH]; intros acc k extra.
  - cbn [length Nat.add app map]. replace (extra + 1) with (S extra) by lia.
    cbn [json_string]. jn. cbn [Nat.eqb]. now rewrite app_nil_r.
  - cbn [length app map]. replace (extra + (S (length t) + 1)) with (S (extra + (length t + 1))) by lia.
    cbn [json_string]. jn. destruct Hb as (H32 & H34 & H92).
    destruct (Nat.eqb_spec b 34); [contradiction|]. destruct (Nat.eqb_spec b 92); [contradiction|].
    destruct (Nat.ltb_spec b 32); [lia|]. rewrite IH. cbn [rev]. now rewrite <- app_assoc.
Qed.

Lemma json_value_quoted f (l : list nat) s k :
  json_string (length l + 1) l [] = Some (s, k) -> json_value (S f) (34 :: l) = Some (JStr s, k).
Proof. intros H. rewrite json_value_string, H. reflexivity. Qed.

Lemma json_string_fuel_ge f l acc res f' :
  json_string f l acc = Some res -> f <= f' -> json_string f' l acc = Some res.
Proof. intros H Hle. replace f' with ((f' - f) + f) by lia. now apply json_string_more_fuel. Qed.

Section Written.
Variable indent : Z.

(* the line break behind a list or object written at depth 0 with a positive indent *)
Definition trailer (d : nat) (v : wv) : list byte :=
  if is_collection v then (if (0 <? indent)%Z && Nat.eqb d 0 then [10] else []) else [].

Lemma ws_trailer d v : ws_only (trailer d v).
Proof.
  unfold trailer. destruct (is_collection v); [|constructor].
  destruct ((0 <? indent)%Z && Nat.eqb d 0); repeat constructor.
Qed.

(* ---- scalars ---- *)
Lemma written_null d k f : json_value (S f) (write_value false indent WNull d ++ k) = Some (JNull, k).
Proof. cbn [write_value]. unfold tok_null. jn. cbn. reflexivity. Qed.

Lemma written_bool b d k f : json_value (S f) (write_value false indent (WBool b) d ++ k) = Some (JBool b, k).
Proof. cbn [write_value]. destruct b; unfold tok_true, tok_false; jn; cbn; reflexivity. Qed.

Lemma written_num t d k f : num_ok t -> follow_ok k ->
  json_value (S f) (write_value false indent (WNum t) d ++ k) = Some (JNum t, k).
Proof.
  intros Ht Hk. cbn [write_value]. destruct (num_ok_head t Ht) as (b & r & E & Hb).
  specialize (Ht k Hk). subst t. cbn [app] in *. cbn [json_value].
  assert (Hws : jws b = false).
  { unfold jws. jn. destruct Hb as [Hb|Hb]; [apply Nat.eqb_eq in Hb; subst; reflexivity|].
    apply digit_facts in Hb. destruct (Nat.eqb_spec b 32); [lia|]. destruct (Nat.eqb_spec b 9); [lia|].
    destruct (Nat.eqb_spec b 10); [lia|]. destruct (Nat.eqb_spec b 13); [lia|]. reflexivity. }
  rewrite (skip_ws_nows _ _ Hws). jn.
  assert (Hne : forall c, c = 34 \/ c = 91 \/ c = 123 \/ c = 116 \/ c = 102 \/ c = 110 -> Nat.eqb b c = false).
  { intros c Hc. apply Nat.eqb_neq. destruct Hb as [Hb|Hb]; [apply Nat.eqb_eq in Hb; lia|apply digit_facts in Hb; lia]. }
  rewrite !Hne by tauto. rewrite Ht. reflexivity.
Qed.

Lemma written_string s k f : Forall wf_rune s ->
  json_value (S f) (write_string s true ++ k) = Some (JStr (flat_map rune_items s), k).
Proof.
  intros Hs. unfold write_string. jn. cbn [app]. rewrite <- app_assoc. cbn [app].
  apply json_value_quoted.
  pose proof (json_string_written s [] k Hs) as Hj. cbn [rev app] in Hj.
  rewrite app_length. cbn [length].
  replace (length (flat_map write_rune s) + S (length k) + 1)
    with (S (length k) + (length (flat_map write_rune s) + 1)) by lia.
  now apply json_string_more_fuel.
Qed.

Lemma wf_dollar : wf_rune (mkWR 36 [36]).
Proof. unfold wf_rune. cbn. lia. Qed.

Lemma written_time (t k : list byte) f : Forall plain_byte t ->
  json_value (S f) ([34] ++ t ++ [34] ++ k) = Some (JStr (map SB t), k).
Proof.
  intros Ht. cbn [app]. apply json_value_quoted. rewrite app_length. cbn [length].
  replace (length t + S (length k) + 1) with (S (length k) + (length t + 1)) by lia.
  now rewrite json_string_plain.
Qed.

(* ---- lists ---- *)
Definition i2 (d : nat) : list byte := if (0 <? indent)%Z then 10 :: spaces (ind indent (S d)) else [].
Definition closer (d : nat) : list byte := if (0 <? indent)%Z then 10 :: spaces (ind indent d) else [].
Definition endnl (d : nat) : list byte := if (0 <? indent)%Z && Nat.eqb d 0 then [10] else [].

Definition lgo (d : nat) : list wv -> bool -> list byte :=
  fix go (l : list wv) (nosep : bool) : list byte :=
    match l with
    | [] => []
    | x :: r =>
        (if nosep then [] else element_sep false indent x) ++ i2 d ++ write_value false indent x (S d) ++
        go r ((indent <? 0)%Z && false && is_collection x)
    end.

Lemma write_list l d :
  write_value false indent (WList l) d = [91] ++ lgo d l true ++ closer d ++ [93] ++ endnl d.
Proof. reflexivity. Qed.

Definition mgo (d : nat) : list (list wrune * wv) -> bool -> list byte :=
  fix go (l : list (list wrune * wv)) (nosep : bool) : list byte :=
    match l with
    | [] => []
    | kv :: r =>
        (if (negb false || (indent <=? 0)%Z) && negb nosep
         then 44 :: (if (indent =? 0)%Z then [32] else []) else []) ++
        i2 d ++ write_key false (fst kv) ++ [58] ++
        (if (0 <=? indent)%Z then [32] else []) ++ write_value false indent (snd kv) (S d) ++
        go r ((indent <? 0)%Z && false && is_collection (snd kv))
    end.

Lemma write_map l d :
  write_value false indent (WMap l) d = [123] ++ mgo d l true ++ closer d ++ [125] ++ endnl d.
Proof. reflexivity. Qed.

Lemma ws_i2 d : ws_only (i2 d).
Proof. unfold i2. destruct (0 <? indent)%Z; [constructor; [reflexivity|apply ws_spaces]|constructor]. Qed.
Lemma ws_closer d : ws_only (closer d).
Proof. unfold closer. destruct (0 <? indent)%Z; [constructor; [reflexivity|apply ws_spaces]|constructor]. Qed.

(* the separator in front of every element but the first: a comma, then white space *)
Definition sepws : list byte := if (indent =? 0)%Z then [32] else [].
Lemma ws_sepws : ws_only sepws.
Proof. unfold sepws. destruct (indent =? 0)%Z; repeat constructor. Qed.
Lemma element_sep_json x : element_sep false indent x = 44 :: sepws.
Proof. unfold element_sep, sepws. destruct (indent =? 0)%Z; reflexivity. Qed.

(* the elements behind the first one, then what closes the list *)
Fixpoint lrest (d : nat) (r : list wv) (fin : list byte) : list byte :=
  match r with
  | [] => fin
  | y :: r' => 44 :: sepws ++ i2 d ++ write_value false indent y (S d) ++ lrest d r' fin
  end.

Lemma lgo_rest d r fin : lgo d r false ++ fin = lrest d r fin.
Proof.
  induction r as [|y r IH]; [reflexivity|].
  cbn [lgo lrest]. rewrite element_sep_json, andb_false_r. cbn [andb].
  rewrite <- IH. cbn [app]. rewrite <- !app_assoc. reflexivity.
Qed.

Lemma lgo_first d x r fin :
  lgo d (x :: r) true ++ fin = i2 d ++ write_value false indent x (S d) ++ lrest d r fin.
Proof.
  cbn [lgo]. rewrite andb_false_r. cbn [andb app]. rewrite <- lgo_rest, <- !app_assoc. reflexivity.
Qed.

Definition written_ok (v : wv) : Prop :=
  wf_wv v -> forall d k fuel, size v <= fuel -> follow_ok k ->
    json_value fuel (write_value false indent v d ++ k) = Some (to_json v, trailer d v ++ k).

Lemma trailer_inner d v : trailer (S d) v = [].
Proof. unfold trailer. destruct (is_collection v); [|reflexivity]. now rewrite andb_false_r. Qed.

Lemma jws_not_numcont b : jws b = true -> numcont b = false.
Proof.
  unfold jws, numcont, is_digit. jn. intros H.
  destruct (Nat.eqb_spec b 32) as [E|]; [rewrite E; reflexivity|]. destruct (Nat.eqb_spec b 9) as [E|]; [rewrite E; reflexivity|].
  destruct (Nat.eqb_spec b 10) as [E|]; [rewrite E; reflexivity|]. destruct (Nat.eqb_spec b 13) as [E|]; [rewrite E; reflexivity|].
  discriminate.
Qed.

Lemma follow_ws_then cl c rest : ws_only cl -> numcont c = false -> follow_ok (cl ++ c :: rest).
Proof. intros Hc Hn. destruct Hc as [|b cl Hb Hcl]; cbn [app follow_ok]; [exact Hn|now apply jws_not_numcont]. Qed.

Lemma follow_lrest d r cl rest : ws_only cl -> follow_ok (lrest d r (cl ++ 93 :: rest)).
Proof. intros Hc. destruct r as [|y r]; cbn [lrest]; [now apply follow_ws_then|reflexivity]. Qed.

Lemma elems_written d : forall r x, Forall written_ok (x :: r) -> Forall wf_wv (x :: r) ->
  forall pre acc g n cl rest, ws_only pre -> ws_only cl -> sizes (x :: r) <= g -> length (x :: r) <= n ->
  json_elems g n (pre ++ write_value false indent x (S d) ++ lrest d r (cl ++ 93 :: rest)) acc
  = Some (JArr (rev acc ++ map to_json (x :: r)), rest).
Proof.
  induction r as [|y r IH]; intros x HP Hwf pre acc g n cl rest Hpre Hcl Hg Hn.
  - inversion HP as [|? ? Px _]; subst. inversion Hwf as [|? ? Wx _]; subst.
    cbn [sizes fold_right length] in Hg, Hn.
    destruct g as [|g]; [lia|]. destruct n as [|n]; [lia|]. cbn [json_elems lrest].
    rewrite json_value_skip by exact Hpre.
    rewrite (Px Wx (S d) (cl ++ 93 :: rest) g) by (try lia; now apply follow_ws_then).
    rewrite trailer_inner. cbn [app]. rewrite (skip_ws_app cl _ Hcl).
    rewrite skip_ws_nows by reflexivity. jn. cbn [Nat.eqb]. cbn [map rev]. reflexivity.
  - inversion HP as [|? ? Px HP']; subst. inversion Hwf as [|? ? Wx Hwf']; subst.
    cbn [sizes fold_right length] in Hg, Hn. fold (sizes (y :: r)) in Hg.
    destruct g as [|g]; [lia|]. destruct n as [|n]; [lia|]. cbn [json_elems].
    rewrite json_value_skip by exact Hpre.
    rewrite (Px Wx (S d) (lrest d (y :: r) (cl ++ 93 :: rest)) g) by (try lia; now apply follow_lrest).
    rewrite trailer_inner. cbn [app lrest]. rewrite skip_ws_nows by reflexivity. jn. cbn [Nat.eqb].
    rewrite app_assoc.
    rewrite (IH y HP' Hwf' (sepws ++ i2 d) (to_json x :: acc) g n cl rest)
      by (try assumption; try (apply ws_app; [apply ws_sepws|apply ws_i2]); unfold sizes in *; cbn [fold_right length] in *; lia).
    cbn [rev map]. rewrite <- app_assoc. reflexivity.
Qed.

(* ---- objects ---- *)
Definition colsp : list byte := if (0 <=? indent)%Z then [32] else [].
Lemma ws_colsp : ws_only colsp.
Proof. unfold colsp. destruct (0 <=? indent)%Z; repeat constructor. Qed.

(* one member behind its indentation: "key": value *)
Definition mtext (d : nat) (kv : list wrune * wv) : list byte :=
  34 :: flat_map write_rune (fst kv) ++ 34 :: 58 :: colsp ++ write_value false indent (snd kv) (S d).

Fixpoint mrest (d : nat) (r : list (list wrune * wv)) (fin : list byte) : list byte :=
  match r with
  | [] => fin
  | kv :: r' => 44 :: sepws ++ i2 d ++ mtext d kv ++ mrest d r' fin
  end.

Lemma write_key_json k : write_key false k = 34 :: flat_map write_rune k ++ [34].
Proof. unfold write_key, write_string. cbn [andb]. jn. reflexivity. Qed.

Lemma mgo_rest d r fin : mgo d r false ++ fin = mrest d r fin.
Proof.
  induction r as [|kv r IH]; [reflexivity|].
  cbn [mgo mrest]. cbn [negb orb andb]. rewrite andb_false_r. cbn [andb]. rewrite <- IH, write_key_json.
  unfold mtext, sepws, colsp. repeat (progress (cbn [app]; rewrite <- ?app_assoc)). reflexivity.
Qed.

Lemma mgo_first d kv r fin : mgo d (kv :: r) true ++ fin = i2 d ++ mtext d kv ++ mrest d r fin.
Proof.
  cbn [mgo]. cbn [negb orb andb]. rewrite andb_false_r. cbn [andb]. rewrite <- mgo_rest, write_key_json.
  unfold mtext, colsp. repeat (progress (cbn [app]; rewrite <- ?app_assoc)). reflexivity.
Qed.

Lemma follow_mrest d r cl rest : ws_only cl -> follow_ok (mrest d r (cl ++ 125 :: rest)).
Proof. intros Hc. destruct r as [|y r]; cbn [mrest]; [now apply follow_ws_then|reflexivity]. Qed.

Definition to_member (kv : list wrune * wv) : list sitem * jv := (flat_map rune_items (fst kv), to_json (snd kv)).

Lemma members_written d : forall r kv,
  Forall (fun kv => written_ok (snd kv)) (kv :: r) ->
  Forall (fun kv => Forall wf_rune (fst kv) /\ wf_wv (snd kv)) (kv :: r) ->
  forall pre acc g n cl rest, ws_only pre -> ws_only cl -> msizes (kv :: r) <= g -> length (kv :: r) <= n ->
  json_members g n (pre ++ mtext d kv ++ mrest d r (cl ++ 125 :: rest)) acc
  = Some (JObj (rev acc ++ map to_member (kv :: r)), rest).
Proof.
  induction r as [|y r IH]; intros kv HP Hwf pre acc g n cl rest Hpre Hcl Hg Hn;
    inversion HP as [|? ? Px HP']; subst; inversion Hwf as [|? ? [Wk Wx] Hwf']; subst;
    unfold msizes in Hg; cbn [fold_right length] in Hg, Hn;
    (destruct g as [|g]; [lia|]); (destruct n as [|n]; [lia|]);
    cbn [json_members]; rewrite (skip_ws_app pre _ Hpre); unfold mtext; cbn [app];
    rewrite skip_ws_nows by reflexivity; jn; cbn [Nat.eqb negb];
    repeat (progress (cbn [app]; rewrite <- ?app_assoc)).
  - cbn [mrest]. set (K := 58 :: colsp ++ write_value false indent (snd kv) (S d) ++ cl ++ 125 :: rest).
    match goal with |- context [json_string ?n ?l []] =>
      assert (Hs : json_string n l [] = Some (flat_map rune_items (fst kv), K)) end.
    { pose proof (json_string_written (fst kv) [] K Wk) as Hj. cbn [rev app] in Hj.
      apply (json_string_fuel_ge _ _ _ _ _ Hj). rewrite app_length. cbn [length]. lia. }
    rewrite Hs. unfold K. rewrite skip_ws_nows by reflexivity. cbn [Nat.eqb negb].
    rewrite json_value_skip by apply ws_colsp.
    rewrite (Px Wx (S d) (cl ++ 125 :: rest) g) by (try lia; now apply follow_ws_then).
    rewrite trailer_inner. cbn [app]. rewrite (skip_ws_app cl _ Hcl).
    rewrite skip_ws_nows by reflexivity. cbn [Nat.eqb]. cbn [map rev]. reflexivity.
  - set (K := 58 :: colsp ++ write_value false indent (snd kv) (S d) ++ mrest d (y :: r) (cl ++ 125 :: rest)).
    match goal with |- context [json_string ?n ?l []] =>
      assert (Hs : json_string n l [] = Some (flat_map rune_items (fst kv), K)) end.
    { pose proof (json_string_written (fst kv) [] K Wk) as Hj. cbn [rev app] in Hj.
      apply (json_string_fuel_ge _ _ _ _ _ Hj). rewrite app_length. cbn [length]. lia. }
    rewrite Hs. unfold K. rewrite skip_ws_nows by reflexivity. cbn [Nat.eqb negb].
    rewrite json_value_skip by apply ws_colsp.
    rewrite (Px Wx (S d) (mrest d (y :: r) (cl ++ 125 :: rest)) g) by (try lia; now apply follow_mrest).
    rewrite trailer_inner. cbn [app mrest]. rewrite skip_ws_nows by reflexivity. cbn [Nat.eqb].
    rewrite (app_assoc sepws). change (flat_map rune_items (fst kv), to_json (snd kv)) with (to_member kv).
    rewrite (IH y HP' Hwf' (sepws ++ i2 d) (to_member kv :: acc) g n cl rest)
      by (try assumption; try (apply ws_app; [apply ws_sepws|apply ws_i2]); unfold msizes in *; cbn [fold_right length] in *; lia).
    cbn [rev map]. rewrite <- app_assoc. reflexivity.
Qed.

(* ---- every value ---- *)
Lemma first_not_close x d c : wf_wv x -> c = 93 \/ c = 125 ->
  exists b r, write_value false indent x d = b :: r /\ jws b = false /\ b <> c.
Proof.
  intros Hw Hc.
  destruct x as [|b|t|s|s|s|t|t|l|kvs]; cbn [write_value wf_wv] in *.
  - exists 110. eexists. unfold tok_null. jn. split; [reflexivity|]. split; [reflexivity|lia].
  - destruct b; unfold tok_true, tok_false; jn; eexists; eexists; (split; [reflexivity|]); (split; [reflexivity|lia]).
  - destruct (num_ok_head t Hw) as (b & r & E & Hb). exists b, r. split; [exact E|].
    destruct Hb as [Hb|Hb]; [apply Nat.eqb_eq in Hb; subst b; split; [reflexivity|lia]|].
    apply digit_facts in Hb. split; [|lia]. unfold jws. jn.
    destruct (Nat.eqb_spec b 32); [lia|]. destruct (Nat.eqb_spec b 9); [lia|].
    destruct (Nat.eqb_spec b 10); [lia|]. destruct (Nat.eqb_spec b 13); [lia|]. reflexivity.
  - unfold write_string. jn. cbn [app]. eexists; eexists; (split; [reflexivity|]); (split; [reflexivity|lia]).
  - unfold write_string. cbn [negb]. jn. cbn [app]. eexists; eexists; (split; [reflexivity|]); (split; [reflexivity|lia]).
  - unfold write_string. cbn [negb]. jn. cbn [app]. eexists; eexists; (split; [reflexivity|]); (split; [reflexivity|lia]).
  - jn. cbn [app]. eexists; eexists; (split; [reflexivity|]); (split; [reflexivity|lia]).
  - jn. cbn [app]. eexists; eexists; (split; [reflexivity|]); (split; [reflexivity|lia]).
  - jn. cbn [app]. eexists; eexists; (split; [reflexivity|]); (split; [reflexivity|lia]).
  - jn. cbn [app]. eexists; eexists; (split; [reflexivity|]); (split; [reflexivity|lia]).
Qed.

Lemma skip_to_first x d pre tl c : wf_wv x -> c = 93 \/ c = 125 -> ws_only pre ->
  exists b r, skip_ws (pre ++ write_value false indent x d ++ tl) = b :: r /\ b <> c.
Proof.
  intros Hw Hc Hp. destruct (first_not_close x d c Hw Hc) as (b & r & E & Hb & Hne).
  exists b, (r ++ tl). rewrite (skip_ws_app pre _ Hp), E. cbn [app]. now rewrite (skip_ws_nows _ _ Hb).
Qed.

Theorem all_written : forall v, written_ok v.
Proof.
  induction v as [|b|t|s|s|s|t|t|l IHl|kvs IHk] using wv_ind2; intros Hw d k fuel Hf Hk;
    (destruct fuel as [|f]; [pose proof (size_pos WNull); cbn [size] in Hf; try lia|]).
  - rewrite written_null. reflexivity.
  - rewrite written_bool. reflexivity.
  - rewrite written_num by assumption. reflexivity.
  - cbn [write_value to_json]. rewrite written_string by exact Hw. reflexivity.
  - cbn [write_value to_json negb]. rewrite written_string by exact Hw. reflexivity.
  - cbn [write_value to_json negb]. rewrite written_string by (constructor; [apply wf_dollar|exact Hw]).
    cbn [flat_map]. unfold rune_items at 1. cbn [wr_rune]. jn. cbn. reflexivity.
  - cbn [write_value to_json]. jn. rewrite <- !app_assoc. rewrite written_time by exact Hw. reflexivity.
  - cbn [write_value to_json]. jn. rewrite <- !app_assoc. rewrite written_time by exact Hw. reflexivity.
  - (* lists *)
    rewrite size_list in Hf. apply wf_list in Hw. rewrite write_list. cbn [to_json].
    unfold trailer. cbn [is_collection]. fold (endnl d).
    repeat (progress (cbn [app]; rewrite <- ?app_assoc)). cbn [json_value].
    rewrite skip_ws_nows by reflexivity. jn. cbn [Nat.eqb].
    destruct l as [|x r].
    + cbn [lgo app map]. rewrite (skip_ws_app (closer d) _ (ws_closer d)).
      rewrite skip_ws_nows by reflexivity. cbn [Nat.eqb]. reflexivity.
    + rewrite lgo_first.
      inversion Hw as [|? ? Wx Wr]; subst.
      destruct (skip_to_first x (S d) (i2 d) (lrest d r (closer d ++ 93 :: endnl d ++ k)) 93 Wx (or_introl eq_refl) (ws_i2 d))
        as (b0 & r0 & E0 & Hne0).
      match goal with |- context [skip_ws ?L] => assert (E0' : skip_ws L = b0 :: r0) by exact E0 end.
      rewrite E0'. destruct (Nat.eqb_spec b0 93); [contradiction|].
      apply (elems_written d r x IHl Hw (i2 d) [] f f (closer d) (endnl d ++ k) (ws_i2 d) (ws_closer d)).
      * lia.
      * assert (Hc : length (x :: r) <= sizes (x :: r)).
        { clear. induction (x :: r) as [|a q IH]; [cbn; lia|]. unfold sizes in *. cbn [fold_right length]. lia. }
        lia.
  - (* objects *)
    rewrite size_map in Hf. apply wf_map in Hw. rewrite write_map. cbn [to_json].
    unfold trailer. cbn [is_collection]. fold (endnl d).
    repeat (progress (cbn [app]; rewrite <- ?app_assoc)). cbn [json_value].
    rewrite skip_ws_nows by reflexivity. jn. cbn [Nat.eqb].
    destruct kvs as [|kv r].
    + cbn [mgo app map]. rewrite (skip_ws_app (closer d) _ (ws_closer d)).
      rewrite skip_ws_nows by reflexivity. cbn [Nat.eqb]. reflexivity.
    + rewrite mgo_first.
      assert (E0 : exists r0, skip_ws (i2 d ++ mtext d kv ++ mrest d r (closer d ++ 125 :: endnl d ++ k)) = 34 :: r0).
      { rewrite (skip_ws_app (i2 d) _ (ws_i2 d)). unfold mtext. cbn [app]. rewrite skip_ws_nows by reflexivity. eexists. reflexivity. }
      destruct E0 as (r0 & E0).
      match goal with |- context [skip_ws ?L] => assert (E0' : skip_ws L = 34 :: r0) by exact E0 end.
      rewrite E0'. cbn [Nat.eqb].
      apply (members_written d r kv IHk Hw (i2 d) [] f f (closer d) (endnl d ++ k) (ws_i2 d) (ws_closer d)).
      * lia.
      * assert (Hc : length (kv :: r) <= msizes (kv :: r)).
        { clear. induction (kv :: r) as [|a q IH]; [cbn; lia|]. unfold msizes in *. cbn [fold_right length]. lia. }
        lia.
Qed.

(* ---- the fuel json_parse grants is enough ---- *)
Lemma lgo_length d l flag :
  Forall (fun x => size x + 1 <= 2 * length (write_value false indent x (S d))) l ->
  sizes l <= 2 * length (lgo d l flag).
Proof.
  intros H. revert flag. induction H as [|x r Hx Hr IH]; intros flag; [cbn; lia|].
  unfold sizes in *. cbn [fold_right lgo]. rewrite !app_length.
  specialize (IH ((indent <? 0)%Z && false && is_collection x)). lia.
Qed.

Lemma mgo_length d l flag :
  Forall (fun kv => size (snd kv) + 1 <= 2 * length (write_value false indent (snd kv) (S d))) l ->
  msizes l <= 2 * length (mgo d l flag).
Proof.
  intros H. revert flag. induction H as [|x r Hx Hr IH]; intros flag; [cbn; lia|].
  unfold msizes in *. cbn [fold_right mgo]. rewrite !app_length.
  specialize (IH ((indent <? 0)%Z && false && is_collection (snd x))). lia.
Qed.

Lemma len_bound : forall v, wf_wv v -> forall d, size v + 1 <= 2 * length (write_value false indent v d).
Proof.
  induction v as [|b|t|s|s|s|t|t|l IHl|kvs IHk] using wv_ind2; intros Hw d.
  - cbn. lia.
  - destruct b; cbn; lia.
  - cbn [size write_value]. destruct (num_ok_head t Hw) as (b & r & E & _). subst t. cbn [length]. lia.
  - cbn [size write_value]. unfold write_string. rewrite !app_length. cbn [length]. lia.
  - cbn [size write_value]. unfold write_string. rewrite !app_length. cbn [length negb]. lia.
  - cbn [size write_value]. unfold write_string. rewrite !app_length. cbn [length negb]. lia.
  - cbn [size write_value]. rewrite !app_length. cbn [length]. lia.
  - cbn [size write_value]. rewrite !app_length. cbn [length]. lia.
  - rewrite size_list, write_list. rewrite !app_length. cbn [length].
    apply wf_list in Hw.
    assert (H : Forall (fun x => size x + 1 <= 2 * length (write_value false indent x (S d))) l).
    { clear -IHl Hw. induction l as [|x r IH]; constructor.
      - inversion IHl; inversion Hw; subst; auto.
      - inversion IHl; inversion Hw; subst; auto. }
    pose proof (lgo_length d l true H). lia.
  - rewrite size_map, write_map. rewrite !app_length. cbn [length].
    apply wf_map in Hw.
    assert (H : Forall (fun kv => size (snd kv) + 1 <= 2 * length (write_value false indent (snd kv) (S d))) kvs).
    { clear -IHk Hw. induction kvs as [|x r IH]; constructor.
      - inversion IHk; inversion Hw as [|? ? [? ?] ?]; subst; auto.
      - inversion IHk; inversion Hw; subst; auto. }
    pose proof (mgo_length d kvs true H). lia.
Qed.

(* Every well-formed value, written in JSON mode at this indent setting, is JSON text the reference
   reader accepts, and decodes to the value. *)
Theorem json_written_value_valid v :
  wf_wv v -> json_parse (write_value false indent v 0) = Some (to_json v).
Proof.
  intros Hw. unfold json_parse.
  pose proof (len_bound v Hw 0) as Hl.
  pose proof (all_written v Hw 0 [] (2 * length (write_value false indent v 0) + 4)) as H.
  rewrite !app_nil_r in H. rewrite H by (try exact I; lia).
  pose proof (skip_ws_app (trailer 0 v) [] (ws_trailer 0 v)) as Hs. rewrite app_nil_r in Hs. rewrite Hs.
  reflexivity.
Qed.

End Written.

(* ------------------------------------------------------------------ number tokens *)
(* A token the reference reader takes whole is taken whole in front of any text that cannot continue a
   number: "is a JSON number" is a property of the token alone (decidable by running the reader). *)
Definition nondigit_head (k : list byte) : Prop := match k with [] => True | b :: _ => is_digit b = false end.

Lemma take_digits_extend : forall l acc k, nondigit_head k ->
  take_digits (l ++ k) acc =
  (fst (take_digits l acc), snd (take_digits l acc) ++ k).
Proof.
  induction l as [|b l IH]; intros acc k Hk.
  - cbn [app take_digits fst snd]. destruct k as [|c k]; [reflexivity|]. cbn [take_digits]. cbn in Hk. now rewrite Hk.
  - cbn [app take_digits]. destruct (is_digit b); [now apply IH|reflexivity].
Qed.

Lemma follow_nondigit k : follow_ok k -> nondigit_head k.
Proof. destruct k as [|b k]; [auto|]. unfold follow_ok, numcont, nondigit_head. intros H. now destruct (is_digit b). Qed.

Lemma follow_head k b r : follow_ok k -> k = b :: r ->
  Nat.eqb b 46 = false /\ Nat.eqb b 101 = false /\ Nat.eqb b 69 = false /\ Nat.eqb b 43 = false /\ Nat.eqb b 45 = false.
Proof.
  intros H E. subst k. unfold follow_ok, numcont in H.
  destruct (is_digit b); [discriminate|]. cbn [orb] in H.
  destruct (Nat.eqb b 46); [discriminate|]. destruct (Nat.eqb b 101); [discriminate|].
  destruct (Nat.eqb b 69); [discriminate|]. destruct (Nat.eqb b 43); [discriminate|].
  destruct (Nat.eqb b 45); [discriminate|]. auto.
Qed.

Lemma take_digits_acc : forall l acc, fst (take_digits l acc) = rev acc ++ fst (take_digits l []) /\
                                      snd (take_digits l acc) = snd (take_digits l []).
Proof.
  induction l as [|b l IH]; intros acc.
  - cbn. now rewrite app_nil_r.
  - cbn [take_digits]. destruct (is_digit b).
    + destruct (IH (b :: acc)) as [H1 H2]. destruct (IH [b]) as [H3 H4]. rewrite H1, H2, H3, H4.
      cbn [rev app]. now rewrite <- app_assoc.
    + cbn. now rewrite app_nil_r.
Qed.

Lemma take_digits_split l : l = fst (take_digits l []) ++ snd (take_digits l []).
Proof.
  induction l as [|b l IH]; [reflexivity|]. cbn [take_digits]. destruct (is_digit b); [|reflexivity].
  destruct (take_digits_acc l [b]) as [H1 H2]. rewrite H1, H2. cbn [rev app]. now rewrite <- IH.
Qed.

Lemma json_number_extend t k :
  json_number t = Some (t, []) -> follow_ok k -> json_number (t ++ k) = Some (t, k).
Proof.
  intros H Hk. pose proof (follow_nondigit k Hk) as Hnd.
  unfold json_number in *. jn.
  destruct t as [|b0 r]; [cbn in H; discriminate|].
  cbn [app].
  (* the sign *)
  set (l1 := if Nat.eqb b0 45 then r else b0 :: r) in *.
  assert (E1 : (if Nat.eqb b0 45 then ([45], r ++ k) else ([], b0 :: r ++ k)) =
                ((if Nat.eqb b0 45 then [45] else []), l1 ++ k)).
  { unfold l1. destruct (Nat.eqb b0 45); reflexivity. }
  assert (E0 : (if Nat.eqb b0 45 then ([45], r) else ([], b0 :: r)) =
                ((if Nat.eqb b0 45 then [45] else []), l1)).
  { unfold l1. destruct (Nat.eqb b0 45); reflexivity. }
  rewrite E0 in H. rewrite E1. clear E0 E1.
  set (sign := if Nat.eqb b0 45 then [45] else []) in *.
  rewrite (take_digits_extend l1 [] k Hnd).
  destruct (take_digits l1 []) as [ip l2] eqn:Etd. cbn [fst snd].
  destruct ip as [|d ds]; [discriminate|].
  destruct (Nat.eqb d 48 && negb match ds with [] => true | _ :: _ => false end); [discriminate|].
  (* the fraction *)
  set (fr := match l2 with
             | b1 :: r1 => if Nat.eqb b1 46 then let (fp, r') := take_digits r1 [] in (46 :: fp, r', negb match fp with [] => true | _ :: _ => false end) else ([], l2, true)
             | [] => ([], l2, true)
             end) in *.
  assert (Efr : match l2 ++ k with
                | b1 :: r1 => if Nat.eqb b1 46 then let (fp, r') := take_digits r1 [] in (46 :: fp, r', negb match fp with [] => true | _ :: _ => false end) else ([], l2 ++ k, true)
                | [] => ([], l2 ++ k, true)
                end = (fst (fst fr), snd (fst fr) ++ k, snd fr)).
  { unfold fr. destruct l2 as [|b1 r1].
    - cbn [app fst snd]. destruct k as [|c k']; [reflexivity|].
      destruct (follow_head _ c k' Hk eq_refl) as (H46 & _). now rewrite H46.
    - cbn [app]. destruct (Nat.eqb b1 46); [|reflexivity].
      rewrite (take_digits_extend r1 [] k Hnd). destruct (take_digits r1 []) as [fp r']. reflexivity. }
  rewrite Efr. destruct fr as [[frac l3] okf]. cbn [fst snd].
  destruct (negb okf); [discriminate|].
  (* the exponent *)
  set (ex := match l3 with
             | e :: r1 =>
                 if Nat.eqb e 101 || Nat.eqb e 69
                 then let (sg, r2) := match r1 with
                                      | b1 :: r' => if Nat.eqb b1 43 then ([43], r') else if Nat.eqb b1 45 then ([45], r') else ([], r1)
                                      | [] => ([], r1)
                                      end in
                      let (ep, r3) := take_digits r2 [] in (e :: sg ++ ep, r3, negb match ep with [] => true | _ :: _ => false end)
                 else ([], l3, true)
             | [] => ([], l3, true)
             end) in *.
  assert (Eex : snd ex = true ->
                match l3 ++ k with
                | e :: r1 =>
                    if Nat.eqb e 101 || Nat.eqb e 69
                    then let (sg, r2) := match r1 with
                                         | b1 :: r' => if Nat.eqb b1 43 then ([43], r') else if Nat.eqb b1 45 then ([45], r') else ([], r1)
                                         | [] => ([], r1)
                                         end in
                         let (ep, r3) := take_digits r2 [] in (e :: sg ++ ep, r3, negb match ep with [] => true | _ :: _ => false end)
                    else ([], l3 ++ k, true)
                | [] => ([], l3 ++ k, true)
                end = (fst (fst ex), snd (fst ex) ++ k, snd ex)).
  { unfold ex. destruct l3 as [|e r1].
    - intros _. cbn [app fst snd]. destruct k as [|c k']; [reflexivity|].
      destruct (follow_head _ c k' Hk eq_refl) as (_ & H101 & H69 & _). now rewrite H101, H69.
    - cbn [app]. destruct (Nat.eqb e 101 || Nat.eqb e 69); [|reflexivity].
      destruct r1 as [|b1 r'].
      + cbn. discriminate.
      + cbn [app]. destruct (Nat.eqb b1 43).
        * intros _. rewrite (take_digits_extend r' [] k Hnd). destruct (take_digits r' []) as [ep r3]. reflexivity.
        * destruct (Nat.eqb b1 45).
          -- intros _. rewrite (take_digits_extend r' [] k Hnd). destruct (take_digits r' []) as [ep r3]. reflexivity.
          -- intros _. change (b1 :: r' ++ k) with ((b1 :: r') ++ k).
             rewrite (take_digits_extend (b1 :: r') [] k Hnd). destruct (take_digits (b1 :: r') []) as [ep r3]. reflexivity. }
  destruct ex as [[exs l4] oke]. cbn [fst snd] in Eex.
  destruct oke; cbn [negb] in H; [|discriminate].
  rewrite (Eex eq_refl). cbn [negb].
  inversion H as [[Ht Hl4]]. subst l4. cbn [app] in *. rewrite Ht. reflexivity.
Qed.

(* the decidable form of the condition on number tokens *)
Definition json_num_token (t : list byte) : bool :=
  match json_number t with
  | Some (t', []) => eqb_bytes t' t
  | _ => false
  end.

Lemma json_num_token_ok t : json_num_token t = true -> num_ok t.
Proof.
  unfold json_num_token, num_ok. intros H k Hk.
  destruct (json_number t) as [[t' [|c r]]|] eqn:E; try discriminate.
  unfold eqb_bytes in H. destruct (list_eq_dec Nat.eq_dec t' t); [|discriminate]. subst t'.
  now apply json_number_extend.
Qed.
