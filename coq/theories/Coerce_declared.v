(* Coerce_declared.v — CoerceIn accepts no input object with an undeclared key, at any depth: whatever
   the model of CoerceIn accepts satisfies the oracle only_declared (C04: "input objects containing only
   declared fields ... no value is silently altered"). *)
From Coq Require Import List Arith ZArith Bool Lia.
Import ListNotations.
From GG Require Import Coerce Coerce_proofs.

Lemma only_declared_nil t : only_declared t CNil = true.
Proof. induction t using cty_ind2; simpl; auto. Qed.

Lemma input_loop_declared (ci : cty -> cv -> option cv) (rec : cty -> cv -> bool) kvs :
  (forall t, rec t CNil = true) ->
  forall fs m,
    Forall (fun f => forall v w, ci (fst (snd f)) v = Some w -> rec (fst (snd f)) v = true) fs ->
    input_loop ci kvs fs = Some m -> decl_loop rec kvs fs = true.
Proof.
  intros Hnil. induction fs as [|f r IH]; intros m Hall Hg; [reflexivity|].
  simpl in Hg. destruct (input_loop ci kvs r) as [m'|] eqn:Er; [|discriminate].
  inversion Hall as [|? ? Hf Hr]; subst. simpl. rewrite (IH m' Hr eq_refl), andb_true_r.
  destruct (lookupc (fst f) kvs) as [ov|]; [|reflexivity].
  destruct ov; simpl in Hg; try apply Hnil;
    match type of Hg with context [ci ?t ?x] => destruct (ci t x) as [w|] eqn:Ec; [exact (Hf _ _ Ec)|discriminate] end.
Qed.

Lemma list_loop_forall (ci : cv -> option cv) (p : cv -> bool) :
  (forall x w, ci x = Some w -> p x = true) ->
  forall l l', list_loop ci l = Some l' -> forallb p l = true.
Proof.
  intros H. induction l as [|x r IH]; intros l' Hg; [reflexivity|].
  simpl in Hg. destruct (list_loop ci r) as [r'|] eqn:Er; [|discriminate].
  destruct (ci x) as [x'|] eqn:Ex; [|discriminate]. simpl. rewrite (H _ _ Ex), (IH r' eq_refl). reflexivity.
Qed.

Theorem coerce_input_only_declared :
  forall t v w, coerce_input t v = Some w -> only_declared t v = true.
Proof.
  induction t using cty_ind2; intros v w Hc.
  - reflexivity.
  - reflexivity.
  - (* input objects *)
    destruct v; simpl in Hc |- *; try reflexivity.
    match type of Hc with context [forallb ?g ?l] => destruct (forallb g l) eqn:Ed; [|discriminate] end.
    cbn [andb].
    match type of Hc with context [input_loop ?c ?k ?f] => destruct (input_loop c k f) as [m|] eqn:El; [|discriminate] end.
    eapply input_loop_declared; [apply only_declared_nil| |exact El].
    eapply Forall_impl; [|exact H]. intros f Hf v0 w0 Hv. exact (Hf v0 w0 Hv).
  - (* lists *)
    destruct v; simpl in Hc |- *; try reflexivity.
    match type of Hc with context [list_loop ?c ?l] => destruct (list_loop c l) as [l'|] eqn:El; [|discriminate] end.
    eapply list_loop_forall; [|exact El]. intros x w0 Hx. exact (IHt x w0 Hx).
  - (* non-null *)
    destruct v; simpl in Hc |- *; try discriminate; eapply IHt; exact Hc.
Qed.
