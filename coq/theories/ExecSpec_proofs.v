(* ExecSpec_proofs.v — the executor model computes the specification (lock-step over the shared
   recursion skeleton), for every schema, data graph, document with valid arguments, variable map,
   AST state, fuel and depth. *)
From Coq Require Import List Arith ZArith Bool Lia Permutation.
Import ListNotations.
From GG Require Import ListUtil Exec ExecSpec.

(* ------------------------------------------------------------------ small facts *)
Lemma lookup_In {A} k (l : list (nat * A)) v : lookup k l = Some v -> In (k, v) l.
Proof.
  induction l as [|[k' v'] l IH]; simpl; [discriminate|].
  destruct (Nat.eqb_spec k k'); intros H; [inversion H; subst; auto|auto].
Qed.

Lemma nodup_nat_spec l : nodup_nat l = true <-> NoDup l.
Proof.
  induction l as [|x l IH]; simpl; [split; auto; constructor|].
  rewrite andb_true_iff, negb_true_iff, IH. split.
  - intros [H1 H2]. constructor; auto. intros Hc.
    assert (existsb (Nat.eqb x) l = true); [|congruence].
    apply existsb_exists. exists x. split; auto. apply Nat.eqb_refl.
  - intros H. inversion H; subst. split; auto.
    destruct (existsb (Nat.eqb x) l) eqn:E; auto. apply existsb_exists in E.
    destruct E as [y [Hy E]]. apply Nat.eqb_eq in E. subst. tauto.
Qed.

Lemma lookup_nodup_In {A} k (l : list (nat * A)) v :
  NoDup (map fst l) -> In (k, v) l -> lookup k l = Some v.
Proof.
  induction l as [|[k' v'] l IH]; simpl; intros Hn Hi; [tauto|].
  inversion Hn; subst. destruct Hi as [Hi|Hi].
  - inversion Hi; subst. now rewrite Nat.eqb_refl.
  - destruct (Nat.eqb_spec k k'); auto. subst. exfalso. apply H1.
    change k' with (fst (k', v)). now apply in_map.
Qed.

Lemma lookup_perm {A} k (l1 l2 : list (nat * A)) :
  NoDup (map fst l1) -> Permutation l1 l2 -> lookup k l1 = lookup k l2.
Proof.
  intros Hn Hp.
  assert (Hn2 : NoDup (map fst l2)) by (eapply Permutation_NoDup; [apply Permutation_map; eauto|auto]).
  destruct (lookup k l1) eqn:E1.
  - apply lookup_In in E1. symmetry. apply lookup_nodup_In; auto. eapply Permutation_in; eauto.
  - destruct (lookup k l2) eqn:E2; auto. apply lookup_In in E2.
    apply Permutation_sym in Hp. eapply Permutation_in in E2; eauto.
    apply (lookup_nodup_In _ _ _ Hn) in E2. congruence.
Qed.

(* ------------------------------------------------------------------ canonical argument maps *)
Inductive ssorted : list (nat * value) -> Prop :=
| ss_nil : ssorted []
| ss_cons x l : (forall y, In y l -> fst x < fst y) -> ssorted l -> ssorted (x :: l).

Lemma insert_arg_perm x l : Permutation (x :: l) (insert_arg x l).
Proof.
  induction l as [|y l IH]; simpl; auto.
  destruct (Nat.leb (fst x) (fst y)); auto.
  eapply perm_trans; [apply perm_swap|]. now constructor.
Qed.

Lemma canon_args_perm l : Permutation l (canon_args l).
Proof.
  induction l as [|x l IH]; simpl; auto.
  eapply perm_trans; [|apply insert_arg_perm]. now constructor.
Qed.

Lemma insert_arg_sorted x l :
  ssorted l -> ~ In (fst x) (map fst l) -> ssorted (insert_arg x l).
Proof.
  induction 1 as [|y l Hy Hs IH]; simpl; intros Hn.
  - constructor; [intros ? []|constructor].
  - destruct (Nat.leb_spec (fst x) (fst y)).
    + constructor; [|constructor; auto]. intros z [Hz|Hz]; subst.
      * assert (fst z <> fst x) by tauto. lia.
      * specialize (Hy z Hz). assert (fst y <> fst x) by tauto. lia.
    + constructor.
      * intros z Hz. eapply Permutation_in in Hz; [|apply Permutation_sym, insert_arg_perm].
        destruct Hz as [Hz|Hz]; subst; auto.
      * apply IH. tauto.
Qed.

Lemma canon_args_sorted l : NoDup (map fst l) -> ssorted (canon_args l).
Proof.
  induction l as [|x l IH]; simpl; intros H; [constructor|].
  inversion H; subst. apply insert_arg_sorted; auto.
  intros Hc. apply H2. eapply Permutation_in; [|exact Hc].
  apply Permutation_map, Permutation_sym, canon_args_perm.
Qed.

Lemma ssorted_perm_eq l1 : forall l2, ssorted l1 -> ssorted l2 -> Permutation l1 l2 -> l1 = l2.
Proof.
  induction l1 as [|x r1 IH]; intros l2 H1 H2 Hp.
  - apply Permutation_nil in Hp. now subst.
  - destruct l2 as [|y r2]; [apply Permutation_sym, Permutation_nil in Hp; discriminate|].
    inversion H1 as [|? ? Hx Hs1]; subst. inversion H2 as [|? ? Hy Hs2]; subst.
    assert (x = y).
    { assert (Ix : In x (y :: r2)) by (eapply Permutation_in; eauto; now left).
      assert (Iy : In y (x :: r1)) by (eapply Permutation_in; [apply Permutation_sym; eauto|now left]).
      destruct Ix as [Ix|Ix]; auto. destruct Iy as [Iy|Iy]; auto.
      specialize (Hy x Ix). specialize (Hx y Iy). lia. }
    subst y. f_equal. apply IH; auto. eapply Permutation_cons_inv; eauto.
Qed.

Lemma canon_args_perm_eq l1 l2 :
  NoDup (map fst l1) -> Permutation l1 l2 -> canon_args l1 = canon_args l2.
Proof.
  intros Hn Hp.
  assert (Hn2 : NoDup (map fst l2)) by (eapply Permutation_NoDup; [apply Permutation_map; eauto|auto]).
  apply ssorted_perm_eq; auto using canon_args_sorted.
  eapply perm_trans; [apply Permutation_sym, canon_args_perm|].
  eapply perm_trans; [exact Hp|apply canon_args_perm].
Qed.

(* ------------------------------------------------------------------ C09: the skip loop is the inclusion rule *)
Section Incl.
Variable vars : list (nat * value).

Lemma skip_loop_spec dirs : forall skip n,
  skip_sel_loop vars dirs skip n =
  (skip || existsb (dir_excludes vars) dirs, n + length (filter (dir_bad vars) dirs)).
Proof.
  induction dirs as [|d r IH]; intros skip n.
  - simpl. now rewrite orb_false_r, Nat.add_0_r.
  - destruct d as [nm oif]. destruct nm; destruct oif as [[| | |b| |x| |]|];
      cbn [skip_sel_loop d_name d_if];
      try (destruct (lookup x vars) as [[| | |b| | | |]|] eqn:El);
      rewrite IH; unfold dir_excludes, dir_bad, dir_cond; cbn [d_name d_if existsb filter length];
      try rewrite El; cbn; f_equal; try lia;
      try (destruct skip; try destruct b; reflexivity).
Qed.

Lemma skip_sel_spec (x : sel) :
  skip_sel vars x =
  (negb (included vars (sel_dirs x)),
   repeat (mkErr (match x with SField _ a nm _ _ _ => [PKey (key_of a nm)] | _ => [] end) (sel_errloc x) ESkipVar)
          (length (filter (dir_bad vars) (sel_dirs x)))).
Proof.
  unfold skip_sel. rewrite skip_loop_spec. unfold included. now rewrite negb_involutive.
Qed.
End Incl.

(* ------------------------------------------------------------------ C08: condApplies is the type relation *)
Lemma cond_applies_spec S cond t : cond_applies S cond t = applies S cond t.
Proof.
  unfold cond_applies, applies, implements, member_of. destruct cond as [c|]; auto.
  destruct (Nat.eqb_spec c t); simpl; auto.
  destruct (lookup t S) as [[k|fs ifaces|fs|ms|fs]|]; simpl; auto.
  destruct (lookup c S) as [[k|fs' ifaces'|fs'|ms|fs']|]; simpl; auto.
  now rewrite orb_false_r.
Qed.

(* ------------------------------------------------------------------ error paths *)
Definition path_errs (path : list pseg) (ea : list err) : list err :=
  map (fun e => mkErr (path ++ e_path (strip_frag e)) (e_loc e) (e_kind e)) ea.

Lemma path_errs_app path a b : path_errs path (a ++ b) = path_errs path a ++ path_errs path b.
Proof. unfold path_errs. apply map_app. Qed.

Lemma path_errs_in_key path k ea : path_errs path (errs_in (PKey k) ea) = path_errs (path ++ [PKey k]) ea.
Proof.
  unfold path_errs, errs_in. rewrite map_map. apply map_ext. intros e. simpl.
  now rewrite <- app_assoc.
Qed.

Lemma path_errs_in_idx path i ea : path_errs path (errs_in (PIdx i) ea) = path_errs (path ++ [PIdx i]) ea.
Proof.
  unfold path_errs, errs_in. rewrite map_map. apply map_ext. intros e. simpl.
  now rewrite <- app_assoc.
Qed.

Lemma path_errs_in_arg path a ea : path_errs path (errs_in (PArg a) ea) = path_errs (path ++ [PArg a]) ea.
Proof.
  unfold path_errs, errs_in. rewrite map_map. apply map_ext. intros e. simpl.
  now rewrite <- app_assoc.
Qed.

Lemma path_errs_in_frag path id ea : path_errs path (errs_in (PFragAt id) ea) = path_errs path ea.
Proof.
  unfold path_errs, errs_in. rewrite map_map. apply map_ext. intros e. reflexivity.
Qed.

Lemma path_errs_repeat path e n : path_errs path (repeat e n) = repeat (mkErr (path ++ e_path (strip_frag e)) (e_loc e) (e_kind e)) n.
Proof. unfold path_errs. induction n; simpl; auto. now f_equal. Qed.

(* ------------------------------------------------------------------ response maps *)
Lemma add_entries_app es1 es2 m : add_entries (es1 ++ es2) m = add_entries es2 (add_entries es1 m).
Proof. unfold add_entries. apply fold_left_app. Qed.

Lemma norm_entries_app a b : norm_entries (a ++ b) = norm_entries a ++ norm_entries b.
Proof. unfold norm_entries. apply map_app. Qed.

(* ------------------------------------------------------------------ arguments *)
Definition arg_type (fd : fdef) (a : nat) : option ty :=
  match find_arg a (f_args fd) with Some d => Some (a_type d) | None => None end.

Section Args.
Variable S : schema.
Variable vars : list (nat * value).

Definition coerce_one (fd : fdef) (av : arg) : (nat * value) * list err :=
  let (w, ea2) := replace_arg_vars S vars (snd av) (arg_type fd (fst av)) in
  ((fst av, w), errs_in (PArg (fst av)) ea2).

Definition is_vnull (v : value) : bool := match v with VNull => true | _ => false end.

Lemma form_args_loop_spec fd cur :
  form_args_loop S vars fd cur =
  (map (fun av => fst (coerce_one fd av)) (somes cur),
   map fst (filter (fun av => negb (is_vnull (snd av))) (somes cur)),
   flat_map (fun av => snd (coerce_one fd av)) (somes cur)).
Proof.
  induction cur as [|[[a v]|] r IH]; [reflexivity| |exact IH].
  cbn [form_args_loop somes map filter flat_map]. rewrite IH. unfold coerce_one, arg_type. cbn [fst snd].
  destruct (replace_arg_vars S vars v
              match find_arg a (f_args fd) with Some d => Some (a_type d) | None => None end) as [w ea2].
  destruct v; reflexivity.
Qed.

Lemma coerce_or_err_paths t v e : In e (snd (coerce_or_err S t v)) -> e_path e = [].
Proof. unfold coerce_or_err. destruct (coerce_in S t v); simpl; [intros []|intros [<-|[]]; reflexivity]. Qed.

Lemma replace_arg_vars_paths : forall v at_ e,
  In e (snd (replace_arg_vars S vars v at_)) -> e_path e = [].
Proof.
  fix IH 1. intros v at_ e. destruct v as [ |z|s|b|en|x|l|kvs]; cbn [replace_arg_vars].
  1-4: destruct at_ as [t|]; [apply coerce_or_err_paths|intros []].
  - destruct at_ as [t|]; [|intros []]. destruct (enum_vals S t) as [vals|]; [|apply coerce_or_err_paths].
    destruct (existsb (Nat.eqb en) vals); simpl; [intros []|intros [<-|[]]; reflexivity].
  - destruct at_ as [t|]; [apply coerce_or_err_paths|intros []].
  - assert (Hl : forall at', In e (flat_map snd (map (fun x => replace_arg_vars S vars x at') l)) -> e_path e = []).
    { intros at'. induction l as [|x r IHl]; simpl; [intros []|]. rewrite in_app_iff.
      intros [H|H]; [exact (IH x at' e H)|exact (IHl H)]. }
    destruct at_ as [t|]; [destruct (list_base t) as [b|]|]; cbn [snd]; [apply Hl|apply coerce_or_err_paths|apply Hl].
  - destruct at_ as [t|]; [apply coerce_or_err_paths|intros []].
Qed.

Definition find_by_key (k : nat) (args : list arg) : option arg := find (fun av => Nat.eqb (fst av) k) args.

Lemma lookup_find k (args : list arg) : lookup k args = option_map snd (find_by_key k args).
Proof.
  unfold find_by_key. induction args as [|[a v] r IH]; simpl; auto.
  rewrite (Nat.eqb_sym a k). destruct (Nat.eqb k a); auto.
Qed.

Lemma find_by_key_Some k args av : find_by_key k args = Some av -> In av args /\ fst av = k.
Proof.
  unfold find_by_key. intros H. apply find_some in H. destruct H as [H1 H2].
  apply Nat.eqb_eq in H2. auto.
Qed.

Lemma find_by_key_nodup args av :
  NoDup (map fst args) -> In av args -> find_by_key (fst av) args = Some av.
Proof.
  unfold find_by_key. induction args as [|x r IH]; simpl; intros Hn Hi; [tauto|].
  inversion Hn; subst. destruct Hi as [Hi|Hi].
  - subst. now rewrite Nat.eqb_refl.
  - destruct (Nat.eqb_spec (fst x) (fst av)); auto. exfalso. apply H1. rewrite e. now apply in_map.
Qed.

Lemma select_perm (keys : list nat) (args : list arg) :
  NoDup keys -> NoDup (map fst args) -> (forall av, In av args -> In (fst av) keys) ->
  Permutation (flat_map (fun k => match find_by_key k args with Some av => [av] | None => [] end) keys) args.
Proof.
  intros Hk Ha Hin. apply NoDup_Permutation.
  - clear Hin. induction keys as [|k keys IH]; simpl; [constructor|].
    inversion Hk; subst. destruct (find_by_key k args) as [av|] eqn:E; simpl; auto.
    constructor; auto. intros Hc. apply in_flat_map in Hc. destruct Hc as [k' [Hk' Hc]].
    destruct (find_by_key k' args) as [av'|] eqn:E'; [|inversion Hc].
    destruct Hc as [Hc|[]]. subst av'.
    apply find_by_key_Some in E. apply find_by_key_Some in E'. destruct E, E'. congruence.
  - clear - Ha. induction args as [|x r IH]; simpl in *; [constructor|].
    inversion Ha; subst. constructor; auto. intros Hc. apply H1. now apply in_map.
  - intros av. rewrite in_flat_map. split.
    + intros [k [Hk' H]]. destruct (find_by_key k args) as [av'|] eqn:E; [|inversion H].
      destruct H as [H|[]]. subst. apply find_by_key_Some in E. tauto.
    + intros H. exists (fst av). split; auto. rewrite find_by_key_nodup; auto. now left.
Qed.

Lemma somes_map {A B} (f : A -> option B) (l : list A) :
  somes (map f l) = flat_map (fun x => match f x with Some y => [y] | None => [] end) l.
Proof. induction l as [|x l IH]; simpl; auto. destruct (f x); simpl; now rewrite IH. Qed.

Lemma somes_map_Some {A} (l : list A) : somes (map Some l) = l.
Proof. induction l; simpl; auto. now f_equal. Qed.

Lemma existsb_find_arg (l : list adef) (a : nat) :
  existsb (fun d => Nat.eqb (a_name d) a) l = match find_arg a l with Some _ => true | None => false end.
Proof. unfold find_arg. induction l as [|d r IH]; [reflexivity|]. simpl. destruct (Nat.eqb (a_name d) a); auto. Qed.

(* what sortArgs reports: one error per argument the object type's field does not declare *)
Lemma sort_args_errs t0 name args :
  snd (sort_args S t0 name args) = map (fun _ => mkErr [] LOther EBadArg) (undeclared_args S t0 name args).
Proof.
  assert (Hl : forall fd (l : list arg),
            map (fun _ : arg => mkErr [] LOther EBadArg)
                (filter (fun av => match find_arg (fst av) (f_args fd) with None => true | Some _ => false end) l) =
            map (fun _ : arg => mkErr [] LOther EBadArg) (filter (fun av => negb (declared_by fd av)) l)).
  { intros fd l. induction l as [|x l IH]; [reflexivity|].
    cbn [filter]. unfold declared_by. rewrite existsb_find_arg.
    destruct (find_arg (fst x) (f_args fd)); cbn [negb map]; [exact IH|]. f_equal. exact IH. }
  unfold sort_args, undeclared_args, meta_arg_errs. destruct args as [|a0 args0].
  { destruct (lookup t0 S) as [[k|fs ifaces|fs|ms|fs]|]; try (destruct (find_field name fs)); destruct (Nat.eqb name TYPENAME); reflexivity. }
  destruct (lookup t0 S) as [[k|fs ifaces|fs|ms|fs]|]; try (destruct (Nat.eqb name TYPENAME); reflexivity);
    (destruct (find_field name fs) as [fd|]; [|destruct (Nat.eqb name TYPENAME); reflexivity]); cbn [snd]; apply Hl.
Qed.

(* Field.Args after sortArgs under a ConType that declares every supplied argument still holds
   exactly the supplied arguments *)
Lemma sort_args_perm t0 name args :
  wf_schema_args S = true -> NoDup (map fst args) -> undeclared_args S t0 name args = [] ->
  Permutation (somes (fst (sort_args S t0 name args))) args.
Proof.
  intros Hs Hn Hu. unfold sort_args. destruct args as [|a0 args0]; [simpl; auto|].
  set (args := a0 :: args0) in *.
  unfold undeclared_args in Hu.
  assert (Hcore : forall fs fd, In (t0, match lookup t0 S with Some d => d | None => DLeaf LInt end) S ->
            (match lookup t0 S with Some (DObject fl _) | Some (DInterface fl) => fl = fs | _ => False end) ->
            find_field name fs = Some fd ->
            filter (fun av => negb (declared_by fd av)) args = [] ->
            Permutation (somes (map (fun d => find (fun av => Nat.eqb (fst av) (a_name d)) args) (f_args fd))) args).
  { intros fs fd Hin Hfs Ef Hf. rewrite somes_map.
    unfold wf_schema_args in Hs. rewrite forallb_forall in Hs. specialize (Hs _ Hin). cbn [snd] in Hs.
    assert (Hnd : NoDup (map a_name (f_args fd))).
    { assert (Hfd : In fd fs) by (unfold find_field in Ef; apply find_some in Ef; tauto).
      destruct (lookup t0 S) as [[k|fl ifaces|fl|ms|fl]|]; try contradiction; subst fl;
        rewrite forallb_forall in Hs; apply nodup_nat_spec; apply Hs; exact Hfd. }
    pose proof (select_perm (map a_name (f_args fd)) args Hnd Hn) as P.
    rewrite flat_map_concat_map, map_map, <- flat_map_concat_map in P. apply P.
    intros av Hav.
    assert (Hd : declared_by fd av = true).
    { destruct (declared_by fd av) eqn:E; auto. exfalso.
      assert (Hi : In av (filter (fun av0 => negb (declared_by fd av0)) args)) by (apply filter_In; rewrite E; auto).
      rewrite Hf in Hi. inversion Hi. }
    unfold declared_by in Hd. apply existsb_exists in Hd.
    destruct Hd as [d [Hd E]]. apply Nat.eqb_eq in E. rewrite <- E. now apply in_map. }
  destruct (lookup t0 S) as [[k|fs ifaces|fs|ms|fs]|] eqn:El; try (cbn [fst]; rewrite somes_map_Some; auto).
  - destruct (find_field name fs) as [fd|] eqn:Ef; [|cbn [fst]; rewrite somes_map_Some; auto].
    cbn [fst]. apply (Hcore fs fd (lookup_In _ _ _ El) eq_refl Ef Hu).
  - destruct (find_field name fs) as [fd|] eqn:Ef; [|cbn [fst]; rewrite somes_map_Some; auto].
    cbn [fst]. apply (Hcore fs fd (lookup_In _ _ _ El) eq_refl Ef Hu).
Qed.

End Args.

Section Args2.
Variable S : schema.
Variable vars : list (nat * value).

Lemma arg_type_decl fd d :
  NoDup (map a_name (f_args fd)) -> In d (f_args fd) -> arg_type fd (a_name d) = Some (a_type d).
Proof.
  unfold arg_type, find_arg. generalize (f_args fd). intros l Hn Hi.
  induction l as [|x l IH]; simpl in *; [tauto|].
  inversion Hn; subst. destruct Hi as [Hi|Hi].
  - subst. now rewrite Nat.eqb_refl.
  - destruct (Nat.eqb_spec (a_name x) (a_name d)); auto.
    exfalso. apply H1. rewrite e. now apply in_map.
Qed.

(* the supplied arguments in declaration order *)
Definition sel_args (fd : fdef) (args : list arg) : list arg :=
  flat_map (fun d => match lookup (a_name d) args with Some v => [(a_name d, v)] | None => [] end) (f_args fd).

Lemma sel_args_select fd args :
  sel_args fd args =
  flat_map (fun k => match find_by_key k args with Some av => [av] | None => [] end) (map a_name (f_args fd)).
Proof.
  unfold sel_args. rewrite (flat_map_concat_map _ (map a_name (f_args fd))), map_map, <- flat_map_concat_map.
  apply flat_map_ext. intros d. rewrite lookup_find.
  destruct (find_by_key (a_name d) args) as [[a v]|] eqn:E; simpl; auto.
  apply find_by_key_Some in E. destruct E as [_ E]. simpl in E. now subst.
Qed.

Lemma sel_args_perm fd args :
  NoDup (map a_name (f_args fd)) -> NoDup (map fst args) ->
  (forall av, In av args -> In (fst av) (map a_name (f_args fd))) ->
  Permutation (sel_args fd args) args.
Proof. intros. rewrite sel_args_select. now apply select_perm. Qed.

Lemma coerce_one_errs_abs fd here av :
  path_errs here (snd (coerce_one S vars fd av)) =
  map (fun e => mkErr (here ++ PArg (fst av) :: e_path e) (e_loc e) (e_kind e))
      (snd (replace_arg_vars S vars (snd av) (arg_type fd (fst av)))).
Proof.
  unfold coerce_one.
  pose proof (replace_arg_vars_paths S vars (snd av) (arg_type fd (fst av))) as Hp.
  destruct (replace_arg_vars S vars (snd av) (arg_type fd (fst av))) as [w ea2]. cbn [snd] in *.
  unfold path_errs, errs_in. rewrite map_map. apply map_ext_in. intros e He.
  simpl. rewrite (Hp e He). reflexivity.
Qed.

Lemma spec_args_eq id fd args here :
  NoDup (map a_name (f_args fd)) ->
  spec_args S vars id fd args here =
  (map (fun av => fst (coerce_one S vars fd av)) (sel_args fd args),
   flat_map (fun av => path_errs here (snd (coerce_one S vars fd av))) (sel_args fd args)
   ++ map (fun d => mkErr here (LNode id) EMissingArg)
          (filter (fun d => is_nonnull (a_type d) &&
                            match lookup (a_name d) args with Some VNull | None => true | Some _ => false end) (f_args fd))).
Proof.
  intros Hn. unfold spec_args, sel_args. f_equal.
  - rewrite !map_map. rewrite !flat_map_concat_map, !concat_map, !map_map. f_equal.
    apply map_ext_in. intros d Hd. destruct (lookup (a_name d) args) as [v|]; simpl; auto.
    unfold coerce_one. cbn [fst snd]. rewrite (arg_type_decl fd d Hn Hd).
    destruct (replace_arg_vars S vars v (Some (a_type d))); reflexivity.
  - f_equal. rewrite !flat_map_concat_map, !map_map, !concat_map, !map_map. f_equal. f_equal.
    apply map_ext_in. intros d Hd. destruct (lookup (a_name d) args) as [v|]; simpl; auto.
    f_equal. rewrite coerce_one_errs_abs. cbn [fst snd].
    now rewrite (arg_type_decl fd d Hn Hd).
Qed.

Lemma given_spec (l args : list arg) k :
  NoDup (map fst args) -> Permutation l args ->
  existsb (Nat.eqb k) (map fst (filter (fun av => negb (is_vnull (snd av))) l))
  = match lookup k args with Some VNull | None => false | Some _ => true end.
Proof.
  intros Hn Hp. rewrite <- (lookup_perm k l args); [|eapply Permutation_NoDup; [apply Permutation_map, Permutation_sym; eauto|auto]|auto].
  assert (Hl : NoDup (map fst l)) by (eapply Permutation_NoDup; [apply Permutation_map, Permutation_sym; eauto|auto]).
  clear - Hl. induction l as [|[a v] r IH]; simpl; auto.
  inversion Hl; subst. destruct (Nat.eqb_spec k a).
  - subst. destruct v; simpl; rewrite ?Nat.eqb_refl; auto.
    rewrite IH; auto. destruct (lookup a r) eqn:E; auto. apply lookup_In in E.
    exfalso. apply H1. change a with (fst (a, v)). now apply in_map.
  - destruct v; simpl; auto; destruct (Nat.eqb_spec k a); try congruence; auto.
Qed.

Lemma args_agree id fd args cur here :
  NoDup (map a_name (f_args fd)) -> NoDup (map fst args) ->
  (forall av, In av args -> In (fst av) (map a_name (f_args fd))) ->
  Permutation (somes cur) args ->
  Permutation (fst (form_args S vars id fd cur)) (fst (spec_args S vars id fd args here)) /\
  NoDup (map fst (fst (form_args S vars id fd cur))) /\
  Permutation (snd (spec_args S vars id fd args here)) (path_errs here (snd (form_args S vars id fd cur))).
Proof.
  intros Hd Ha Hin Hp. rewrite spec_args_eq by assumption. unfold form_args.
  rewrite form_args_loop_spec. cbn [fst snd].
  pose proof (sel_args_perm fd args Hd Ha Hin) as Hs.
  assert (Hps : Permutation (somes cur) (sel_args fd args)) by (eapply perm_trans; [exact Hp|now apply Permutation_sym]).
  split; [|split].
  - now apply Permutation_map.
  - assert (E : forall l : list arg, map fst (map (fun av => fst (coerce_one S vars fd av)) l) = map fst l).
    { induction l as [|av l IHl]; simpl; auto. rewrite IHl. f_equal. unfold coerce_one.
      destruct (replace_arg_vars S vars (snd av) (arg_type fd (fst av))); reflexivity. }
    rewrite E. eapply Permutation_NoDup; [apply Permutation_map, Permutation_sym; exact Hp|exact Ha].
  - rewrite path_errs_app. apply Permutation_app.
    + unfold path_errs at 2. rewrite (flat_map_concat_map _ (somes cur)), concat_map, map_map, <- flat_map_concat_map.
      apply Permutation_flat_map. now apply Permutation_sym.
    + unfold path_errs. rewrite map_map. cbn [e_path strip_frag filter e_loc e_kind]. rewrite app_nil_r.
      rewrite (filter_ext _ (fun d => is_nonnull (a_type d) &&
                                     negb (existsb (Nat.eqb (a_name d))
                                            (map fst (filter (fun av => negb (is_vnull (snd av))) (somes cur)))))).
      * apply Permutation_refl.
      * intros d. rewrite (given_spec (somes cur) args (a_name d) Ha Hp).
        destruct (lookup (a_name d) args) as [[]|]; reflexivity.
Qed.

End Args2.

(* ------------------------------------------------------------------ the lock-step theorem *)
Section Lock.
Variable S : schema.
Variable G : graph.
Variable frags : list (nat * fragment).
Variable any_installed : bool.
Variable max_depth : nat.
Variable vars : list (nat * value).
Hypothesis Hschema : wf_schema_args S = true.
Hypothesis Hfrags : wf_frags S frags = true.

Notation resolve := (Exec.resolve S G frags any_installed max_depth vars).
Notation resolve_list := (Exec.resolve_list S G frags any_installed max_depth vars).
Notation resolve_elems := (Exec.resolve_elems S G frags any_installed max_depth vars).
Notation resolve_any_elems := (Exec.resolve_any_elems S G frags any_installed max_depth vars).
Notation resolve_sels := (Exec.resolve_sels S G frags any_installed max_depth vars).
Notation resolve_sels_loop := (Exec.resolve_sels_loop S G frags any_installed max_depth vars).
Notation resolve_field := (Exec.resolve_field S G frags any_installed max_depth vars).
Notation concrete_type := (Exec.concrete_type S G).
Notation union_member := (Exec.union_member S G).
Notation run_behav := (Exec.run_behav G).
Notation cond_applies := (Exec.cond_applies S).
Notation strategy_of := (Exec.strategy_of any_installed).
Notation included := (ExecSpec.included vars).
Notation dir_bad := (ExecSpec.dir_bad vars).
Notation applies := (ExecSpec.applies S).
Notation spec_args := (ExecSpec.spec_args S vars).
Notation answerer_of := (ExecSpec.answerer_of any_installed).
Notation sem_value := (ExecSpec.sem_value S G frags any_installed vars).
Notation sem_elems := (ExecSpec.sem_elems S G frags any_installed vars).
Notation sem_any_elems := (ExecSpec.sem_any_elems S G frags any_installed vars).
Notation sem_sels := (ExecSpec.sem_sels S G frags any_installed vars).
Notation sem_sels_loop := (ExecSpec.sem_sels_loop S G frags any_installed vars).
Notation sem_field := (ExecSpec.sem_field S G frags any_installed vars).

Definition rel {A B} (R : A -> B -> Prop) (path : list pseg) (s : st)
           (x : outcome (A * list err * st)) (y : outcome (sem_t B)) : Prop :=
  match x, y with
  | OutOfFuel, OutOfFuel => True
  | Done (a, ea, s'), Done (b, ea', cs) =>
      R a b /\ Permutation ea' (path_errs path ea) /\ s_calls s' = s_calls s ++ cs
  | _, _ => False
  end.

(* the list case of sem_value, named *)
Definition sem_list (fuel : nat) (obj : gv) (fid : nat) (fsels : list sel) (lt : ty) (depth : nat) (path : list pseg)
  : outcome (sem_t rv) :=
  match fuel with
  | 0 => OutOfFuel
  | Datatypes.S fuel'' =>
      match obj with
      | GLRes l | GList l =>
          match sem_elems fuel'' l 0 fid fsels lt depth path with
          | Done (rs, ea, cs) => Done (RList rs, ea, cs)
          | OutOfFuel => OutOfFuel
          end
      | GAList l =>
          if any_installed then
            match sem_any_elems fuel'' l 0 fid fsels lt depth path with
            | Done (rs, ea, cs) => Done (RList rs, ea, cs)
            | OutOfFuel => OutOfFuel
            end
          else Done (RNull, [at_path path (LNode fid) ENotList], [])
      | _ =>
          if any_installed then Done (RList [], [], [])
          else Done (RNull, [at_path path (LNode fid) ENotList], [])
      end
  end.

Definition P_resolve (fuel : nat) : Prop :=
  forall obj fid fsels t depth s path, wf_sels S fsels = true -> depth < max_depth ->
    rel (fun r r' => r = norm r') path s (resolve fuel obj fid fsels t depth s) (sem_value fuel obj fid fsels t depth path).
Definition P_list (fuel : nat) : Prop :=
  forall obj fid fsels lt depth s path, wf_sels S fsels = true -> depth < max_depth ->
    rel (fun r r' => r = norm r') path s (resolve_list fuel obj fid fsels lt depth s) (sem_list fuel obj fid fsels lt depth path).
Definition P_elems (fuel : nat) : Prop :=
  forall l i fid fsels lt depth s path, wf_sels S fsels = true -> depth < max_depth ->
    rel (fun rs rs' => rs = map norm rs') path s (resolve_elems fuel l i fid fsels lt depth s) (sem_elems fuel l i fid fsels lt depth path).
Definition P_any (fuel : nat) : Prop :=
  forall l i fid fsels lt depth s path, wf_sels S fsels = true -> depth < max_depth ->
    rel (fun rs rs' => rs = map norm rs') path s (resolve_any_elems fuel l i fid fsels lt depth s) (sem_any_elems fuel l i fid fsels lt depth path).
Definition P_sels (fuel : nat) : Prop :=
  forall obj sels t result depth s path, wf_sels S sels = true -> depth < max_depth ->
    rel (fun m es => m = add_entries (norm_entries es) result) path s
        (resolve_sels fuel obj sels t result depth s) (sem_sels fuel obj sels t depth path).
Definition P_loop (fuel : nat) : Prop :=
  forall obj sels t result depth s path, wf_sels S sels = true -> depth < max_depth ->
    rel (fun m es => m = add_entries (norm_entries es) result) path s
        (resolve_sels_loop fuel obj sels t result depth s) (sem_sels_loop fuel obj sels t depth path).
Definition P_field (fuel : nat) : Prop :=
  forall obj id alias name args dirs fsels t result depth s path,
    wf_sel S (SField id alias name args dirs fsels) = true -> depth < max_depth ->
    rel (fun m es => m = add_entries (norm_entries es) result) path s
        (resolve_field fuel obj id alias name args fsels t result depth s)
        (sem_field fuel obj id alias name args fsels t depth path).

(* unfolding equations (generated by tools/gen_eqs.py from the definitions; each holds by computation) *)
Lemma resolve_eq fuel' (obj : gv) (fid : nat) (fsels : list sel) (t : ty) (depth : nat) (s : st) :
  resolve (Datatypes.S fuel') obj fid fsels t depth s =
      if (Nat.eqb depth 0 || is_nil obj)%bool
      then Done (match obj with GNil => RNull | _ => RLeak obj end, [], s)
      else
        match t with
        | TList lt => resolve_list fuel' obj fid fsels lt (depth - 1) s
        | TNonNull b => resolve fuel' obj fid fsels b depth s
        | TNamed n =>
            match lookup n S with
            | Some (DObject _ _) =>
                match resolve_sels fuel' obj fsels n [] (depth - 1) s with
                | Done (m, ea, s') => Done (RObj m, ea, s')
                | OutOfFuel => OutOfFuel
                end
            | Some (DInterface _) =>
                match resolve_sels fuel' obj fsels (concrete_type obj n) [] (depth - 1) s with
                | Done (m, ea, s') => Done (RObj m, ea, s')
                | OutOfFuel => OutOfFuel
                end
            | Some (DUnion members) =>
                match union_member obj members with
                | Some m =>
                    match resolve_sels fuel' obj fsels m [] (depth - 1) s with
                    | Done (mm, ea, s') => Done (RObj mm, ea, s')
                    | OutOfFuel => OutOfFuel
                    end
                | None => Done (RObj [], [], s)
                end
            | Some (DLeaf k) =>
                let (r, bad) := coerce_out k obj in
                Done (r, if bad then [mkErr [] (LNode fid) ECoerceOut] else [], s)
            | _ => Done (RNull, [], s)
            end
        end.
Proof. reflexivity. Qed.

Lemma resolve_list_eq fuel' (obj : gv) (fid : nat) (fsels : list sel) (lt : ty) (depth : nat) (s : st) :
  resolve_list (Datatypes.S fuel') obj fid fsels lt depth s =
      match obj with
      | GLRes l | GList l =>
          match resolve_elems fuel' l 0 fid fsels lt depth s with
          | Done (rs, ea, s') => Done (RList rs, ea, s')
          | OutOfFuel => OutOfFuel
          end
      | GAList l =>
          if any_installed then
            match resolve_any_elems fuel' l 0 fid fsels lt depth s with
            | Done (rs, ea, s') => Done (RList rs, ea, s')
            | OutOfFuel => OutOfFuel
            end
          else Done (RNull, [mkErr [] (LNode fid) ENotList], s)
      | _ =>
          if any_installed
          then Done (RList [], [], s)       (* AnyResolver.Len of a non-list is 0: an empty (nil) list *)
          else Done (RNull, [mkErr [] (LNode fid) ENotList], s)
      end.
Proof. reflexivity. Qed.

Lemma resolve_elems_eq fuel' (l : list gv) (i : nat) (fid : nat) (fsels : list sel) (lt : ty) (depth : nat) (s : st) :
  resolve_elems (Datatypes.S fuel') l i fid fsels lt depth s =
      match l with
      | [] => Done ([], [], s)
      | x :: r =>
          match resolve fuel' x fid fsels lt depth s with
          | OutOfFuel => OutOfFuel
          | Done (v, ea, s1) =>
              match resolve_elems fuel' r (Datatypes.S i) fid fsels lt depth s1 with
              | OutOfFuel => OutOfFuel
              | Done (vs, ea2, s2) => Done (v :: vs, errs_in (PIdx i) ea ++ ea2, s2)
              end
          end
      end.
Proof. reflexivity. Qed.

Lemma resolve_any_elems_eq fuel' (l : list (option gv)) (i : nat) (fid : nat) (fsels : list sel) (lt : ty) (depth : nat) (s : st) :
  resolve_any_elems (Datatypes.S fuel') l i fid fsels lt depth s =
      match l with
      | [] => Done ([], [], s)
      | None :: r =>
          match resolve_any_elems fuel' r (Datatypes.S i) fid fsels lt depth s with
          | OutOfFuel => OutOfFuel
          | Done (vs, ea2, s2) => Done (RNull :: vs, mkErr [PIdx i] LNone ENth :: ea2, s2)
          end
      | Some x :: r =>
          match resolve fuel' x fid fsels lt depth s with
          | OutOfFuel => OutOfFuel
          | Done (v, ea, s1) =>
              match resolve_any_elems fuel' r (Datatypes.S i) fid fsels lt depth s1 with
              | OutOfFuel => OutOfFuel
              | Done (vs, ea2, s2) => Done (v :: vs, errs_in (PIdx i) ea ++ ea2, s2)
              end
          end
      end.
Proof. reflexivity. Qed.

Lemma resolve_sels_eq fuel' (obj : gv) (sels : list sel) (t : nat) (result : list (nat * rv)) (depth : nat) (s : st) :
  resolve_sels (Datatypes.S fuel') obj sels t result depth s =
      match sels with
      | [] => Done (result, [mkErr [] LNone ENotLeaf], s)
      | _ => resolve_sels_loop fuel' obj sels t result depth s
      end.
Proof. reflexivity. Qed.

Lemma resolve_sels_loop_eq fuel' (obj : gv) (sels : list sel) (t : nat) (result : list (nat * rv)) (depth : nat) (s : st) :
  resolve_sels_loop (Datatypes.S fuel') obj sels t result depth s =
      match sels with
      | [] => Done (result, [], s)
      | x :: r =>
          let (skip, ea0) := skip_sel vars x in
          if skip then
            match resolve_sels_loop fuel' obj r t result depth s with
            | OutOfFuel => OutOfFuel
            | Done (m, ea, s') => Done (m, ea0 ++ ea, s')
            end
          else
            match
              match x with
              | SField id alias name args dirs fsels => resolve_field fuel' obj id alias name args fsels t result depth s
              | SInline _ cond _ isels =>
                  if cond_applies cond t then resolve_sels fuel' obj isels t result depth s else Done (result, [], s)
              | SFrag id fname _ =>
                  match lookup fname frags with
                  | None => Done (result, [], s)
                  | Some fr =>
                      if cond_applies (fr_cond fr) t then
                        match resolve_sels fuel' obj (fr_sels fr) t result depth s with
                        | OutOfFuel => OutOfFuel
                        | Done (m, ea, s') => Done (m, errs_in (PFragAt id) ea, s')
                        end
                      else Done (result, [], s)
                  end
              end
            with
            | OutOfFuel => OutOfFuel
            | Done (m1, ea1, s1) =>
                match resolve_sels_loop fuel' obj r t m1 depth s1 with
                | OutOfFuel => OutOfFuel
                | Done (m2, ea2, s2) => Done (m2, ea0 ++ ea1 ++ ea2, s2)
                end
            end
      end.
Proof. reflexivity. Qed.

Lemma resolve_field_eq fuel' (obj : gv) (id : nat) (alias : option nat) (name : nat) (args : list arg)                    (fsels : list sel) (t : nat) (result : list (nat * rv)) (depth : nat) (s : st) :
  resolve_field (Datatypes.S fuel') obj id alias name args fsels t result depth s =
      let key := key_of alias name in
      let '(cur_args, ea_sort) := sort_args S t name args in
      let s0 := mkSt ((id, t) :: s_args s) (s_calls s) in
      match ea_sort with
      | _ :: _ => Done (result, errs_in (PKey key) ea_sort, s0)
      | [] =>
          if Nat.eqb name TYPENAME then Done (set_key key (RTypeName t) result, [], s0)
          else
            match get_field_def S t name with
            | None => Done (result, [mkErr [PKey key] (LNode id) ENotField], s0)
            | Some fd =>
                (* strategy switch: Resolver, else AnyResolver when installed *)
                let strat := strategy_of obj in
                let pre (ea : list err) := if Nat.ltb depth max_depth then errs_in (PKey key) ea else ea in
                match strat with
                | None =>
                    (* reflection fallback on a value that is neither a Resolver nor served by an AnyResolver:
                       under an *Object regField fails; under an *Interface no Go type is found and nil is returned *)
                    match lookup t S with
                    | Some (DObject _ _) => Done (set_key key RNull result, pre [mkErr [] (LNode id) EReflect], s0)
                    | _ => Done (set_key key RNull result, [], s0)
                    end
                | Some n =>
                    let (cargs, ea_args) := form_args S vars id fd cur_args in
                    let '(attr, rerr, s1) :=
                      match ea_args, n with
                      | [], Some n' => let (a, e) := run_behav n' name cargs in
                                       (a, e, mkSt (s_args s0) (s_calls s0 ++ [mkCall n' name (canon_args cargs)]))
                      | [], None => (GNil, Some 0, s0)
                      | _, _ => (GNil, None, s0)
                      end in
                    let ea_res := match rerr with
                                  | None => []
                                  | Some 0 => [mkErr [] (LNode id) EResolver]
                                  | Some k => repeat (mkErr [] (LNode id) EResolver) k
                                  end in
                    if is_nil attr then Done (set_key key RNull result, pre (ea_args ++ ea_res), s1)
                    else
                      match resolve fuel' attr id fsels (f_type fd) depth s1 with
                      | OutOfFuel => OutOfFuel
                      | Done (fv, ea2, s2) => Done (set_key key fv result, pre (ea_args ++ ea_res ++ ea2), s2)
                      end
                end
            end
      end.
Proof. reflexivity. Qed.

Lemma sem_value_eq fuel' (obj : gv) (fid : nat) (fsels : list sel) (t : ty) (depth : nat) (path : list pseg) :
  sem_value (Datatypes.S fuel') obj fid fsels t depth path =
      if is_nil obj then Done (RNull, [], [])
      else if Nat.eqb depth 0 then Done (RLeak obj, [], [])      (* MaxResolveDepth reached: resolution stops *)
      else
        match t with
        | TNonNull b => sem_value fuel' obj fid fsels b depth path
        | TList lt =>
            match fuel' with
            | 0 => OutOfFuel
            | Datatypes.S fuel'' =>
                match obj with
                | GLRes l | GList l =>
                    match sem_elems fuel'' l 0 fid fsels lt (depth - 1) path with
                    | Done (rs, ea, cs) => Done (RList rs, ea, cs)
                    | OutOfFuel => OutOfFuel
                    end
                | GAList l =>
                    if any_installed then
                      match sem_any_elems fuel'' l 0 fid fsels lt (depth - 1) path with
                      | Done (rs, ea, cs) => Done (RList rs, ea, cs)
                      | OutOfFuel => OutOfFuel
                      end
                    else Done (RNull, [at_path path (LNode fid) ENotList], [])
                | _ =>
                    if any_installed then Done (RList [], [], [])
                    else Done (RNull, [at_path path (LNode fid) ENotList], [])
                end
            end
        | TNamed n =>
            match lookup n S with
            | Some (DLeaf k) =>
                let (r, bad) := coerce_out k obj in
                Done (r, if bad then [at_path path (LNode fid) ECoerceOut] else [], [])
            | Some (DObject _ _) => as_object (sem_sels fuel' obj fsels n (depth - 1) path)
            | Some (DInterface _) => as_object (sem_sels fuel' obj fsels (concrete_type obj n) (depth - 1) path)
            | Some (DUnion members) =>
                match union_member obj members with
                | Some m => as_object (sem_sels fuel' obj fsels m (depth - 1) path)
                | None => Done (RObj [], [], [])
                end
            | _ => Done (RNull, [], [])
            end
        end.
Proof. reflexivity. Qed.

Lemma sem_elems_eq fuel' (l : list gv) (i : nat) (fid : nat) (fsels : list sel) (lt : ty) (depth : nat) (path : list pseg) :
  sem_elems (Datatypes.S fuel') l i fid fsels lt depth path =
      match l with
      | [] => Done ([], [], [])
      | x :: r =>
          match sem_value fuel' x fid fsels lt depth (path ++ [PIdx i]) with
          | OutOfFuel => OutOfFuel
          | Done (v, ea, cs) =>
              match sem_elems fuel' r (Datatypes.S i) fid fsels lt depth path with
              | OutOfFuel => OutOfFuel
              | Done (vs, ea2, cs2) => Done (v :: vs, ea ++ ea2, cs ++ cs2)
              end
          end
      end.
Proof. reflexivity. Qed.

Lemma sem_any_elems_eq fuel' (l : list (option gv)) (i : nat) (fid : nat) (fsels : list sel) (lt : ty) (depth : nat) (path : list pseg) :
  sem_any_elems (Datatypes.S fuel') l i fid fsels lt depth path =
      match l with
      | [] => Done ([], [], [])
      | None :: r =>                              (* the list accessor fails for element i *)
          match sem_any_elems fuel' r (Datatypes.S i) fid fsels lt depth path with
          | OutOfFuel => OutOfFuel
          | Done (vs, ea2, cs2) => Done (RNull :: vs, at_path (path ++ [PIdx i]) LNone ENth :: ea2, cs2)
          end
      | Some x :: r =>
          match sem_value fuel' x fid fsels lt depth (path ++ [PIdx i]) with
          | OutOfFuel => OutOfFuel
          | Done (v, ea, cs) =>
              match sem_any_elems fuel' r (Datatypes.S i) fid fsels lt depth path with
              | OutOfFuel => OutOfFuel
              | Done (vs, ea2, cs2) => Done (v :: vs, ea ++ ea2, cs ++ cs2)
              end
          end
      end.
Proof. reflexivity. Qed.

Lemma sem_sels_eq fuel' (obj : gv) (sels : list sel) (t : nat) (depth : nat) (path : list pseg) :
  sem_sels (Datatypes.S fuel') obj sels t depth path =
      match sels with
      | [] => Done ([], [at_path path LNone ENotLeaf], [])    (* a composite position without sub-selections *)
      | _ => sem_sels_loop fuel' obj sels t depth path
      end.
Proof. reflexivity. Qed.

Lemma sem_sels_loop_eq fuel' (obj : gv) (sels : list sel) (t : nat) (depth : nat) (path : list pseg) :
  sem_sels_loop (Datatypes.S fuel') obj sels t depth path =
      match sels with
      | [] => Done ([], [], [])
      | x :: r =>
          let bad := repeat (at_path (path ++ match x with SField _ a nm _ _ _ => [PKey (key_of a nm)] | _ => [] end)
                                     (sel_errloc x) ESkipVar)
                            (length (filter dir_bad (sel_dirs x))) in
          if negb (included (sel_dirs x)) then
            (* excluded: no entry, no resolver runs *)
            match sem_sels_loop fuel' obj r t depth path with
            | OutOfFuel => OutOfFuel
            | Done (es, ea, cs) => Done (es, bad ++ ea, cs)
            end
          else
            match
              match x with
              | SField id alias name args _ fsels => sem_field fuel' obj id alias name args fsels t depth path
              | SInline _ cond _ isels =>
                  if applies cond t then sem_sels fuel' obj isels t depth path else Done ([], [], [])
              | SFrag _ fname _ =>
                  match lookup fname frags with
                  | None => Done ([], [], [])
                  | Some fr => if applies (fr_cond fr) t then sem_sels fuel' obj (fr_sels fr) t depth path else Done ([], [], [])
                  end
              end
            with
            | OutOfFuel => OutOfFuel
            | Done (es1, ea1, cs1) =>
                match sem_sels_loop fuel' obj r t depth path with
                | OutOfFuel => OutOfFuel
                | Done (es2, ea2, cs2) => Done (es1 ++ es2, bad ++ ea1 ++ ea2, cs1 ++ cs2)
                end
            end
      end.
Proof. reflexivity. Qed.

Lemma sem_field_eq fuel' (obj : gv) (id : nat) (alias : option nat) (name : nat) (args : list arg)                (fsels : list sel) (t : nat) (depth : nat) (path : list pseg) :
  sem_field (Datatypes.S fuel') obj id alias name args fsels t depth path =
      let key := key_of alias name in
      let here := path ++ [PKey key] in
      match undeclared_args S t name args with
      | (_ :: _) as bad => Done ([], map (fun _ => at_path here LOther EBadArg) bad, [])
      | [] =>
      if Nat.eqb name TYPENAME then Done ([(key, RTypeName t)], [], [])
      else
        match get_field_def S t name with
        | None => Done ([], [at_path here (LNode id) ENotField], [])       (* undefined field: an error, nothing resolved *)
        | Some fd =>
            match answerer_of obj with
            | ANobody =>
                match lookup t S with
                | Some (DObject _ _) => Done ([(key, RNull)], [at_path here (LNode id) EReflect], [])
                | _ => Done ([(key, RNull)], [], [])
                end
            | who =>
                let (cargs, ea_args) := spec_args id fd args here in
                match ea_args with
                | _ :: _ => Done ([(key, RNull)], ea_args, [])             (* arguments do not conform: resolver not invoked *)
                | [] =>
                    let '(attr, rerr, cs) :=
                      match who with
                      | ANode n => let (a, e) := run_behav n name cargs in (a, e, [mkCall n name (canon_args cargs)])
                      | _ => (GNil, Some 0, [])
                      end in
                    let ea_res := match rerr with
                                  | None => []
                                  | Some 0 => [at_path here (LNode id) EResolver]
                                  | Some k => repeat (at_path here (LNode id) EResolver) k
                                  end in
                    if is_nil attr then Done ([(key, RNull)], ea_res, cs)
                    else
                      match sem_value fuel' attr id fsels (f_type fd) depth here with
                      | OutOfFuel => OutOfFuel
                      | Done (fv, ea2, cs2) => Done ([(key, fv)], ea_res ++ ea2, cs ++ cs2)
                      end
                end
            end
        end
      end.
Proof. reflexivity. Qed.

(* end of unfolding equations *)

Lemma app_nil_path (path : list pseg) : path ++ [] = path.
Proof. apply app_nil_r. Qed.

Lemma rel_base {A B} (R : A -> B -> Prop) path s : rel R path s OutOfFuel OutOfFuel.
Proof. exact I. Qed.

Lemma step_elems fuel' : P_resolve fuel' -> P_elems fuel' -> P_elems (Datatypes.S fuel').
Proof.
  intros HR HE l i fid fsels lt depth s path Hwf Hd.
  rewrite resolve_elems_eq, sem_elems_eq. destruct l as [|x r].
  - simpl. repeat split; auto. now rewrite app_nil_r.
  - specialize (HR x fid fsels lt depth s (path ++ [PIdx i]) Hwf Hd). unfold rel in HR.
    destruct (resolve fuel' x fid fsels lt depth s) as [[[v ea] s1]|];
      destruct (sem_value fuel' x fid fsels lt depth (path ++ [PIdx i])) as [[[v' ea'] cs]|]; try contradiction; [|exact I].
    destruct HR as [Hv [Hea Hcs]].
    specialize (HE r (Datatypes.S i) fid fsels lt depth s1 path Hwf Hd). unfold rel in HE.
    destruct (resolve_elems fuel' r (Datatypes.S i) fid fsels lt depth s1) as [[[vs ea2] s2]|];
      destruct (sem_elems fuel' r (Datatypes.S i) fid fsels lt depth path) as [[[vs' ea2'] cs2]|]; try contradiction; [|exact I].
    destruct HE as [Hvs [Hea2 Hcs2]]. simpl. repeat split.
    + now subst.
    + rewrite path_errs_app, path_errs_in_idx. now apply Permutation_app.
    + rewrite Hcs2, Hcs. now rewrite app_assoc.
Qed.

Lemma step_any fuel' : P_resolve fuel' -> P_any fuel' -> P_any (Datatypes.S fuel').
Proof.
  intros HR HE l i fid fsels lt depth s path Hwf Hd.
  rewrite resolve_any_elems_eq, sem_any_elems_eq. destruct l as [|[x|] r].
  - simpl. repeat split; auto. now rewrite app_nil_r.
  - specialize (HR x fid fsels lt depth s (path ++ [PIdx i]) Hwf Hd). unfold rel in HR.
    destruct (resolve fuel' x fid fsels lt depth s) as [[[v ea] s1]|];
      destruct (sem_value fuel' x fid fsels lt depth (path ++ [PIdx i])) as [[[v' ea'] cs]|]; try contradiction; [|exact I].
    destruct HR as [Hv [Hea Hcs]].
    specialize (HE r (Datatypes.S i) fid fsels lt depth s1 path Hwf Hd). unfold rel in HE.
    destruct (resolve_any_elems fuel' r (Datatypes.S i) fid fsels lt depth s1) as [[[vs ea2] s2]|];
      destruct (sem_any_elems fuel' r (Datatypes.S i) fid fsels lt depth path) as [[[vs' ea2'] cs2]|]; try contradiction; [|exact I].
    destruct HE as [Hvs [Hea2 Hcs2]]. simpl. repeat split.
    + now subst.
    + rewrite path_errs_app, path_errs_in_idx. now apply Permutation_app.
    + rewrite Hcs2, Hcs. now rewrite app_assoc.
  - specialize (HE r (Datatypes.S i) fid fsels lt depth s path Hwf Hd). unfold rel in HE.
    destruct (resolve_any_elems fuel' r (Datatypes.S i) fid fsels lt depth s) as [[[vs ea2] s2]|];
      destruct (sem_any_elems fuel' r (Datatypes.S i) fid fsels lt depth path) as [[[vs' ea2'] cs2]|]; try contradiction; [|exact I].
    destruct HE as [Hvs [Hea2 Hcs2]]. simpl. repeat split.
    + now subst.
    + unfold at_path. constructor. exact Hea2.
    + exact Hcs2.
Qed.


Lemma coerce_out_norm k g : norm (fst (coerce_out k g)) = fst (coerce_out k g).
Proof. destruct k, g; try reflexivity. simpl. destruct (in32b z); reflexivity. Qed.

Lemma rel_if {A B} (R : A -> B -> Prop) path s (b : bool) x1 x2 y1 y2 :
  (b = true -> rel R path s x1 y1) -> (b = false -> rel R path s x2 y2) ->
  rel R path s (if b then x1 else x2) (if b then y1 else y2).
Proof. destruct b; auto. Qed.

Lemma step_list fuel' : P_elems fuel' -> P_any fuel' -> P_list (Datatypes.S fuel').
Proof.
  intros HE HA obj fid fsels lt depth s path Hwf Hd.
  rewrite resolve_list_eq. cbn [sem_list].
  assert (Hnl : forall any : bool, @rel rv rv (fun r r' => r = norm r') path s
            (if any then Done (RList [], [], s) else Done (RNull, [mkErr [] (LNode fid) ENotList], s))
            (if any then Done (RList [], [], []) else Done (RNull, [at_path path (LNode fid) ENotList], []))).
  { intros [|]; simpl; repeat split; auto; try (now rewrite app_nil_r);
      try (unfold at_path; now rewrite app_nil_r). }
  destruct obj; try apply Hnl.
  - specialize (HE l 0 fid fsels lt depth s path Hwf Hd). unfold rel in HE.
    destruct (resolve_elems fuel' l 0 fid fsels lt depth s) as [[[vs ea2] s2]|];
      destruct (sem_elems fuel' l 0 fid fsels lt depth path) as [[[vs' ea2'] cs2]|]; try contradiction; [|exact I].
    destruct HE as [Hvs [Hea2 Hcs2]]. simpl. repeat split; auto. now subst.
  - specialize (HE l 0 fid fsels lt depth s path Hwf Hd). unfold rel in HE.
    destruct (resolve_elems fuel' l 0 fid fsels lt depth s) as [[[vs ea2] s2]|];
      destruct (sem_elems fuel' l 0 fid fsels lt depth path) as [[[vs' ea2'] cs2]|]; try contradiction; [|exact I].
    destruct HE as [Hvs [Hea2 Hcs2]]. simpl. repeat split; auto. now subst.
  - apply rel_if; intros Hany.
    + specialize (HA l 0 fid fsels lt depth s path Hwf Hd). unfold rel in HA.
      destruct (resolve_any_elems fuel' l 0 fid fsels lt depth s) as [[[vs ea2] s2]|];
        destruct (sem_any_elems fuel' l 0 fid fsels lt depth path) as [[[vs' ea2'] cs2]|]; try contradiction; [|exact I].
      destruct HA as [Hvs [Hea2 Hcs2]]. simpl. repeat split; auto. now subst.
    + apply (Hnl false).
Qed.

Lemma norm_RObj es : norm (RObj es) = RObj (add_entries (norm_entries es) []).
Proof. reflexivity. Qed.

Lemma step_resolve fuel' : P_resolve fuel' -> P_list fuel' -> P_sels fuel' -> P_resolve (Datatypes.S fuel').
Proof.
  intros HR HL HS obj fid fsels t depth s path Hwf Hd.
  rewrite resolve_eq, sem_value_eq.
  destruct (is_nil obj) eqn:Hnil.
  - rewrite orb_true_r. destruct obj; try discriminate. simpl. repeat split; auto. now rewrite app_nil_r.
  - rewrite orb_false_r. destruct (Nat.eqb_spec depth 0) as [Hz|Hz].
    + simpl. destruct obj; try discriminate; simpl; repeat split; auto; now rewrite app_nil_r.
    + assert (Hd1 : depth - 1 < max_depth) by lia.
      destruct t as [n|lt|b].
      * destruct (lookup n S) as [[k|fs ifaces|fs|ms|fs]|] eqn:El.
        -- destruct (coerce_out k obj) as [r bad] eqn:Ec. simpl. repeat split; auto; [| |now rewrite app_nil_r].
           ++ pose proof (coerce_out_norm k obj) as Hn. rewrite Ec in Hn. simpl in Hn. now rewrite Hn.
           ++ destruct bad; simpl; auto. unfold at_path. now rewrite app_nil_r.
        -- specialize (HS obj fsels n [] (depth - 1) s path Hwf Hd1). unfold rel in HS.
           destruct (resolve_sels fuel' obj fsels n [] (depth - 1) s) as [[[m ea] s1]|];
             destruct (sem_sels fuel' obj fsels n (depth - 1) path) as [[[es ea'] cs]|]; try contradiction; [|exact I].
           destruct HS as [Hm [Hea Hcs]]. simpl. repeat split; auto. now subst.
        -- specialize (HS obj fsels (concrete_type obj n) [] (depth - 1) s path Hwf Hd1). unfold rel in HS.
           destruct (resolve_sels fuel' obj fsels (concrete_type obj n) [] (depth - 1) s) as [[[m ea] s1]|];
             destruct (sem_sels fuel' obj fsels (concrete_type obj n) (depth - 1) path) as [[[es ea'] cs]|]; try contradiction; [|exact I].
           destruct HS as [Hm [Hea Hcs]]. simpl. repeat split; auto. now subst.
        -- destruct (union_member obj ms) as [m0|].
           ++ specialize (HS obj fsels m0 [] (depth - 1) s path Hwf Hd1). unfold rel in HS.
              destruct (resolve_sels fuel' obj fsels m0 [] (depth - 1) s) as [[[m ea] s1]|];
                destruct (sem_sels fuel' obj fsels m0 (depth - 1) path) as [[[es ea'] cs]|]; try contradiction; [|exact I].
              destruct HS as [Hm [Hea Hcs]]. simpl. repeat split; auto. now subst.
           ++ simpl. repeat split; auto. now rewrite app_nil_r.
        -- simpl. repeat split; auto. now rewrite app_nil_r.
        -- simpl. repeat split; auto. now rewrite app_nil_r.
      * apply HL; auto.
      * apply HR; auto.
Qed.

Lemma step_sels fuel' : P_loop fuel' -> P_sels (Datatypes.S fuel').
Proof.
  intros HL obj sels t result depth s path Hwf Hd.
  rewrite resolve_sels_eq, sem_sels_eq. destruct sels as [|x r].
  - simpl. repeat split; auto; [|now rewrite app_nil_r]. unfold at_path. now rewrite app_nil_r.
  - apply HL; auto.
Qed.

Lemma wf_frag_lookup fname fr : lookup fname frags = Some fr -> wf_sels S (fr_sels fr) = true.
Proof.
  intros H. apply lookup_In in H. unfold wf_frags in Hfrags. rewrite forallb_forall in Hfrags.
  apply (Hfrags _ H).
Qed.

Lemma step_loop fuel' : P_field fuel' -> P_sels fuel' -> P_loop fuel' -> P_loop (Datatypes.S fuel').
Proof.
  intros HF HS HL obj sels t result depth s path Hwf Hd.
  rewrite resolve_sels_loop_eq, sem_sels_loop_eq. destruct sels as [|x r].
  - simpl. repeat split; auto. now rewrite app_nil_r.
  - unfold wf_sels in Hwf. cbn [forallb] in Hwf. apply andb_true_iff in Hwf. destruct Hwf as [Hx Hr].
    rewrite skip_sel_spec. cbv zeta.
    set (bad := repeat (at_path (path ++ match x with SField _ a nm _ _ _ => [PKey (key_of a nm)] | _ => [] end)
                                (sel_errloc x) ESkipVar) (length (filter dir_bad (sel_dirs x)))).
    assert (Hbad : path_errs path
                     (repeat (mkErr (match x with SField _ a nm _ _ _ => [PKey (key_of a nm)] | _ => [] end) (sel_errloc x) ESkipVar)
                             (length (filter dir_bad (sel_dirs x)))) = bad).
    { rewrite path_errs_repeat. unfold bad, at_path. f_equal. simpl. f_equal. f_equal.
      destruct x; reflexivity. }
    destruct (negb (included (sel_dirs x))).
    + specialize (HL obj r t result depth s path Hr Hd). unfold rel in HL.
      destruct (resolve_sels_loop fuel' obj r t result depth s) as [[[m ea] s1]|];
        destruct (sem_sels_loop fuel' obj r t depth path) as [[[es ea'] cs]|]; try contradiction; [|exact I].
      destruct HL as [Hm [Hea Hcs]]. simpl. repeat split; auto.
      rewrite path_errs_app, Hbad. now apply Permutation_app_head.
    + (* the selection itself *)
      lazymatch goal with
      | |- rel _ _ _ ?E1 ?E2 =>
          lazymatch E1 with
          | match ?X with _ => _ end =>
              lazymatch E2 with
              | match ?Y with _ => _ end => set (XX := X); set (YY := Y)
              end
          end
      end.
      assert (Hone : rel (fun m es => m = add_entries (norm_entries es) result) path s XX YY).
      { subst XX YY. destruct x as [id alias name args dirs fsels|id cond dirs isels|id fname dirs].
        - eapply HF; eauto.
        - rewrite cond_applies_spec. apply rel_if; intros _.
          + cbn [wf_sel] in Hx. apply HS; auto.
          + simpl. repeat split; auto. now rewrite app_nil_r.
        - destruct (lookup fname frags) as [fr|] eqn:Efr.
          + rewrite cond_applies_spec. apply rel_if; intros _.
            * specialize (HS obj (fr_sels fr) t result depth s path (wf_frag_lookup _ _ Efr) Hd). unfold rel in HS.
              destruct (resolve_sels fuel' obj (fr_sels fr) t result depth s) as [[[m ea] s1]|];
                destruct (sem_sels fuel' obj (fr_sels fr) t depth path) as [[[es ea'] cs]|]; try contradiction; [|exact I].
              destruct HS as [Hm [Hea Hcs]]. simpl. repeat split; auto. now rewrite path_errs_in_frag.
            * simpl. repeat split; auto. now rewrite app_nil_r.
          + simpl. repeat split; auto. now rewrite app_nil_r. }
      unfold rel in Hone. clearbody XX YY.
      destruct XX as [[[m1 ea1] s1]|]; destruct YY as [[[es1 ea1'] cs1]|]; try contradiction; [|exact I].
      destruct Hone as [Hm1 [Hea1 Hcs1]].
      specialize (HL obj r t m1 depth s1 path Hr Hd). unfold rel in HL.
      destruct (resolve_sels_loop fuel' obj r t m1 depth s1) as [[[m2 ea2] s2]|];
        destruct (sem_sels_loop fuel' obj r t depth path) as [[[es2 ea2'] cs2]|]; try contradiction; [|exact I].
      destruct HL as [Hm2 [Hea2 Hcs2]]. simpl. repeat split.
      * subst. now rewrite norm_entries_app, add_entries_app.
      * rewrite !path_errs_app, Hbad. apply Permutation_app_head. now apply Permutation_app.
      * rewrite Hcs2, Hcs1. now rewrite app_assoc.
Qed.

Lemma filter_nil {A} (f : A -> bool) (l : list A) : (forall x, In x l -> f x = false) -> filter f l = [].
Proof.
  induction l as [|x l IH]; simpl; intros H; auto.
  rewrite (H x) by now left. apply IH. intros y Hy. apply H. now right.
Qed.

Lemma find_arg_In a (l : list adef) : In a (map a_name l) -> exists d, find_arg a l = Some d.
Proof.
  unfold find_arg. induction l as [|x l IH]; simpl; [tauto|].
  intros [H|H].
  - subst. rewrite Nat.eqb_refl. eauto.
  - destruct (Nat.eqb (a_name x) a); eauto.
Qed.

Lemma field_def_props t name fd args :
  get_field_def S t name = Some fd -> field_args_ok S name args = true -> undeclared_args S t name args = [] ->
  NoDup (map a_name (f_args fd)) /\ NoDup (map fst args) /\
  (forall av, In av args -> In (fst av) (map a_name (f_args fd))).
Proof.
  intros Hg Hf Hu. unfold get_field_def in Hg.
  assert (Hn : NoDup (map fst args)) by (apply nodup_nat_spec; exact Hf).
  assert (Hdecl : forall fs, find_field name fs = Some fd ->
            filter (fun av => negb (declared_by fd av)) args = [] ->
            forall av, In av args -> In (fst av) (map a_name (f_args fd))).
  { intros fs Ef Hfl av Hav.
    assert (Hd : declared_by fd av = true).
    { destruct (declared_by fd av) eqn:E; auto. exfalso.
      assert (Hin : In av (filter (fun av0 => negb (declared_by fd av0)) args)) by (apply filter_In; rewrite E; auto).
      rewrite Hfl in Hin. inversion Hin. }
    unfold declared_by in Hd. apply existsb_exists in Hd.
    destruct Hd as [d [Hd E]]. apply Nat.eqb_eq in E. rewrite <- E. now apply in_map. }
  unfold undeclared_args in Hu.
  destruct (lookup t S) as [[k|fs ifaces|fs|ms|fs]|] eqn:El; try discriminate.
  - rewrite Hg in Hu. split; [|split; [exact Hn|exact (Hdecl fs Hg Hu)]].
    unfold wf_schema_args in Hschema. rewrite forallb_forall in Hschema.
    specialize (Hschema _ (lookup_In _ _ _ El)). cbn [snd] in Hschema. rewrite forallb_forall in Hschema.
    apply nodup_nat_spec. apply Hschema. unfold find_field in Hg. apply find_some in Hg. tauto.
  - rewrite Hg in Hu. split; [|split; [exact Hn|exact (Hdecl fs Hg Hu)]].
    unfold wf_schema_args in Hschema. rewrite forallb_forall in Hschema.
    specialize (Hschema _ (lookup_In _ _ _ El)). cbn [snd] in Hschema. rewrite forallb_forall in Hschema.
    apply nodup_nat_spec. apply Hschema. unfold find_field in Hg. apply find_some in Hg. tauto.
Qed.


Lemma strategy_answerer obj :
  strategy_of obj = match answerer_of obj with ANode n => Some (Some n) | AAnyOther => Some None | ANobody => None end.
Proof. unfold Exec.strategy_of, ExecSpec.answerer_of. destruct obj; destruct any_installed; reflexivity. Qed.

Lemma perm_nil_iff {A} (l : list A) l' : Permutation l l' -> (l = [] <-> l' = []).
Proof.
  intros H. split; intros E; subst.
  - now apply Permutation_nil.
  - now apply Permutation_nil, Permutation_sym.
Qed.

Lemma run_behav_perm n name (c1 c2 : list (nat * value)) :
  NoDup (map fst c1) -> Permutation c1 c2 -> run_behav n name c1 = run_behav n name c2.
Proof.
  intros Hn Hp. unfold Exec.run_behav. destruct (lookup n G) as [nd|]; auto.
  destruct (lookup name (n_fields nd)) as [[v|k v|a]|]; auto.
  now rewrite (lookup_perm a c1 c2 Hn Hp).
Qed.

Lemma res_errs_abs here id (rerr : option nat) :
  path_errs here (match rerr with
                  | None => []
                  | Some 0 => [mkErr [] (LNode id) EResolver]
                  | Some k => repeat (mkErr [] (LNode id) EResolver) k
                  end)
  = match rerr with
    | None => []
    | Some 0 => [at_path here (LNode id) EResolver]
    | Some k => repeat (at_path here (LNode id) EResolver) k
    end.
Proof.
  destruct rerr as [[|k]|]; simpl; auto.
  - unfold at_path. now rewrite app_nil_r.
  - unfold path_errs. simpl. unfold at_path. rewrite app_nil_r. f_equal.
    induction k; simpl; auto. rewrite app_nil_r. now f_equal.
Qed.

Lemma step_field fuel' : P_resolve fuel' -> P_field (Datatypes.S fuel').
Proof.
  intros HR obj id alias name args dirs fsels t result depth s path Hwf Hd.
  cbn [wf_sel] in Hwf. apply andb_true_iff in Hwf. destruct Hwf as [Hargs Hfs].
  rewrite resolve_field_eq, sem_field_eq. cbv zeta.
  set (key := key_of alias name). set (here := path ++ [PKey key]).
  rewrite (proj2 (Nat.ltb_lt _ _) Hd).
  (* the first-visit block *)
  lazymatch goal with
  | |- rel _ _ _ ?E1 _ => lazymatch E1 with match ?T with _ => _ end => set (TT := T) end
  end.
  assert (Htrip : TT = (fst (sort_args S t name args), map (fun _ => mkErr [] LOther EBadArg) (undeclared_args S t name args))).
  { subst TT. rewrite <- sort_args_errs. destruct (sort_args S t name args); reflexivity. }
  clearbody TT. subst TT. cbv iota beta.
  set (s0 := mkSt ((id, t) :: s_args s) (s_calls s)).
  assert (Hs0 : s_calls s0 = s_calls s) by reflexivity. clearbody s0.
  destruct (undeclared_args S t name args) as [|b0 bad] eqn:Hu.
  2:{ (* an undeclared argument: errors at the selection, no entry, nothing resolved *)
      assert (Hmap : forall l : list arg,
                 map (fun _ => at_path here LOther EBadArg) l =
                 path_errs path (errs_in (PKey key) (map (fun _ => mkErr [] LOther EBadArg) l))).
      { induction l as [|x l IH]; [reflexivity|]. cbn [map]. rewrite IH. unfold path_errs, errs_in. cbn [map].
        f_equal. }
      unfold rel. split; [reflexivity|]. split; [rewrite Hmap; apply Permutation_refl|].
      rewrite Hs0. now rewrite app_nil_r. }
  cbn [map].
  assert (Hnd : NoDup (map fst args)) by (apply nodup_nat_spec; exact Hargs).
  pose proof (sort_args_perm S t name args Hschema Hnd Hu) as Hperm.
  set (cur := fst (sort_args S t name args)) in *. clearbody cur.
  destruct (Nat.eqb name TYPENAME).
  { simpl. repeat split; auto. rewrite Hs0. now rewrite app_nil_r. }
  destruct (get_field_def S t name) as [fd|] eqn:Eg.
  2:{ simpl. repeat split; auto. rewrite Hs0. now rewrite app_nil_r. }
  destruct (field_def_props t name fd args Eg Hargs Hu) as [Hdn [Han Hin]].
  rewrite strategy_answerer.
  pose proof (args_agree S vars id fd args cur here Hdn Han Hin Hperm) as [Hc [Hcn He]].
  destruct (form_args S vars id fd cur) as [cargs ea_args].
  destruct (spec_args id fd args here) as [cargs' ea_args']. cbn [fst snd] in Hc, Hcn, He.
  assert (Hnil : ea_args = [] <-> ea_args' = []).
  { split; intros E; subst.
    - simpl in He. now apply Permutation_nil, Permutation_sym.
    - apply Permutation_nil in He. unfold path_errs in He.
      destruct ea_args; auto. discriminate. }
  destruct (answerer_of obj) as [n| |] eqn:Ea.
  - (* a data node answers *)
    destruct ea_args as [|e0 ea_args0].
    + rewrite (proj1 Hnil eq_refl).
      rewrite (run_behav_perm n name cargs cargs' Hcn Hc).
      rewrite (canon_args_perm_eq cargs cargs' Hcn Hc).
      destruct (run_behav n name cargs') as [attr rerr].
      destruct (is_nil attr) eqn:Hnil'.
      * simpl. repeat split; auto.
        -- rewrite path_errs_in_key. fold here. rewrite res_errs_abs. apply Permutation_refl.
        -- rewrite Hs0. reflexivity.
      * specialize (HR attr id fsels (f_type fd) depth
                       (mkSt (s_args s0) (s_calls s0 ++ [mkCall n name (canon_args cargs')])) here Hfs Hd).
        unfold rel in HR.
        destruct (resolve fuel' attr id fsels (f_type fd) depth
                          (mkSt (s_args s0) (s_calls s0 ++ [mkCall n name (canon_args cargs')]))) as [[[fv ea2] s2]|];
          destruct (sem_value fuel' attr id fsels (f_type fd) depth here) as [[[fv' ea2'] cs2]|]; try contradiction; [|exact I].
        destruct HR as [Hv [Hea Hcs]]. simpl. repeat split.
        -- now subst.
        -- rewrite path_errs_in_key. fold here. rewrite path_errs_app, res_errs_abs.
           now apply Permutation_app_head.
        -- rewrite Hcs. simpl. rewrite Hs0. now rewrite <- app_assoc.
    + destruct ea_args' as [|e0' ea_args0'].
      { exfalso. discriminate (proj2 Hnil eq_refl). }
      cbn [is_nil]. unfold rel. repeat split.
      * rewrite path_errs_in_key. fold here. now rewrite app_nil_r.
      * rewrite Hs0. now rewrite app_nil_r.
  - (* the AnyResolver is asked about something that is not a data node: it fails *)
    destruct ea_args as [|e0 ea_args0].
    + rewrite (proj1 Hnil eq_refl). simpl. repeat split; auto.
      rewrite Hs0. now rewrite app_nil_r.
    + destruct ea_args' as [|e0' ea_args0'].
      { exfalso. discriminate (proj2 Hnil eq_refl). }
      cbn [is_nil]. unfold rel. repeat split.
      * rewrite path_errs_in_key. fold here. now rewrite app_nil_r.
      * rewrite Hs0. now rewrite app_nil_r.
  - (* nobody answers: reflection fallback *)
    destruct (lookup t S) as [[k|fs ifaces|fs|ms|fs]|]; simpl; repeat split; auto;
      try (rewrite Hs0; now rewrite app_nil_r).
Qed.

Theorem lockstep : forall fuel,
  P_resolve fuel /\ P_list fuel /\ P_elems fuel /\ P_any fuel /\ P_sels fuel /\ P_loop fuel /\ P_field fuel.
Proof.
  induction fuel as [|fuel' IH].
  - repeat split; intro; intros; exact I.
  - destruct IH as [HR [HL [HE [HA [HS [HLo HF]]]]]].
    repeat split.
    + now apply step_resolve.
    + now apply step_list.
    + now apply step_elems.
    + now apply step_any.
    + now apply step_sels.
    + now apply step_loop.
    + now apply step_field.
Qed.

End Lock.

(* ------------------------------------------------------------------ whole operations *)
Definition resp_rel (r r' : response) : Prop :=
  r_data r = option_map norm (r_data r') /\
  Permutation (r_errs r') (map strip_frag (r_errs r)) /\
  r_calls r = r_calls r'.

Lemma path_errs_root ea : path_errs [] ea = map strip_frag ea.
Proof. unfold path_errs. apply map_ext. intros e. reflexivity. Qed.

Theorem exec_op_refines S G any_installed max_depth fuel d name supplied rootobj s :
  wf_schema_args S = true -> wf_doc S d = true -> 0 < max_depth ->
  match exec_op S G any_installed max_depth fuel d name supplied rootobj s with
  | OutOfFuel => sem_op S G any_installed max_depth fuel d name supplied rootobj = OutOfFuel
  | Done (r, s') => exists r', sem_op S G any_installed max_depth fuel d name supplied rootobj = Done r' /\ resp_rel r r'
  end.
Proof.
  intros Hs Hd Hm. unfold exec_op, sem_op.
  destruct (choose_op d name) as [o|] eqn:Eo.
  2:{ simpl. eexists; split; [reflexivity|]. repeat split; auto; simpl; auto. }
  destruct (bind_vars S (op_vars o) supplied) as [vars|].
  2:{ simpl. eexists; split; [reflexivity|]. repeat split; auto; simpl; auto. }
  destruct (is_nil rootobj).
  { simpl. eexists; split; [reflexivity|]. repeat split; auto; simpl; constructor. }
  unfold wf_doc in Hd. apply andb_true_iff in Hd. destruct Hd as [Hops Hfr].
  assert (Hwo : wf_sels S (op_sels o) = true).
  { rewrite forallb_forall in Hops. apply Hops.
    unfold choose_op in Eo. destruct (find (fun o0 => same_name (op_name o0) name) (d_ops d)) eqn:Ef.
    - inversion Eo; subst. apply find_some in Ef. tauto.
    - destruct name; [discriminate|]. destruct (d_ops d) as [|o1 [|o2 r]]; try discriminate. inversion Eo; subst. now left. }
  destruct (lockstep S G (d_frags d) any_installed max_depth vars Hs Hfr fuel) as [_ [_ [_ [_ [HS _]]]]].
  specialize (HS rootobj (op_sels o) (op_root_type (op_kind o)) [] (max_depth - 1)
                 (mkSt (s_args s) []) [] Hwo ltac:(lia)).
  unfold rel in HS.
  destruct (resolve_sels S G (d_frags d) any_installed max_depth vars fuel rootobj (op_sels o)
              (op_root_type (op_kind o)) [] (max_depth - 1) (mkSt (s_args s) [])) as [[[m ea] s1]|];
    destruct (sem_sels S G (d_frags d) any_installed vars fuel rootobj (op_sels o)
                (op_root_type (op_kind o)) (max_depth - 1) []) as [[[es ea'] cs]|]; try contradiction; auto.
  destruct HS as [Hm' [Hea Hcs]]. eexists; split; [reflexivity|]. repeat split; simpl.
  - now subst.
  - now rewrite <- path_errs_root.
  - exact Hcs.
Qed.

(* ------------------------------------------------------------------ norm is the identity on values without duplicate keys *)
Section RvInd.
Variable P : rv -> Prop.
Hypothesis Hleaf : forall r, (match r with RList _ | RObj _ => False | _ => True end) -> P r.
Hypothesis Hlist : forall l, Forall P l -> P (RList l).
Hypothesis Hobj : forall es, Forall (fun kv => P (snd kv)) es -> P (RObj es).

Fixpoint rv_ind2 (r : rv) : P r :=
  match r with
  | RList l => Hlist l ((fix go (l : list rv) : Forall P l :=
                           match l with [] => Forall_nil _ | x :: t => Forall_cons _ (rv_ind2 x) (go t) end) l)
  | RObj es => Hobj es ((fix go (es : list (nat * rv)) : Forall (fun kv => P (snd kv)) es :=
                           match es with [] => Forall_nil _ | x :: t => Forall_cons _ (rv_ind2 (snd x)) (go t) end) es)
  | RNull => Hleaf RNull I | RInt z => Hleaf (RInt z) I | RStr s => Hleaf (RStr s) I
  | RStrOfInt z => Hleaf (RStrOfInt z) I | RStrOfBool b => Hleaf (RStrOfBool b) I | RBool b => Hleaf (RBool b) I
  | REnum e => Hleaf (REnum e) I | RTypeName t => Hleaf (RTypeName t) I | RFloatOfInt z => Hleaf (RFloatOfInt z) I
  | RLeak g => Hleaf (RLeak g) I
  end.
End RvInd.

Lemma set_key_fresh k v m : ~ In k (map fst m) -> set_key k v m = m ++ [(k, v)].
Proof.
  induction m as [|[k' v'] m IH]; simpl; intros H; auto.
  destruct (Nat.eqb_spec k k'); [subst; exfalso; apply H; now left|]. rewrite IH; auto.
Qed.

Lemma add_entries_nodup es : forall acc,
  NoDup (map fst acc ++ map fst es) -> add_entries es acc = acc ++ es.
Proof.
  induction es as [|[k v] es IH]; intros acc Hn; simpl.
  - now rewrite app_nil_r.
  - unfold add_entries in *. simpl. rewrite set_key_fresh.
    + rewrite IH.
      * now rewrite <- app_assoc.
      * rewrite map_app. simpl. rewrite <- app_assoc. exact Hn.
    + simpl in Hn. intros Hc. apply NoDup_remove_2 in Hn. apply Hn. apply in_app_iff. auto.
Qed.

Theorem norm_nodup r : nodup_keys r = true -> norm r = r.
Proof.
  induction r using rv_ind2.
  - destruct r; try contradiction; reflexivity.
  - intros Hn. simpl in *. f_equal. rewrite forallb_forall in Hn.
    induction l as [|x l IHl]; simpl; auto. inversion H; subst. f_equal.
    + apply H2. apply Hn. now left.
    + apply IHl; auto. intros y Hy. apply Hn. now right.
  - intros Hn. simpl in Hn. apply andb_true_iff in Hn. destruct Hn as [Hk Hv].
    cbn [norm]. f_equal.
    assert (E : map (fun kv => (fst kv, norm (snd kv))) es = es).
    { rewrite forallb_forall in Hv. clear Hk. induction es as [|[k v] es IHes]; simpl; auto.
      inversion H; subst. f_equal.
      - f_equal. apply H2. apply (Hv (k, v)). now left.
      - apply IHes; auto. intros y Hy. apply Hv. now right. }
    rewrite E. change (fold_left (fun m kv => set_key (fst kv) (snd kv) m) es []) with (add_entries es []).
    rewrite add_entries_nodup; auto. simpl. now apply nodup_nat_spec.
Qed.
