(* Proofs about Registry.v: the Go-shaped index loops compute the abstract registry. *)
From Coq Require Import List Arith ZArith Bool Lia Permutation.
Import ListNotations.
From GG Require Import ListUtil Registry.

Lemma nth_error_mid {A} (a : list A) (x : A) (b : list A) :
  nth_error (a ++ x :: b) (length a) = Some x.
Proof. induction a as [|h a IH]; simpl; auto. Qed.

Lemma remove_at_mid {A} (a : list A) (x : A) (b : list A) :
  remove_at (length a) (a ++ x :: b) = a ++ b.
Proof. induction a as [|h a IH]; simpl; auto. now rewrite IH. Qed.

(* ---- Unsubscribe's loop ---- *)
Lemma unsub_loop_spec id (a b : state) cnt log :
  unsub_loop id (length a) (a ++ b) cnt log =
  Some (filter (fun s => negb (matches id s)) a ++ b,
        cnt + length (filter (matches id) a),
        log ++ rev (map uid (filter (matches id) a))).
Proof.
  revert b cnt log. induction a as [|s a IH] using rev_ind; intros b cnt log.
  - simpl. now rewrite Nat.add_0_r, app_nil_r.
  - rewrite app_length. simpl length. rewrite Nat.add_1_r. cbn [unsub_loop].
    rewrite <- app_assoc. simpl app. rewrite nth_error_mid.
    rewrite !filter_app. simpl filter.
    destruct (matches id s) eqn:Hm; simpl negb.
    + rewrite remove_at_mid, IH. f_equal. f_equal; [f_equal|].
      * now rewrite app_nil_r.
      * rewrite app_length. simpl. lia.
      * rewrite map_app, rev_app_distr. simpl. now rewrite <- app_assoc.
    + change (a ++ s :: b) with (a ++ [s] ++ b).
      replace (a ++ [s] ++ b) with (a ++ (s :: b)) by reflexivity.
      rewrite IH. f_equal. f_equal; [f_equal|].
      * now rewrite <- app_assoc.
      * now rewrite app_nil_r.
      * now rewrite app_nil_r.
Qed.

Lemma unsubscribe_spec id (l : state) :
  unsubscribe id l =
  Some (filter (fun s => negb (matches id s)) l,
        length (filter (matches id) l),
        rev (map uid (filter (matches id) l))).
Proof.
  unfold unsubscribe. rewrite <- (app_nil_r l) at 2.
  rewrite unsub_loop_spec. now rewrite app_nil_r.
Qed.

(* ---- AddEvent's removal loop ---- *)
Lemma rm_loop_spec u (a b : state) log :
  rm_loop u (length a) (a ++ b) log =
  Some (filter (fun s => negb (Nat.eqb (uid s) u)) a ++ b,
        log ++ rev (map uid (filter (fun s => Nat.eqb (uid s) u) a))).
Proof.
  revert b log. induction a as [|s a IH] using rev_ind; intros b log.
  - simpl. now rewrite app_nil_r.
  - rewrite app_length. simpl length. rewrite Nat.add_1_r. cbn [rm_loop].
    rewrite <- app_assoc. simpl app. rewrite nth_error_mid.
    rewrite !filter_app. simpl filter.
    destruct (Nat.eqb (uid s) u) eqn:Hm; simpl negb.
    + rewrite remove_at_mid, IH. f_equal. f_equal.
      * now rewrite app_nil_r.
      * rewrite map_app, rev_app_distr. simpl. now rewrite <- app_assoc.
    + rewrite IH. f_equal. f_equal.
      * now rewrite <- app_assoc.
      * now rewrite app_nil_r.
Qed.

Lemma filter_uid_notin u (l : state) :
  ~ In u (map uid l) -> filter (fun s => Nat.eqb (uid s) u) l = [].
Proof.
  induction l as [|s l IH]; simpl; intros H; auto.
  destruct (Nat.eqb_spec (uid s) u) as [E|E]; [exfalso; auto|]. apply IH. tauto.
Qed.

Lemma filter_uid_nodup u (l : state) :
  NoDup (map uid l) -> In u (map uid l) ->
  map uid (filter (fun s => Nat.eqb (uid s) u) l) = [u].
Proof.
  induction l as [|s l IH]; simpl; intros Hn Hi; [tauto|].
  inversion Hn as [|? ? Hni Hn']; subst.
  destruct (Nat.eqb_spec (uid s) u) as [E|E].
  - subst u. simpl. now rewrite filter_uid_notin.
  - destruct Hi as [Hi|Hi]; [congruence|]. now apply IH.
Qed.

Notation mem := memb.

Lemma mem_In u f : mem u f = true <-> In u f.
Proof.
  unfold memb. rewrite existsb_exists. split.
  - intros [x [Hx E]]. apply Nat.eqb_eq in E. now subst.
  - intros H. exists u. split; auto. apply Nat.eqb_refl.
Qed.

Lemma map_uid_filter_sub (p : sub -> bool) (l : state) u :
  In u (map uid (filter p l)) -> In u (map uid l).
Proof.
  rewrite !in_map_iff. intros [s [E H]]. apply filter_In in H. exists s. tauto.
Qed.

Lemma NoDup_map_filter (p : sub -> bool) (l : state) :
  NoDup (map uid l) -> NoDup (map uid (filter p l)).
Proof.
  induction l as [|s l IH]; simpl; intros H; [constructor|].
  inversion H as [|? ? Hni Hn]; subst.
  destruct (p s); simpl; auto. constructor; auto.
  intros Hc. apply Hni. eapply map_uid_filter_sub; eauto.
Qed.

Lemma phase2_spec (f : list nat) (l : state) log :
  NoDup (map uid l) -> NoDup f -> incl f (map uid l) ->
  phase2 f l log = Some (filter (fun s => negb (mem (uid s) f)) l, log ++ f).
Proof.
  revert l log. induction f as [|u f IH]; intros l log Hl Hf Hin.
  - simpl. rewrite app_nil_r. f_equal. f_equal.
    induction l as [|s l IHl]; simpl; auto. inversion Hl; subst. now rewrite <- IHl.
  - cbn [phase2]. rewrite <- (app_nil_r l) at 2. rewrite rm_loop_spec, app_nil_r.
    inversion Hf as [|? ? Hnu Hf']; subst.
    rewrite IH; auto.
    + f_equal. f_equal.
      * clear. induction l as [|s l IHl]; simpl; auto.
        rewrite (Nat.eqb_sym (uid s) u) at 2.
        destruct (Nat.eqb u (uid s)) eqn:E; simpl.
        -- rewrite (Nat.eqb_sym (uid s) u), E. simpl. exact IHl.
        -- rewrite (Nat.eqb_sym (uid s) u), E. simpl.
           destruct (mem (uid s) f); simpl; now rewrite IHl.
      * rewrite filter_uid_nodup; auto.
        -- simpl. now rewrite <- app_assoc.
        -- apply Hin. now left.
    + now apply NoDup_map_filter.
    + intros x Hx. assert (Hx' : In x (map uid l)) by (apply Hin; now right).
      apply in_map_iff in Hx'. destruct Hx' as [s [E Hs]]. apply in_map_iff.
      exists s. split; auto. apply filter_In. split; auto.
      destruct (Nat.eqb_spec (uid s) u); auto. subst. congruence.
Qed.

(* ---- phase 1 is the per-subscriber map of the specification ---- *)
Definition adv (id : nat) (s : sub) : sub := if matches id s then snd (send s) else s.
Definition failing (id : nat) (s : sub) : bool := matches id s && fst (send s).

Lemma uid_send s : uid (snd (send s)) = uid s.
Proof. unfold send. destruct (sched s); reflexivity. Qed.

Lemma uid_adv id s : uid (adv id s) = uid s.
Proof. unfold adv. destruct (matches id s); auto using uid_send. Qed.

Lemma map_uid_adv id l : map uid (map (adv id) l) = map uid l.
Proof. rewrite map_map. apply map_ext. apply uid_adv. Qed.

Lemma phase1_spec id ev (l : state) :
  phase1 id ev l =
  (map (adv id) l,
   length (filter (matches id) l),
   flat_map (fun r => opt_list (fst r)) (map (pub1 id ev) l),
   map uid (filter (failing id) l)).
Proof.
  induction l as [|s l IH]; [reflexivity|].
  cbn [phase1 map filter flat_map]. rewrite IH. clear IH.
  unfold adv, failing, pub1.
  destruct (matches id s) eqn:Hm; simpl; [|reflexivity].
  destruct (send s) as [fail s'] eqn:Hs. simpl.
  destruct fail; reflexivity.
Qed.

Lemma removed_eq id (l : state) :
  flat_map (fun s => if matches id s then if fst (send s) then [uid s] else [] else []) l
  = map uid (filter (failing id) l).
Proof.
  induction l as [|s l IH]; simpl; auto. unfold failing at 1.
  destruct (matches id s); simpl; auto. destruct (fst (send s)); simpl; now rewrite IH.
Qed.

Lemma survivors_eq id ev (l : state) :
  NoDup (map uid l) ->
  filter (fun s => negb (mem (uid s) (map uid (filter (failing id) l)))) (map (adv id) l)
  = flat_map (fun r => opt_list (snd r)) (map (pub1 id ev) l).
Proof.
  intros Hn.
  assert (G : forall (l0 : state) (F : list nat),
             (forall s, In s l0 -> (mem (uid s) F = failing id s)) ->
             filter (fun s => negb (mem (uid s) F)) (map (adv id) l0)
             = flat_map (fun r => opt_list (snd r)) (map (pub1 id ev) l0)).
  { induction l0 as [|s l0 IH0]; intros F HF; [reflexivity|].
    simpl. rewrite uid_adv, HF by now left. rewrite IH0 by (intros; apply HF; now right).
    unfold failing, pub1, adv. destruct (matches id s); simpl; auto.
    destruct (send s) as [fail s']. simpl. destruct fail; reflexivity. }
  apply G. intros s Hs.
  destruct (failing id s) eqn:Hf.
  - apply mem_In. apply in_map. apply filter_In. auto.
  - destruct (mem (uid s) (map uid (filter (failing id) l))) eqn:Hmem; auto.
    apply mem_In in Hmem. apply in_map_iff in Hmem. destruct Hmem as [s2 [E H2]].
    apply filter_In in H2. destruct H2 as [H2 Hf2].
    assert (s2 = s); [|subst; congruence].
    clear - Hn Hs H2 E. induction l as [|x l IH]; [inversion Hs|].
    simpl in Hn. inversion Hn as [|? ? Hni Hn']; subst.
    destruct Hs as [Hs|Hs], H2 as [H2|H2]; subst; auto.
    + exfalso. apply Hni. rewrite <- E. now apply in_map.
    + exfalso. apply Hni. rewrite E. now apply in_map.
Qed.

Lemma add_event_spec id ev (l : state) :
  NoDup (map uid l) ->
  add_event id ev l = Some (a_publish id ev l).
Proof.
  intros Hn. unfold add_event, a_publish. rewrite phase1_spec.
  rewrite phase2_spec.
  - simpl app. rewrite (survivors_eq id ev l Hn), removed_eq. reflexivity.
  - now rewrite map_uid_adv.
  - now apply NoDup_map_filter.
  - rewrite map_uid_adv. intros u Hu. eapply map_uid_filter_sub; eauto.
Qed.

(* ---- one step, and whole histories ---- *)
Lemma step_refines (l : state) (o : op) :
  NoDup (map uid l) ->
  exists x, step l o = Some (fst (a_step l o), x) /\ out_equiv x (snd (a_step l o)).
Proof.
  intros Hn. destruct o as [news|id ev|id]; cbn [step a_step].
  - eexists; split; [reflexivity|exact I].
  - rewrite add_event_spec by assumption. destruct (a_publish id ev l) as [l' po]. cbn [fst snd].
    eexists; split; [reflexivity|]. simpl. repeat split; auto.
  - rewrite unsubscribe_spec. unfold a_unsubscribe. cbn [fst snd].
    eexists; split; [reflexivity|]. simpl. split; auto.
    apply Permutation_sym, Permutation_rev.
Qed.

Lemma uids_a_publish id ev (l : state) :
  map uid (fst (a_publish id ev l)) = map uid (filter (fun s => negb (failing id s)) l).
Proof.
  unfold a_publish. simpl. induction l as [|s l IH]; simpl; auto.
  unfold pub1 at 1, failing at 1. destruct (matches id s); simpl.
  - destruct (send s) as [fail s'] eqn:Hs. simpl. destruct fail; simpl; auto.
    rewrite IH. f_equal. replace s' with (snd (send s)) by now rewrite Hs. apply uid_send.
  - now rewrite IH.
Qed.

Lemma NoDup_app_sub {A} (a a' b : list A) :
  NoDup (a ++ b) -> NoDup a' -> incl a' a -> NoDup (a' ++ b).
Proof.
  intros H Ha' Hi. induction a' as [|x a' IH]; simpl.
  - eapply NoDup_app_r; eauto.
  - inversion Ha'; subst. constructor.
    + rewrite in_app_iff. intros [Hc|Hc]; [auto|].
      assert (Hx : In x a) by (apply Hi; now left).
      clear - H Hc Hx. induction a as [|y a IHa]; [inversion Hx|].
      simpl in H. inversion H; subst. destruct Hx; subst.
      * apply H2. rewrite in_app_iff. auto.
      * auto.
    + apply IH; auto. intros y Hy. apply Hi. now right.
Qed.

Lemma a_step_inv (l : state) (o : op) (h : list op) :
  NoDup (map uid l ++ new_uids (o :: h)) ->
  NoDup (map uid (fst (a_step l o)) ++ new_uids h).
Proof.
  destruct o as [news|id ev|id]; cbn [a_step new_uids]; intros H.
  - cbn [fst]. now rewrite map_app, <- app_assoc.
  - pose proof (uids_a_publish id ev l) as Hu.
    destruct (a_publish id ev l) as [l' po]. cbn [fst] in *. rewrite Hu.
    eapply NoDup_app_sub; eauto.
    + apply NoDup_map_filter. eapply NoDup_app_l; eauto.
    + intros u Hu'. eapply map_uid_filter_sub; eauto.
  - unfold a_unsubscribe. cbn [fst]. eapply NoDup_app_sub; eauto.
    + apply NoDup_map_filter. eapply NoDup_app_l; eauto.
    + intros u Hu. eapply map_uid_filter_sub; eauto.
Qed.

Theorem run_refines (h : list op) (l : state) :
  NoDup (map uid l ++ new_uids h) ->
  exists xs, run l h = Some (fst (a_run l h), xs) /\ Forall2 out_equiv xs (snd (a_run l h)).
Proof.
  revert l. induction h as [|o h IH]; intros l Hn.
  - simpl. eexists; split; [reflexivity|constructor].
  - destruct (step_refines l o) as [x [Hs Hx]]; [eapply NoDup_app_l; eauto|].
    cbn [run a_run]. rewrite Hs.
    destruct (a_step l o) as [l' ax] eqn:Ea. simpl in *.
    destruct (IH l') as [xs [Hr Hxs]].
    { replace l' with (fst (a_step l o)) by now rewrite Ea. now apply a_step_inv. }
    rewrite Hr. destruct (a_run l' h) as [l'' axs]. simpl in *.
    eexists; split; [reflexivity|]. constructor; auto.
Qed.

(* ---- trace guarantees: clean-up at most once, nothing after removal ---- *)
Fixpoint dead_after (dead : list nat) (t : list outev) : list nat :=
  match t with
  | [] => dead
  | Deliver _ _ _ :: r => dead_after dead r
  | Cleanup u :: r => dead_after (u :: dead) r
  end.

Lemma trace_ok_app d t1 t2 :
  trace_ok d (t1 ++ t2) <-> trace_ok d t1 /\ trace_ok (dead_after d t1) t2.
Proof.
  revert d. induction t1 as [|e t1 IH]; intros d; simpl; [tauto|].
  destruct e; rewrite IH; tauto.
Qed.

Lemma dead_after_app d t1 t2 : dead_after d (t1 ++ t2) = dead_after (dead_after d t1) t2.
Proof. revert d. induction t1 as [|e t1 IH]; intros d; simpl; auto. destruct e; auto. Qed.

Lemma trace_ok_delivers d (dl : list (nat * msg * bool)) :
  (forall x, In x dl -> ~ In (fst (fst x)) d) ->
  trace_ok d (map (fun x => Deliver (fst (fst x)) (snd (fst x)) (snd x)) dl)
  /\ dead_after d (map (fun x => Deliver (fst (fst x)) (snd (fst x)) (snd x)) dl) = d.
Proof.
  induction dl as [|x dl IH]; simpl; intros H; [auto|].
  destruct IH as [I1 I2]; [intros; apply H; now right|]. repeat split; auto.
Qed.

Lemma trace_ok_cleanups d (cl : list nat) :
  NoDup (cl ++ d) ->
  trace_ok d (map Cleanup cl) /\ dead_after d (map Cleanup cl) = rev cl ++ d.
Proof.
  revert d. induction cl as [|u cl IH]; intros d H; simpl; [auto|].
  simpl in H. inversion H as [|? ? Hni Hn]; subst.
  destruct (IH (u :: d)) as [I1 I2].
  { apply NoDup_Add with (a := u) (l := cl ++ d); [apply Add_app|]. constructor; auto. }
  repeat split; auto.
  - intros Hc. apply Hni. apply in_app_iff. auto.
  - rewrite I2. now rewrite <- app_assoc.
Qed.

(* invariant: live identities, dead identities and future identities are pairwise distinct *)
Definition inv3 (l : state) (d : list nat) (h : list op) : Prop :=
  NoDup (map uid l ++ d ++ new_uids h).

Lemma NoDup_perm_app3 {A} (a b c a' b' : list A) :
  Permutation (a ++ b) (a' ++ b') -> NoDup (a ++ b ++ c) -> NoDup (a' ++ b' ++ c).
Proof.
  intros P H. rewrite app_assoc in *. eapply Permutation_NoDup; [|exact H].
  now apply Permutation_app_tail.
Qed.

Lemma filter_split_perm (p : sub -> bool) (l : state) :
  Permutation (map uid l) (map uid (filter (fun s => negb (p s)) l) ++ map uid (filter p l)).
Proof.
  induction l as [|s l IH]; simpl; auto.
  destruct (p s); simpl.
  - apply Permutation_cons_app. exact IH.
  - now constructor.
Qed.

Lemma deliveries_live id ev (l : state) x :
  In x (p_del (snd (a_publish id ev l))) -> In (fst (fst x)) (map uid l).
Proof.
  unfold a_publish. cbn [snd p_del]. intros Hx.
  apply in_flat_map in Hx. destruct Hx as [r [Hr Hx]].
  apply in_map_iff in Hr. destruct Hr as [s [Er Hsl]]. subst r.
  unfold pub1 in Hx. destruct (matches id s); [|inversion Hx].
  destruct (send s) as [fl s']. simpl in Hx. destruct Hx as [Hx|[]]. subst x. simpl.
  now apply in_map.
Qed.

Lemma cleanups_eq id ev (l : state) :
  p_clean (snd (a_publish id ev l)) = map uid (filter (failing id) l).
Proof. unfold a_publish. cbn [snd p_clean]. apply removed_eq. Qed.

Lemma inv3_remove (l : state) (p : sub -> bool) d fut (l' : state) :
  map uid l' = map uid (filter (fun s => negb (p s)) l) ->
  NoDup (map uid l ++ d ++ fut) ->
  NoDup (map uid (filter p l) ++ d)
  /\ NoDup (map uid l' ++ (rev (map uid (filter p l)) ++ d) ++ fut).
Proof.
  intros E H. split.
  - rewrite app_assoc in H. apply NoDup_app_l in H.
    eapply NoDup_app_sub; eauto.
    + apply NoDup_map_filter. eapply NoDup_app_l; eauto.
    + intros u Hu. eapply map_uid_filter_sub; eauto.
  - rewrite E. eapply Permutation_NoDup; [|exact H].
    rewrite <- !app_assoc.
    etransitivity; [apply Permutation_app_tail; apply (filter_split_perm p l)|].
    rewrite <- app_assoc. apply Permutation_app_head.
    apply Permutation_app_tail. apply Permutation_rev.
Qed.

Lemma step_trace_ok (l : state) (d : list nat) (o : op) (h : list op) l' x :
  inv3 l d (o :: h) ->
  step l o = Some (l', x) ->
  trace_ok d (trace_of_out x) /\ inv3 l' (dead_after d (trace_of_out x)) h.
Proof.
  unfold inv3. intros Hi Hs.
  assert (Hl : NoDup (map uid l)) by (eapply NoDup_app_l; eauto).
  destruct o as [news|id ev|id]; cbn [step] in Hs.
  - inversion Hs; subst. simpl. split; auto. unfold subscribe.
    rewrite map_app, <- app_assoc. simpl in Hi.
    eapply Permutation_NoDup; [|exact Hi].
    apply Permutation_app_head. rewrite !app_assoc. apply Permutation_app_tail.
    apply Permutation_app_comm.
  - rewrite add_event_spec in Hs by assumption.
    pose proof (uids_a_publish id ev l) as Hu.
    pose proof (deliveries_live id ev l) as Hdl.
    pose proof (cleanups_eq id ev l) as Hcl.
    destruct (a_publish id ev l) as [l1 po]. inversion Hs; subst l' x. clear Hs.
    cbn [fst snd] in *. cbn [new_uids] in Hi. cbn [trace_of_out]. rewrite Hcl.
    destruct (inv3_remove l (failing id) d (new_uids h) l1 Hu Hi) as [N1 N2].
    destruct (trace_ok_delivers d (p_del po)) as [T1 T2].
    { intros y Hy Hc. apply Hdl in Hy. rewrite app_assoc in Hi. apply NoDup_app_l in Hi.
      exact (NoDup_app_disj _ _ _ Hi Hy Hc). }
    destruct (trace_ok_cleanups d (map uid (filter (failing id) l)) N1) as [T3 T4].
    split.
    + apply trace_ok_app. rewrite T2. auto.
    + rewrite dead_after_app, T2, T4. exact N2.
  - rewrite unsubscribe_spec in Hs. inversion Hs; subst l' x. clear Hs.
    cbn [new_uids] in Hi. cbn [trace_of_out].
    destruct (inv3_remove l (matches id) d (new_uids h) _ eq_refl Hi) as [N1 N2].
    assert (N1' : NoDup (rev (map uid (filter (matches id) l)) ++ d)).
    { eapply Permutation_NoDup; [|exact N1]. apply Permutation_app_tail, Permutation_rev. }
    destruct (trace_ok_cleanups d _ N1') as [T3 T4]. split; auto.
    rewrite T4, rev_involutive.
    eapply Permutation_NoDup; [|exact N2].
    apply Permutation_app_head, Permutation_app_tail, Permutation_app_tail.
    apply Permutation_sym, Permutation_rev.
Qed.

Theorem run_trace_ok (h : list op) (l : state) (d : list nat) l' xs :
  inv3 l d h -> run l h = Some (l', xs) -> trace_ok d (trace xs).
Proof.
  revert l d l' xs. induction h as [|o h IH]; intros l d l' xs Hi Hr.
  - simpl in Hr. inversion Hr; subst. exact I.
  - cbn [run] in Hr. destruct (step l o) as [[l1 x]|] eqn:Hs; [|discriminate].
    destruct (run l1 h) as [[l2 xs']|] eqn:Hr'; [|discriminate].
    inversion Hr; subst l' xs. clear Hr.
    destruct (step_trace_ok _ _ _ _ _ _ Hi Hs) as [T I3].
    unfold trace. cbn [flat_map]. apply trace_ok_app. split; auto.
    eapply IH; eauto.
Qed.

(* every delivery of a publish goes to a distinct subscriber *)
Lemma deliveries_exact id ev (l : state) :
  p_del (snd (a_publish id ev l)) =
  map (fun s => (uid s, render (sel s) ev, negb (fst (send s)))) (filter (matches id) l).
Proof.
  unfold a_publish. cbn [snd p_del]. induction l as [|s l IH]; [reflexivity|].
  cbn [map flat_map filter]. rewrite IH. unfold pub1.
  destruct (matches id s); [|reflexivity]. destruct (send s) as [fl s'] eqn:E. simpl. rewrite E. reflexivity.
Qed.

Lemma trace_okb_spec d t : trace_okb d t = true <-> trace_ok d t.
Proof.
  revert d. induction t as [|e t IH]; intros d; simpl; [tauto|].
  destruct e; rewrite andb_true_iff, negb_true_iff, IH;
    (split; intros [H1 H2]; split; auto;
     [intros Hc; apply mem_In in Hc; congruence
     |destruct (memb u d) eqn:E; auto; apply mem_In in E; tauto]).
Qed.
