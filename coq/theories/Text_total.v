(* Text_total.v — the value reader terminates: with fuel 2 * (bytes still to read) + 2 the reader of
   Text.v never runs out of fuel, on any byte sequence and with a reader that fails instead of
   ending.  Every loop consumes a byte per iteration (or stops), every nesting level consumes its
   opening bracket; the measure is the number of bytes the reader can still be handed. *)
From Coq Require Import List Arith ZArith Bool Lia.
Import ListNotations.
From GG.gen Require Import Tables.
From GG Require Import Text Text_proofs.

Local Notation m := measure.

(* ---- scanner pieces: result states never hold more than the state they started from ---- *)
(* the state skipSpace hands back when it found something: that byte on deck, and it is neither
   white space nor the start of a comment *)
Definition starts (s : pst) : Prop := ondeck s <> 0 /\ is_space (ondeck s) = false /\ ondeck s <> 35.

Lemma skip_space_measure : forall fuel s b s1,
  skip_space fuel s = ROk b s1 -> m s1 <= m s /\ (b <> 0 -> ondeck s1 = b /\ starts s1).
Proof.
  induction fuel as [|f IH]; intros s b s1 H; [discriminate|]. cbn [skip_space] in H. change (nn 35) with 35 in H.
  destruct (read_byte s) as [b0 s0| |] eqn:E; try discriminate.
  destruct (read_byte_measure s b0 s0 E) as [H1 [H2 H3]].
  destruct (Nat.eqb_spec b0 0) as [E0|E0].
  { inversion H; subst. split; [exact H1|]. intros Hb. contradiction. }
  specialize (H2 E0).
  destruct (is_space b0) eqn:Esp.
  { destruct (IH _ _ _ H) as [A B]. split; [lia|exact B]. }
  destruct (Nat.eqb_spec b0 35) as [E35|E35].
  - destruct (skip_comment f s0) as [b2 s2| |] eqn:Ec; try discriminate.
    destruct (skip_comment_measure _ _ _ _ Ec) as [C1 C2].
    destruct (Nat.eqb b2 0).
    + inversion H; subst. split; [lia|]. intros Hb. contradiction.
    + destruct (IH _ _ _ H) as [A B]. split; [lia|exact B].
  - inversion H; subst. split.
    + rewrite (measure_put_back b s0 H3 E0). lia.
    + intros _. split; [reflexivity|]. unfold starts, put_back. simpl. auto.
Qed.

(* on such a state skipSpace changes nothing *)
Lemma skip_space_starts f s :
  starts s -> skip_space (S f) s = ROk (ondeck s) (mkP (rest s) (fault s) (ondeck s) (eof s) (line s) (col s)).
Proof.
  intros [H0 [Hs H35]]. cbn [skip_space]. unfold read_byte.
  destruct (Nat.eqb_spec (ondeck s) 0); [contradiction|]. cbn [negb]. cbv iota.
  destruct (Nat.eqb_spec (ondeck s) 0); [contradiction|]. rewrite Hs.
  change (nn 35) with 35. destruct (Nat.eqb_spec (ondeck s) 35); [contradiction|]. reflexivity.
Qed.

Lemma read_while_total p : forall fuel acc s, m s < fuel -> read_while p fuel acc s <> RFuel.
Proof.
  induction fuel as [|f IH]; intros acc s Hm; [lia|]. cbn [read_while].
  destruct (read_byte s) as [b s1| |] eqn:E; try discriminate.
  - destruct (read_byte_measure s b s1 E) as [H1 [H2 _]].
    destruct (Nat.eqb_spec b 0); [discriminate|]. specialize (H2 n).
    destruct (p b); [apply IH; lia|discriminate].
  - exfalso. exact (read_byte_never_fuel s E).
Qed.

Lemma read_while_measure p : forall fuel acc s l s1,
  read_while p fuel acc s = ROk l s1 -> m s1 <= m s.
Proof.
  induction fuel as [|f IH]; intros acc s l s1 H; [discriminate|]. cbn [read_while] in H.
  destruct (read_byte s) as [b s0| |] eqn:E; try discriminate.
  destruct (read_byte_measure s b s0 E) as [H1 [H2 H3]].
  destruct (Nat.eqb_spec b 0) as [E0|E0]; [inversion H; subst; exact H1|]. specialize (H2 E0).
  destruct (p b).
  - specialize (IH _ _ _ _ H). lia.
  - inversion H; subst. rewrite (measure_put_back b s0 H3 E0). lia.
Qed.

(* a first byte of the class is consumed *)
Lemma read_while_progress p : forall fuel acc s l s1,
  ondeck s <> 0 -> p (ondeck s) = true ->
  read_while p fuel acc s = ROk l s1 -> m s1 < m s.
Proof.
  intros fuel acc s l s1 Ho Hp H. destruct fuel as [|f]; [discriminate|]. cbn [read_while] in H.
  unfold read_byte in H. destruct (Nat.eqb_spec (ondeck s) 0) as [E|E]; [contradiction|]. cbn [negb] in H.
  cbv iota in H. destruct (Nat.eqb_spec (ondeck s) 0); [contradiction|]. rewrite Hp in H.
  apply read_while_measure in H. unfold measure in *. simpl in H.
  destruct (Nat.eqb_spec (ondeck s) 0); [contradiction|]. lia.
Qed.

Lemma read_token_total fuel s : m s < fuel -> read_token fuel s <> RFuel.
Proof.
  intros Hm. unfold read_token.
  destruct (skip_space fuel s) as [b s1| |] eqn:E; try discriminate.
  - destruct (skip_space_measure _ _ _ _ E) as [A _].
    destruct (Nat.eqb b 0); [discriminate|]. apply read_while_total. lia.
  - exfalso. exact (skip_space_total fuel s Hm E).
Qed.

Lemma read_token_measure fuel s t s1 : read_token fuel s = ROk t s1 -> m s1 <= m s.
Proof.
  unfold read_token. intros H.
  destruct (skip_space fuel s) as [b s0| |] eqn:E; try discriminate.
  destruct (skip_space_measure _ _ _ _ E) as [A _].
  destruct (Nat.eqb b 0); [inversion H; subst; exact A|].
  apply read_while_measure in H. lia.
Qed.

(* ---- strings ---- *)
Lemma read_hex4_props : forall n acc s,
  read_hex4 n acc s <> RFuel /\ (forall r s1, read_hex4 n acc s = ROk r s1 -> m s1 <= m s).
Proof.
  induction n as [|n IH]; intros acc s; cbn [read_hex4].
  - split; [discriminate|]. intros r s1 H. inversion H; subst. lia.
  - destruct (read_byte s) as [b s0| |] eqn:E.
    + destruct (read_byte_measure s b s0 E) as [H1 _].
      destruct (hex_val b) as [h|].
      * destruct (IH (acc * nn 16 + h) s0) as [A B]. split; [exact A|]. intros r s1 H. specialize (B _ _ H). lia.
      * split; discriminate.
    + split; discriminate.
    + exfalso. exact (read_byte_never_fuel s E).
Qed.

Lemma read_escaped_props s :
  read_escaped s <> RFuel /\ (forall r s1, read_escaped s = ROk r s1 -> m s1 <= m s).
Proof.
  unfold read_escaped. destruct (read_byte s) as [b s0| |] eqn:E.
  - destruct (read_byte_measure s b s0 E) as [H1 _].
    repeat match goal with
           | |- context [if Nat.eqb b ?k then _ else _] =>
               destruct (Nat.eqb b k); [split; [discriminate|intros r s1 H; inversion H; subst; exact H1]|]
           end.
    destruct (Nat.eqb b (nn 117)).
    + destruct (read_hex4_props 4 0 s0) as [A B]. split; [exact A|]. intros r s1 H. specialize (B _ _ H). lia.
    + split; discriminate.
  - split; discriminate.
  - exfalso. exact (read_byte_never_fuel s E).
Qed.

Lemma read_simple_total : forall fuel acc s, m s < fuel -> read_simple fuel acc s <> RFuel.
Proof.
  induction fuel as [|f IH]; intros acc s Hm; [lia|]. cbn [read_simple].
  destruct (read_byte s) as [b s1| |] eqn:E; try discriminate.
  - destruct (read_byte_measure s b s1 E) as [H1 [H2 _]].
    destruct (Nat.eqb b (nn 34)); [discriminate|].
    destruct (Nat.eqb b (nn 92)) eqn:Eb.
    + assert (Hb : b <> 0). { intros ->. discriminate. }
      specialize (H2 Hb).
      destruct (read_escaped_props s1) as [A B].
      destruct (read_escaped s1) as [r s2| |] eqn:Ee; try discriminate; [|contradiction].
      specialize (B _ _ eq_refl). apply IH. lia.
    + destruct (Nat.eqb_spec b 0); [discriminate|]. specialize (H2 n). apply IH. lia.
  - exfalso. exact (read_byte_never_fuel s E).
Qed.

Lemma read_simple_measure : forall fuel acc s l s1, read_simple fuel acc s = ROk l s1 -> m s1 <= m s.
Proof.
  induction fuel as [|f IH]; intros acc s l s1 H; [discriminate|]. cbn [read_simple] in H.
  destruct (read_byte s) as [b s0| |] eqn:E; try discriminate.
  destruct (read_byte_measure s b s0 E) as [H1 _].
  destruct (Nat.eqb b (nn 34)); [inversion H; subst; exact H1|].
  destruct (Nat.eqb b (nn 92)).
  - destruct (read_escaped_props s0) as [_ B].
    destruct (read_escaped s0) as [r s2| |] eqn:Ee; try discriminate.
    specialize (B _ _ eq_refl). specialize (IH _ _ _ _ H). lia.
  - destruct (Nat.eqb b 0); [discriminate|]. specialize (IH _ _ _ _ H). lia.
Qed.

Lemma read_block_total : forall fuel acc s, m s < fuel -> read_block fuel acc s <> RFuel.
Proof.
  induction fuel as [|f IH]; intros acc s Hm; [lia|]. cbn [read_block].
  destruct (read_byte s) as [b s1| |] eqn:E; try discriminate.
  2:{ exfalso. exact (read_byte_never_fuel s E). }
  destruct (read_byte_measure s b s1 E) as [H1 [H2 _]].
  destruct (Nat.eqb b (nn 34)) eqn:E34.
  - assert (Hb : b <> 0). { intros ->. discriminate. } specialize (H2 Hb).
    destruct (read_byte s1) as [b2 s2| |] eqn:E2; try discriminate.
    2:{ exfalso. exact (read_byte_never_fuel s1 E2). }
    destruct (read_byte_measure s1 b2 s2 E2) as [K1 _].
    destruct (Nat.eqb b2 (nn 34)).
    + destruct (read_byte s2) as [b3 s3| |] eqn:E3; try discriminate.
      2:{ exfalso. exact (read_byte_never_fuel s2 E3). }
      destruct (read_byte_measure s2 b3 s3 E3) as [J1 _].
      destruct (Nat.eqb b3 (nn 34)); [discriminate|]. apply IH. lia.
    + apply IH. lia.
  - destruct (Nat.eqb b (nn 92)) eqn:Eb.
    + assert (Hb : b <> 0). { intros ->. discriminate. } specialize (H2 Hb).
      destruct (read_escaped_props s1) as [A B].
      destruct (read_escaped s1) as [r s2| |] eqn:Ee; try discriminate; [|contradiction].
      specialize (B _ _ eq_refl). apply IH. lia.
    + destruct (Nat.eqb_spec b 0); [discriminate|]. specialize (H2 n). apply IH. lia.
Qed.

Lemma read_block_measure : forall fuel acc s l s1, read_block fuel acc s = ROk l s1 -> m s1 <= m s.
Proof.
  induction fuel as [|f IH]; intros acc s l s1 H; [discriminate|]. cbn [read_block] in H.
  destruct (read_byte s) as [b s0| |] eqn:E; try discriminate.
  destruct (read_byte_measure s b s0 E) as [H1 _].
  destruct (Nat.eqb b (nn 34)).
  - destruct (read_byte s0) as [b2 s2| |] eqn:E2; try discriminate.
    destruct (read_byte_measure s0 b2 s2 E2) as [K1 _].
    destruct (Nat.eqb b2 (nn 34)).
    + destruct (read_byte s2) as [b3 s3| |] eqn:E3; try discriminate.
      destruct (read_byte_measure s2 b3 s3 E3) as [J1 _].
      destruct (Nat.eqb b3 (nn 34)); [inversion H; subst; lia|]. specialize (IH _ _ _ _ H). lia.
    + specialize (IH _ _ _ _ H). lia.
  - destruct (Nat.eqb b (nn 92)).
    + destruct (read_escaped_props s0) as [_ B].
      destruct (read_escaped s0) as [r s2| |] eqn:Ee; try discriminate.
      specialize (B _ _ eq_refl). specialize (IH _ _ _ _ H). lia.
    + destruct (Nat.eqb b 0); [discriminate|]. specialize (IH _ _ _ _ H). lia.
Qed.

Lemma measure_put_back_le b s s0 :
  ondeck s = 0 -> (b <> 0 -> m s < m s0) -> m s <= m s0 -> m (put_back b s) <= m s0.
Proof.
  intros Ho Hlt Hle. destruct (Nat.eq_dec b 0) as [->|Hb].
  - unfold measure, put_back in *. simpl. lia.
  - rewrite (measure_put_back b s Ho Hb). specialize (Hlt Hb). lia.
Qed.

Lemma read_string_total fuel s : m s < fuel -> read_string fuel s <> RFuel.
Proof.
  intros Hm. unfold read_string.
  destruct (read_byte s) as [b s1| |] eqn:E; try discriminate.
  2:{ exfalso. exact (read_byte_never_fuel s E). }
  destruct (read_byte_measure s b s1 E) as [H1 [H2 H3]].
  destruct (Nat.eqb b 0); [discriminate|].
  destruct (negb (Nat.eqb b (nn 34))); [discriminate|].
  destruct (read_byte s1) as [b2 s2| |] eqn:E2; try discriminate.
  2:{ exfalso. exact (read_byte_never_fuel s1 E2). }
  destruct (read_byte_measure s1 b2 s2 E2) as [K1 [K2 K3]].
  destruct (Nat.eqb b2 (nn 34)).
  - destruct (read_byte s2) as [b3 s3| |] eqn:E3; try discriminate.
    2:{ exfalso. exact (read_byte_never_fuel s2 E3). }
    destruct (read_byte_measure s2 b3 s3 E3) as [J1 _].
    destruct (negb (Nat.eqb b3 (nn 34))); [discriminate|].
    destruct (read_block fuel [] s3) eqn:Eb; try discriminate.
    exfalso. apply (read_block_total fuel [] s3); [lia|exact Eb].
  - destruct (Nat.eqb_spec b2 0); [discriminate|].
    destruct (read_simple fuel [] (put_back b2 s2)) eqn:Es; try discriminate.
    exfalso. apply (read_simple_total fuel [] (put_back b2 s2)); [|exact Es].
    rewrite (measure_put_back b2 s2 K3 n). specialize (K2 n). lia.
Qed.

Lemma read_string_measure fuel s o s1 : read_string fuel s = ROk o s1 -> m s1 <= m s.
Proof.
  unfold read_string. intros H.
  destruct (read_byte s) as [b s0| |] eqn:E; try discriminate.
  destruct (read_byte_measure s b s0 E) as [H1 [H2 H3]].
  destruct (Nat.eqb_spec b 0) as [E0|E0]; [inversion H; subst; exact H1|]. specialize (H2 E0).
  destruct (negb (Nat.eqb b (nn 34))).
  { inversion H; subst. rewrite (measure_put_back b s0 H3 E0). lia. }
  destruct (read_byte s0) as [b2 s2| |] eqn:E2; try discriminate.
  destruct (read_byte_measure s0 b2 s2 E2) as [K1 [K2 K3]].
  destruct (Nat.eqb b2 (nn 34)).
  - destruct (read_byte s2) as [b3 s3| |] eqn:E3; try discriminate.
    destruct (read_byte_measure s2 b3 s3 E3) as [J1 [J2 J3]].
    destruct (negb (Nat.eqb b3 (nn 34))).
    + inversion H; subst. apply (measure_put_back_le b3 s3 s); [exact J3| |]; intros; try specialize (J2 H0); lia.
    + destruct (read_block fuel [] s3) as [l s4| |] eqn:Eb; try discriminate.
      inversion H; subst. apply read_block_measure in Eb. lia.
  - destruct (Nat.eqb_spec b2 0) as [E20|E20]; [discriminate|]. specialize (K2 E20).
    destruct (read_simple fuel [] (put_back b2 s2)) as [l s3| |] eqn:Es; try discriminate.
    inversion H; subst. apply read_simple_measure in Es.
    rewrite (measure_put_back b2 s2 K3 E20) in Es. lia.
Qed.

(* a string that starts here is consumed: at least its opening quote *)
Lemma read_string_progress fuel s o s1 :
  ondeck s = nn 34 -> read_string fuel s = ROk o s1 -> m s1 < m s.
Proof.
  unfold read_string. intros Ho H.
  destruct (read_byte s) as [b s0| |] eqn:E; try discriminate.
  assert (Hb : b = nn 34 /\ m s0 < m s /\ ondeck s0 = 0).
  { unfold read_byte in E. rewrite Ho in E. change (Nat.eqb (nn 34) 0) with false in E. cbn [negb] in E.
    inversion E; subst. unfold measure. simpl. rewrite Ho. change (Nat.eqb (nn 34) 0) with false. split; [reflexivity|]. split; [lia|reflexivity]. }
  destruct Hb as [-> [H2 H3]].
  change (Nat.eqb (nn 34) 0) with false in H. change (negb (Nat.eqb (nn 34) (nn 34))) with false in H.
  destruct (read_byte s0) as [b2 s2| |] eqn:E2; try discriminate.
  destruct (read_byte_measure s0 b2 s2 E2) as [K1 [K2 K3]].
  destruct (Nat.eqb b2 (nn 34)).
  - destruct (read_byte s2) as [b3 s3| |] eqn:E3; try discriminate.
    destruct (read_byte_measure s2 b3 s3 E3) as [J1 [J2 J3]].
    destruct (negb (Nat.eqb b3 (nn 34))).
    + inversion H; subst.
      assert (m (put_back b3 s3) <= m s2).
      { apply (measure_put_back_le b3 s3 s2); [exact J3| |]; intros; try specialize (J2 H0); lia. }
      lia.
    + destruct (read_block fuel [] s3) as [l s4| |] eqn:Eb; try discriminate.
      inversion H; subst. apply read_block_measure in Eb. lia.
  - destruct (Nat.eqb_spec b2 0) as [E20|E20]; [discriminate|]. specialize (K2 E20).
    destruct (read_simple fuel [] (put_back b2 s2)) as [l s3| |] eqn:Es; try discriminate.
    inversion H; subst. apply read_simple_measure in Es.
    rewrite (measure_put_back b2 s2 K3 E20) in Es. lia.
Qed.

(* readToken from such a state either consumes or leaves line, column and look-ahead as they were *)
Lemma read_token_progress f s t s2 :
  starts s -> read_token (S f) s = ROk t s2 ->
  (Nat.eqb (line s) (line s2) && Nat.eqb (col s) (col s2) && Nat.eqb (ondeck s) (ondeck s2)) = false ->
  m s2 < m s.
Proof.
  intros Hst H Hne. unfold read_token in H. rewrite (skip_space_starts f s Hst) in H.
  destruct Hst as [H0 _].
  destruct (Nat.eqb_spec (ondeck s) 0); [contradiction|].
  cbn [read_while] in H. unfold read_byte in H. cbn [ondeck] in H.
  destruct (Nat.eqb_spec (ondeck s) 0); [contradiction|]. cbn [negb] in H. cbv iota in H.
  destruct (Nat.eqb_spec (ondeck s) 0); [contradiction|].
  destruct (is_token (ondeck s)).
  - apply read_while_measure in H. unfold measure in *. simpl in H.
    destruct (Nat.eqb_spec (ondeck s) 0); [contradiction|]. lia.
  - inversion H; subst. unfold put_back in Hne. simpl in Hne. rewrite !Nat.eqb_refl in Hne. discriminate.
Qed.

Lemma is_num_first b : Nat.eqb b (nn 45) || ((nn 48 <=? b) && (b <=? nn 57)) = true -> is_num b = true.
Proof.
  change (nn 45) with 45; change (nn 48) with 48; change (nn 57) with 57. intros H.
  apply orb_true_iff in H. destruct H as [H|H].
  - apply Nat.eqb_eq in H. subst b. vm_compute. reflexivity.
  - assert (Hb : b < 256).
    { apply andb_true_iff in H. destruct H as [_ H]. apply Nat.leb_le in H. lia. }
    rewrite (num_bytes b Hb). unfold is_numchar. rewrite H. reflexivity.
Qed.

Lemma read_byte_strict s b s0 : ondeck s <> 0 -> read_byte s = ROk b s0 -> m s0 < m s.
Proof.
  intros Ho H. unfold read_byte in H. destruct (Nat.eqb_spec (ondeck s) 0); [contradiction|]. cbn [negb] in H.
  inversion H; subst. unfold measure. simpl. destruct (Nat.eqb_spec (ondeck s) 0); [contradiction|]. lia.
Qed.

Section Total.
Variable float_ok : list byte -> bool.

(* ---- results never hold more than they started from; a value that starts here is consumed ---- *)
Definition Qv (F : nat) : Prop :=
  forall d s v s', read_value float_ok F d s = ROk v s' -> m s' <= m s /\ (starts s -> m s' < m s).
Definition Ql (F : nat) : Prop :=
  forall n d acc s v s', read_list float_ok F n d acc s = ROk v s' -> m s' <= m s.
Definition Qm (F : nat) : Prop :=
  forall n d acc s v s', read_map float_ok F n d acc s = ROk v s' -> m s' <= m s.

Lemma value_step f : Qv f -> Ql f -> Qm f -> Qv (S f).
Proof.
  intros IHv IHl IHm d s v s' H. cbn [read_value] in H.
  destruct (skip_space (S f) s) as [b s1| |] eqn:E; try discriminate.
  destruct (skip_space_measure _ _ _ _ E) as [A B].
  destruct (Nat.eqb_spec b 0) as [E0|E0].
  { inversion H; subst. split; [exact A|]. intros Hst. rewrite (skip_space_starts f s Hst) in E.
    inversion E; subst. destruct Hst as [Hst _]. contradiction. }
  destruct (B E0) as [Bo Bs]. clear B.
  assert (Ho : ondeck s1 <> 0) by (rewrite Bo; exact E0).
  cut (m s' < m s1). { intros K. split; [lia|intros _; lia]. }
  destruct (Nat.eqb_spec b (nn 34)) as [E34|E34].
  { assert (Ho34 : ondeck s1 = nn 34) by congruence.
    destruct (read_string (S f) s1) as [[l|] s2| |] eqn:Es; try discriminate; inversion H; subst;
      exact (read_string_progress _ _ _ _ Ho34 Es). }
  destruct (Nat.eqb b (nn 36)).
  { destruct (read_byte s1) as [b1 s2| |] eqn:E1; try discriminate.
    pose proof (read_byte_strict _ _ _ Ho E1) as K1.
    destruct (read_token (S f) s2) as [t s3| |] eqn:Et; try discriminate.
    inversion H; subst. apply read_token_measure in Et. lia. }
  destruct (Nat.eqb b (nn 45) || ((nn 48 <=? b) && (b <=? nn 57))) eqn:En.
  { unfold read_number_token in H.
    destruct (read_while is_num (S f) [] s1) as [t s2| |] eqn:Ew; try discriminate.
    assert (K : m s2 < m s1).
    { apply (read_while_progress is_num (S f) [] s1 t s2 Ho); [|exact Ew]. rewrite Bo. now apply is_num_first. }
    destruct (value_follow (ondeck s2)); [|discriminate].
    destruct (parse_int64 t); [inversion H; subst; exact K|].
    destruct (float_ok t); [inversion H; subst; exact K|discriminate]. }
  destruct (Nat.eqb b (nn 91)).
  { destruct (read_byte s1) as [b1 s2| |] eqn:E1; try discriminate.
    pose proof (read_byte_strict _ _ _ Ho E1) as K1.
    destruct (Nat.ltb max_nesting (S d)); [discriminate|].
    specialize (IHl _ _ _ _ _ _ H). lia. }
  destruct (Nat.eqb b (nn 123)).
  { destruct (read_byte s1) as [b1 s2| |] eqn:E1; try discriminate.
    pose proof (read_byte_strict _ _ _ Ho E1) as K1.
    destruct (Nat.ltb max_nesting (S d)); [discriminate|].
    specialize (IHm _ _ _ _ _ _ H). lia. }
  destruct (read_token (S f) s1) as [t s2| |] eqn:Et; try discriminate.
  destruct (Nat.eqb (line s1) (line s2) && Nat.eqb (col s1) (col s2) && Nat.eqb (ondeck s1) (ondeck s2)) eqn:Ec; [discriminate|].
  pose proof (read_token_progress f s1 t s2 Bs Et Ec) as K.
  destruct (eqb_bytes t tok_true); [inversion H; subst; exact K|].
  destruct (eqb_bytes t tok_false); [inversion H; subst; exact K|].
  destruct (eqb_bytes t tok_null || eqb_bytes t []); inversion H; subst; exact K.
Qed.

Lemma read_list_eq f n d acc s :
  read_list float_ok (S f) n d acc s =
  match n with
  | 0 => RFuel
  | S n' =>
      match skip_space (S n') s with
      | RErr s1 => RErr s1
      | RFuel => RFuel
      | ROk b s1 =>
          if Nat.eqb b 0 then RErr s1
          else if Nat.eqb b (nn 93) then
            match read_byte s1 with
            | ROk _ s2 => ROk (PList (rev acc)) s2
            | RErr s2 => RErr s2
            | RFuel => RFuel
            end
          else
            match read_value float_ok f d s1 with
            | ROk v s2 => read_list float_ok f n' d (v :: acc) s2
            | RErr s2 => RErr s2
            | RFuel => RFuel
            end
      end
  end.
Proof. reflexivity. Qed.

Lemma read_map_eq f n d acc s :
  read_map float_ok (S f) n d acc s =
  match n with
  | 0 => RFuel
  | S n' =>
      match skip_space (S n') s with
      | RErr s1 => RErr s1
      | RFuel => RFuel
      | ROk b s1 =>
          if Nat.eqb b 0 then RErr s1
          else if Nat.eqb b (nn 125) then
            match read_byte s1 with
            | ROk _ s2 => ROk (PMap (rev acc)) s2
            | RErr s2 => RErr s2
            | RFuel => RFuel
            end
          else
            match (if Nat.eqb b (nn 34)
                   then match read_string (S n') s1 with
                        | ROk (Some l) s2 => ROk l s2
                        | ROk None s2 => ROk [] s2
                        | RErr s2 => RErr s2
                        | RFuel => RFuel
                        end
                   else match read_token (S n') s1 with
                        | ROk t s2 => ROk (map SB t) s2
                        | RErr s2 => RErr s2
                        | RFuel => RFuel
                        end) with
            | RErr s2 => RErr s2
            | RFuel => RFuel
            | ROk key s2 =>
                match skip_space (S n') s2 with
                | RErr s3 => RErr s3
                | RFuel => RFuel
                | ROk b3 s3 =>
                    if negb (Nat.eqb b3 (nn 58)) then RErr s3
                    else
                      match read_byte s3 with
                      | ROk _ s4 =>
                          match read_value float_ok f d s4 with
                          | ROk v s5 => read_map float_ok f n' d ((key, v) :: acc) s5
                          | RErr s5 => RErr s5
                          | RFuel => RFuel
                          end
                      | RErr s4 => RErr s4
                      | RFuel => RFuel
                      end
                end
            end
      end
  end.
Proof. reflexivity. Qed.

Lemma list_step f : Qv f -> Ql f -> Ql (S f).
Proof.
  intros IHv IHl n d acc s v s' H. rewrite read_list_eq in H. destruct n as [|n']; [discriminate|].
  destruct (skip_space (S n') s) as [b s1| |] eqn:E; try discriminate.
  destruct (skip_space_measure _ _ _ _ E) as [A _].
  destruct (Nat.eqb b 0); [discriminate|].
  destruct (Nat.eqb b (nn 93)).
  { destruct (read_byte s1) as [b1 s2| |] eqn:E1; try discriminate. inversion H; subst.
    destruct (read_byte_measure _ _ _ E1) as [K _]. lia. }
  destruct (read_value float_ok f d s1) as [v1 s2| |] eqn:Ev; try discriminate.
  destruct (IHv _ _ _ _ Ev) as [K _]. specialize (IHl _ _ _ _ _ _ H). lia.
Qed.

Lemma map_step f : Qv f -> Qm f -> Qm (S f).
Proof.
  intros IHv IHm n d acc s v s' H. rewrite read_map_eq in H. destruct n as [|n']; [discriminate|].
  destruct (skip_space (S n') s) as [b s1| |] eqn:E; try discriminate.
  destruct (skip_space_measure _ _ _ _ E) as [A _].
  destruct (Nat.eqb b 0); [discriminate|].
  destruct (Nat.eqb b (nn 125)).
  { destruct (read_byte s1) as [b1 s2| |] eqn:E1; try discriminate. inversion H; subst.
    destruct (read_byte_measure _ _ _ E1) as [K _]. lia. }
  assert (Hkey : forall key s2,
            (if Nat.eqb b (nn 34)
             then match read_string (S n') s1 with
                  | ROk (Some l) s2 => ROk l s2 | ROk None s2 => ROk [] s2 | RErr s2 => RErr s2 | RFuel => RFuel end
             else match read_token (S n') s1 with
                  | ROk t s2 => ROk (map SB t) s2 | RErr s2 => RErr s2 | RFuel => RFuel end) = ROk key s2 ->
            m s2 <= m s1).
  { intros key s2 Hk. destruct (Nat.eqb b (nn 34)).
    - destruct (read_string (S n') s1) as [[l|] s3| |] eqn:Es; try discriminate; inversion Hk; subst;
        exact (read_string_measure _ _ _ _ Es).
    - destruct (read_token (S n') s1) as [t s3| |] eqn:Et; try discriminate. inversion Hk; subst.
      exact (read_token_measure _ _ _ _ Et). }
  destruct (if Nat.eqb b (nn 34) then _ else _) as [key s2| |] eqn:Ek; try discriminate.
  specialize (Hkey _ _ eq_refl).
  destruct (skip_space (S n') s2) as [b3 s3| |] eqn:E3; try discriminate.
  destruct (skip_space_measure _ _ _ _ E3) as [A3 _].
  destruct (negb (Nat.eqb b3 (nn 58))); [discriminate|].
  destruct (read_byte s3) as [b4 s4| |] eqn:E4; try discriminate.
  destruct (read_byte_measure _ _ _ E4) as [K4 _].
  destruct (read_value float_ok f d s4) as [v1 s5| |] eqn:Ev; try discriminate.
  destruct (IHv _ _ _ _ Ev) as [K5 _]. specialize (IHm _ _ _ _ _ _ H). lia.
Qed.

Theorem measures : forall F, Qv F /\ Ql F /\ Qm F.
Proof.
  induction F as [|f [IHv [IHl IHm]]].
  - unfold Qv, Ql, Qm. split; [|split]; intros; discriminate.
  - split; [exact (value_step f IHv IHl IHm)|]. split; [exact (list_step f IHv IHl)|exact (map_step f IHv IHm)].
Qed.

(* ---- the reader never runs out of fuel ---- *)
Definition Tv (F : nat) : Prop := forall d s, 2 * m s + 1 < F -> read_value float_ok F d s <> RFuel.
Definition Tl (F : nat) : Prop := forall n d acc s, 2 * m s + 2 < F -> m s < n -> read_list float_ok F n d acc s <> RFuel.
Definition Tm (F : nat) : Prop := forall n d acc s, 2 * m s + 2 < F -> m s < n -> read_map float_ok F n d acc s <> RFuel.

Lemma value_total_step f : Tl f -> Tm f -> Tv (S f).
Proof.
  intros IHl IHm d s Hm. cbn [read_value].
  destruct (skip_space (S f) s) as [b s1| |] eqn:E; try discriminate.
  2:{ exfalso. apply (skip_space_total (S f) s); [lia|exact E]. }
  destruct (skip_space_measure _ _ _ _ E) as [A B].
  destruct (Nat.eqb_spec b 0) as [E0|E0]; [discriminate|].
  destruct (B E0) as [Bo Bs]. clear B.
  assert (Ho : ondeck s1 <> 0) by (rewrite Bo; exact E0).
  destruct (Nat.eqb b (nn 34)).
  { destruct (read_string (S f) s1) as [[l|] s2| |] eqn:Es; try discriminate.
    exfalso. apply (read_string_total (S f) s1); [lia|exact Es]. }
  destruct (Nat.eqb b (nn 36)).
  { destruct (read_byte s1) as [b1 s2| |] eqn:E1; try discriminate.
    2:{ exfalso. exact (read_byte_never_fuel s1 E1). }
    pose proof (read_byte_strict _ _ _ Ho E1) as K1.
    destruct (read_token (S f) s2) as [t s3| |] eqn:Et; try discriminate.
    exfalso. apply (read_token_total (S f) s2); [lia|exact Et]. }
  destruct (Nat.eqb b (nn 45) || ((nn 48 <=? b) && (b <=? nn 57))).
  { unfold read_number_token.
    destruct (read_while is_num (S f) [] s1) as [t s2| |] eqn:Ew.
    - destruct (value_follow (ondeck s2)); [|discriminate].
      destruct (parse_int64 t); [discriminate|]. destruct (float_ok t); discriminate.
    - discriminate.
    - exfalso. apply (read_while_total is_num (S f) [] s1); [lia|exact Ew]. }
  destruct (Nat.eqb b (nn 91)).
  { destruct (read_byte s1) as [b1 s2| |] eqn:E1; try discriminate.
    2:{ exfalso. exact (read_byte_never_fuel s1 E1). }
    pose proof (read_byte_strict _ _ _ Ho E1) as K1. destruct (Nat.ltb max_nesting (S d)); [discriminate|]. apply IHl; lia. }
  destruct (Nat.eqb b (nn 123)).
  { destruct (read_byte s1) as [b1 s2| |] eqn:E1; try discriminate.
    2:{ exfalso. exact (read_byte_never_fuel s1 E1). }
    pose proof (read_byte_strict _ _ _ Ho E1) as K1. destruct (Nat.ltb max_nesting (S d)); [discriminate|]. apply IHm; lia. }
  destruct (read_token (S f) s1) as [t s2| |] eqn:Et; try discriminate.
  - destruct (Nat.eqb (line s1) (line s2) && Nat.eqb (col s1) (col s2) && Nat.eqb (ondeck s1) (ondeck s2)); [discriminate|].
    destruct (eqb_bytes t tok_true); [discriminate|]. destruct (eqb_bytes t tok_false); [discriminate|].
    destruct (eqb_bytes t tok_null || eqb_bytes t []); discriminate.
  - exfalso. apply (read_token_total (S f) s1); [lia|exact Et].
Qed.

Lemma list_total_step f : Tv f -> Tl f -> Tl (S f).
Proof.
  intros IHv IHl n d acc s Hm Hn. rewrite read_list_eq. destruct n as [|n']; [lia|].
  destruct (skip_space (S n') s) as [b s1| |] eqn:E; try discriminate.
  2:{ exfalso. apply (skip_space_total (S n') s); [lia|exact E]. }
  destruct (skip_space_measure _ _ _ _ E) as [A B].
  destruct (Nat.eqb_spec b 0) as [E0|E0]; [discriminate|].
  destruct (B E0) as [Bo Bs]. clear B.
  destruct (Nat.eqb b (nn 93)).
  { destruct (read_byte s1) as [b1 s2| |] eqn:E1; try discriminate. exfalso. exact (read_byte_never_fuel s1 E1). }
  destruct (read_value float_ok f d s1) as [v1 s2| |] eqn:Ev; try discriminate.
  - destruct (measures f) as [Q _]. destruct (Q _ _ _ _ Ev) as [_ K]. specialize (K Bs). apply IHl; lia.
  - exfalso. apply (IHv d s1); [lia|exact Ev].
Qed.

Lemma map_total_step f : Tv f -> Tm f -> Tm (S f).
Proof.
  intros IHv IHm n d acc s Hm Hn. rewrite read_map_eq. destruct n as [|n']; [lia|].
  destruct (skip_space (S n') s) as [b s1| |] eqn:E; try discriminate.
  2:{ exfalso. apply (skip_space_total (S n') s); [lia|exact E]. }
  destruct (skip_space_measure _ _ _ _ E) as [A _].
  destruct (Nat.eqb b 0); [discriminate|].
  destruct (Nat.eqb b (nn 125)).
  { destruct (read_byte s1) as [b1 s2| |] eqn:E1; try discriminate. exfalso. exact (read_byte_never_fuel s1 E1). }
  assert (Hkey :
            ((if Nat.eqb b (nn 34)
             then match read_string (S n') s1 with
                  | ROk (Some l) s2 => ROk l s2 | ROk None s2 => ROk [] s2 | RErr s2 => RErr s2 | RFuel => RFuel end
             else match read_token (S n') s1 with
                  | ROk t s2 => ROk (map SB t) s2 | RErr s2 => RErr s2 | RFuel => RFuel end) <> RFuel) /\
            forall key s2, (if Nat.eqb b (nn 34)
             then match read_string (S n') s1 with
                  | ROk (Some l) s2 => ROk l s2 | ROk None s2 => ROk [] s2 | RErr s2 => RErr s2 | RFuel => RFuel end
             else match read_token (S n') s1 with
                  | ROk t s2 => ROk (map SB t) s2 | RErr s2 => RErr s2 | RFuel => RFuel end) = ROk key s2 -> m s2 <= m s1).
  { destruct (Nat.eqb b (nn 34)).
    - destruct (read_string (S n') s1) as [[l|] s3| |] eqn:Es.
      + split; [discriminate|]. intros key s2 Hk. inversion Hk; subst. exact (read_string_measure _ _ _ _ Es).
      + split; [discriminate|]. intros key s2 Hk. inversion Hk; subst. exact (read_string_measure _ _ _ _ Es).
      + split; [discriminate|]. intros key s2 Hk. discriminate.
      + exfalso. apply (read_string_total (S n') s1); [lia|exact Es].
    - destruct (read_token (S n') s1) as [t s3| |] eqn:Et.
      + split; [discriminate|]. intros key s2 Hk. inversion Hk; subst. exact (read_token_measure _ _ _ _ Et).
      + split; [discriminate|]. intros key s2 Hk. discriminate.
      + exfalso. apply (read_token_total (S n') s1); [lia|exact Et]. }
  destruct Hkey as [Hnf Hle].
  destruct (if Nat.eqb b (nn 34) then _ else _) as [key s2| |] eqn:Ek; try discriminate; [|contradiction].
  specialize (Hle _ _ eq_refl).
  destruct (skip_space (S n') s2) as [b3 s3| |] eqn:E3; try discriminate.
  2:{ exfalso. apply (skip_space_total (S n') s2); [lia|exact E3]. }
  destruct (skip_space_measure _ _ _ _ E3) as [A3 B3].
  destruct (Nat.eqb_spec b3 (nn 58)) as [E58|E58]; [|discriminate]. cbn [negb].
  assert (Hb3 : b3 <> 0). { rewrite E58. discriminate. }
  destruct (B3 Hb3) as [Bo3 _].
  destruct (read_byte s3) as [b4 s4| |] eqn:E4; try discriminate.
  2:{ exfalso. exact (read_byte_never_fuel s3 E4). }
  assert (K4 : m s4 < m s3). { apply (read_byte_strict s3 b4 s4); [rewrite Bo3; exact Hb3|exact E4]. }
  destruct (read_value float_ok f d s4) as [v1 s5| |] eqn:Ev; try discriminate.
  - destruct (measures f) as [Q _]. destruct (Q _ _ _ _ Ev) as [K5 _]. apply IHm; lia.
  - exfalso. apply (IHv d s4); [lia|exact Ev].
Qed.

Theorem totals : forall F, Tv F /\ Tl F /\ Tm F.
Proof.
  induction F as [|f [IHv [IHl IHm]]].
  - unfold Tv, Tl, Tm. split; [|split]; intros; lia.
  - split; [exact (value_total_step f IHl IHm)|]. split; [exact (list_total_step f IHv IHl)|exact (map_total_step f IHv IHm)].
Qed.

End Total.

(* ParseValue / ParseValueString on any bytes, from a reader that ends or one that fails: a value or an
   error - the fuel of the model (which stands for Go's stack and its loops) is never exhausted *)
Theorem parse_value_total float_ok bs flt : parse_value float_ok bs flt <> RFuel.
Proof.
  unfold parse_value. destruct (totals float_ok (2 * length bs + nn 8)) as [T _]. apply T.
  unfold measure, init_pst. simpl rest. simpl ondeck. change (nn 8) with 8. simpl. lia.
Qed.

(* ---- the nesting bound: no value the reader returns is nested deeper than max_nesting ---- *)
Fixpoint depth_pv (v : pv) : nat :=
  match v with
  | PList l => S (fold_right (fun x a => Nat.max (depth_pv x) a) 0 l)
  | PMap kvs => S (fold_right (fun kv a => Nat.max (depth_pv (snd kv)) a) 0 kvs)
  | _ => 0
  end.

Lemma maxd_list_le k (l : list pv) :
  (forall x, In x l -> depth_pv x <= k) -> fold_right (fun x a => Nat.max (depth_pv x) a) 0 l <= k.
Proof. induction l as [|x l IH]; intros H; simpl; [lia|]. specialize (H x (or_introl eq_refl)) as Hx. specialize (IH (fun y Hy => H y (or_intror Hy))). lia. Qed.

Lemma maxd_map_le k (l : list (list sitem * pv)) :
  (forall kv, In kv l -> depth_pv (snd kv) <= k) -> fold_right (fun kv a => Nat.max (depth_pv (snd kv)) a) 0 l <= k.
Proof. induction l as [|x l IH]; intros H; simpl; [lia|]. specialize (H x (or_introl eq_refl)) as Hx. specialize (IH (fun y Hy => H y (or_intror Hy))). lia. Qed.

Section Depth.
Variable float_ok : list byte -> bool.

Definition Dv (F : nat) : Prop :=
  forall d s v s', read_value float_ok F d s = ROk v s' -> d <= max_nesting -> d + depth_pv v <= max_nesting.
Definition Dl (F : nat) : Prop :=
  forall n d acc s v s', read_list float_ok F n d acc s = ROk v s' -> 1 <= d <= max_nesting ->
    (forall x, In x acc -> d + depth_pv x <= max_nesting) -> (d - 1) + depth_pv v <= max_nesting.
Definition Dm (F : nat) : Prop :=
  forall n d acc s v s', read_map float_ok F n d acc s = ROk v s' -> 1 <= d <= max_nesting ->
    (forall kv, In kv acc -> d + depth_pv (snd kv) <= max_nesting) -> (d - 1) + depth_pv v <= max_nesting.

Lemma depth_value_step f : Dl f -> Dm f -> Dv (S f).
Proof.
  intros IHl IHm d s v s' H Hd. cbn [read_value] in H.
  destruct (skip_space (S f) s) as [b s1| |]; try discriminate.
  destruct (Nat.eqb b 0); [inversion H; subst; simpl; lia|].
  destruct (Nat.eqb b (nn 34)).
  { destruct (read_string (S f) s1) as [[l|] s2| |]; try discriminate; inversion H; subst; simpl; lia. }
  destruct (Nat.eqb b (nn 36)).
  { destruct (read_byte s1) as [b1 s2| |]; try discriminate.
    destruct (read_token (S f) s2) as [t s3| |]; try discriminate. inversion H; subst. simpl. lia. }
  destruct (Nat.eqb b (nn 45) || ((nn 48 <=? b) && (b <=? nn 57))).
  { destruct (read_number_token (S f) s1) as [t s2| |]; try discriminate.
    destruct (value_follow (ondeck s2)); [|discriminate].
    destruct (parse_int64 t); [inversion H; subst; simpl; lia|].
    destruct (float_ok t); [inversion H; subst; simpl; lia|discriminate]. }
  destruct (Nat.eqb b (nn 91)).
  { destruct (read_byte s1) as [b1 s2| |]; try discriminate.
    destruct (Nat.ltb_spec max_nesting (S d)) as [Hlt|Hge]; [discriminate|].
    assert (K := IHl _ _ _ _ _ _ H ltac:(lia) ltac:(intros x [])). lia. }
  destruct (Nat.eqb b (nn 123)).
  { destruct (read_byte s1) as [b1 s2| |]; try discriminate.
    destruct (Nat.ltb_spec max_nesting (S d)) as [Hlt|Hge]; [discriminate|].
    assert (K := IHm _ _ _ _ _ _ H ltac:(lia) ltac:(intros x [])). lia. }
  destruct (read_token (S f) s1) as [t s2| |]; try discriminate.
  destruct (Nat.eqb (line s1) (line s2) && Nat.eqb (col s1) (col s2) && Nat.eqb (ondeck s1) (ondeck s2)); [discriminate|].
  destruct (eqb_bytes t tok_true); [inversion H; subst; simpl; lia|].
  destruct (eqb_bytes t tok_false); [inversion H; subst; simpl; lia|].
  destruct (eqb_bytes t tok_null || eqb_bytes t []); inversion H; subst; simpl; lia.
Qed.

Lemma depth_list_step f : Dv f -> Dl f -> Dl (S f).
Proof.
  intros IHv IHl n d acc s v s' H Hd Hacc. rewrite read_list_eq in H. destruct n as [|n']; [discriminate|].
  destruct (skip_space (S n') s) as [b s1| |]; try discriminate.
  destruct (Nat.eqb b 0); [discriminate|].
  destruct (Nat.eqb b (nn 93)).
  { destruct (read_byte s1) as [b1 s2| |]; try discriminate. inversion H; subst. cbn [depth_pv].
    assert (K : fold_right (fun x a => Nat.max (depth_pv x) a) 0 (rev acc) <= max_nesting - d).
    { apply maxd_list_le. intros x Hx. apply in_rev in Hx. specialize (Hacc x Hx). lia. }
    lia. }
  destruct (read_value float_ok f d s1) as [v1 s2| |] eqn:Ev; try discriminate.
  assert (K1 := IHv _ _ _ _ Ev ltac:(lia)).
  apply (IHl _ _ _ _ _ _ H Hd). intros x [<-|Hx]; [exact K1|exact (Hacc x Hx)].
Qed.

Lemma depth_map_step f : Dv f -> Dm f -> Dm (S f).
Proof.
  intros IHv IHm n d acc s v s' H Hd Hacc. rewrite read_map_eq in H. destruct n as [|n']; [discriminate|].
  destruct (skip_space (S n') s) as [b s1| |]; try discriminate.
  destruct (Nat.eqb b 0); [discriminate|].
  destruct (Nat.eqb b (nn 125)).
  { destruct (read_byte s1) as [b1 s2| |]; try discriminate. inversion H; subst. cbn [depth_pv].
    assert (K : fold_right (fun kv a => Nat.max (depth_pv (snd kv)) a) 0 (rev acc) <= max_nesting - d).
    { apply maxd_map_le. intros x Hx. apply in_rev in Hx. specialize (Hacc x Hx). lia. }
    lia. }
  destruct (if Nat.eqb b (nn 34) then _ else _) as [key s2| |]; try discriminate.
  destruct (skip_space (S n') s2) as [b3 s3| |]; try discriminate.
  destruct (negb (Nat.eqb b3 (nn 58))); [discriminate|].
  destruct (read_byte s3) as [b4 s4| |]; try discriminate.
  destruct (read_value float_ok f d s4) as [v1 s5| |] eqn:Ev; try discriminate.
  assert (K1 := IHv _ _ _ _ Ev ltac:(lia)).
  apply (IHm _ _ _ _ _ _ H Hd). intros x [<-|Hx]; [exact K1|exact (Hacc x Hx)].
Qed.

Theorem depths : forall F, Dv F /\ Dl F /\ Dm F.
Proof.
  induction F as [|f [IHv [IHl IHm]]].
  - unfold Dv, Dl, Dm. split; [|split]; intros; discriminate.
  - split; [exact (depth_value_step f IHl IHm)|]. split; [exact (depth_list_step f IHv IHl)|exact (depth_map_step f IHv IHm)].
Qed.

End Depth.

Theorem parse_value_depth float_ok bs flt v s : parse_value float_ok bs flt = ROk v s -> depth_pv v <= max_nesting.
Proof.
  unfold parse_value. intros H. destruct (depths float_ok (2 * length bs + nn 8)) as [D _].
  specialize (D 0 _ _ _ H ltac:(lia)). lia.
Qed.
