(* Json.v — a reference JSON reader written from RFC 8259, independent of ggql's own value reader:
   ws value ws, objects, arrays, strings with the eight short escapes and \uXXXX, numbers by the RFC
   grammar, the three literals; control characters may not appear raw in strings.  Strings are
   returned as raw bytes and escape-produced code units (no UTF-8 decoding).  No proofs here. *)
From Coq Require Import List Arith NArith Bool.
Import ListNotations.
From GG Require Import Text.

Inductive jv :=
| JNull | JBool (b : bool) | JNum (tok : list byte) | JStr (s : list sitem)
| JArr (l : list jv) | JObj (kvs : list (list sitem * jv)).

Definition jws (b : byte) : bool := Nat.eqb b (nn 32) || Nat.eqb b (nn 9) || Nat.eqb b (nn 10) || Nat.eqb b 13.

Fixpoint skip_ws (l : list byte) : list byte :=
  match l with b :: r => if jws b then skip_ws r else l | [] => [] end.

Definition is_digit (b : byte) : bool := ((nn 48) <=? b) && (b <=? (nn 57)).

Fixpoint take_digits (l : list byte) (acc : list byte) : list byte * list byte :=
  match l with
  | b :: r => if is_digit b then take_digits r (b :: acc) else (rev acc, l)
  | [] => (rev acc, [])
  end.

(* number = [ minus ] int [ frac ] [ exp ] *)
Definition json_number (l : list byte) : option (list byte * list byte) :=
  let (sign, l1) := match l with b0 :: r => if Nat.eqb b0 (nn 45) then ([(nn 45)], r) else ([], l) | _ => ([], l) end in
  let (ip, l2) := take_digits l1 [] in
  match ip with
  | [] => None
  | d :: ds =>
      if Nat.eqb d (nn 48) && negb (match ds with [] => true | _ => false end) then None   (* leading zero *)
      else
        let '(frac, l3, okf) :=
          match l2 with
          | b0 :: r => if Nat.eqb b0 (nn 46) then
                         let (fp, r') := take_digits r [] in
                         ((nn 46) :: fp, r', negb (match fp with [] => true | _ => false end))
                       else ([], l2, true)
          | _ => ([], l2, true)
          end in
        if negb okf then None else
        let '(ex, l4, oke) :=
          match l3 with
          | e :: r =>
              if Nat.eqb e (nn 101) || Nat.eqb e (nn 69) then
                let (sg, r1) := match r with
                                | b1 :: r' => if Nat.eqb b1 (nn 43) then ([(nn 43)], r') else if Nat.eqb b1 (nn 45) then ([(nn 45)], r') else ([], r)
                                | _ => ([], r)
                                end in
                let (ep, r2) := take_digits r1 [] in
                (e :: sg ++ ep, r2, negb (match ep with [] => true | _ => false end))
              else ([], l3, true)
          | [] => ([], l3, true)
          end in
        if negb oke then None else Some (sign ++ ip ++ frac ++ ex, l4)
  end.

Fixpoint json_hex4 (n : nat) (l : list byte) (acc : nat) : option (nat * list byte) :=
  match n with
  | 0 => Some (acc, l)
  | S m => match l with
           | b :: r => match hex_val b with Some h => json_hex4 m r (acc * (nn 16) + h) | None => None end
           | [] => None
           end
  end.

(* after the opening quote *)
Fixpoint json_string (fuel : nat) (l : list byte) (acc : list sitem) : option (list sitem * list byte) :=
  match fuel with
  | 0 => None
  | S f =>
      match l with
      | [] => None
      | b :: r =>
          if Nat.eqb b (nn 34) then Some (rev acc, r)
          else if Nat.eqb b (nn 92) then
            match r with
            | [] => None
            | e :: r =>
                if Nat.eqb e (nn 34) then json_string f r (SR (nn 34) :: acc) else if Nat.eqb e (nn 92) then json_string f r (SR (nn 92) :: acc)
                else if Nat.eqb e (nn 47) then json_string f r (SR (nn 47) :: acc) else if Nat.eqb e (nn 98) then json_string f r (SR (nn 8) :: acc)
                else if Nat.eqb e (nn 102) then json_string f r (SR (nn 12) :: acc) else if Nat.eqb e (nn 110) then json_string f r (SR (nn 10) :: acc)
                else if Nat.eqb e (nn 114) then json_string f r (SR (nn 13) :: acc) else if Nat.eqb e (nn 116) then json_string f r (SR (nn 9) :: acc)
                else if Nat.eqb e (nn 117) then
                  match json_hex4 4 r 0 with Some (u, r') => json_string f r' (SR u :: acc) | None => None end
                else None
            end
          else if b <? (nn 32) then None else json_string f r (SB b :: acc)
      end
  end.

Definition starts_with (p l : list byte) : option (list byte) :=
  (fix go (p l : list byte) : option (list byte) :=
     match p, l with
     | [], _ => Some l
     | a :: p', b :: l' => if Nat.eqb a b then go p' l' else None
     | _ :: _, [] => None
     end) p l.

Fixpoint json_value (fuel : nat) (l : list byte) {struct fuel} : option (jv * list byte) :=
  match fuel with
  | 0 => None
  | S f =>
      match skip_ws l with
      | [] => None
      | b :: r =>
          if Nat.eqb b (nn 34) then match json_string (length r + 1) r [] with Some (s, r') => Some (JStr s, r') | None => None end
          else if Nat.eqb b (nn 91) then
            match skip_ws r with
            | b2 :: r' => if Nat.eqb b2 (nn 93) then Some (JArr [], r') else json_elems f f r []
            | _ => json_elems f f r []
            end
          else if Nat.eqb b (nn 123) then
            match skip_ws r with
            | b2 :: r' => if Nat.eqb b2 (nn 125) then Some (JObj [], r') else json_members f f r []
            | _ => json_members f f r []
            end
          else if Nat.eqb b (nn 116) then match starts_with tok_true (b :: r) with Some r' => Some (JBool true, r') | None => None end
          else if Nat.eqb b (nn 102) then match starts_with tok_false (b :: r) with Some r' => Some (JBool false, r') | None => None end
          else if Nat.eqb b (nn 110) then match starts_with tok_null (b :: r) with Some r' => Some (JNull, r') | None => None end
          else match json_number (b :: r) with Some (t, r') => Some (JNum t, r') | None => None end
      end
  end

with json_elems (fuel : nat) (n : nat) (l : list byte) (acc : list jv) {struct fuel} : option (jv * list byte) :=
  match fuel with
  | 0 => None
  | S f =>
      match n with
      | 0 => None
      | S n' =>
          match json_value f l with
          | None => None
          | Some (v, r) =>
              match skip_ws r with
              | b :: r' => if Nat.eqb b (nn 44) then json_elems f n' r' (v :: acc)
                           else if Nat.eqb b (nn 93) then Some (JArr (rev (v :: acc)), r') else None
              | _ => None
              end
          end
      end
  end

with json_members (fuel : nat) (n : nat) (l : list byte) (acc : list (list sitem * jv)) {struct fuel} : option (jv * list byte) :=
  match fuel with
  | 0 => None
  | S f =>
      match n with
      | 0 => None
      | S n' =>
          match skip_ws l with
          | q :: r =>
              if negb (Nat.eqb q (nn 34)) then None else
              match json_string (length r + 1) r [] with
              | None => None
              | Some (k, r1) =>
                  match skip_ws r1 with
                  | c :: r2 =>
                      if negb (Nat.eqb c (nn 58)) then None else
                      match json_value f r2 with
                      | None => None
                      | Some (v, r3) =>
                          match skip_ws r3 with
                          | b :: r' => if Nat.eqb b (nn 44) then json_members f n' r' ((k, v) :: acc)
                                       else if Nat.eqb b (nn 125) then Some (JObj (rev ((k, v) :: acc)), r') else None
                          | _ => None
                          end
                      end
                  | _ => None
                  end
              end
          | _ => None
          end
      end
  end.

(* JSON-text = ws value ws *)
Definition json_parse (bs : list byte) : option jv :=
  match json_value (2 * length bs + 4) bs with
  | Some (v, r) => match skip_ws r with [] => Some v | _ => None end
  | None => None
  end.

(* what a written value must decode to: strings as the writer's items (an escaped rune is one code
   unit, an unescaped ASCII rune one byte, a rune >= 0x80 its UTF-8 bytes) *)
Definition rune_items (r : wrune) : list sitem :=
  let c := wr_rune r in
  if c <? (nn 128) then (if (c <? (nn 32)) || Nat.eqb c (nn 34) || Nat.eqb c (nn 92) then [SR c] else [SB c])
  else map SB (wr_utf8 r).

Fixpoint to_json (v : wv) : jv :=
  match v with
  | WNull => JNull
  | WBool b => JBool b
  | WNum t => JNum t
  | WStr s | WSym s => JStr (flat_map rune_items s)
  | WVar s => JStr (SB (nn 36) :: flat_map rune_items s)
  | WTime t => JStr (map SB t)
  | WOther t => JStr (map SB (flat_map wr_utf8 t))
  | WList l => JArr (map to_json l)
  | WMap kvs => JObj (map (fun kv => (flat_map rune_items (fst kv), to_json (snd kv))) kvs)
  end.
