(* Text_proofs.v — facts about the scanner, the class tables (regenerated from parser.go on every run)
   and the string writer. *)
From Coq Require Import List Arith ZArith Bool Lia.
Import ListNotations.
From GG.gen Require Import Tables.
From GG Require Import Text.

(* ---- the class tables, by exhaustive sweep over the 256 byte values ---- *)
Definition is_alnum_us (b : nat) : bool :=
  ((48 <=? b) && (b <=? 57)) || ((65 <=? b) && (b <=? 90)) || ((97 <=? b) && (b <=? 122)) || Nat.eqb b 95.

Lemma tables_length : length char_map = 256 /\ length num_map = 256.
Proof. split; reflexivity. Qed.

Lemma token_bytes_sweep : forallb (fun b => Bool.eqb (is_token b) (is_alnum_us b)) (seq 0 256) = true.
Proof. vm_compute. reflexivity. Qed.

(* token bytes are exactly [A-Za-z0-9_] *)
Theorem token_bytes : forall b, b < 256 -> is_token b = is_alnum_us b.
Proof.
  intros b Hb. pose proof token_bytes_sweep as H. rewrite forallb_forall in H.
  specialize (H b). rewrite in_seq in H. apply eqb_prop. apply H. lia.
Qed.

Definition is_numchar (b : nat) : bool :=
  ((48 <=? b) && (b <=? 57)) || Nat.eqb b 43 || Nat.eqb b 45 || Nat.eqb b 46 || Nat.eqb b 101 || Nat.eqb b 69.

Lemma num_bytes_sweep : forallb (fun b => Bool.eqb (is_num b) (is_numchar b)) (seq 0 256) = true.
Proof. vm_compute. reflexivity. Qed.

Theorem num_bytes : forall b, b < 256 -> is_num b = is_numchar b.
Proof.
  intros b Hb. pose proof num_bytes_sweep as H. rewrite forallb_forall in H.
  specialize (H b). rewrite in_seq in H. apply eqb_prop. apply H. lia.
Qed.

(* the bytes that delimit strings and end the input are in no class; comma is white space *)
Theorem delimiters_unclassified :
  is_token 34 = false /\ is_num 34 = false /\ is_space 34 = false /\
  is_token 92 = false /\ is_num 92 = false /\ is_space 92 = false /\
  is_token 0 = false /\ is_num 0 = false /\ is_space 0 = false /\
  is_space 44 = true /\ is_space 32 = true /\ is_space 10 = true /\ is_space 13 = true /\ is_space 9 = true.
Proof. vm_compute. repeat split. Qed.

(* ---- the scanner consumes: a measure that never grows and shrinks on every non-zero byte ---- *)
Definition measure (s : pst) : nat := length (rest s) + (if Nat.eqb (ondeck s) 0 then 0 else 1).

Theorem read_byte_measure s b s1 :
  read_byte s = ROk b s1 -> measure s1 <= measure s /\ (b <> 0 -> measure s1 < measure s) /\ ondeck s1 = 0.
Proof.
  unfold read_byte, measure. change (nn 10) with 10. destruct (Nat.eqb (ondeck s) 0) eqn:Eo; simpl.
  - destruct (eof s).
    + intros H. inversion H; subst. rewrite Eo. repeat split; try lia. now apply Nat.eqb_eq.
    + destruct (Nat.eqb (line s) 0); destruct (rest s) as [|x r]; destruct (fault s); simpl;
        try (destruct (Nat.eqb x 10)); intros H; inversion H; subst; simpl; repeat split; try lia; congruence.
  - intros H. inversion H; subst. simpl. repeat split; lia.
Qed.

Theorem read_byte_never_fuel s : read_byte s <> RFuel.
Proof.
  unfold read_byte. change (nn 10) with 10. destruct (negb (Nat.eqb (ondeck s) 0)); [discriminate|].
  destruct (eof s); [discriminate|].
  destruct (Nat.eqb (line s) 0); destruct (rest s) as [|x r]; destruct (fault s); try discriminate;
    destruct (Nat.eqb x 10); discriminate.
Qed.

Lemma measure_put_back b s : ondeck s = 0 -> b <> 0 -> measure (put_back b s) = S (measure s).
Proof.
  unfold measure, put_back. simpl. intros H Hb. rewrite H. simpl.
  destruct (Nat.eqb_spec b 0); [contradiction|lia].
Qed.

(* skipSpace terminates within measure + 1 steps and never grows the measure *)
Theorem skip_comment_total : forall fuel s, measure s < fuel -> skip_comment fuel s <> RFuel.
Proof.
  induction fuel as [|f IH]; intros s Hm; [lia|]. cbn [skip_comment]. change (nn 10) with 10.
  destruct (read_byte s) as [b s1| |] eqn:E; try discriminate.
  - destruct (read_byte_measure s b s1 E) as [H1 [H2 _]].
    destruct (Nat.eqb_spec b 0); [discriminate|]. destruct (Nat.eqb b 10); [discriminate|].
    apply IH. specialize (H2 n). lia.
  - exfalso. exact (read_byte_never_fuel s E).
Qed.

Lemma skip_comment_measure : forall fuel s b s1, skip_comment fuel s = ROk b s1 -> measure s1 <= measure s /\ ondeck s1 = 0.
Proof.
  induction fuel as [|f IH]; intros s b s1 H; [discriminate|]. cbn [skip_comment] in H. change (nn 10) with 10 in H.
  destruct (read_byte s) as [b0 s0| |] eqn:E; try discriminate.
  destruct (read_byte_measure s b0 s0 E) as [H1 [H2 H3]].
  destruct (Nat.eqb b0 0); [inversion H; subst; auto|].
  destruct (Nat.eqb b0 10); [inversion H; subst; auto|].
  destruct (IH _ _ _ H). split; [lia|auto].
Qed.

Theorem skip_space_total : forall fuel s, measure s < fuel -> skip_space fuel s <> RFuel.
Proof.
  induction fuel as [|f IH]; intros s Hm; [lia|]. cbn [skip_space]. change (nn 35) with 35.
  destruct (read_byte s) as [b s1| |] eqn:E; try discriminate.
  - destruct (read_byte_measure s b s1 E) as [H1 [H2 _]].
    destruct (Nat.eqb_spec b 0); [discriminate|]. specialize (H2 n).
    destruct (is_space b); [apply IH; lia|].
    destruct (Nat.eqb b 35); [|discriminate].
    destruct (skip_comment f s1) as [b2 s2| |] eqn:Ec; try discriminate.
    + destruct (skip_comment_measure _ _ _ _ Ec). destruct (Nat.eqb b2 0); [discriminate|]. apply IH. lia.
    + exfalso. apply (skip_comment_total f s1); [lia|exact Ec].
  - exfalso. exact (read_byte_never_fuel s E).
Qed.

(* ---- the string writer never emits a bare quote, backslash or control byte for an ASCII rune ---- *)
Theorem write_rune_ascii_safe r :
  wr_rune r < 128 ->
  (exists b, write_rune r = [b] /\ b <> 34 /\ b <> 92 /\ 32 <= b) \/ (exists tl, write_rune r = 92 :: tl).
Proof.
  intros H. unfold write_rune.
  change (nn 8) with 8; change (nn 12) with 12; change (nn 10) with 10; change (nn 13) with 13; change (nn 9) with 9;
    change (nn 92) with 92; change (nn 34) with 34; change (nn 128) with 128; change (nn 32) with 32.
  repeat match goal with
         | |- context [Nat.eqb (wr_rune r) ?k] => destruct (Nat.eqb_spec (wr_rune r) k); [right; eauto|]
         end.
  destruct (Nat.ltb_spec (wr_rune r) 128); [|lia].
  destruct (Nat.ltb_spec (wr_rune r) 32); [right; eauto|].
  left. exists (wr_rune r). repeat split; auto.
Qed.

