(* Proofs about Sched.v: guarantees of property C20 as invariants over every schedule. *)
From Coq Require Import List Arith ZArith Bool Lia Permutation.
Import ListNotations.
From GG Require Import ListUtil Registry Registry_proofs Sched.

(* ---- phase 2 when other threads may already have removed some of the failed ones ---- *)
Lemma rm_loop_nodup u (l : state) log :
  NoDup (map uid l) ->
  rm_loop u (length l) l log =
  Some (filter (fun s => negb (Nat.eqb (uid s) u)) l,
        log ++ (if memb u (map uid l) then [u] else [])).
Proof.
  intros Hn. rewrite <- (app_nil_r l) at 2. rewrite rm_loop_spec, app_nil_r.
  f_equal. f_equal. f_equal.
  destruct (memb u (map uid l)) eqn:E.
  - apply mem_In in E. now rewrite filter_uid_nodup.
  - rewrite filter_uid_notin; auto. intros Hc. apply mem_In in Hc. congruence.
Qed.

Lemma memb_filter_other u v (l : state) :
  u <> v -> memb u (map uid (filter (fun s => negb (Nat.eqb (uid s) v)) l)) = memb u (map uid l).
Proof.
  intros Hne. induction l as [|s l IH]; simpl; auto.
  destruct (Nat.eqb_spec (uid s) v) as [E|E]; simpl.
  - rewrite IH. destruct (Nat.eqb_spec u (uid s)); auto. congruence.
  - now rewrite IH.
Qed.

Lemma phase2_conc (f : list nat) (l : state) log :
  NoDup (map uid l) -> NoDup f ->
  phase2 f l log = Some (filter (fun s => negb (memb (uid s) f)) l,
                         log ++ filter (fun u => memb u (map uid l)) f).
Proof.
  revert l log. induction f as [|u f IH]; intros l log Hl Hf.
  - simpl. rewrite app_nil_r. f_equal. f_equal.
    induction l as [|s l IHl]; simpl; auto. inversion Hl; subst. now rewrite <- IHl.
  - cbn [phase2]. rewrite rm_loop_nodup by assumption.
    inversion Hf as [|? ? Hnu Hf']; subst.
    rewrite IH; auto; [|now apply NoDup_map_filter].
    f_equal. f_equal.
    + clear. induction l as [|s l IHl]; simpl; auto.
      rewrite (Nat.eqb_sym (uid s) u).
      destruct (Nat.eqb u (uid s)) eqn:E; simpl; auto.
      destruct (memb (uid s) f); simpl; now rewrite IHl.
    + rewrite <- app_assoc. f_equal. simpl filter.
      assert (Hf2 : filter (fun u0 => memb u0 (map uid (filter (fun s => negb (Nat.eqb (uid s) u)) l))) f
                    = filter (fun u0 => memb u0 (map uid l)) f).
      { apply filter_ext_in. intros a Ha. apply memb_filter_other. intros ->. auto. }
      rewrite Hf2. destruct (memb u (map uid l)); reflexivity.
Qed.

(* ---- the invariant ---- *)
Definition pub2_ok (t : tstate) : Prop := match t with TPub2 f => NoDup f | _ => True end.

Definition Inv (l : state) (ts : list tstate) (d : list nat) : Prop :=
  NoDup (map uid l ++ d ++ pending ts) /\ Forall pub2_ok ts.

Definition pend1 (t : tstate) : list nat := match t with TSub news => map uid news | _ => [] end.

Lemma pending_set_nth i t t' ts :
  nth_error ts i = Some t -> pend1 t' = [] ->
  Permutation (pending ts) (pend1 t ++ pending (set_nth i t' ts)).
Proof.
  revert i. induction ts as [|x ts IH]; intros i Hn Hp; [destruct i; discriminate|].
  destruct i as [|i]; simpl in Hn.
  - inversion Hn; subst x. simpl set_nth.
    assert (E : pending (t' :: ts) = pending ts).
    { destruct t'; simpl in *; auto. rewrite Hp. reflexivity. }
    rewrite E. destruct t; simpl; auto.
  - simpl set_nth. specialize (IH i Hn Hp).
    destruct x; simpl; auto.
    rewrite IH. rewrite !app_assoc. apply Permutation_app_tail. apply Permutation_app_comm.
Qed.

Lemma Forall_set_nth {A} (P : A -> Prop) i x (l : list A) :
  Forall P l -> P x -> Forall P (set_nth i x l).
Proof.
  revert i. induction l as [|y l IH]; intros i Hf Hx; simpl; [destruct i; auto|].
  inversion Hf; subst. destruct i; constructor; auto.
Qed.

Lemma phase1_failed_nodup id ev (l : state) :
  NoDup (map uid l) -> NoDup (snd (phase1 id ev l)).
Proof. intros H. rewrite phase1_spec. simpl. now apply NoDup_map_filter. Qed.

(* one critical section: never panics, keeps the invariant, and its subscriber-visible events
   respect "nothing after clean-up, clean-up at most once" *)
Lemma tstep_inv (l : state) (ts : list tstate) (d : list nat) i t :
  Inv l ts d -> nth_error ts i = Some t ->
  match tstep l t with
  | BPanic => False
  | BIdle => t = TDone
  | BOk l' t' b =>
      trace_ok d (btrace b) /\ Inv l' (set_nth i t' ts) (dead_after d (btrace b))
  end.
Proof.
  intros [Hn Hf] Hi.
  assert (Hl : NoDup (map uid l)) by (eapply NoDup_app_l; eauto).
  assert (Ht : pub2_ok t) by (rewrite Forall_forall in Hf; apply Hf; eapply nth_error_In; eauto).
  destruct t as [news|id|id ev|f|]; cbn [tstep]; auto.
  - (* subscribe *)
    cbn [btrace trace_ok dead_after]. split; auto. split; [|apply Forall_set_nth; simpl; auto].
    unfold subscribe. rewrite map_app, <- app_assoc.
    pose proof (pending_set_nth i (TSub news) TDone ts Hi eq_refl) as P. simpl pend1 in P.
    eapply Permutation_NoDup; [|exact Hn].
    apply Permutation_app_head.
    etransitivity; [apply Permutation_app_head; exact P|].
    rewrite !app_assoc. apply Permutation_app_tail. apply Permutation_app_comm.
  - (* unsubscribe *)
    rewrite unsubscribe_spec. cbn [btrace].
    pose proof (pending_set_nth i (TUnsub id) TDone ts Hi eq_refl) as P. simpl pend1 in P.
    assert (Hn' : NoDup (map uid l ++ d ++ pending (set_nth i TDone ts))).
    { eapply Permutation_NoDup; [|exact Hn]. now do 2 apply Permutation_app_head. }
    destruct (inv3_remove l (matches id) d _ _ eq_refl Hn') as [N1 N2].
    assert (N1' : NoDup (rev (map uid (filter (matches id) l)) ++ d)).
    { eapply Permutation_NoDup; [|exact N1]. apply Permutation_app_tail, Permutation_rev. }
    destruct (trace_ok_cleanups d _ N1') as [T3 T4]. split; auto.
    split; [|apply Forall_set_nth; simpl; auto].
    rewrite T4, rev_involutive.
    eapply Permutation_NoDup; [|exact N2].
    apply Permutation_app_head, Permutation_app_tail, Permutation_app_tail.
    apply Permutation_sym, Permutation_rev.
  - (* publish, phase 1 *)
    pose proof (phase1_failed_nodup id ev l Hl) as Hfn.
    rewrite phase1_spec in *. cbn [btrace snd] in *.
    destruct (trace_ok_delivers d (flat_map (fun r => opt_list (fst r)) (map (pub1 id ev) l))) as [T1 T2].
    { intros y Hy Hc.
      assert (Hy' : In (fst (fst y)) (map uid l)).
      { apply (deliveries_live id ev l). unfold a_publish. exact Hy. }
      rewrite app_assoc in Hn. apply NoDup_app_l in Hn. exact (NoDup_app_disj _ _ _ Hn Hy' Hc). }
    split; auto. rewrite T2. split; [|apply Forall_set_nth; simpl; auto].
    rewrite map_uid_adv.
    pose proof (pending_set_nth i (TPub1 id ev) (TPub2 (map uid (filter (failing id) l))) ts Hi eq_refl) as P.
    simpl pend1 in P. eapply Permutation_NoDup; [|exact Hn]. now do 2 apply Permutation_app_head.
  - (* publish, phase 2 *)
    simpl in Ht. rewrite phase2_conc by assumption. cbn [btrace app].
    pose proof (pending_set_nth i (TPub2 f) TDone ts Hi eq_refl) as P. simpl pend1 in P.
    assert (Hn' : NoDup (map uid l ++ d ++ pending (set_nth i TDone ts))).
    { eapply Permutation_NoDup; [|exact Hn]. now do 2 apply Permutation_app_head. }
    set (p := fun s : sub => memb (uid s) f).
    assert (Ecl : Permutation (filter (fun u => memb u (map uid l)) f) (map uid (filter p l))).
    { apply NoDup_Permutation.
      - now apply NoDup_filter.
      - now apply NoDup_map_filter.
      - intros u. rewrite filter_In, in_map_iff. split.
        + intros [Hu Hm]. apply mem_In in Hm. apply in_map_iff in Hm. destruct Hm as [s [E Hs]].
          exists s. split; auto. apply filter_In. split; auto. unfold p. rewrite E. now apply mem_In.
        + intros [s [E Hs]]. apply filter_In in Hs. destruct Hs as [Hs Hp]. unfold p in Hp.
          apply mem_In in Hp. subst u. split; auto. apply mem_In. now apply in_map. }
    destruct (inv3_remove l p d _ (filter (fun s => negb (p s)) l) eq_refl Hn') as [N1 N2].
    assert (N1' : NoDup (filter (fun u => memb u (map uid l)) f ++ d)).
    { eapply Permutation_NoDup; [|exact N1]. apply Permutation_app_tail. now apply Permutation_sym. }
    destruct (trace_ok_cleanups d _ N1') as [T3 T4]. split; auto.
    split; [|apply Forall_set_nth; simpl; auto].
    rewrite T4. eapply Permutation_NoDup; [|exact N2].
    apply Permutation_app_head, Permutation_app_tail, Permutation_app_tail.
    etransitivity; [apply Permutation_sym, Permutation_rev|].
    etransitivity; [apply Permutation_sym; exact Ecl|]. apply Permutation_rev.
Qed.

(* ---- whole schedules ---- *)
Theorem exec_safe (sched : list nat) (l : state) (ts : list tstate) (d : list nat) :
  Inv l ts d ->
  exists l' ts' bs, exec sched l ts = Some (l', ts', bs) /\ trace_ok d (strace bs)
                    /\ Inv l' ts' (dead_after d (strace bs)).
Proof.
  revert l ts d. induction sched as [|i r IH]; intros l ts d Hi.
  - simpl. do 3 eexists. split; [reflexivity|]. split; [exact I|exact Hi].
  - cbn [exec]. destruct (nth_error ts i) as [t|] eqn:Hn; [|apply IH; auto].
    pose proof (tstep_inv l ts d i t Hi Hn) as Hs.
    destruct (tstep l t) as [l1 t1 b| |]; [|tauto|apply IH; auto].
    destruct Hs as [T I1].
    destruct (IH _ _ _ I1) as [l2 [ts2 [bs [E [T2 I2]]]]]. rewrite E.
    do 3 eexists. split; [reflexivity|].
    unfold strace in *. cbn [flat_map snd]. rewrite trace_ok_app, dead_after_app. auto.
Qed.

(* every block of an execution was produced by a critical section started in a state that
   satisfies the invariant *)
Lemma exec_blocks (sched : list nat) (l : state) (ts : list tstate) (d : list nat) l' ts' bs i b :
  Inv l ts d -> exec sched l ts = Some (l', ts', bs) -> In (i, b) bs ->
  exists l0 ts0 d0 t l1 t1, Inv l0 ts0 d0 /\ nth_error ts0 i = Some t /\ tstep l0 t = BOk l1 t1 b.
Proof.
  revert l ts d l' ts' bs. induction sched as [|j r IH]; intros l ts d l' ts' bs Hi He Hb.
  - simpl in He. inversion He; subst. inversion Hb.
  - cbn [exec] in He. destruct (nth_error ts j) as [t|] eqn:Hn; [|eapply IH; eauto].
    pose proof (tstep_inv l ts d j t Hi Hn) as Hs.
    destruct (tstep l t) as [l1 t1 b1| |] eqn:Et; [|tauto|eapply IH; eauto].
    destruct Hs as [T I1].
    destruct (exec r l1 (set_nth j t1 ts)) as [[[l2 ts2] bs2]|] eqn:E2; [|discriminate].
    inversion He; subst. destruct Hb as [Hb|Hb].
    + inversion Hb; subst. exists l, ts, d, t, l1, t1. auto.
    + eapply IH; eauto.
Qed.

(* each publish delivers at most once to each subscriber *)
Lemma pub1_once (l : state) id ev l1 t1 id' c dl :
  NoDup (map uid l) -> tstep l (TPub1 id ev) = BOk l1 t1 (BPub1 id' c dl) ->
  NoDup (map (fun x => fst (fst x)) dl) /\ c = length dl.
Proof.
  intros Hn Hs. cbn [tstep] in Hs. rewrite phase1_spec in Hs.
  injection Hs as E1 E2 E3 E4 E5. subst id' c dl.
  pose proof (deliveries_exact id ev l) as E. unfold a_publish in E. cbn [snd p_del] in E. rewrite E.
  rewrite map_map. cbn [fst]. split; [now apply NoDup_map_filter|now rewrite map_length].
Qed.

Theorem exec_once (sched : list nat) (l : state) (ts : list tstate) (d : list nat) l' ts' bs i id c dl :
  Inv l ts d -> exec sched l ts = Some (l', ts', bs) -> In (i, BPub1 id c dl) bs ->
  NoDup (map (fun x => fst (fst x)) dl) /\ c = length dl.
Proof.
  intros Hi He Hb.
  destruct (exec_blocks _ _ _ _ _ _ _ _ _ Hi He Hb) as [l0 [ts0 [d0 [t [l1 [t1 [I0 [Hn Hs]]]]]]]].
  destruct t as [news|id0|id0 ev|f|]; cbn [tstep] in Hs.
  - inversion Hs.
  - destruct (unsubscribe id0 l0) as [[[? ?] ?]|]; inversion Hs.
  - eapply pub1_once; eauto. destruct I0 as [N _]. eapply NoDup_app_l; eauto.
  - destruct (phase2 f l0 []) as [[? ?]|]; inversion Hs.
  - inversion Hs.
Qed.

(* ---- visibility: a publish whose first critical section runs after a subscribe block
   delivers to that subscriber if it matches and has not been cleaned up ---- *)
Definition present (l : state) (s : sub) : Prop := exists s', In s' l /\ uid s' = uid s /\ pat s' = pat s.

Definition Vis (l : state) (pre : list (nat * block)) : Prop :=
  forall s, In s (registered pre) -> ~ In (uid s) (cleaned pre) -> present l s.

Lemma registered_app a b : registered (a ++ b) = registered a ++ registered b.
Proof.
  induction a as [|[i x] a IH]; simpl; auto. destruct x; simpl; auto. now rewrite IH, app_assoc.
Qed.

Lemma cleaned_app a b : cleaned (a ++ b) = cleaned a ++ cleaned b.
Proof.
  induction a as [|[i x] a IH]; simpl; auto. destruct x; simpl; auto; now rewrite IH, app_assoc.
Qed.

Lemma matches_pat id s s' : pat s' = pat s -> matches id s' = matches id s.
Proof. unfold matches. now intros ->. Qed.

Lemma pat_adv id s : pat (adv id s) = pat s.
Proof. unfold adv, send. destruct (matches id s); auto. destruct (sched s); auto. Qed.

Lemma tstep_vis (l : state) (pre : list (nat * block)) i t l1 t1 b :
  NoDup (map uid l) -> pub2_ok t ->
  Vis l pre -> tstep l t = BOk l1 t1 b -> Vis l1 (pre ++ [(i, b)]).
Proof.
  intros Hn Ht Hv Hs s Hr Hc.
  rewrite registered_app in Hr. rewrite cleaned_app in Hc.
  rewrite in_app_iff in Hr, Hc.
  destruct t as [news|id|id ev|f|]; cbn [tstep] in Hs.
  - inversion Hs; subst. simpl in *. rewrite app_nil_r in Hr. unfold subscribe.
    destruct Hr as [Hr|Hr].
    + destruct (Hv s Hr) as [s' [H1 H2]]; [tauto|]. exists s'. rewrite in_app_iff. tauto.
    + exists s. rewrite in_app_iff. tauto.
  - rewrite unsubscribe_spec in Hs. inversion Hs; subst. simpl in *. rewrite app_nil_r in Hc.
    destruct Hr as [Hr|[]]. destruct (Hv s Hr) as [s' [H1 [H2 H3]]]; [tauto|].
    exists s'. split; [|tauto]. apply filter_In. split; auto.
    destruct (matches id s') eqn:Em; auto. exfalso. apply Hc. right.
    rewrite <- in_rev. rewrite <- H2. apply in_map. apply filter_In. auto.
  - rewrite phase1_spec in Hs. inversion Hs; subst. simpl in *.
    destruct Hr as [Hr|[]]. destruct (Hv s Hr) as [s' [H1 [H2 H3]]]; [tauto|].
    exists (adv id s'). split; [now apply in_map|]. rewrite uid_adv, pat_adv. tauto.
  - simpl in Ht. rewrite phase2_conc in Hs by assumption. inversion Hs; subst. simpl in *.
    rewrite app_nil_r in Hc.
    destruct Hr as [Hr|[]]. destruct (Hv s Hr) as [s' [H1 [H2 H3]]]; [tauto|].
    exists s'. split; [|tauto]. apply filter_In. split; auto.
    destruct (memb (uid s') f) eqn:Em; auto. exfalso. apply Hc. right.
    apply filter_In. rewrite <- H2. split; [now apply mem_In|]. apply mem_In. now apply in_map.
  - inversion Hs.
Qed.

Theorem exec_visible (sched : list nat) :
  forall (l : state) (ts : list tstate) (d : list nat) (pre : list (nat * block)) l' ts' bs,
  Inv l ts d -> Vis l pre -> exec sched l ts = Some (l', ts', bs) ->
  forall b1 i id c dl b2 s,
    bs = b1 ++ (i, BPub1 id c dl) :: b2 ->
    In s (registered (pre ++ b1)) -> ~ In (uid s) (cleaned (pre ++ b1)) -> matches id s = true ->
    In (uid s) (map (fun x => fst (fst x)) dl).
Proof.
  induction sched as [|j r IH]; intros l ts d pre l' ts' bs Hi Hv He b1 i id c dl b2 s Hb Hr Hc Hm.
  - simpl in He. inversion He; subst. destruct b1; discriminate.
  - cbn [exec] in He. destruct (nth_error ts j) as [t|] eqn:Hn; [|eapply IH; eauto].
    pose proof (tstep_inv l ts d j t Hi Hn) as Hs.
    destruct (tstep l t) as [l1 t1 b| |] eqn:Et; [|tauto|eapply IH; eauto].
    destruct Hs as [T I1].
    destruct (exec r l1 (set_nth j t1 ts)) as [[[l2 ts2] bs2]|] eqn:E2; [|discriminate].
    injection He as E_l E_ts E_bs. rewrite <- E_bs in Hb. clear E_bs E_l E_ts.
    assert (Hl : NoDup (map uid l)) by (destruct Hi as [N _]; eapply NoDup_app_l; eauto).
    assert (Ht : pub2_ok t).
    { destruct Hi as [_ F]. rewrite Forall_forall in F. apply F. eapply nth_error_In; eauto. }
    destruct b1 as [|x b1].
    + (* this very block is the publish *)
      simpl in Hb. inversion Hb; subst j b bs2. clear Hb. rewrite app_nil_r in Hr, Hc.
      destruct (Hv s Hr Hc) as [s' [H1 [H2 H3]]].
      destruct t as [news|id0|id0 ev|f|]; cbn [tstep] in Et;
        try (inversion Et; fail);
        try (destruct (unsubscribe id0 l) as [[[? ?] ?]|]; inversion Et; fail);
        try (destruct (phase2 f l []) as [[? ?]|]; inversion Et; fail).
      rewrite phase1_spec in Et. inversion Et; subst. clear Et.
      pose proof (deliveries_exact id ev l) as E. unfold a_publish in E. cbn [snd p_del] in E. rewrite E.
      rewrite map_map. cbn [fst]. rewrite <- H2. apply in_map. apply filter_In. split; auto.
      now rewrite (matches_pat id s s').
    + simpl in Hb. inversion Hb; subst x bs2. clear Hb.
      eapply (IH l1 _ _ (pre ++ [(j, b)])); eauto.
      * eapply tstep_vis; eauto.
      * now rewrite <- app_assoc.
      * now rewrite <- app_assoc.
Qed.

(* ---- progress: every call that has not finished can always run its next critical section,
   and two turns per thread finish every call (one lock, never held across a wait) ---- *)
Lemma tstep_progress (l : state) (ts : list tstate) d i t :
  Inv l ts d -> nth_error ts i = Some t -> t <> TDone ->
  exists l' t' b, tstep l t = BOk l' t' b.
Proof.
  intros Hi Hn Hd. pose proof (tstep_inv l ts d i t Hi Hn) as Hs.
  destruct (tstep l t) as [l1 t1 b| |]; [eauto|tauto|congruence].
Qed.

Definition steps_left (t : tstate) : nat :=
  match t with TDone => 0 | TPub1 _ _ => 2 | _ => 1 end.

Lemma tstep_decreases (l : state) t l' t' b :
  tstep l t = BOk l' t' b -> steps_left t' < steps_left t.
Proof.
  destruct t as [news|id|id ev|f|]; cbn [tstep]; intros H.
  - inversion H; subst; simpl; lia.
  - destruct (unsubscribe id l) as [[[? ?] ?]|]; inversion H; subst; simpl; lia.
  - destruct (phase1 id ev l) as [[[? ?] ?] ?]. inversion H; subst; simpl; lia.
  - destruct (phase2 f l []) as [[? ?]|]; inversion H; subst; simpl; lia.
  - inversion H.
Qed.

(* ---- the executable checks agree with the propositions they stand for ---- *)
Lemma nodupb_spec l : nodupb l = true <-> NoDup l.
Proof.
  induction l as [|x l IH]; simpl; [split; auto; constructor|].
  rewrite andb_true_iff, negb_true_iff, IH. split.
  - intros [H1 H2]. constructor; auto. intros Hc. apply mem_In in Hc. congruence.
  - intros H. inversion H; subst. split; auto. destruct (memb x l) eqn:E; auto. apply mem_In in E. tauto.
Qed.

Theorem exec_once_okb (sched : list nat) (l : state) ts d l' ts' bs :
  Inv l ts d -> exec sched l ts = Some (l', ts', bs) -> once_okb bs = true.
Proof.
  intros Hi He. unfold once_okb. apply forallb_forall. intros [i b] Hb. simpl.
  destruct b as [news|id c cl|id c dl|cl]; auto.
  destruct (exec_once _ _ _ _ _ _ _ _ _ _ _ Hi He Hb) as [H1 H2].
  apply andb_true_iff. split; [now apply nodupb_spec|]. subst c. apply Nat.eqb_refl.
Qed.

Theorem exec_visible_okb (sched : list nat) :
  forall (l : state) ts d pre l' ts' bs,
  Inv l ts d -> Vis l pre -> exec sched l ts = Some (l', ts', bs) -> visible_okb pre bs = true.
Proof.
  intros l ts d pre l' ts' bs Hi Hv He.
  assert (G : forall b1 b2, bs = b1 ++ b2 -> visible_okb (pre ++ b1) b2 = true).
  { intros b1 b2. revert b1. induction b2 as [|[i b] b2 IH]; intros b1 E; [reflexivity|].
    cbn [visible_okb]. apply andb_true_iff. split.
    - destruct b as [news|id c cl|id c dl|cl]; auto.
      apply forallb_forall. intros s Hs.
      destruct (matches id s) eqn:Hm; simpl; auto.
      destruct (memb (uid s) (cleaned (pre ++ b1))) eqn:Hc; simpl; auto.
      apply mem_In. unfold del_uids.
      eapply (exec_visible sched l ts d pre l' ts' bs Hi Hv He b1 i id c dl b2 s); eauto.
      intros Hc'. apply mem_In in Hc'. congruence.
    - rewrite <- app_assoc. apply (IH (b1 ++ [(i, b)])). rewrite <- app_assoc. exact E. }
  specialize (G [] bs eq_refl). now rewrite app_nil_r in G.
Qed.
