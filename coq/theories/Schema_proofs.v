(* Schema_proofs.v — facts about the schema specification: loads are all-or-nothing and histories
   collapse to their accepted loads (C14); what acceptance implies, rule by rule, at every position
   and wrapper depth (C13). *)
From Coq Require Import List Arith ZArith Bool Lia Permutation.
Import ListNotations.
From GG Require Import Schema.

(* ---- C14: atomicity and histories ---- *)
Lemma load_rejected_unchanged st doc : fst (load st doc) = false -> snd (load st doc) = st.
Proof. unfold load. destruct (ok _); simpl; [discriminate|reflexivity]. Qed.

Lemma load_m_rejected_unchanged st d : fst (load_m st d) = false -> snd (load_m st d) = st.
Proof. unfold load_m. destruct (fst d); [reflexivity|apply load_rejected_unchanged]. Qed.

Lemma load_m_accepted st d :
  fst (load_m st d) = true ->
  fst d = false /\ snd (load_m st d) = st ++ drop_core_redecl (snd d) /\ ok (snd (load_m st d)) = true.
Proof.
  unfold load_m. destruct (fst d); [discriminate|]. unfold load.
  destruct (ok (st ++ drop_core_redecl (snd d))) eqn:E; simpl; [|discriminate]. auto.
Qed.

(* the state after a history *)
Fixpoint final (st : list item) (docs : list (bool * list item)) : list item :=
  match docs with
  | [] => st
  | d :: rest => final (snd (load_m st d)) rest
  end.

(* the loads of a history that were accepted *)
Fixpoint accepted_of (st : list item) (docs : list (bool * list item)) : list (bool * list item) :=
  match docs with
  | [] => []
  | d :: rest =>
      let r := load_m st d in
      if fst r then d :: accepted_of (snd r) rest else accepted_of (snd r) rest
  end.

Lemma loads_m_length st docs : length (loads_m st docs) = length docs.
Proof. revert st; induction docs as [|d r IH]; intros st; simpl; [reflexivity|]. now rewrite IH. Qed.

(* a history and the history of its accepted loads end in the same state, and every load of the
   latter is accepted with the state it produced in the former *)
Theorem history_collapses st docs :
  final st (accepted_of st docs) = final st docs /\
  Forall (fun r => fst r = true) (loads_m st (accepted_of st docs)).
Proof.
  revert st; induction docs as [|d r IH]; intros st; [split; [reflexivity|constructor]|].
  cbn [accepted_of final]. destruct (fst (load_m st d)) eqn:E.
  - cbn [final loads_m]. destruct (IH (snd (load_m st d))) as [H1 H2]. split; [exact H1|].
    constructor; [exact E|exact H2].
  - rewrite (load_m_rejected_unchanged st d E). apply IH.
Qed.

(* every reachable state passes the rule catalogue *)
Theorem reachable_ok st docs : ok st = true -> ok (final st docs) = true.
Proof.
  revert st; induction docs as [|d r IH]; intros st H; [exact H|]. cbn [final]. apply IH.
  destruct (fst (load_m st d)) eqn:E.
  - now destruct (load_m_accepted st d E) as [_ [_ H3]].
  - now rewrite (load_m_rejected_unchanged st d E).
Qed.

Lemma empty_root_ok : ok [] = true.
Proof. vm_compute. reflexivity. Qed.

(* the state is the concatenation of the accepted documents, in order *)
Theorem final_concat st docs :
  final st docs = st ++ concat (map (fun d => drop_core_redecl (snd d)) (accepted_of st docs)).
Proof.
  revert st; induction docs as [|d r IH]; intros st; cbn [final accepted_of]; [now rewrite app_nil_r|].
  destruct (fst (load_m st d)) eqn:E.
  - destruct (load_m_accepted st d E) as [_ [H2 _]]. rewrite IH, H2. cbn [map concat]. now rewrite app_assoc.
  - rewrite (load_m_rejected_unchanged st d E). apply IH.
Qed.

(* ---- C13: what acceptance implies ---- *)
Lemma flat_map_nil {A B} (f : A -> list B) l : flat_map f l = [] -> forall x, In x l -> f x = [].
Proof.
  induction l as [|a l IH]; intros H x Hx; [destruct Hx|]. simpl in H. apply app_eq_nil in H. destruct H as [H1 H2].
  destruct Hx as [<-|Hx]; auto.
Qed.

Lemma on_err_nil b e : on_err b e = [] -> b = false.
Proof. destruct b; [discriminate|reflexivity]. Qed.

Definition accepted_flat (items : list item) : flat := flatten (core_items ++ items).

Lemma ok_errors items : ok items = true -> errors (core_items ++ items) = [].
Proof. unfold ok. destruct (errors _); [reflexivity|discriminate]. Qed.

Lemma ok_check_base items b :
  ok items = true -> In b (fl_bases (accepted_flat items)) -> check_base (accepted_flat items) b = [].
Proof.
  intros H Hb. apply ok_errors in H. unfold errors in H. apply app_eq_nil in H. destruct H as [H _].
  exact (flat_map_nil _ _ H b Hb).
Qed.

Ltac split_nil H :=
  repeat match type of H with
         | _ ++ _ = [] => let H1 := fresh "Hn" in apply app_eq_nil in H; destruct H as [H1 H]; try split_nil H1
         end.

(* names: no accepted definition other than the schema block carries the reserved prefix, and each
   name is defined once *)
Theorem accepted_type_names items b :
  ok items = true -> In b (fl_bases (accepted_flat items)) ->
  (b_kind b <> KSchema -> reserved (b_name b) = false) /\
  count (fun o => key_eqb (bkey o) (bkey b)) (fl_bases (accepted_flat items)) = 1.
Proof.
  intros H Hb. pose proof (ok_check_base items b H Hb) as Hc. unfold check_base in Hc.
  apply app_eq_nil in Hc. destruct Hc as [H1 Hc]. apply app_eq_nil in Hc. destruct Hc as [H2 _].
  apply on_err_nil in H1. apply on_err_nil in H2. split.
  - intros Hk. destruct (b_kind b); try contradiction; simpl in H2; exact H2.
  - apply negb_false_iff in H1. now apply Nat.eqb_eq in H1.
Qed.

Lemma fields_of_in fl k f : In (k, f) (fl_fields fl) -> In f (fields_of fl k).
Proof.
  intros H. unfold fields_of. apply in_map_iff. exists (k, f). split; [reflexivity|].
  apply filter_In. split; [exact H|]. unfold key_eqb. simpl. now rewrite !Nat.eqb_refl.
Qed.

Lemma check_tref_nil fl owner t : check_tref fl owner t = [] -> type_defined fl (tbase t) = true /\ twf t = true.
Proof.
  unfold check_tref. intros H. apply app_eq_nil in H. destruct H as [H1 H2].
  apply on_err_nil in H1. apply on_err_nil in H2. now rewrite negb_false_iff in H1, H2.
Qed.

(* fields of accepted objects and interfaces, wherever they were written (inline or in an extend
   block) and however deeply their type is wrapped: the named type is defined and is an output
   type, the field name is not reserved; every argument is of a defined input type *)
Theorem accepted_field items b f :
  ok items = true -> In b (fl_bases (accepted_flat items)) ->
  b_kind b = KObject \/ b_kind b = KInterface ->
  In (bkey b, f) (fl_fields (accepted_flat items)) ->
  let fl := accepted_flat items in
  reserved (fd_name f) = false /\
  type_defined fl (tbase (f_ty f)) = true /\ is_output_named fl (tbase (f_ty f)) = true /\
  forall a, In a (fd_args f) ->
    reserved (ad_name a) = false /\ type_defined fl (tbase (a_ty a)) = true /\
    is_input_named fl (tbase (a_ty a)) = true.
Proof.
  intros H Hb Hk Hf fl. pose proof (ok_check_base items b H Hb) as Hc. unfold check_base in Hc. fold fl in Hc.
  assert (Hcf : check_field fl [(fst (bkey b), b_name b)] f = []).
  { apply fields_of_in in Hf. destruct Hk as [Hk|Hk]; rewrite Hk in Hc; split_nil Hc;
      match goal with Hx : flat_map (check_field fl _) _ = [] |- _ => exact (flat_map_nil _ _ Hx f Hf) end. }
  unfold check_field in Hcf. split_nil Hcf.
  match goal with Hx : check_name 3 _ _ = [] |- _ => apply on_err_nil in Hx; rename Hx into Hname end.
  match goal with Hx : check_tref fl _ (f_ty f) = [] |- _ => apply check_tref_nil in Hx; destruct Hx as [Hdef _] end.
  match goal with Hx : on_err (type_defined fl (tbase (f_ty f)) && _) _ = [] |- _ =>
    apply on_err_nil in Hx; rewrite Hdef in Hx; simpl in Hx; apply negb_false_iff in Hx; rename Hx into Hout end.
  repeat split; auto.
  - match goal with Hx : check_args fl _ 11 (fd_args f) = [] |- _ => unfold check_args in Hx; apply app_eq_nil in Hx; destruct Hx as [Hx _];
      pose proof (flat_map_nil _ _ Hx a H0) as Ha end.
    unfold check_arg in Ha. split_nil Ha.
    match goal with Hx : check_name 4 _ _ = [] |- _ => now apply on_err_nil in Hx end.
  - match goal with Hx : check_args fl _ 11 (fd_args f) = [] |- _ => unfold check_args in Hx; apply app_eq_nil in Hx; destruct Hx as [Hx _];
      pose proof (flat_map_nil _ _ Hx a H0) as Ha end.
    unfold check_arg in Ha. split_nil Ha.
    match goal with Hx : check_tref fl _ (a_ty a) = [] |- _ => now apply check_tref_nil in Hx end.
  - match goal with Hx : check_args fl _ 11 (fd_args f) = [] |- _ => unfold check_args in Hx; apply app_eq_nil in Hx; destruct Hx as [Hx _];
      pose proof (flat_map_nil _ _ Hx a H0) as Ha end.
    unfold check_arg in Ha. split_nil Ha.
    match goal with Hx : check_tref fl _ (a_ty a) = [] |- _ => apply check_tref_nil in Hx; destruct Hx as [Hd _] end.
    match goal with Hx : on_err (type_defined fl (tbase (a_ty a)) && _) _ = [] |- _ =>
      apply on_err_nil in Hx; rewrite Hd in Hx; simpl in Hx; now apply negb_false_iff in Hx end.
Qed.

(* the arguments of an accepted directive and the fields of an accepted input object are of defined
   input types at every wrapper depth *)
Theorem accepted_input_position items b a :
  ok items = true -> In b (fl_bases (accepted_flat items)) ->
  b_kind b = KDirective \/ b_kind b = KInput ->
  In (bkey b, a) (fl_inputs (accepted_flat items)) ->
  let fl := accepted_flat items in
  reserved (ad_name a) = false /\ type_defined fl (tbase (a_ty a)) = true /\ is_input_named fl (tbase (a_ty a)) = true.
Proof.
  intros H Hb Hk Ha fl. pose proof (ok_check_base items b H Hb) as Hc. unfold check_base in Hc. fold fl in Hc.
  assert (Hca : exists loc, check_arg fl [(fst (bkey b), b_name b)] loc a = []).
  { destruct Hk as [Hk|Hk]; rewrite Hk in Hc; split_nil Hc;
      match goal with
      | Hx : flat_map (fun ka => if key_eqb (fst ka) (bkey b) then check_arg fl _ ?loc (snd ka) else []) _ = [] |- _ =>
          exists loc; pose proof (flat_map_nil _ _ Hx (bkey b, a) Ha) as Hy; simpl in Hy;
          unfold key_eqb in Hy; rewrite !Nat.eqb_refl in Hy; exact Hy
      end. }
  destruct Hca as [loc Hca]. unfold check_arg in Hca. split_nil Hca.
  match goal with Hx : check_name 4 _ _ = [] |- _ => apply on_err_nil in Hx; rename Hx into Hname end.
  match goal with Hx : check_tref fl _ (a_ty a) = [] |- _ => apply check_tref_nil in Hx; destruct Hx as [Hd _] end.
  match goal with Hx : on_err (type_defined fl (tbase (a_ty a)) && _) _ = [] |- _ =>
    apply on_err_nil in Hx; rewrite Hd in Hx; simpl in Hx; apply negb_false_iff in Hx end.
  auto.
Qed.

(* non-empty definitions; union members are objects *)
Theorem accepted_nonempty items b :
  ok items = true -> In b (fl_bases (accepted_flat items)) ->
  let fl := accepted_flat items in
  match b_kind b with
  | KObject | KInterface => count_key (bkey b) (fl_fields fl) <> 0
  | KUnion => count_key (bkey b) (fl_members fl) <> 0 /\
              forall m, In (bkey b, m) (fl_members fl) -> has_kind fl KObject m = true
  | KEnum => count_key (bkey b) (fl_vals fl) <> 0
  | KInput => count_key (bkey b) (fl_inputs fl) <> 0
  | _ => True
  end.
Proof.
  intros H Hb fl. pose proof (ok_check_base items b H Hb) as Hc. unfold check_base in Hc. fold fl in Hc.
  destruct (b_kind b); try exact I; split_nil Hc;
    try (match goal with Hx : on_err (Nat.eqb (count_key _ _) 0) _ = [] |- _ =>
           apply on_err_nil in Hx; apply Nat.eqb_neq in Hx end).
  - assumption.
  - assumption.
  - split; [assumption|]. intros m Hm.
    match goal with Hx : flat_map _ (fl_members fl) = [] |- _ => pose proof (flat_map_nil _ _ Hx (bkey b, m) Hm) as Hy end.
    simpl in Hy. unfold key_eqb in Hy. rewrite !Nat.eqb_refl in Hy. simpl in Hy.
    destruct (type_defined fl m); simpl in Hy; [|discriminate].
    apply on_err_nil in Hy. now apply negb_false_iff in Hy.
  - assumption.
  - assumption.
Qed.

(* an object provides every field of every interface it declares, with a compatible type *)
Theorem accepted_implements items b i fi :
  ok items = true -> In b (fl_bases (accepted_flat items)) -> b_kind b = KObject ->
  let fl := accepted_flat items in
  In (bkey b, i) (fl_ifaces fl) -> In ((0, i), fi) (fl_fields fl) ->
  has_kind fl KInterface i = true /\
  exists fo, In fo (fields_of fl (0, b_name b)) /\ fd_name fo = fd_name fi /\ sub_type fl (f_ty fi) (f_ty fo) = true.
Proof.
  intros H Hb Hk fl Hi Hfi. pose proof (ok_check_base items b H Hb) as Hc. unfold check_base in Hc. fold fl in Hc.
  rewrite Hk in Hc. split_nil Hc.
  assert (Hin : In (bkey b, i) (filter (fun ki => key_eqb (fst ki) (bkey b)) (fl_ifaces fl))).
  { apply filter_In. split; [exact Hi|]. unfold key_eqb. simpl. now rewrite !Nat.eqb_refl. }
  pose proof (flat_map_nil _ _ Hc _ Hin) as Hu. unfold check_iface_use in Hu. simpl in Hu.
  destruct (type_defined fl i); simpl in Hu; [|discriminate].
  destruct (has_kind fl KInterface i) eqn:Ek; simpl in Hu; [|discriminate].
  split; [reflexivity|].
  pose proof (flat_map_nil _ _ Hu fi (fields_of_in _ _ _ Hfi)) as Hf. unfold check_impl_field in Hf.
  apply app_eq_nil in Hf. destruct Hf as [Hf1 Hf2]. apply on_err_nil in Hf1.
  assert (Hkey : snd (bkey b) = b_name b) by reflexivity. clear Hkey.
  destruct (filter (fun fo => Nat.eqb (fd_name fo) (fd_name fi)) (fields_of fl (0, b_name b))) as [|fo rest] eqn:Em; [discriminate|].
  assert (Hfo : In fo (filter (fun fo => Nat.eqb (fd_name fo) (fd_name fi)) (fields_of fl (0, b_name b)))) by (rewrite Em; now left).
  apply filter_In in Hfo. destruct Hfo as [Hfo1 Hfo2]. exists fo. split; [exact Hfo1|]. split; [now apply Nat.eqb_eq|].
  simpl in Hf2. apply app_eq_nil in Hf2. destruct Hf2 as [Hf2 _]. apply app_eq_nil in Hf2. destruct Hf2 as [Hf2 _].
  apply on_err_nil in Hf2. now apply negb_false_iff.
Qed.
