(* Sdl_proofs.v — what the string reader returns on escaped text: the two forms of a printed
   description are read back byte for byte, for every description. *)
From Coq Require Import List Arith NArith Bool Lia.
Import ListNotations.
From GG.gen Require Import Tables.
From GG Require Import Text Sdl.

Ltac nnorm :=
  change (nn 34) with 34 in *; change (nn 92) with 92 in *; change (nn 10) with 10 in *; change (nn 32) with 32 in *;
  change (nn 47) with 47 in *; change (nn 98) with 98 in *; change (nn 102) with 102 in *; change (nn 110) with 110 in *;
  change (nn 114) with 114 in *; change (nn 116) with 116 in *; change (nn 117) with 117 in *; change (nn 128) with 128 in *;
  change QUOTE with 34 in *; change BSL with 92 in *; change NL with 10 in *; change SP with 32 in *.

(* a scanner whose next bytes (the one looked ahead, if any, then the reader's) are l *)
Definition view (s : pst) : list byte := (if Nat.eqb (ondeck s) 0 then [] else [ondeck s]) ++ rest s.
Definition ready (s : pst) (l : list byte) : Prop := eof s = false /\ view s = l.

Lemma read_byte_ready s b l : ready s (b :: l) -> exists s1, read_byte s = ROk b s1 /\ ready s1 l.
Proof.
  intros (He & Hv). unfold view in Hv. unfold read_byte.
  destruct (Nat.eqb (ondeck s) 0) eqn:Eo; cbn [negb].
  - simpl in Hv. rewrite He, Hv.
    destruct (Nat.eqb (line s) 0); destruct (Nat.eqb b (nn 10)); eexists; (split; [reflexivity|]); split; reflexivity.
  - simpl in Hv. injection Hv as Hb Hr. subst. eexists. split; [reflexivity|]. split; [exact He|]. reflexivity.
Qed.

Lemma put_back_ready s b l : ready s l -> ondeck s = 0 -> b <> 0 -> ready (put_back b s) (b :: l).
Proof.
  intros (He & Hv) Ho Hb. split; [exact He|]. unfold view, put_back in *. simpl. rewrite Ho in Hv. simpl in Hv.
  destruct (Nat.eqb_spec b 0); [contradiction|]. simpl. now rewrite Hv.
Qed.

Lemma read_byte_ondeck s b s1 : read_byte s = ROk b s1 -> ondeck s1 = 0.
Proof.
  unfold read_byte. destruct (negb (Nat.eqb (ondeck s) 0)) eqn:E.
  - intros H. now inversion H.
  - apply negb_false_iff in E. destruct (eof s); [intros H; inversion H; subst; now apply Nat.eqb_eq|].
    destruct (Nat.eqb (line s) 0); destruct (rest s) as [|x r]; destruct (fault s);
      try (destruct (Nat.eqb x (nn 10))); intros H; inversion H; reflexivity.
Qed.

(* ---- the simple form: "..." with backslashes doubled ---- *)
Definition item1 (b : byte) : sitem := if Nat.eqb b 92 then SR 92 else SB b.

Lemma item1_bytes b : b <> 92 \/ b = 92 -> item_bytes (item1 b) = [b].
Proof.
  intros _. unfold item1. destruct (Nat.eqb_spec b 92) as [->|]; [|reflexivity].
  unfold item_bytes, utf8_enc. nnorm. reflexivity.
Qed.

Lemma items1_bytes body : items_bytes (map item1 body) = body.
Proof.
  induction body as [|b r IH]; [reflexivity|]. unfold items_bytes in *. simpl. rewrite IH.
  rewrite item1_bytes; [reflexivity|]. destruct (Nat.eq_dec b 92); auto.
Qed.

Theorem read_simple_escaped : forall body acc s k fuel,
  Forall (fun b => b <> 0 /\ b <> 34) body ->
  ready s (esc_backslash body ++ 34 :: k) -> length (esc_backslash body) < fuel ->
  exists s', read_simple fuel acc s = ROk (rev acc ++ map item1 body) s' /\ ready s' k.
Proof.
  induction body as [|b r IH]; intros acc s k fuel Hb Hr Hf.
  - simpl in *. destruct fuel as [|f]; [lia|]. destruct (read_byte_ready _ _ _ Hr) as (s1 & E & R1).
    cbn [read_simple]. rewrite E. nnorm. simpl. rewrite app_nil_r. eauto.
  - inversion Hb as [|? ? [Hb0 Hb34] Hb']; subst. unfold esc_backslash in *. cbn [flat_map] in *. nnorm.
    destruct (Nat.eqb_spec b 92) as [->|Hn].
    + (* \\ *)
      simpl in Hr, Hf. destruct fuel as [|f]; [lia|].
      destruct (read_byte_ready _ _ _ Hr) as (s1 & E1 & R1). destruct (read_byte_ready _ _ _ R1) as (s2 & E2 & R2).
      cbn [read_simple]. rewrite E1. nnorm. simpl. unfold read_escaped. rewrite E2. nnorm. simpl.
      destruct (IH (SR 92 :: acc) s2 k f Hb' R2 ltac:(lia)) as (s' & E' & R').
      exists s'. split; [|exact R']. rewrite E'. simpl. now rewrite <- app_assoc.
    + simpl in Hr, Hf. destruct fuel as [|f]; [lia|].
      destruct (read_byte_ready _ _ _ Hr) as (s1 & E1 & R1).
      cbn [read_simple]. rewrite E1. nnorm.
      destruct (Nat.eqb_spec b 34); [contradiction|]. destruct (Nat.eqb_spec b 92); [contradiction|].
      destruct (Nat.eqb_spec b 0); [contradiction|].
      destruct (IH (SB b :: acc) s1 k f Hb' R1 ltac:(lia)) as (s' & E' & R').
      exists s'. split; [|exact R']. rewrite E'. simpl. rewrite <- app_assoc. simpl.
      unfold item1. destruct (Nat.eqb_spec b 92); [contradiction|]. reflexivity.
Qed.

(* ---- the block form: """...""" with backslashes doubled and quotes escaped ---- *)
Definition esc2 (b : byte) : list byte := if Nat.eqb b 92 then [92; 92] else if Nat.eqb b 34 then [92; 34] else [b].
Definition item2 (b : byte) : sitem := if Nat.eqb b 92 then SR 92 else if Nat.eqb b 34 then SR 34 else SB b.

Lemma items2_bytes body : items_bytes (map item2 body) = body.
Proof.
  induction body as [|b r IH]; [reflexivity|]. unfold items_bytes in *. simpl. rewrite IH. f_equal.
  unfold item2. destruct (Nat.eqb_spec b 92) as [->|]; [reflexivity|]. destruct (Nat.eqb_spec b 34) as [->|]; reflexivity.
Qed.

Theorem read_block_escaped : forall body acc s k fuel,
  Forall (fun b => b <> 0) body ->
  ready s (flat_map esc2 body ++ 34 :: 34 :: 34 :: k) -> length (flat_map esc2 body) < fuel ->
  exists s', read_block fuel acc s = ROk (rev acc ++ map item2 body) s' /\ ready s' k.
Proof.
  induction body as [|b r IH]; intros acc s k fuel Hb Hr Hf.
  - simpl in *. destruct fuel as [|f]; [lia|].
    destruct (read_byte_ready _ _ _ Hr) as (s1 & E1 & R1). destruct (read_byte_ready _ _ _ R1) as (s2 & E2 & R2).
    destruct (read_byte_ready _ _ _ R2) as (s3 & E3 & R3).
    cbn [read_block]. rewrite E1. nnorm. cbn [Nat.eqb]. rewrite E2. cbn [Nat.eqb]. rewrite E3. cbn [Nat.eqb].
    rewrite app_nil_r. eauto.
  - inversion Hb as [|? ? Hb0 Hb']; subst. cbn [flat_map] in *. unfold esc2 at 1 in Hr. unfold esc2 at 1 in Hf.
    destruct (Nat.eqb_spec b 92) as [->|Hn92].
    + simpl in Hr, Hf. destruct fuel as [|f]; [lia|].
      destruct (read_byte_ready _ _ _ Hr) as (s1 & E1 & R1). destruct (read_byte_ready _ _ _ R1) as (s2 & E2 & R2).
      cbn [read_block]. rewrite E1. nnorm. cbn [Nat.eqb]. unfold read_escaped. rewrite E2. nnorm. cbn [Nat.eqb].
      destruct (IH (SR 92 :: acc) s2 k f Hb' R2 ltac:(lia)) as (s' & E' & R').
      exists s'. split; [|exact R']. rewrite E'. simpl. now rewrite <- app_assoc.
    + destruct (Nat.eqb_spec b 34) as [->|Hn34].
      * simpl in Hr, Hf. destruct fuel as [|f]; [lia|].
        destruct (read_byte_ready _ _ _ Hr) as (s1 & E1 & R1). destruct (read_byte_ready _ _ _ R1) as (s2 & E2 & R2).
        cbn [read_block]. rewrite E1. nnorm. cbn [Nat.eqb]. unfold read_escaped. rewrite E2. nnorm. cbn [Nat.eqb].
        destruct (IH (SR 34 :: acc) s2 k f Hb' R2 ltac:(lia)) as (s' & E' & R').
        exists s'. split; [|exact R']. rewrite E'. simpl. now rewrite <- app_assoc.
      * simpl in Hr, Hf. destruct fuel as [|f]; [lia|].
        destruct (read_byte_ready _ _ _ Hr) as (s1 & E1 & R1).
        cbn [read_block]. rewrite E1. nnorm.
        destruct (Nat.eqb_spec b 34); [contradiction|]. destruct (Nat.eqb_spec b 92); [contradiction|].
        destruct (Nat.eqb_spec b 0); [contradiction|].
        destruct (IH (SB b :: acc) s1 k f Hb' R1 ltac:(lia)) as (s' & E' & R').
        exists s'. split; [|exact R']. rewrite E'. simpl. rewrite <- app_assoc. simpl.
        unfold item2. destruct (Nat.eqb_spec b 92); [contradiction|]. destruct (Nat.eqb_spec b 34); [contradiction|]. reflexivity.
Qed.

(* ---- readString on the two forms ---- *)
Lemma esc_backslash_head body b r :
  Forall (fun b => b <> 0 /\ b <> 34) body -> esc_backslash body = b :: r -> b <> 0 /\ b <> 34.
Proof.
  destruct body as [|x xs]; [discriminate|]. intros H E. inversion H as [|? ? [H0 H34] _]; subst.
  unfold esc_backslash in E. cbn [flat_map] in E. nnorm. destruct (Nat.eqb_spec x 92) as [->|].
  - simpl in E. injection E as <- _. split; discriminate.
  - simpl in E. injection E as <- _. auto.
Qed.

Theorem read_string_simple body s k fuel :
  Forall (fun b => b <> 0 /\ b <> 34) body -> body <> [] ->
  ready s (34 :: esc_backslash body ++ 34 :: k) -> length (esc_backslash body) < fuel ->
  exists s', read_string fuel s = ROk (Some (map item1 body)) s' /\ ready s' k.
Proof.
  intros Hb Hne Hr Hf.
  destruct (esc_backslash body) as [|b2 r2] eqn:Ee.
  { destruct body as [|x xs]; [contradiction|]. unfold esc_backslash in Ee. cbn [flat_map] in Ee.
    destruct (Nat.eqb x BSL); discriminate. }
  destruct (esc_backslash_head _ _ _ Hb Ee) as [H0 H34].
  destruct (read_byte_ready _ _ _ Hr) as (s1 & E1 & R1). simpl in R1.
  destruct (read_byte_ready _ _ _ R1) as (s2 & E2 & R2).
  unfold read_string. rewrite E1. nnorm. cbn [Nat.eqb negb]. rewrite E2.
  destruct (Nat.eqb_spec b2 34); [contradiction|]. destruct (Nat.eqb_spec b2 0); [contradiction|].
  assert (Rp : ready (put_back b2 s2) (esc_backslash body ++ 34 :: k)).
  { rewrite Ee. simpl. apply put_back_ready; [exact R2|exact (read_byte_ondeck _ _ _ E2)|exact H0]. }
  destruct (read_simple_escaped body [] (put_back b2 s2) k fuel Hb Rp ltac:(rewrite Ee; exact Hf)) as (s' & E' & R').
  exists s'. rewrite E'. simpl. auto.
Qed.

Theorem read_string_block body s k fuel :
  Forall (fun b => b <> 0) body ->
  ready s (34 :: 34 :: 34 :: flat_map esc2 body ++ 34 :: 34 :: 34 :: k) -> length (flat_map esc2 body) < fuel ->
  exists s', read_string fuel s = ROk (Some (map item2 body)) s' /\ ready s' k.
Proof.
  intros Hb Hr Hf.
  destruct (read_byte_ready _ _ _ Hr) as (s1 & E1 & R1). destruct (read_byte_ready _ _ _ R1) as (s2 & E2 & R2).
  destruct (read_byte_ready _ _ _ R2) as (s3 & E3 & R3).
  unfold read_string. rewrite E1. nnorm. cbn [Nat.eqb negb]. rewrite E2. cbn [Nat.eqb]. rewrite E3. cbn [Nat.eqb negb].
  destruct (read_block_escaped body [] s3 k fuel Hb R3 Hf) as (s' & E' & R').
  exists s'. rewrite E'. simpl. auto.
Qed.

(* ---- what writeDesc writes, in terms of the two forms ---- *)
Definition shifted (sh : list byte) (d : list byte) : list byte :=
  flat_map (fun b => if Nat.eqb b 10 then 10 :: sh else [b]) d.

Lemma esc2_plain (l : list byte) : Forall (fun b : byte => b <> 92 /\ b <> 34) l -> flat_map esc2 l = l.
Proof.
  induction 1 as [|b l [H1 H2] _ IH]; [reflexivity|]. simpl. rewrite IH. unfold esc2.
  destruct (Nat.eqb_spec b 92); [contradiction|]. destruct (Nat.eqb_spec b 34); [contradiction|]. reflexivity.
Qed.

Lemma shift_plain n : Forall (fun b : byte => b <> 92 /\ b <> 34) (shift n).
Proof. unfold shift. nnorm. apply Forall_forall. intros x Hx. apply repeat_spec in Hx. subst. split; discriminate. Qed.

Lemma esc_block_app (sh l1 l2 : list byte) : esc_block sh (l1 ++ l2) = esc_block sh l1 ++ esc_block sh l2.
Proof. unfold esc_block. apply flat_map_app. Qed.
Lemma esc_backslash_cons b r : esc_backslash (b :: r) = (if Nat.eqb b 92 then [92; 92] else [b]) ++ esc_backslash r.
Proof. reflexivity. Qed.
Lemma shifted_cons (sh : list byte) (b : byte) (r : list byte) : shifted sh (b :: r) = (if Nat.eqb b 10 then 10 :: sh else [b]) ++ shifted sh r.
Proof. reflexivity. Qed.

Lemma esc_block_is_esc2 (sh d : list byte) :
  Forall (fun b : byte => b <> 92 /\ b <> 34) sh ->
  esc_block sh (esc_backslash d) = flat_map esc2 (shifted sh d).
Proof.
  intros Hs. induction d as [|b r IH]; [reflexivity|].
  rewrite esc_backslash_cons, shifted_cons, esc_block_app, flat_map_app, IH. f_equal.
  destruct (Nat.eqb_spec b 92) as [->|H92]; [reflexivity|].
  destruct (Nat.eqb_spec b 10) as [->|H10].
  - unfold esc_block. nnorm. simpl. rewrite app_nil_r. f_equal. symmetry. now apply esc2_plain.
  - unfold esc_block. nnorm. simpl. rewrite app_nil_r. unfold esc2. destruct (Nat.eqb_spec b 92); [contradiction|].
    destruct (Nat.eqb_spec b 34); [reflexivity|]. destruct (Nat.eqb_spec b 10); [contradiction|]. reflexivity.
Qed.

Lemma esc2_raw (sh d : list byte) :
  Forall (fun b : byte => b <> 92 /\ b <> 34) sh ->
  flat_map esc2 (10 :: sh ++ shifted sh d ++ 10 :: sh) = 10 :: sh ++ flat_map esc2 (shifted sh d) ++ 10 :: sh.
Proof.
  intros Hs.
  assert (Hsh : flat_map esc2 sh = sh) by (apply esc2_plain; exact Hs).
  cbn [flat_map]. change (esc2 10) with [10]. cbn [app]. f_equal.
  rewrite flat_map_app. f_equal; [exact Hsh|].
  rewrite flat_map_app. f_equal. cbn [flat_map]. change (esc2 10) with [10]. cbn [app]. f_equal. exact Hsh.
Qed.

(* the printed description from its first quote on *)
Definition desc_core (d : list byte) (indent : nat) : list byte :=
  let sh := shift indent in
  let e := esc_backslash d in
  if needs_block e then [34; 34; 34] ++ (10 :: sh ++ flat_map esc2 (shifted sh d) ++ 10 :: sh) ++ [34; 34; 34]
  else [34] ++ e ++ [34].

Lemma write_desc_layout d indent :
  d <> [] ->
  exists lead trail, write_desc d indent = lead ++ desc_core d indent ++ trail /\
                     Forall (fun b => is_ws b = true) lead /\ Forall (fun b => is_ws b = true) trail.
Proof.
  intros Hd. destruct d as [|x xs]; [contradiction|]. unfold write_desc, desc_core. nnorm.
  set (d := x :: xs). set (sh := shift indent).
  assert (Hws : Forall (fun b => is_ws b = true) sh).
  { unfold sh, shift. nnorm. apply Forall_forall. intros y Hy. apply repeat_spec in Hy. now subst. }
  exists ((if 0 <? indent then [10] else []) ++ sh).
  destruct (needs_block (esc_backslash d)).
  - exists (10 :: sh). split.
    + rewrite (esc_block_is_esc2 sh d (shift_plain indent)).
      repeat rewrite <- app_assoc. cbn [app]. repeat rewrite <- app_assoc. cbn [app]. reflexivity.
    + split; [|constructor; [reflexivity|exact Hws]].
      apply Forall_app. split; [destruct (0 <? indent); repeat constructor|exact Hws].
  - exists (10 :: sh). split.
    + rewrite <- !app_assoc. simpl. rewrite <- !app_assoc. reflexivity.
    + split; [|constructor; [reflexivity|exact Hws]].
      apply Forall_app. split; [destruct (0 <? indent); repeat constructor|exact Hws].
Qed.

(* reading the core back gives, before normalisation: the description itself (simple form), or the
   description with every line indented, between two line breaks (block form) *)
Definition raw_of (d : list byte) (indent : nat) : list byte :=
  if needs_block (esc_backslash d) then 10 :: shift indent ++ shifted (shift indent) d ++ 10 :: shift indent else d.

Lemma needs_block_false d : needs_block (esc_backslash d) = false -> Forall (fun b => b <> 34 /\ b <> 10) d.
Proof.
  unfold needs_block, esc_backslash. nnorm. induction d as [|b r IH]; intros H; [constructor|].
  cbn [flat_map] in H. rewrite existsb_app in H. apply orb_false_iff in H. destruct H as [H1 H2].
  constructor; [|now apply IH].
  destruct (Nat.eqb_spec b 92) as [->|]; [split; discriminate|].
  simpl in H1. rewrite orb_false_r in H1. apply orb_false_iff in H1. destruct H1 as [Ha Hb].
  apply Nat.eqb_neq in Ha. apply Nat.eqb_neq in Hb. auto.
Qed.

Theorem read_string_printed d indent s k :
  d <> [] -> Forall (fun b => b <> 0) d ->
  ready s (desc_core d indent ++ k) ->
  exists items s', read_string (length (desc_core d indent) + 1) s = ROk (Some items) s' /\ ready s' k /\
                   items_bytes items = raw_of d indent.
Proof.
  intros Hne H0 Hr. unfold desc_core, raw_of in *. destruct (needs_block (esc_backslash d)) eqn:En.
  - set (raw := 10 :: shift indent ++ shifted (shift indent) d ++ 10 :: shift indent) in *.
    assert (Hraw : Forall (fun b => b <> 0) raw).
    { unfold raw. constructor; [discriminate|]. apply Forall_app. split.
      - unfold shift. nnorm. apply Forall_forall. intros y Hy. apply repeat_spec in Hy. subst. discriminate.
      - apply Forall_app. split.
        + unfold shifted. apply Forall_forall. intros y Hy. apply in_flat_map in Hy. destruct Hy as (b & Hb & Hy).
          destruct (Nat.eqb b 10).
          * destruct Hy as [<-|Hy]; [discriminate|]. unfold shift in Hy. nnorm. apply repeat_spec in Hy. subst. discriminate.
          * destruct Hy as [<-|[]]. rewrite Forall_forall in H0. now apply H0.
        + constructor; [discriminate|]. unfold shift. nnorm. apply Forall_forall. intros y Hy. apply repeat_spec in Hy. subst. discriminate. }
    rewrite <- (esc2_raw (shift indent) d (shift_plain indent)) in Hr. fold raw in Hr.
    assert (Hr2 : ready s (34 :: 34 :: 34 :: flat_map esc2 raw ++ 34 :: 34 :: 34 :: k)).
    { rewrite <- app_assoc in Hr. cbn [app] in Hr. rewrite <- app_assoc in Hr. exact Hr. }
    clear Hr. rename Hr2 into Hr.
    destruct (read_string_block raw s k (length ([34; 34; 34] ++ (10 :: shift indent ++ flat_map esc2 (shifted (shift indent) d) ++ 10 :: shift indent) ++ [34; 34; 34]) + 1) Hraw Hr) as (s' & E & R).
    { rewrite <- (esc2_raw (shift indent) d (shift_plain indent)). fold raw. rewrite !app_length. cbn [length].
      match goal with |- ?a < 3 + (?b + 3) + 1 => change b with a; generalize a; intros n0; lia end. }
    exists (map item2 raw), s'. split; [exact E|]. split; [exact R|]. apply items2_bytes.
  - pose proof (needs_block_false d En) as Hq.
    assert (Hb : Forall (fun b => b <> 0 /\ b <> 34) d).
    { rewrite Forall_forall in *. intros x Hx. split; [now apply H0|now apply Hq]. }
    rewrite <- !app_assoc in Hr. simpl in Hr.
    destruct (read_string_simple d s k (length ([34] ++ esc_backslash d ++ [34]) + 1) Hb Hne Hr) as (s' & E & R).
    { rewrite !app_length. simpl. lia. }
    exists (map item1 d), s'. split; [exact E|]. split; [exact R|]. apply items1_bytes.
Qed.

(* ---- the line normalisation of readDesc ---- *)
Definition nonl (l : list byte) : Prop := Forall (fun b => b <> 10) l.
Definition allsp (l : list byte) : Prop := Forall (fun b => b = 32) l.
Definition wf_line (l : list byte) : Prop := l <> [] /\ nonl l /\ trim l = l.

Lemma split_nl_line : forall l cur r, nonl l -> split_nl cur (l ++ 10 :: r) = (rev cur ++ l) :: split_nl [] r.
Proof.
  induction l as [|b l IH]; intros cur r H; simpl.
  - nnorm. simpl. now rewrite app_nil_r.
  - inversion H as [|? ? Hb Hl]; subst. nnorm. destruct (Nat.eqb_spec b 10); [contradiction|].
    rewrite (IH (b :: cur) r Hl). simpl. now rewrite <- app_assoc.
Qed.

Lemma split_nl_last : forall l cur, nonl l -> split_nl cur l = [rev cur ++ l].
Proof.
  induction l as [|b l IH]; intros cur H; simpl.
  - now rewrite app_nil_r.
  - inversion H as [|? ? Hb Hl]; subst. nnorm. destruct (Nat.eqb_spec b 10); [contradiction|].
    rewrite (IH (b :: cur) Hl). simpl. now rewrite <- app_assoc.
Qed.

Lemma allsp_nonl sh : allsp sh -> nonl sh.
Proof. unfold allsp, nonl. intros H. eapply Forall_impl; [|exact H]. intros a ->. discriminate. Qed.

Lemma trim_left_allsp sh l : allsp sh -> trim_left (sh ++ l) = trim_left l.
Proof. induction 1 as [|b sh -> _ IH]; [reflexivity|]. simpl. exact IH. Qed.

Lemma trim_left_allsp_nil sh : allsp sh -> trim_left sh = [].
Proof. intros H. rewrite <- (app_nil_r sh). now rewrite trim_left_allsp. Qed.

Lemma trim_shifted_line sh l : allsp sh -> trim l = l -> trim (sh ++ l) = l.
Proof. intros Hs Hl. unfold trim in *. now rewrite trim_left_allsp. Qed.

Lemma trim_allsp sh : allsp sh -> trim sh = [].
Proof. intros H. unfold trim. rewrite (trim_left_allsp_nil sh H). reflexivity. Qed.

Lemma shifted_nonl sh l : nonl l -> shifted sh l = l.
Proof.
  induction 1 as [|b l Hb _ IH]; [reflexivity|]. rewrite shifted_cons, IH.
  destruct (Nat.eqb_spec b 10); [contradiction|]. reflexivity.
Qed.

Lemma shifted_app (sh l1 l2 : list byte) : shifted sh (l1 ++ l2) = shifted sh l1 ++ shifted sh l2.
Proof. unfold shifted. apply flat_map_app. Qed.

Lemma split_shifted_lines sh : allsp sh -> forall ls, ls <> [] -> Forall wf_line ls ->
  split_nl [] (sh ++ shifted sh (join_nl ls) ++ 10 :: sh) = map (fun l => sh ++ l) ls ++ [sh].
Proof.
  intros Hs. induction ls as [|l r IH]; intros Hne Hw; [contradiction|].
  inversion Hw as [|? ? (Hl1 & Hl2 & Hl3) Hr]; subst.
  destruct r as [|l2 r2].
  - simpl. rewrite (shifted_nonl sh l Hl2), app_assoc.
    rewrite split_nl_line; [|apply Forall_app; split; [now apply allsp_nonl|exact Hl2]].
    simpl. rewrite (split_nl_last sh [] (allsp_nonl sh Hs)). reflexivity.
  - change (join_nl (l :: l2 :: r2)) with (l ++ NL :: join_nl (l2 :: r2)). nnorm.
    rewrite shifted_app, (shifted_nonl sh l Hl2), shifted_cons. simpl (Nat.eqb 10 10). cbn iota.
    replace (sh ++ (l ++ (10 :: sh) ++ shifted sh (join_nl (l2 :: r2))) ++ 10 :: sh)
      with ((sh ++ l) ++ 10 :: (sh ++ shifted sh (join_nl (l2 :: r2)) ++ 10 :: sh))
      by (repeat rewrite <- app_assoc; simpl; repeat rewrite <- app_assoc; reflexivity).
    rewrite split_nl_line; [|apply Forall_app; split; [now apply allsp_nonl|exact Hl2]].
    rewrite (IH ltac:(discriminate) Hr). reflexivity.
Qed.

Lemma filter_trim_lines sh : allsp sh -> forall ls, Forall wf_line ls ->
  filter (fun l => match l with [] => false | _ => true end) (map trim (map (fun l => sh ++ l) ls ++ [sh])) = ls.
Proof.
  intros Hs. induction ls as [|l r IH]; intros Hw.
  - simpl. now rewrite (trim_allsp sh Hs).
  - inversion Hw as [|? ? (Hl1 & Hl2 & Hl3) Hr]; subst. simpl. rewrite (trim_shifted_line sh l Hs Hl3).
    destruct l as [|x xs]; [contradiction|]. f_equal. exact (IH Hr).
Qed.

(* the block form normalises to the description *)
Theorem norm_block sh ls :
  allsp sh -> ls <> [] -> Forall wf_line ls ->
  norm_desc (10 :: sh ++ shifted sh (join_nl ls) ++ 10 :: sh) = join_nl ls.
Proof.
  intros Hs Hne Hw. unfold norm_desc. cbn [split_nl]. nnorm. cbn [Nat.eqb rev].
  rewrite (split_shifted_lines sh Hs ls Hne Hw). cbn [map]. unfold trim at 1. cbn [trim_left rev filter].
  now rewrite (filter_trim_lines sh Hs ls Hw).
Qed.

(* the simple form: one line *)
Theorem norm_simple l : wf_line l -> norm_desc l = l.
Proof.
  intros (H1 & H2 & H3). unfold norm_desc. rewrite (split_nl_last l [] H2). simpl. rewrite H3.
  destruct l; [contradiction|reflexivity].
Qed.

Lemma shift_allsp n : allsp (shift n).
Proof. unfold allsp, shift. nnorm. apply Forall_forall. intros x Hx. now apply repeat_spec in Hx. Qed.

(* ---- the round trip of a printed description ---- *)
(* for every description made of non-empty lines without white space at their ends and without NUL,
   at every indentation, followed by anything: the reader positioned at the first quote of what
   writeDesc wrote returns the description and stops right after the closing quote *)
Theorem printed_description_reads_back ls indent s k :
  ls <> [] -> Forall wf_line ls -> Forall (fun b => b <> 0) (join_nl ls) ->
  let d := join_nl ls in
  ready s (desc_core d indent ++ k) ->
  exists s', read_desc (length (desc_core d indent) + 1) s = ROk d s' /\ ready s' k.
Proof.
  intros Hne Hw H0 d Hr.
  assert (Hd : d <> []).
  { unfold d. destruct ls as [|l r]; [contradiction|]. inversion Hw as [|? ? (Hl & _) _]; subst.
    destruct l; [contradiction|]. destruct r; discriminate. }
  destruct (read_string_printed d indent s k Hd H0 Hr) as (items & s' & E & R & Hb).
  exists s'. split; [|exact R]. unfold read_desc. rewrite E. f_equal. rewrite Hb. unfold raw_of.
  destruct (needs_block (esc_backslash d)) eqn:En.
  - unfold d. apply norm_block; [apply shift_allsp|exact Hne|exact Hw].
  - (* no line break in d: a single line *)
    pose proof (needs_block_false d En) as Hq.
    destruct ls as [|l r]; [contradiction|]. destruct r as [|l2 r2].
    + inversion Hw; subst. now apply norm_simple.
    + exfalso. unfold d in Hq. change (join_nl (l :: l2 :: r2)) with (l ++ NL :: join_nl (l2 :: r2)) in Hq.
      apply Forall_app in Hq. destruct Hq as [_ Hq]. inversion Hq as [|? ? [_ Hx] _]. now apply Hx.
Qed.

(* ---- the boolean notion of a canonical description used by the harness is that of the theorem ---- *)
Lemma split_nl_nonempty : forall d cur, split_nl cur d <> [].
Proof. induction d as [|b r IH]; intros cur; simpl; [discriminate|]. destruct (Nat.eqb b NL); [discriminate|apply IH]. Qed.

Lemma join_split : forall d cur, join_nl (split_nl cur d) = rev cur ++ d.
Proof.
  induction d as [|b r IH]; intros cur; simpl; [now rewrite app_nil_r|]. nnorm.
  destruct (Nat.eqb_spec b 10) as [->|Hn].
  - destruct (split_nl [] r) as [|x xs] eqn:E; [exfalso; exact (split_nl_nonempty r [] E)|].
    change (join_nl (rev cur :: x :: xs)) with (rev cur ++ NL :: join_nl (x :: xs)). rewrite <- E, (IH []). reflexivity.
  - rewrite (IH (b :: cur)). simpl. now rewrite <- app_assoc.
Qed.

Lemma split_lines_nonl : forall d cur, nonl cur -> Forall nonl (split_nl cur d).
Proof.
  induction d as [|b r IH]; intros cur Hc; simpl.
  - constructor; [|constructor]. unfold nonl in *. apply Forall_rev. exact Hc.
  - nnorm. destruct (Nat.eqb_spec b 10).
    + constructor; [unfold nonl in *; apply Forall_rev; exact Hc|]. apply IH. constructor.
    + apply IH. constructor; assumption.
Qed.

Theorem canonical_lines d :
  canonical d = true ->
  exists ls, d = join_nl ls /\ ls <> [] /\ Forall wf_line ls /\ Forall (fun b => b <> 0) d.
Proof.
  unfold canonical. intros H. apply andb_true_iff in H. destruct H as [H H3]. apply andb_true_iff in H. destruct H as [H1 H2].
  exists (split_nl [] d). split; [now rewrite join_split|]. split; [apply split_nl_nonempty|]. split.
  - rewrite forallb_forall in H2, H3. pose proof (split_lines_nonl d [] ltac:(constructor)) as Hn.
    rewrite Forall_forall in *. intros l Hl. split; [|split].
    + specialize (H2 l Hl). destruct l; [discriminate|discriminate].
    + now apply Hn.
    + specialize (H3 l Hl). destruct (list_eq_dec Nat.eq_dec (trim l) l); [assumption|discriminate].
  - apply negb_true_iff in H1. apply Forall_forall. intros b Hb Hz. subst.
    assert (existsb (fun b => Nat.eqb b 0) d = true) by (apply existsb_exists; exists 0; split; [exact Hb|reflexivity]).
    congruence.
Qed.

(* the statement in terms of the boolean notion *)
Corollary canonical_description_reads_back d indent s k :
  canonical d = true -> ready s (desc_core d indent ++ k) ->
  exists s', read_desc (length (desc_core d indent) + 1) s = ROk d s' /\ ready s' k.
Proof.
  intros Hc Hr. destruct (canonical_lines d Hc) as (ls & -> & Hne & Hw & H0).
  exact (printed_description_reads_back ls indent s k Hne Hw H0 Hr).
Qed.

(* ---- string constants: what writeString writes is read back rune for rune ---- *)
Definition wf_rune (r : wrune) : Prop :=
  128 <= wr_rune r -> Forall (fun b => 128 <= b) (wr_utf8 r).

Definition short_escaped (c : nat) : bool :=
  Nat.eqb c 8 || Nat.eqb c 12 || Nat.eqb c 10 || Nat.eqb c 13 || Nat.eqb c 9 || Nat.eqb c 92 || Nat.eqb c 34.

Definition ritems (r : wrune) : list sitem :=
  let c := wr_rune r in
  if c <? 128 then (if short_escaped c || (c <? 32) then [SR c] else [SB c]) else map SB (wr_utf8 r).

Definition rune_bytes (r : wrune) : list byte := if wr_rune r <? 128 then [wr_rune r] else wr_utf8 r.

Lemma ritems_bytes r : items_bytes (ritems r) = rune_bytes r.
Proof.
  unfold ritems, rune_bytes, items_bytes. destruct (Nat.ltb_spec (wr_rune r) 128) as [Hlt|Hge].
  - destruct (short_escaped (wr_rune r) || (wr_rune r <? 32)); simpl; [|reflexivity].
    unfold utf8_enc. nnorm. destruct (Nat.ltb_spec (wr_rune r) 128); [reflexivity|lia].
  - induction (wr_utf8 r) as [|b l IH]; [reflexivity|]. simpl. now rewrite IH.
Qed.

Lemma hex_val_hexdig_sweep : forallb (fun n => match hex_val (hexdig n) with Some m => Nat.eqb m n | None => false end) (seq 0 16) = true.
Proof. vm_compute. reflexivity. Qed.

Lemma hex_val_hexdig n : n < 16 -> hex_val (hexdig n) = Some n.
Proof.
  intros H. pose proof hex_val_hexdig_sweep as S. rewrite forallb_forall in S. specialize (S n).
  rewrite in_seq in S. specialize (S ltac:(lia)). destruct (hex_val (hexdig n)); [|discriminate].
  apply Nat.eqb_eq in S. now subst.
Qed.

Lemma hexdig_nonzero_sweep : forallb (fun n => negb (Nat.eqb (hexdig n) 0)) (seq 0 16) = true.
Proof. vm_compute. reflexivity. Qed.

Lemma read_hex4_written a b c d s l :
  a < 16 -> b < 16 -> c < 16 -> d < 16 ->
  ready s (hexdig a :: hexdig b :: hexdig c :: hexdig d :: l) ->
  exists s', read_hex4 4 0 s = ROk (((a * 16 + b) * 16 + c) * 16 + d) s' /\ ready s' l.
Proof.
  intros Ha Hb Hc Hd Hr.
  destruct (read_byte_ready _ _ _ Hr) as (s1 & E1 & R1). destruct (read_byte_ready _ _ _ R1) as (s2 & E2 & R2).
  destruct (read_byte_ready _ _ _ R2) as (s3 & E3 & R3). destruct (read_byte_ready _ _ _ R3) as (s4 & E4 & R4).
  exists s4. split; [|exact R4]. cbn [read_hex4]. change (nn 16) with 16.
  rewrite E1, (hex_val_hexdig a Ha), E2, (hex_val_hexdig b Hb), E3, (hex_val_hexdig c Hc), E4, (hex_val_hexdig d Hd).
  reflexivity.
Qed.

(* for a control character: the four digits writeString produces spell the character *)
Lemma control_digits_sweep :
  forallb (fun c => (c / 4096 <? 16) && ((c / 256) mod 16 <? 16) && ((c / 16) mod 16 <? 16) && (c mod 16 <? 16) &&
                    Nat.eqb ((((c / 4096) * 16 + (c / 256) mod 16) * 16 + (c / 16) mod 16) * 16 + c mod 16) c) (seq 0 32) = true.
Proof. vm_compute. reflexivity. Qed.

Lemma control_digits c : c < 32 ->
  c / 4096 < 16 /\ (c / 256) mod 16 < 16 /\ (c / 16) mod 16 < 16 /\ c mod 16 < 16 /\
  (((c / 4096) * 16 + (c / 256) mod 16) * 16 + (c / 16) mod 16) * 16 + c mod 16 = c.
Proof.
  intros H. pose proof control_digits_sweep as S. rewrite forallb_forall in S. specialize (S c).
  rewrite in_seq in S. specialize (S ltac:(lia)).
  apply andb_true_iff in S. destruct S as [S S5]. apply andb_true_iff in S. destruct S as [S S4].
  apply andb_true_iff in S. destruct S as [S S3]. apply andb_true_iff in S. destruct S as [S1 S2].
  apply Nat.ltb_lt in S1. apply Nat.ltb_lt in S2. apply Nat.ltb_lt in S3. apply Nat.ltb_lt in S4. apply Nat.eqb_eq in S5.
  repeat split; assumption.
Qed.

Ltac nnorm2 :=
  nnorm; change (nn 8) with 8 in *; change (nn 12) with 12 in *; change (nn 13) with 13 in *; change (nn 9) with 9 in *;
  change (nn 4096) with 4096 in *; change (nn 256) with 256 in *; change (nn 16) with 16 in *.

Definition read_escaped_char (e : byte) : option nat :=
  if Nat.eqb e 34 then Some 34 else if Nat.eqb e 92 then Some 92 else if Nat.eqb e 47 then Some 47
  else if Nat.eqb e 98 then Some 8 else if Nat.eqb e 102 then Some 12 else if Nat.eqb e 110 then Some 10
  else if Nat.eqb e 114 then Some 13 else if Nat.eqb e 116 then Some 9 else None.

Lemma read_escaped_by_char s e s2 x :
  read_byte s = ROk e s2 -> read_escaped_char e = Some x -> read_escaped s = ROk x s2.
Proof.
  intros E H. unfold read_escaped. rewrite E. unfold read_escaped_char in H. nnorm2.
  repeat match goal with
         | |- context [Nat.eqb e ?k] => destruct (Nat.eqb e k); [now inversion H|]
         end.
  discriminate.
Qed.

Lemma read_simple_more_fuel : forall f acc s res s' extra,
  read_simple f acc s = ROk res s' -> read_simple (extra + f) acc s = ROk res s'.
Proof.
  induction f as [|f IH]; intros acc s res s' extra H; [discriminate|].
  replace (extra + S f) with (S (extra + f)) by lia. cbn [read_simple] in *.
  destruct (read_byte s) as [b s1| |]; try discriminate.
  destruct (Nat.eqb b (nn 34)); [exact H|].
  destruct (Nat.eqb b (nn 92)).
  - destruct (read_escaped s1) as [x s2| |]; try discriminate. now apply IH.
  - destruct (Nat.eqb b 0); [discriminate|]. now apply IH.
Qed.

(* the bytes of a rune >= 0x80 are read one by one as themselves *)
Lemma read_simple_high : forall bs acc s l,
  Forall (fun b => 128 <= b) bs -> ready s (bs ++ l) ->
  exists s', (forall f, read_simple (length bs + f) acc s = read_simple f (rev (map SB bs) ++ acc) s') /\ ready s' l.
Proof.
  induction bs as [|b bs IH]; intros acc s l Hb Hr.
  - exists s. split; [intros f; reflexivity|exact Hr].
  - inversion Hb as [|? ? H128 Hb']; subst. simpl in Hr.
    destruct (read_byte_ready _ _ _ Hr) as (s1 & E1 & R1).
    destruct (IH (SB b :: acc) s1 l Hb' R1) as (s' & E' & R').
    exists s'. split; [|exact R']. intros f. cbn [length Nat.add read_simple]. rewrite E1. nnorm.
    destruct (Nat.eqb_spec b 34); [lia|]. destruct (Nat.eqb_spec b 92); [lia|]. destruct (Nat.eqb_spec b 0); [lia|].
    rewrite E'. simpl. now rewrite <- app_assoc.
Qed.

(* one rune: some n <= its written length units of fuel are used *)
Lemma read_simple_rune r : wf_rune r -> forall acc s l,
  ready s (write_rune r ++ l) ->
  exists s' n, n <= length (write_rune r) /\
    (forall f, read_simple (n + f) acc s = read_simple f (rev (ritems r) ++ acc) s') /\ ready s' l.
Proof.
  intros Hw acc s l Hr. unfold write_rune, ritems, short_escaped in *. nnorm2.
  set (c := wr_rune r) in *.
  assert (Short : forall e x, (x = 34 \/ x = 92 \/ x = 8 \/ x = 12 \/ x = 10 \/ x = 13 \/ x = 9) ->
            read_escaped_char e = Some x ->
            ready s (92 :: e :: l) ->
            exists s' n, n <= 2 /\ (forall f, read_simple (n + f) acc s = read_simple f (SR x :: acc) s') /\ ready s' l).
  { intros e x _ He Hr'. destruct (read_byte_ready _ _ _ Hr') as (s1 & E1 & R1). destruct (read_byte_ready _ _ _ R1) as (s2 & E2 & R2).
    exists s2, 1. split; [lia|]. split; [|exact R2]. intros f. cbn [read_simple Nat.add]. rewrite E1. nnorm2. cbn [Nat.eqb].
    rewrite (read_escaped_by_char _ _ _ _ E2 He). reflexivity. }
  destruct (Nat.eqb_spec c 8) as [E8|N8].
  { rewrite E8 in *. apply (Short 98 8); [tauto|reflexivity|exact Hr]. }
  destruct (Nat.eqb_spec c 12) as [E12|N12].
  { rewrite E12 in *. apply (Short 102 12); [tauto|reflexivity|exact Hr]. }
  destruct (Nat.eqb_spec c 10) as [E10|N10].
  { rewrite E10 in *. apply (Short 110 10); [tauto|reflexivity|exact Hr]. }
  destruct (Nat.eqb_spec c 13) as [E13|N13].
  { rewrite E13 in *. apply (Short 114 13); [tauto|reflexivity|exact Hr]. }
  destruct (Nat.eqb_spec c 9) as [E9|N9].
  { rewrite E9 in *. apply (Short 116 9); [tauto|reflexivity|exact Hr]. }
  destruct (Nat.eqb_spec c 92) as [E92|N92].
  { rewrite E92 in *. apply (Short 92 92); [tauto|reflexivity|exact Hr]. }
  destruct (Nat.eqb_spec c 34) as [E34|N34].
  { rewrite E34 in *. apply (Short 34 34); [tauto|reflexivity|exact Hr]. }
  cbn [orb] in *.
  destruct (Nat.ltb_spec c 128) as [H128|H128].
  - destruct (Nat.ltb_spec c 32) as [H32|H32].
    + (* \u00XY *)
      destruct (control_digits c H32) as (D1 & D2 & D3 & D4 & Dv).
      simpl in Hr. destruct (read_byte_ready _ _ _ Hr) as (s1 & E1 & R1). destruct (read_byte_ready _ _ _ R1) as (s2 & E2 & R2).
      destruct (read_hex4_written _ _ _ _ s2 l D1 D2 D3 D4 R2) as (s3 & E3 & R3).
      exists s3, 1. split; [simpl; lia|]. split; [|exact R3].
      intros f. cbn [read_simple Nat.add]. rewrite E1. nnorm2. cbn [Nat.eqb]. unfold read_escaped. rewrite E2. nnorm2. cbn [Nat.eqb].
      rewrite E3, Dv. reflexivity.
    + (* a printable ASCII character other than the quote and the backslash *)
      simpl in Hr. destruct (read_byte_ready _ _ _ Hr) as (s1 & E1 & R1).
      exists s1, 1. split; [simpl; lia|]. split; [|exact R1].
      intros f. cbn [read_simple Nat.add]. rewrite E1. nnorm2.
      destruct (Nat.eqb_spec c 34); [contradiction|]. destruct (Nat.eqb_spec c 92); [contradiction|].
      destruct (Nat.eqb_spec c 0); [lia|]. reflexivity.
  - destruct (read_simple_high (wr_utf8 r) acc s l (Hw H128) Hr) as (s' & E' & R').
    exists s', (length (wr_utf8 r)). split; [lia|]. split; [exact E'|exact R'].
Qed.

(* a whole string constant, after its opening quote *)
Theorem read_simple_written : forall rs acc s k,
  Forall wf_rune rs -> ready s (flat_map write_rune rs ++ 34 :: k) ->
  exists s', read_simple (length (flat_map write_rune rs) + 1) acc s = ROk (rev acc ++ flat_map ritems rs) s' /\ ready s' k.
Proof.
  induction rs as [|r rs IH]; intros acc s k Hw Hr.
  - simpl in *. destruct (read_byte_ready _ _ _ Hr) as (s1 & E1 & R1). exists s1. split; [|exact R1].
    rewrite E1. nnorm. cbn [Nat.eqb]. now rewrite app_nil_r.
  - inversion Hw as [|? ? Hr1 Hw']; subst. cbn [flat_map] in *. rewrite <- app_assoc in Hr.
    destruct (read_simple_rune r Hr1 acc s _ Hr) as (s1 & n & Hn & E1 & R1).
    destruct (IH (rev (ritems r) ++ acc) s1 k Hw' R1) as (s' & E' & R').
    exists s'. split; [|exact R'].
    rewrite app_length.
    replace (length (write_rune r) + length (flat_map write_rune rs) + 1)
      with (n + ((length (write_rune r) - n) + (length (flat_map write_rune rs) + 1))) by lia.
    rewrite E1.
    (* more fuel than needed does not change a successful read *)
    rewrite (read_simple_more_fuel _ _ _ _ _ (length (write_rune r) - n) E').
    rewrite rev_app_distr, rev_involutive, <- app_assoc. reflexivity.
Qed.

Lemma write_rune_head r b rest : wf_rune r -> write_rune r = b :: rest -> b <> 0 /\ b <> 34.
Proof.
  intros Hw E. unfold write_rune in E. nnorm2. set (c := wr_rune r) in *.
  repeat match type of E with
         | (if Nat.eqb c ?k then _ else _) = _ => destruct (Nat.eqb_spec c k); [injection E as <- _; split; discriminate|]
         end.
  destruct (Nat.ltb_spec c 128).
  - destruct (Nat.ltb_spec c 32); injection E as <- _; [split; discriminate|]. split; lia.
  - specialize (Hw H). rewrite E in Hw. inversion Hw; subst. split; lia.
Qed.

(* readString on a written, non-empty string constant followed by anything *)
Theorem read_string_written r rs s k :
  Forall wf_rune (r :: rs) -> write_rune r <> [] ->
  ready s (34 :: flat_map write_rune (r :: rs) ++ 34 :: k) ->
  exists s', read_string (length (flat_map write_rune (r :: rs)) + 1) s = ROk (Some (flat_map ritems (r :: rs))) s' /\ ready s' k.
Proof.
  intros Hw Hne Hr.
  destruct (flat_map write_rune (r :: rs)) as [|b2 r2] eqn:Ee.
  { cbn [flat_map] in Ee. apply app_eq_nil in Ee. destruct Ee. contradiction. }
  assert (Hh : b2 <> 0 /\ b2 <> 34).
  { cbn [flat_map] in Ee. destruct (write_rune r) as [|x xs] eqn:Ex; [contradiction|].
    simpl in Ee. injection Ee as <- _. inversion Hw; subst. eapply write_rune_head; eauto. }
  destruct Hh as [H0 H34].
  destruct (read_byte_ready _ _ _ Hr) as (s1 & E1 & R1). simpl in R1.
  destruct (read_byte_ready _ _ _ R1) as (s2 & E2 & R2).
  unfold read_string. rewrite E1. nnorm. cbn [Nat.eqb negb]. rewrite E2.
  destruct (Nat.eqb_spec b2 34); [contradiction|]. destruct (Nat.eqb_spec b2 0); [contradiction|].
  assert (Rp : ready (put_back b2 s2) (flat_map write_rune (r :: rs) ++ 34 :: k)).
  { rewrite Ee. simpl. apply put_back_ready; [exact R2|exact (read_byte_ondeck _ _ _ E2)|exact H0]. }
  destruct (read_simple_written (r :: rs) [] (put_back b2 s2) k Hw Rp) as (s' & E' & R').
  exists s'. rewrite Ee in E'. rewrite E'. simpl. auto.
Qed.

(* ... and its bytes are the bytes of the string *)
Corollary written_string_bytes rs : items_bytes (flat_map ritems rs) = flat_map rune_bytes rs.
Proof.
  induction rs as [|r rs IH]; [reflexivity|]. unfold items_bytes in *. cbn [flat_map].
  rewrite flat_map_app, IH. f_equal. apply ritems_bytes.
Qed.
