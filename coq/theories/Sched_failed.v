(* Sched_failed.v — a subscriber whose delivery failed is cleaned up, at the latest, by the second
   critical section of the publish that saw the failure; hence it receives nothing afterwards.
   Proofs about Sched.v (property C20), over every schedule of any number of threads. *)
From Coq Require Import List Arith ZArith Bool Lia Permutation.
Import ListNotations.
From GG Require Import ListUtil Registry Registry_proofs Sched Sched_proofs.

(* every subscriber in the registry was registered by a block of the log so far *)
Definition RegInv (l : state) (pre : list (nat * block)) : Prop :=
  forall s, In s l -> In (uid s) (map uid (registered pre)).

Lemma phase1_failed_in id ev (l : state) l1 c dl f :
  phase1 id ev l = (l1, c, dl, f) ->
  forall u m, In (u, m, false) dl -> In u f /\ In u (map uid l).
Proof.
  revert l1 c dl f. induction l as [|s l IH]; intros l1 c dl f H u m Hin.
  - simpl in H. inversion H; subst. inversion Hin.
  - cbn [phase1] in H. destruct (phase1 id ev l) as [[[t' c'] dl'] f'] eqn:E.
    specialize (IH _ _ _ _ eq_refl).
    destruct (matches id s).
    + destruct (send s) as [fail s'] eqn:Es. inversion H; subst. clear H.
      destruct Hin as [Hin|Hin].
      * inversion Hin; subst. destruct fail; simpl in *; [|discriminate].
        split; left; reflexivity.
      * destruct (IH u m Hin) as [A B]. split; [|right; exact B].
        destruct fail; [right|]; exact A.
    + inversion H; subst. destruct (IH u m Hin) as [A B]. split; [exact A|right; exact B].
Qed.

Lemma nth_error_set_nth_other {A} i j (x : A) (l : list A) :
  i <> j -> nth_error (set_nth j x l) i = nth_error l i.
Proof.
  revert i j. induction l as [|h l IH]; intros i j Hne; [destruct j; reflexivity|].
  destruct j, i; simpl; auto; try congruence.
Qed.

Lemma cleaned_incl_app a b u : In u (cleaned a) -> In u (cleaned (a ++ b)).
Proof. rewrite cleaned_app, in_app_iff. tauto. Qed.

Lemma registered_incl_app a b u :
  In u (map uid (registered a)) -> In u (map uid (registered (a ++ b))).
Proof. rewrite registered_app, map_app, in_app_iff. tauto. Qed.

Lemma tstep_reg (l : state) (pre : list (nat * block)) i t l1 t1 b :
  NoDup (map uid l) -> pub2_ok t ->
  RegInv l pre -> tstep l t = BOk l1 t1 b -> RegInv l1 (pre ++ [(i, b)]).
Proof.
  intros Hn Ht Hr Hs s Hin. rewrite registered_app, map_app, in_app_iff.
  destruct t as [news|id|id ev|f|]; cbn [tstep] in Hs.
  - inversion Hs; subst. unfold subscribe in Hin. rewrite in_app_iff in Hin. simpl. rewrite app_nil_r.
    destruct Hin as [Hin|Hin]; [left; auto|right; now apply in_map].
  - rewrite unsubscribe_spec in Hs. inversion Hs; subst. apply filter_In in Hin. left. apply Hr. tauto.
  - rewrite phase1_spec in Hs. inversion Hs; subst. apply in_map_iff in Hin.
    destruct Hin as [s0 [E Hin]]. subst s. rewrite uid_adv. left. auto.
  - simpl in Ht. rewrite phase2_conc in Hs by assumption. inversion Hs; subst.
    apply filter_In in Hin. left. apply Hr. tauto.
  - inversion Hs.
Qed.

(* the second section of a publish: every identity on its list of failed subscribers that was
   registered is among the cleaned ones once the section has run *)
Lemma pub2_cleans (l : state) (pre : list (nat * block)) f l2 cl i u :
  NoDup (map uid l) -> NoDup f -> Vis l pre ->
  phase2 f l [] = Some (l2, cl) ->
  In u f -> In u (map uid (registered pre)) ->
  In u (cleaned (pre ++ [(i, BPub2 cl)])).
Proof.
  intros Hn Hf Hv Hp Hu Hr. rewrite phase2_conc in Hp by assumption. inversion Hp; subst. clear Hp.
  rewrite cleaned_app, in_app_iff. simpl. rewrite app_nil_r.
  destruct (in_dec Nat.eq_dec u (cleaned pre)) as [Hc|Hc]; [left; exact Hc|right].
  apply in_map_iff in Hr. destruct Hr as [s [Eu Hs]].
  destruct (Hv s Hs) as [s' [H1 [H2 _]]]; [now rewrite Eu|].
  apply filter_In. split; [exact Hu|]. apply mem_In. rewrite <- Eu, <- H2. now apply in_map.
Qed.

(* from a configuration in which thread i is between the two sections of its publish with u on
   its list: whenever thread i's second section appears in the log, u has been cleaned up by then *)
Lemma exec_pub2_cleans (sched : list nat) :
  forall (l : state) (ts : list tstate) (d : list nat) (pre : list (nat * block)) l' ts' bs i f u,
  Inv l ts d -> Vis l pre -> RegInv l pre ->
  nth_error ts i = Some (TPub2 f) -> In u f -> In u (map uid (registered pre)) ->
  exec sched l ts = Some (l', ts', bs) ->
  forall b2 cl b3, bs = b2 ++ (i, BPub2 cl) :: b3 ->
  In u (cleaned (pre ++ b2 ++ [(i, BPub2 cl)])).
Proof.
  induction sched as [|j r IH]; intros l ts d pre l' ts' bs i f u Hi Hv Hg Hn Hu Hr He b2 cl b3 Hb.
  - simpl in He. inversion He; subst. destruct b2; discriminate.
  - cbn [exec] in He. destruct (nth_error ts j) as [t|] eqn:Hj; [|eapply IH; eauto].
    pose proof (tstep_inv l ts d j t Hi Hj) as Hs.
    destruct (tstep l t) as [l1 t1 b| |] eqn:Et; [|tauto|eapply IH; eauto].
    destruct Hs as [T I1].
    destruct (exec r l1 (set_nth j t1 ts)) as [[[l2 ts2] bs2]|] eqn:E2; [|discriminate].
    injection He as E_l E_ts E_bs. rewrite <- E_bs in Hb. clear E_bs E_l E_ts.
    assert (Hl : NoDup (map uid l)) by (destruct Hi as [N _]; eapply NoDup_app_l; eauto).
    assert (Ht : pub2_ok t).
    { destruct Hi as [_ F]. rewrite Forall_forall in F. apply F. eapply nth_error_In; eauto. }
    destruct (Nat.eq_dec j i) as [Eji|Nji].
    + (* thread i runs: this block is its second section *)
      subst j. rewrite Hn in Hj. inversion Hj; subst t. clear Hj.
      cbn [tstep] in Et. destruct (phase2 f l []) as [[l2' cl']|] eqn:Ep; [|discriminate].
      inversion Et; subst l1 t1 b. clear Et.
      assert (Hc : In u (cleaned (pre ++ [(i, BPub2 cl')]))).
      { eapply pub2_cleans; eauto. }
      destruct b2 as [|x b2].
      * simpl in Hb. inversion Hb; subst. exact Hc.
      * simpl in Hb. inversion Hb; subst x bs2.
        replace (pre ++ ((i, BPub2 cl') :: b2) ++ [(i, BPub2 cl)])
          with ((pre ++ [(i, BPub2 cl')]) ++ b2 ++ [(i, BPub2 cl)]) by (rewrite <- app_assoc; reflexivity).
        now apply cleaned_incl_app.
    + destruct b2 as [|x b2].
      * simpl in Hb. inversion Hb. congruence.
      * simpl in Hb. inversion Hb; subst x bs2. clear Hb.
        replace (pre ++ ((j, b) :: b2) ++ [(i, BPub2 cl)])
          with ((pre ++ [(j, b)]) ++ b2 ++ [(i, BPub2 cl)]) by (rewrite <- app_assoc; reflexivity).
        eapply (IH l1 (set_nth j t1 ts) _ (pre ++ [(j, b)]) l2 ts2 _ i f u); eauto.
        -- eapply tstep_vis; eauto.
        -- eapply tstep_reg; eauto.
        -- rewrite nth_error_set_nth_other by auto. exact Hn.
        -- now apply registered_incl_app.
Qed.

Lemma nth_error_set_nth_same {A} i (x y : A) (l : list A) :
  nth_error l i = Some y -> nth_error (set_nth i x l) i = Some x.
Proof.
  revert i. induction l as [|h l IH]; intros i H; [destruct i; discriminate|].
  destruct i; simpl in *; auto.
Qed.

Theorem exec_failed_cleaned (sched : list nat) :
  forall (l : state) (ts : list tstate) (d : list nat) (pre : list (nat * block)) l' ts' bs,
  Inv l ts d -> Vis l pre -> RegInv l pre ->
  exec sched l ts = Some (l', ts', bs) ->
  forall b1 i id c dl b2 cl b3 u m,
    bs = b1 ++ (i, BPub1 id c dl) :: b2 ++ (i, BPub2 cl) :: b3 ->
    In (u, m, false) dl ->
    In u (cleaned (pre ++ b1 ++ (i, BPub1 id c dl) :: b2 ++ [(i, BPub2 cl)])).
Proof.
  induction sched as [|j r IH]; intros l ts d pre l' ts' bs Hi Hv Hg He b1 i id c dl b2 cl b3 u m Hb Hf.
  - simpl in He. inversion He; subst. destruct b1; discriminate.
  - cbn [exec] in He. destruct (nth_error ts j) as [t|] eqn:Hj; [|eapply IH; eauto].
    pose proof (tstep_inv l ts d j t Hi Hj) as Hs.
    destruct (tstep l t) as [l1 t1 b| |] eqn:Et; [|tauto|eapply IH; eauto].
    destruct Hs as [T I1].
    destruct (exec r l1 (set_nth j t1 ts)) as [[[l2 ts2] bs2]|] eqn:E2; [|discriminate].
    injection He as E_l E_ts E_bs. rewrite <- E_bs in Hb. clear E_bs E_l E_ts.
    assert (Hl : NoDup (map uid l)) by (destruct Hi as [N _]; eapply NoDup_app_l; eauto).
    assert (Ht : pub2_ok t).
    { destruct Hi as [_ F]. rewrite Forall_forall in F. apply F. eapply nth_error_In; eauto. }
    destruct b1 as [|x b1].
    + (* this very block is the first section of the publish *)
      simpl in Hb. inversion Hb; subst j b bs2. clear Hb.
      destruct t as [news|id0|id0 ev|f0|]; cbn [tstep] in Et;
        try (inversion Et; fail);
        try (destruct (unsubscribe id0 l) as [[[? ?] ?]|]; inversion Et; fail);
        try (destruct (phase2 f0 l []) as [[? ?]|]; inversion Et; fail).
      destruct (phase1 id0 ev l) as [[[l1' c'] dl'] f] eqn:Ep.
      inversion Et; subst l1 t1 id0 c' dl'. clear Et.
      destruct (phase1_failed_in _ _ _ _ _ _ _ Ep u m Hf) as [Huf Hul].
      apply in_map_iff in Hul. destruct Hul as [s [Es Hs]].
      simpl app.
      replace (pre ++ (i, BPub1 id c dl) :: b2 ++ [(i, BPub2 cl)])
        with ((pre ++ [(i, BPub1 id c dl)]) ++ b2 ++ [(i, BPub2 cl)]) by (rewrite <- app_assoc; reflexivity).
      eapply (exec_pub2_cleans r l1' (set_nth i (TPub2 f) ts) _ (pre ++ [(i, BPub1 id c dl)]) l2 ts2 _ i f u); eauto.
      * eapply tstep_vis; eauto. cbn [tstep]. rewrite Ep. reflexivity.
      * eapply tstep_reg; eauto. cbn [tstep]. rewrite Ep. reflexivity.
      * eapply nth_error_set_nth_same; eauto.
      * apply registered_incl_app. rewrite <- Es. apply Hg. exact Hs.
    + simpl in Hb. inversion Hb; subst x bs2. clear Hb.
      replace (pre ++ ((j, b) :: b1) ++ (i, BPub1 id c dl) :: b2 ++ [(i, BPub2 cl)])
        with ((pre ++ [(j, b)]) ++ b1 ++ (i, BPub1 id c dl) :: b2 ++ [(i, BPub2 cl)])
        by (rewrite <- app_assoc; reflexivity).
      eapply (IH l1 _ _ (pre ++ [(j, b)])); eauto.
      * eapply tstep_vis; eauto.
      * eapply tstep_reg; eauto.
Qed.

(* nothing is delivered to an identity that is already dead *)
Lemma trace_ok_dead_no_delivery d t u :
  trace_ok d t -> In u d -> forall m ok, ~ In (Deliver u m ok) t.
Proof.
  revert d. induction t as [|e t IH]; intros d Ht Hd m ok Hin; [inversion Hin|].
  destruct e as [u' m' ok'|u']; simpl in Ht; destruct Ht as [Hn Ht].
  - destruct Hin as [Hin|Hin].
    + inversion Hin; subst. auto.
    + eapply IH; eauto.
  - destruct Hin as [Hin|Hin]; [discriminate|]. eapply (IH (u' :: d)); eauto. now right.
Qed.

Lemma cleaned_dead d bs u : In u (cleaned bs) -> In u (dead_after d (strace bs)).
Proof.
  revert d. induction bs as [|[i b] bs IH]; intros d H; [inversion H|].
  unfold strace in *. cbn [flat_map snd]. rewrite dead_after_app.
  assert (Hmono : forall t d0, In u d0 -> In u (dead_after d0 t)).
  { induction t as [|e t IHt]; intros d0 H0; simpl; auto. destruct e; auto. apply IHt. now right. }
  assert (Hcl : forall cl d0, In u cl -> In u (dead_after d0 (map Cleanup cl))).
  { induction cl as [|x cl IHc]; intros d0 Hx; [inversion Hx|]. simpl.
    destruct Hx as [->|Hx]; [apply Hmono; now left|now apply IHc]. }
  destruct b; simpl in H; cbn [btrace].
  - simpl. now apply IH.
  - apply in_app_iff in H. destruct H as [H|H]; [apply Hmono; now apply Hcl|now apply IH].
  - now apply IH.
  - apply in_app_iff in H. destruct H as [H|H]; [apply Hmono; now apply Hcl|now apply IH].
Qed.

(* ---- the executable form (Sched.late_okb) holds of every model execution ---- *)
Lemma after_pub2_split i bs r3 :
  after_pub2 i bs = Some r3 -> exists b2 cl, bs = b2 ++ (i, BPub2 cl) :: r3.
Proof.
  revert r3. induction bs as [|[j b] bs IH]; intros r3 H; [discriminate|].
  assert (Hrec : after_pub2 i bs = Some r3 -> exists b2 cl, (j, b) :: bs = b2 ++ (i, BPub2 cl) :: r3).
  { intros H'. destruct (IH _ H') as [b2 [cl E]]. exists ((j, b) :: b2), cl. simpl. now rewrite E. }
  destruct b; simpl in H; auto.
  destruct (Nat.eqb_spec j i) as [->|Hne]; auto.
  inversion H; subst. exists [], cl. reflexivity.
Qed.

Lemma delivers_to_strace u bs :
  delivers_to u bs = true -> exists m ok, In (Deliver u m ok) (strace bs).
Proof.
  unfold delivers_to. rewrite existsb_exists. intros [[i b] [Hin Hb]]. simpl in Hb.
  destruct b; try discriminate. apply mem_In in Hb. unfold del_uids in Hb.
  apply in_map_iff in Hb. destruct Hb as [[[u' m] ok] [Eu Hd]]. simpl in Eu. subst u'.
  exists m, ok. unfold strace. apply in_flat_map. exists (i, BPub1 id cnt dl). split; auto.
  simpl. apply in_map_iff. exists (u, m, ok). auto.
Qed.

Theorem exec_late_okb (sched : list nat) (ts : list tstate) l' ts' bs :
  Inv [] ts [] -> exec sched [] ts = Some (l', ts', bs) -> late_okb bs = true.
Proof.
  intros Hi He.
  assert (Hv : Vis [] []) by (intros s H; inversion H).
  assert (Hg : RegInv [] []) by (intros s H; inversion H).
  destruct (exec_safe sched [] ts [] Hi) as [l2 [ts2 [bs2 [E [T _]]]]].
  rewrite He in E. inversion E; subst bs2. clear E.
  assert (G : forall r b1, bs = b1 ++ r -> late_okb r = true).
  { induction r as [|[i b] r IH]; intros b1 Hb; [reflexivity|].
    assert (Hr : late_okb r = true).
    { apply (IH (b1 ++ [(i, b)])). rewrite <- app_assoc. exact Hb. }
    destruct b; simpl; auto. rewrite Hr, andb_true_r.
    destruct (after_pub2 i r) as [r3|] eqn:Ea; auto.
    destruct (after_pub2_split _ _ _ Ea) as [b2 [cl Er]]. subst r.
    apply forallb_forall. intros [[u m] ok] Hd. simpl.
    destruct ok; auto. simpl.
    destruct (delivers_to u r3) eqn:Ed; auto. exfalso.
    destruct (delivers_to_strace _ _ Ed) as [m' [ok' Hin]].
    pose proof (exec_failed_cleaned sched [] ts [] [] l' ts' bs Hi Hv Hg He
                  b1 i id cnt dl b2 cl r3 u m Hb Hd) as Hc. simpl in Hc.
    rewrite Hb in T.
    replace (b1 ++ (i, BPub1 id cnt dl) :: b2 ++ (i, BPub2 cl) :: r3)
      with ((b1 ++ (i, BPub1 id cnt dl) :: b2 ++ [(i, BPub2 cl)]) ++ r3) in T
      by (rewrite <- app_assoc; simpl; rewrite <- app_assoc; reflexivity).
    unfold strace in T. rewrite flat_map_app in T. apply trace_ok_app in T. destruct T as [_ T].
    eapply trace_ok_dead_no_delivery; eauto. apply (cleaned_dead [] _ u Hc). }
  apply (G bs []). reflexivity.
Qed.
