(* Tokens_proofs.v — the word-level half of the SDL round trip: a name (symbol, variable name, unquoted
   key, keyword) or a number token, written as it is and followed by any byte outside its class, is read
   back byte for byte by the scanner's token loops (readToken / readNumberToken of parser.go), which stop
   right in front of that byte - for words of any length, at any scanner position. *)
From Coq Require Import List Arith ZArith Bool Lia.
Import ListNotations.
From GG.gen Require Import Tables.
From GG Require Import Text Text_proofs Text_total Sdl Sdl_proofs.

(* the inner loop: every byte of w is in the class (and is no NUL), b0 is not *)
Theorem read_while_written (p : byte -> bool) : forall (w acc : list byte) s b0 k fuel,
  Forall (fun b => p b = true /\ b <> 0) w -> p b0 = false -> b0 <> 0 ->
  ready s (w ++ b0 :: k) -> length w < fuel ->
  exists s', read_while p fuel acc s = ROk (rev acc ++ w) s' /\ ready s' (b0 :: k).
Proof.
  induction w as [|a w IH]; intros acc s b0 k fuel Hw Hp Hb Hr Hf.
  - destruct fuel as [|f]; [simpl in Hf; lia|]. cbn [read_while].
    destruct (read_byte_ready _ _ _ Hr) as (s1 & E & R). rewrite E.
    destruct (Nat.eqb_spec b0 0) as [|_]; [contradiction|]. rewrite Hp.
    exists (put_back b0 s1). split; [now rewrite app_nil_r|].
    apply put_back_ready; [exact R| |exact Hb]. eapply read_byte_ondeck; exact E.
  - destruct fuel as [|f]; [simpl in Hf; lia|]. cbn [read_while].
    inversion Hw as [|x l [Hpa Ha] Hw']; subst.
    change ((a :: w) ++ b0 :: k) with (a :: (w ++ b0 :: k)) in Hr.
    destruct (read_byte_ready _ _ _ Hr) as (s1 & E & R). rewrite E.
    destruct (Nat.eqb_spec a 0) as [|_]; [contradiction|]. rewrite Hpa.
    destruct (IH (a :: acc) s1 b0 k f Hw' Hp Hb R) as (s' & E' & R'); [simpl in Hf; lia|].
    exists s'. split; [|exact R']. rewrite E'. cbn [rev]. now rewrite <- app_assoc.
Qed.

(* no byte of a class is NUL, white space or '#': from the tables of the current source *)
Lemma token_class_sweep :
  forallb (fun b => implb (is_token b) (negb (Nat.eqb b 0) && negb (is_space b) && negb (Nat.eqb b 35))) (seq 0 256) = true.
Proof. vm_compute. reflexivity. Qed.

Lemma num_class_sweep :
  forallb (fun b => implb (is_num b) (negb (Nat.eqb b 0))) (seq 0 256) = true.
Proof. vm_compute. reflexivity. Qed.

Lemma class_beyond (m : list nat) b : length m = 256 -> 256 <= b -> class_of m b = 46.
Proof. intros Hl Hb. unfold class_of. apply nth_overflow. lia. Qed.

Lemma is_token_small b : is_token b = true -> b < 256.
Proof.
  intros H. destruct (lt_dec b 256) as [|Hn]; [assumption|]. exfalso.
  unfold is_token in H. rewrite class_beyond in H; [|apply tables_length|lia]. vm_compute in H. discriminate.
Qed.

Lemma is_num_small b : is_num b = true -> b < 256.
Proof.
  intros H. destruct (lt_dec b 256) as [|Hn]; [assumption|]. exfalso.
  unfold is_num in H. rewrite class_beyond in H; [|apply tables_length|lia]. vm_compute in H. discriminate.
Qed.

Lemma is_token_props b : is_token b = true -> b <> 0 /\ is_space b = false /\ b <> 35.
Proof.
  intros H. pose proof (is_token_small b H) as Hb.
  pose proof token_class_sweep as S. rewrite forallb_forall in S. specialize (S b).
  rewrite in_seq in S. assert (Hi : 0 <= b < 0 + 256) by lia. specialize (S Hi). rewrite H in S. cbn [implb] in S.
  apply andb_prop in S. destruct S as [S S3]. apply andb_prop in S. destruct S as [S1 S2].
  apply negb_true_iff in S1, S2, S3. apply Nat.eqb_neq in S1, S3. auto.
Qed.

Lemma is_num_nonzero b : is_num b = true -> b <> 0.
Proof.
  intros H. pose proof (is_num_small b H) as Hb.
  pose proof num_class_sweep as S. rewrite forallb_forall in S. specialize (S b).
  rewrite in_seq in S. assert (Hi : 0 <= b < 0 + 256) by lia. specialize (S Hi). rewrite H in S. cbn [implb] in S.
  apply negb_true_iff in S. now apply Nat.eqb_neq in S.
Qed.

(* readNumberToken on a written number token *)
Theorem read_number_token_written (w : list byte) s b0 k fuel :
  Forall (fun b => is_num b = true) w -> is_num b0 = false -> b0 <> 0 ->
  ready s (w ++ b0 :: k) -> length w < fuel ->
  exists s', read_number_token fuel s = ROk w s' /\ ready s' (b0 :: k).
Proof.
  intros Hw Hp Hb Hr Hf. unfold read_number_token.
  apply (read_while_written is_num w [] s b0 k fuel); auto.
  eapply Forall_impl; [|exact Hw]. intros b H. split; [exact H|now apply is_num_nonzero].
Qed.

(* the scanner's view after one byte was read and put back *)
Lemma ready_first_ondeck s a l :
  ready s (a :: l) -> a <> 0 ->
  exists s1, read_byte s = ROk a s1 /\ ready (put_back a s1) (a :: l) /\ ondeck (put_back a s1) = a.
Proof.
  intros Hr Ha. destruct (read_byte_ready _ _ _ Hr) as (s1 & E & R). exists s1. split; [exact E|].
  split; [|reflexivity]. apply put_back_ready; [exact R| |exact Ha]. eapply read_byte_ondeck; exact E.
Qed.

(* readToken on a written name: nothing is skipped, the word is returned whole, the scanner stands in
   front of the byte that follows it *)
Theorem read_token_written (w : list byte) s b0 k fuel :
  w <> [] -> Forall (fun b => is_token b = true) w -> is_token b0 = false -> b0 <> 0 ->
  ready s (w ++ b0 :: k) -> length w < fuel ->
  exists s', read_token fuel s = ROk w s' /\ ready s' (b0 :: k).
Proof.
  intros Hne Hw Hp Hb Hr Hf. destruct w as [|a w]; [contradiction|].
  inversion Hw as [|x l Hta Hw']; subst. destruct (is_token_props a Hta) as (Ha0 & Hsp & H35).
  change ((a :: w) ++ b0 :: k) with (a :: (w ++ b0 :: k)) in Hr.
  destruct (ready_first_ondeck s a _ Hr Ha0) as (s1 & E & R1 & Ho).
  destruct fuel as [|f]; [simpl in Hf; lia|].
  unfold read_token. cbn [skip_space]. rewrite E.
  destruct (Nat.eqb_spec a 0) as [|_]; [contradiction|]. rewrite Hsp.
  change (nn 35) with 35. destruct (Nat.eqb_spec a 35) as [|_]; [contradiction|].
  destruct (Nat.eqb_spec a 0) as [|_]; [contradiction|].
  change (a :: (w ++ b0 :: k)) with ((a :: w) ++ b0 :: k) in R1.
  destruct (read_while_written is_token (a :: w) [] (put_back a s1) b0 k (S f)) as (s' & E' & R'); auto.
  - eapply Forall_impl; [|exact Hw]. intros b H. split; [exact H|]. now destruct (is_token_props b H).
  - exists s'. split; [exact E'|exact R'].
Qed.
