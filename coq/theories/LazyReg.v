(* LazyReg.v — the protocol of ggql's lazily registered bindings under concurrent requests.
   Shared cells (Object.meta, FieldDef.goField / method / args, the union member table) are bound on
   first use: under the cell's mutex a request stores the binding if the cell is still empty, and
   later reads it under the same mutex.  What is stored is a function of static data only (the
   schema and the Go type the application registered for the object type), never of the request.
   Part 1: determinacy - under every interleaving of any number of requests every read returns the
   static binding, so a request computes what it computes alone.
   Part 2: no deadlock - mutexes are taken in increasing level (fd.mu before obj.mu) and released
   last-in first-out, so in every reachable state some request can move.
   The decomposition of the code into these critical sections is the modelling assumption; the
   lock-discipline scan and the race-detector stress of the check look for its violations. *)
From Coq Require Import List Arith Bool Lia.
Import ListNotations.

Section Determinacy.
Variable binding : nat -> nat.          (* cell -> the value first use stores *)

Inductive op := Bind (c : nat) | Read (c : nat).
Definition store := list (nat * nat).

Fixpoint get (st : store) (c : nat) : option nat :=
  match st with
  | [] => None
  | (k, x) :: r => if Nat.eqb k c then Some x else get r c
  end.

Definition exec_op (st : store) (o : op) : store * list (nat * option nat) :=
  match o with
  | Bind c => (match get st c with Some _ => st | None => (c, binding c) :: st end, [])
  | Read c => (st, [(c, get st c)])
  end.

(* threads: the rest of each request's program and what it has read so far *)
Record conf := mkConf { c_store : store; c_progs : list (list op); c_reads : list (list (nat * option nat)) }.

Fixpoint update {A} (l : list A) (i : nat) (x : A) : list A :=
  match l, i with
  | [], _ => []
  | _ :: r, 0 => x :: r
  | y :: r, S j => y :: update r j x
  end.

(* thread i takes one step (nothing happens if it is finished or does not exist) *)
Definition step (cf : conf) (i : nat) : conf :=
  match nth_error (c_progs cf) i with
  | Some (o :: rest) =>
      let (st', out) := exec_op (c_store cf) o in
      mkConf st' (update (c_progs cf) i rest) (update (c_reads cf) i (nth i (c_reads cf) [] ++ out))
  | _ => cf
  end.

Definition run (cf : conf) (sched : list nat) : conf := fold_left step sched cf.

(* a request reads a cell only after its own first-use block for that cell *)
Fixpoint binds_before_reads (bound : list nat) (p : list op) : bool :=
  match p with
  | [] => true
  | Bind c :: r => binds_before_reads (c :: bound) r
  | Read c :: r => existsb (Nat.eqb c) bound && binds_before_reads bound r
  end.

Definition init (progs : list (list op)) : conf := mkConf [] progs (map (fun _ => []) progs).

End Determinacy.

(* ---- Part 2: lock order ---- *)
Inductive act := Acq (l : nat) | Rel.

(* a thread: the locks it holds (innermost first) and what it still does *)
Record thread := mkT { held : list nat; todo : list act }.

Definition holds_any (ts : list thread) (l : nat) : bool := existsb (fun t => existsb (Nat.eqb l) (held t)) ts.

(* thread t can take its next step in the presence of the others *)
Definition enabled (ts : list thread) (t : thread) : bool :=
  match todo t with
  | [] => false
  | Rel :: _ => match held t with [] => false | _ => true end
  | Acq l :: _ => negb (holds_any ts l)
  end.

Definition lstep_thread (t : thread) : thread :=
  match todo t with
  | [] => t
  | Rel :: r => mkT (tl (held t)) r
  | Acq l :: r => mkT (l :: held t) r
  end.

Definition lstep (ts : list thread) (i : nat) : list thread :=
  match nth_error ts i with
  | Some t => if enabled ts t then update ts i (lstep_thread t) else ts
  | None => ts
  end.

(* the discipline of the code: a lock is only taken when it is above every lock held (fd.mu = level
   of the field, obj.mu above all field locks), releases are last-in first-out, and a thread that
   holds a lock still has its release ahead *)
Fixpoint disciplined (h : list nat) (p : list act) : bool :=
  match p with
  | [] => match h with [] => true | _ => false end
  | Acq l :: r => forallb (fun x => x <? l) h && disciplined (l :: h) r
  | Rel :: r => match h with [] => false | _ :: h' => disciplined h' r end
  end.

Definition all_disciplined (ts : list thread) : bool := forallb (fun t => disciplined (held t) (todo t)) ts.
Definition finished (ts : list thread) : bool := forallb (fun t => match todo t with [] => true | _ => false end) ts.

(* no lock is held twice *)
Definition exclusive (ts : list thread) : Prop := NoDup (flat_map held ts).
