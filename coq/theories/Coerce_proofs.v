(* Coerce_proofs.v — input coercion delivers conforming values that denote what the client wrote (C04);
   output coercion delivers leaves of the declared shape or nothing (C05). *)
From Coq Require Import List Arith ZArith Bool Lia.
Import ListNotations.
From GG Require Import Coerce.
Open Scope Z_scope.

(* ---- induction principle for the nested type of input types ---- *)
Section CtyInd.
Variable P : cty -> Prop.
Hypothesis Hs : forall k, P (TScalar k).
Hypothesis He : forall vals, P (TEnum vals).
Hypothesis Hi : forall fields, Forall (fun f => P (fst (snd f))) fields -> P (TInput fields).
Hypothesis Hl : forall t, P t -> P (TListOf t).
Hypothesis Hn : forall t, P t -> P (TNonNullOf t).

Fixpoint cty_ind2 (t : cty) : P t :=
  match t with
  | TScalar k => Hs k
  | TEnum vals => He vals
  | TInput fields =>
      Hi fields ((fix go (fs : list (nat * (cty * option cv))) : Forall (fun f => P (fst (snd f))) fs :=
                    match fs with
                    | [] => Forall_nil _
                    | f :: r => Forall_cons _ (cty_ind2 (fst (snd f))) (go r)
                    end) fields)
  | TListOf b => Hl b (cty_ind2 b)
  | TNonNullOf b => Hn b (cty_ind2 b)
  end.
End CtyInd.

(* well-formed input types: field names distinct, declared defaults conform to their field's type *)
Fixpoint wf_cty (t : cty) : Prop :=
  match t with
  | TInput fields =>
      NoDup (map fst fields) /\
      (fix go (fs : list (nat * (cty * option cv))) : Prop :=
         match fs with
         | [] => True
         | f :: r => wf_cty (fst (snd f)) /\
                     match snd (snd f) with Some d => conforms (fst (snd f)) d = true /\ d <> CNil | None => True end /\ go r
         end) fields
  | TListOf b | TNonNullOf b => wf_cty b
  | _ => True
  end.

(* values as Go builds them: map keys are distinct *)
Fixpoint wf_cv (v : cv) : Prop :=
  match v with
  | CList l => (fix go (l : list cv) : Prop := match l with [] => True | x :: r => wf_cv x /\ go r end) l
  | CMap kvs => NoDup (map fst kvs) /\
                (fix go (l : list (nat * cv)) : Prop := match l with [] => True | x :: r => wf_cv (snd x) /\ go r end) kvs
  | _ => True
  end.

(* ---- scalars ---- *)
Lemma scalar_in_sound k v w :
  scalar_in k v = (w, false) -> scalar_conforms k w = true /\ denotes v w = true.
Proof.
  unfold scalar_in.
  destruct k; destruct v as [|ki z|[f|f|f|z|z]|s|z|b|f|b|e|e|l|kvs|t|t|]; simpl; intros H;
    repeat match type of H with
           | (if ?c then _ else _) = _ => destruct c eqn:?
           | match ?x with _ => _ end = _ => destruct x eqn:?
           end;
    try discriminate; inversion H; subst; simpl;
    repeat match goal with
           | H : _ && _ = true |- _ => apply andb_true_iff in H; destruct H
           | H : negb _ = true |- _ => apply negb_true_iff in H
           end;
    repeat split; auto;
    try (rewrite ?Z.eqb_refl, ?Nat.eqb_refl, ?eqb_reflx; auto);
    try (apply andb_true_iff; split; auto);
    try (rewrite ?Z.eqb_refl; auto);
    try (destruct b; reflexivity);
    try (destruct t; simpl; apply Z.eqb_refl);
    repeat match goal with Hf : ?x = false |- context [?x] => rewrite Hf end; auto.
Qed.

Lemma scalar_in_nil k v : scalar_in k v = (CNil, false) -> v = CNil.
Proof.
  unfold scalar_in.
  destruct k; destruct v as [|ki z|[f|f|f|z|z]|s|z|b|f|b|e|e|l|kvs|t|t|]; simpl; intros H; auto;
    repeat match type of H with
           | (if ?c then _ else _) = _ => destruct c eqn:?
           | match ?x with _ => _ end = _ => destruct x eqn:?
           end; try discriminate.
Qed.

Lemma coerce_input_nil t v : coerce_input t v = Some CNil -> v = CNil.
Proof.
  revert v. induction t using cty_ind2; intros v Hc.
  - simpl in Hc. destruct (scalar_in k v) as [w bad] eqn:E. destruct bad; [discriminate|].
    inversion Hc; subst. now apply scalar_in_nil in E.
  - destruct v; simpl in Hc; try discriminate; auto. destruct (existsb _ _); discriminate.
  - destruct v; simpl in Hc; try discriminate; auto.
    destruct (forallb _ _); [|discriminate].
    destruct (input_loop coerce_input kvs fields); discriminate.
  - destruct v; simpl in Hc; try discriminate; auto.
    destruct (list_loop (coerce_input t) l); discriminate.
  - destruct v; simpl in Hc; try discriminate; auto.
Qed.

Lemma lookupc_In {A} k (l : list (nat * A)) v : lookupc k l = Some v -> In (k, v) l.
Proof.
  induction l as [|[k' v'] l IH]; simpl; [discriminate|].
  destruct (Nat.eqb_spec k k'); intros H; [inversion H; subst; auto|auto].
Qed.

Lemma lookupc_nodup {A} k (l : list (nat * A)) v : NoDup (map fst l) -> In (k, v) l -> lookupc k l = Some v.
Proof.
  induction l as [|[k' v'] l IH]; simpl; intros Hn Hi; [tauto|].
  inversion Hn; subst. destruct Hi as [Hi|Hi].
  - inversion Hi; subst. now rewrite Nat.eqb_refl.
  - destruct (Nat.eqb_spec k k'); auto. subst. exfalso. apply H1.
    change k' with (fst (k', v)). now apply in_map.
Qed.

Lemma lookupc_notin {A} k (l : list (nat * A)) : ~ In k (map fst l) -> lookupc k l = None.
Proof.
  induction l as [|[k' v'] l IH]; simpl; intros H; auto.
  destruct (Nat.eqb_spec k k'); [subst; tauto|]. apply IH. tauto.
Qed.

Lemma conforms_nil t : is_nn t = false -> conforms t CNil = true.
Proof. destruct t as [k| | | |]; simpl; intros H; auto; try discriminate. destruct k; reflexivity. Qed.

Definition wf_list (l : list cv) : Prop :=
  (fix go (l : list cv) : Prop := match l with [] => True | x :: r => wf_cv x /\ go r end) l.
Definition denotes_list (a b : list cv) : bool :=
  (fix go (a b : list cv) : bool :=
     match a, b with
     | [], [] => true
     | x :: r, y :: r' => denotes x y && go r r'
     | _, _ => false
     end) a b.

Lemma list_loop_sound (ci : cv -> option cv) (t : cty) :
  (forall x x', wf_cv x -> ci x = Some x' -> conforms t x' = true /\ denotes x x' = true) ->
  forall l l', wf_list l -> list_loop ci l = Some l' ->
    forallb (conforms t) l' = true /\ denotes_list l l' = true.
Proof.
  intros Hci. induction l as [|x r IH]; intros l' Hw Hg; simpl in Hg.
  - inversion Hg; subst. auto.
  - destruct (list_loop ci r) as [r'|] eqn:Er; [|discriminate].
    destruct (ci x) as [x'|] eqn:Ex; [|discriminate]. inversion Hg; subst.
    destruct Hw as [Hx Hr]. destruct (Hci x x' Hx Ex) as [C D]. destruct (IH r' Hr eq_refl) as [C' D'].
    split; [simpl; now rewrite C, C'|]. unfold denotes_list in *. simpl. now rewrite D, D'.
Qed.

Definition wf_fields (fs : list (nat * (cty * option cv))) : Prop :=
  (fix go (fs : list (nat * (cty * option cv))) : Prop :=
     match fs with
     | [] => True
     | f :: r => wf_cty (fst (snd f)) /\
                 match snd (snd f) with Some d => conforms (fst (snd f)) d = true /\ d <> CNil | None => True end /\ go r
     end) fs.
Definition wf_kvs (kvs : list (nat * cv)) : Prop :=
  (fix go (l : list (nat * cv)) : Prop := match l with [] => True | x :: r => wf_cv (snd x) /\ go r end) kvs.

Lemma wf_kvs_In kvs k x : wf_kvs kvs -> In (k, x) kvs -> wf_cv x.
Proof.
  induction kvs as [|y kvs IH]; intros Hw Hi; [inversion Hi|].
  destruct Hw as [H1 H2]. destruct Hi as [Hi|Hi]; [subst; auto|auto].
Qed.

Lemma input_loop_sound (ci : cty -> cv -> option cv) (kvs : list (nat * cv)) :
  (forall t v, ci t v = Some CNil -> v = CNil) ->
  NoDup (map fst kvs) -> wf_kvs kvs ->
  forall fs m,
    NoDup (map fst fs) -> wf_fields fs ->
    Forall (fun f => wf_cty (fst (snd f)) -> forall v0 w0, wf_cv v0 -> ci (fst (snd f)) v0 = Some w0 ->
                     conforms (fst (snd f)) w0 = true /\ denotes v0 w0 = true) fs ->
    input_loop ci kvs fs = Some m ->
    (forall k, In k (map fst m) -> In k (map fst fs)) /\
    (forall f, In f fs ->
       match lookupc (fst f) m with
       | Some w' => conforms (fst (snd f)) w' = true /\ (snd (snd f) <> None -> w' <> CNil)
       | None => is_nn (fst (snd f)) = false /\ snd (snd f) = None
       end) /\
    (forall k x, In (k, x) kvs -> x <> CNil -> In k (map fst fs) ->
       exists y, lookupc k m = Some y /\ denotes x y = true).
Proof.
  intros Hcinil Hkn Hkv. induction fs as [|f r IHr]; intros m Hnd' Hwfs Hall Hg.
  - simpl in Hg. inversion Hg; subst m. simpl. repeat split; try tauto.
  - simpl in Hg. destruct (input_loop ci kvs r) as [m'|] eqn:Er; [|discriminate].
    inversion Hnd' as [|? ? Hnf Hnr]; subst. inversion Hall as [|? ? Hf Hr]; subst.
    destruct Hwfs as [Hwf_f [Hd_f Hwf_r]].
    specialize (IHr m' Hnr Hwf_r Hr eq_refl). destruct IHr as [IK [IC ID]].
    assert (Hfresh : ~ In (fst f) (map fst m')) by (intros Hc'; apply Hnf; auto).
    assert (Hcase : exists entry : option cv,
               m = match entry with Some e => (fst f, e) :: m' | None => m' end /\
               match entry with
               | Some e => (conforms (fst (snd f)) e = true /\ (snd (snd f) <> None -> e <> CNil)) /\
                           (forall x, lookupc (fst f) kvs = Some x -> x <> CNil -> denotes x e = true)
               | None => is_nn (fst (snd f)) = false /\ snd (snd f) = None /\
                         (forall x, lookupc (fst f) kvs = Some x -> x = CNil)
               end).
    { destruct (lookupc (fst f) kvs) as [ov|] eqn:El.
      - destruct (is_cnil ov) eqn:Eo.
        + destruct ov; try discriminate.
          destruct (snd (snd f)) as [d|] eqn:Ed.
          * inversion Hg; subst. exists (Some d). split; auto. split; [split; [tauto|intros _; tauto]|].
            intros x Hx Hn. inversion Hx; subst. congruence.
          * destruct (is_nn (fst (snd f))) eqn:En; [discriminate|]. inversion Hg; subst.
            exists (Some CNil). split; auto. split.
            -- split; [now apply conforms_nil|congruence].
            -- intros x Hx Hn. inversion Hx; subst. congruence.
        + destruct (ci (fst (snd f)) ov) as [w0|] eqn:Ec; [|discriminate]. inversion Hg; subst.
          exists (Some w0). split; auto.
          assert (Hwov : wf_cv ov).
          { apply (wf_kvs_In kvs (fst f) ov Hkv). now apply lookupc_In. }
          destruct (Hf Hwf_f ov w0 Hwov Ec) as [C D]. split.
          { split; [exact C|]. intros _ Hw0. subst w0. apply Hcinil in Ec. subst ov. discriminate. }
          intros x Hx Hn. inversion Hx; subst. exact D.
      - destruct (snd (snd f)) as [d|] eqn:Ed.
        + inversion Hg; subst. exists (Some d). split; auto. split; [split; [tauto|intros _; tauto]|].
          intros x Hx. discriminate.
        + destruct (is_nn (fst (snd f))) eqn:En; [discriminate|]. inversion Hg; subst.
          exists None. split; auto. repeat split; auto. intros x Hx. discriminate. }
    destruct Hcase as [entry [Em Hent]]. subst m. split; [|split].
    + intros k Hk. destruct entry; simpl in *; [destruct Hk as [Hk|Hk]; auto|auto].
    + intros f0 [Hf0|Hf0].
      * subst f0. destruct entry as [e|]; simpl.
        -- rewrite Nat.eqb_refl. tauto.
        -- rewrite (lookupc_notin _ _ Hfresh). tauto.
      * assert (Hne : fst f0 <> fst f) by (intros E; apply Hnf; rewrite <- E; now apply in_map).
        destruct entry as [e|]; simpl; [destruct (Nat.eqb_spec (fst f0) (fst f)); [tauto|]|]; apply IC; auto.
    + intros k x Hkx Hxn Hk. simpl in Hk.
      assert (Hl : lookupc k kvs = Some x) by (apply lookupc_nodup; auto).
      destruct Hk as [Hk|Hk].
      * subst k. destruct entry as [e|]; simpl.
        -- rewrite Nat.eqb_refl. exists e. split; auto. destruct Hent as [_ Hd]. auto.
        -- destruct Hent as [_ [_ Hn]]. specialize (Hn x Hl). contradiction.
      * destruct (ID k x Hkx Hxn Hk) as [y [Hy Dy]].
        assert (Hne : k <> fst f) by (intros E; subst; auto).
        destruct entry as [e|]; simpl; [destruct (Nat.eqb_spec k (fst f)); [tauto|]|]; eauto.
Qed.

Theorem coerce_input_sound :
  forall t, wf_cty t -> forall v w, wf_cv v -> coerce_input t v = Some w ->
    conforms t w = true /\ denotes v w = true.
Proof.
  induction t using cty_ind2; intros Hwf v w Hv Hc.
  - (* scalars *)
    simpl in Hc. destruct (scalar_in k v) as [w' bad] eqn:E. destruct bad; [discriminate|].
    inversion Hc; subst. simpl. now apply scalar_in_sound.
  - (* enums *)
    destruct v; simpl in Hc; try discriminate.
    + inversion Hc; subst. auto.
    + destruct (existsb (Nat.eqb e) vals) eqn:E; [|discriminate]. inversion Hc; subst. simpl.
      rewrite E, Nat.eqb_refl. auto.
  - (* input objects *)
    destruct v as [| | | | | | | | | |l|kvs| | |]; simpl in Hc; try discriminate.
    { inversion Hc; subst. auto. }
    destruct (forallb (fun kv => declared fields (fst kv)) kvs) eqn:Hdecl; [|discriminate].
    simpl in Hwf. destruct Hwf as [Hnd Hwf]. simpl in Hv. destruct Hv as [Hkn Hkv].
    destruct (input_loop coerce_input kvs fields) as [m|] eqn:Eg; [|discriminate].
    simpl in Hc. inversion Hc; subst w. clear Hc.
    destruct (input_loop_sound coerce_input kvs coerce_input_nil Hkn Hkv fields m Hnd Hwf H Eg) as [HK [HC HD]].
    split.
    + (* conforms *)
      simpl. apply andb_true_iff. split.
      * apply forallb_forall. intros [k y] Hky. simpl. unfold declared. apply existsb_exists.
        assert (Hk : In k (map fst fields)) by (apply HK; change k with (fst (k, y)); now apply in_map).
        apply in_map_iff in Hk. destruct Hk as [f [E Hf]]. exists f. split; auto. unfold if_name. rewrite E. apply Nat.eqb_refl.
      * clear - HC. assert (G : forall fs, (forall f, In f fs -> In f fields) ->
            (fix go (fs : list (nat * (cty * option cv))) : bool :=
               match fs with
               | [] => true
               | f :: r =>
                   match lookupc (fst f) m with
                   | Some w' => conforms (fst (snd f)) w' && match snd (snd f) with Some _ => negb (is_cnil w') | None => true end
                   | None => negb (is_nn (fst (snd f))) && match snd (snd f) with Some _ => false | None => true end
                   end && go r
               end) fs = true).
        { induction fs as [|f r IH]; intros Hs; auto. apply andb_true_iff. split; [|apply IH; intros; apply Hs; now right].
          specialize (HC f (Hs f (or_introl eq_refl))).
          destruct (lookupc (fst f) m) as [w'|].
          - destruct HC as [HC HN]. rewrite HC. simpl. destruct (snd (snd f)); [|reflexivity].
            destruct w'; try reflexivity. exfalso. apply HN; [discriminate|reflexivity].
          - destruct HC as [H1 H2]. rewrite H1, H2. reflexivity. }
        apply G. auto.
    + (* denotes *)
      simpl. clear - HD Hdecl Hkn.
      assert (G : forall a, (forall kv, In kv a -> In kv kvs) ->
          (fix go (a : list (nat * cv)) : bool :=
             match a with
             | [] => true
             | kv :: r => (if is_cnil (snd kv) then true
                           else match lookupc (fst kv) m with Some y => denotes (snd kv) y | None => false end) && go r
             end) a = true).
      { induction a as [|[k x] r IH]; intros Hs; auto. apply andb_true_iff. split; [|apply IH; intros; apply Hs; now right].
        simpl. destruct (is_cnil x) eqn:Ex; auto.
        assert (Hin : In (k, x) kvs) by (apply Hs; now left).
        assert (Hdk : In k (map fst fields)).
        { rewrite forallb_forall in Hdecl. specialize (Hdecl _ Hin). simpl in Hdecl. unfold declared in Hdecl.
          apply existsb_exists in Hdecl. destruct Hdecl as [f [Hf E]]. apply Nat.eqb_eq in E. unfold if_name in E.
          rewrite <- E. now apply in_map. }
        destruct (HD k x Hin) as [y [Hy Dy]]; auto.
        - intros ->. discriminate.
        - now rewrite Hy. }
      apply G. auto.
  - (* lists *)
    destruct v as [| | | | | | | | | |l|kvs| | |]; simpl in Hc; try discriminate.
    { inversion Hc; subst. auto. }
    destruct (list_loop (coerce_input t) l) as [l'|] eqn:Eg; [|discriminate].
    simpl in Hc. inversion Hc; subst. simpl in Hv.
    destruct (list_loop_sound (coerce_input t) t (fun x x' Hx Hcx => IHt Hwf x x' Hx Hcx) l l' Hv Eg) as [C D].
    simpl. auto.
  - (* non-null *)
    simpl in Hc. destruct v eqn:Ev; try discriminate;
      (destruct (IHt Hwf _ _ Hv Hc) as [C D]; split; auto; simpl;
       destruct w; auto; apply coerce_input_nil in Hc; discriminate).
Qed.

(* ---- C05: output coercion of a leaf either fails with nothing, or yields the declared shape ---- *)
Theorem leaf_out_shape :
  forall t v r, leaf_out t v = (r, false) ->
    has_shape t r = true \/ (exists vals s, t = TEnum vals /\ r = CStr s) \/ (exists vals e, t = TEnum vals /\ r = CSymName e /\ existsb (Nat.eqb e) vals = false).
Proof.
  intros t v r H. destruct t as [k|vals|fields|b|b]; simpl in H; try discriminate.
  - left. unfold scalar_out in H.
    destruct k; destruct v as [|ki z|[f|f|f|z|z]|s|z|b|f|b|e|e|l|kvs|t|t|]; simpl in H;
      repeat match type of H with
             | (if ?c then _ else _) = _ => destruct c eqn:?
             | match ?x with _ => _ end = _ => destruct x eqn:?
             end;
      try discriminate; inversion H; subst; simpl; auto;
      repeat match goal with
             | H : _ && _ = true |- _ => apply andb_true_iff in H; destruct H
             end;
      try (apply andb_true_iff; split; auto); auto.
    all: unfold in32, in64 in *;
      repeat match goal with
             | H : _ && _ = true |- _ => apply andb_true_iff in H; destruct H
             end; auto.
  - destruct v as [|ki z|fv|s|z|b|f|b|e|e|l|kvs|t|t|]; try discriminate; inversion H; subst; auto.
    + right; left; eauto.
    + destruct (existsb (Nat.eqb e) vals) eqn:E; [left; simpl; now rewrite E|right; right; eauto].
Qed.

Theorem leaf_out_error_nil : forall t v r, leaf_out t v = (r, true) -> r = CNil.
Proof.
  intros t v r H. destruct t as [k|vals|fields|b|b]; simpl in H; try (inversion H; reflexivity).
  - unfold scalar_out in H.
    destruct k; destruct v as [|ki z|[f|f|f|z|z]|s|z|b|f|b|e|e|l|kvs|t|t|]; simpl in H;
      repeat match type of H with
             | (if ?c then _ else _) = _ => destruct c eqn:?
             | match ?x with _ => _ end = _ => destruct x eqn:?
             end; try discriminate; inversion H; reflexivity.
  - destruct v; inversion H; reflexivity.
Qed.

Theorem leaf_out_faithful : forall t v r, leaf_out t v = (r, false) -> out_faithful v r = true.
Proof.
  intros t v r H. destruct t as [k|vals|fields|b|b]; simpl in H; try discriminate.
  - unfold scalar_out in H.
    destruct k; destruct v as [|ki z|[f|f|f|z|z]|s|z|b|f|b|e|e|l|kvs|t|t|]; simpl in H;
      repeat match type of H with
             | (if ?c then _ else _) = _ => destruct c eqn:?
             | match ?x with _ => _ end = _ => destruct x eqn:?
             end;
      try discriminate; inversion H; subst; simpl; auto;
      try (apply Z.eqb_refl); try (destruct b; reflexivity);
      try (rewrite Z.eqb_refl; auto);
      repeat match goal with Hs : s_int ?s = Some _ |- context [s_int ?s] => rewrite Hs end;
      try (apply Z.eqb_refl).
  - destruct v; try discriminate; inversion H; subst; simpl; auto. apply Z.eqb_refl.
Qed.
