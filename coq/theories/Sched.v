(* Sched.v — interleaving semantics of the subscription registry (property C20).
   Each public call is the sequence of critical sections it executes under root.subLock:
     subscribe   = [append]
     Unsubscribe = [reverse scan, delete, clean up]
     AddEvent    = [phase 1: match/render/send/collect failed] ; gap ; [phase 2: remove failed, clean up]
   A schedule is a list of thread indices; scheduling a finished thread is a stutter step.
   Any number of threads.  No proofs here. *)
From Coq Require Import List Arith ZArith Bool.
Import ListNotations.
From GG Require Import Registry.

Inductive tstate :=
| TSub (news : list sub)
| TUnsub (id : nat)
| TPub1 (id : nat) (ev : event)
| TPub2 (failed : list nat)
| TDone.

(* what one critical section did, as the subscribers and the caller see it *)
Inductive block :=
| BSub (news : list sub)
| BUnsub (id cnt : nat) (cl : list nat)
| BPub1 (id cnt : nat) (dl : list (nat * msg * bool))
| BPub2 (cl : list nat).

Inductive bres := BOk (l : state) (t : tstate) (b : block) | BPanic | BIdle.

Definition tstep (l : state) (t : tstate) : bres :=
  match t with
  | TSub news => BOk (subscribe news l) TDone (BSub news)
  | TUnsub id =>
      match unsubscribe id l with
      | Some (l', c, cl) => BOk l' TDone (BUnsub id c cl)
      | None => BPanic
      end
  | TPub1 id ev =>
      let '(l1, c, dl, f) := phase1 id ev l in BOk l1 (TPub2 f) (BPub1 id c dl)
  | TPub2 f =>
      match phase2 f l [] with
      | Some (l2, cl) => BOk l2 TDone (BPub2 cl)
      | None => BPanic
      end
  | TDone => BIdle
  end.

Fixpoint set_nth {A} (i : nat) (x : A) (l : list A) : list A :=
  match l, i with
  | [], _ => []
  | _ :: t, 0 => x :: t
  | h :: t, S j => h :: set_nth j x t
  end.

(* run a schedule; None = some critical section hit an out-of-range index (a Go panic) *)
Fixpoint exec (sched : list nat) (l : state) (ts : list tstate) : option (state * list tstate * list (nat * block)) :=
  match sched with
  | [] => Some (l, ts, [])
  | i :: r =>
      match nth_error ts i with
      | None => exec r l ts
      | Some t =>
          match tstep l t with
          | BIdle => exec r l ts
          | BPanic => None
          | BOk l' t' b =>
              match exec r l' (set_nth i t' ts) with
              | None => None
              | Some (l'', ts'', bs) => Some (l'', ts'', (i, b) :: bs)
              end
          end
      end
  end.

Definition btrace (b : block) : list outev :=
  match b with
  | BSub _ => []
  | BUnsub _ _ cl => map Cleanup cl
  | BPub1 _ _ dl => map (fun d => Deliver (fst (fst d)) (snd (fst d)) (snd d)) dl
  | BPub2 cl => map Cleanup cl
  end.

Definition strace (bs : list (nat * block)) : list outev := flat_map (fun x => btrace (snd x)) bs.

(* identities the threads are still going to register *)
Fixpoint pending (ts : list tstate) : list nat :=
  match ts with
  | [] => []
  | TSub news :: r => map uid news ++ pending r
  | _ :: r => pending r
  end.

Definition all_done (ts : list tstate) : bool :=
  forallb (fun t => match t with TDone => true | _ => false end) ts.

(* subscribers registered / identities cleaned up by a sequence of blocks *)
Fixpoint registered (bs : list (nat * block)) : list sub :=
  match bs with
  | [] => []
  | (_, BSub news) :: r => news ++ registered r
  | _ :: r => registered r
  end.

Fixpoint cleaned (bs : list (nat * block)) : list nat :=
  match bs with
  | [] => []
  | (_, BUnsub _ _ cl) :: r => cl ++ cleaned r
  | (_, BPub2 cl) :: r => cl ++ cleaned r
  | _ :: r => cleaned r
  end.

(* initial thread states are calls that have not started *)
Definition initial (t : tstate) : bool :=
  match t with TPub2 _ | TDone => false | _ => true end.

(* ---- the C20 guarantees as executable checks on a block log (used as oracle on the
   implementation's observed log; Sched_proofs shows every model execution passes them) ---- *)
Definition del_uids (dl : list (nat * msg * bool)) : list nat := map (fun x => fst (fst x)) dl.

Fixpoint nodupb (l : list nat) : bool :=
  match l with [] => true | x :: r => negb (memb x r) && nodupb r end.

Definition once_okb (bs : list (nat * block)) : bool :=
  forallb (fun x => match snd x with
                    | BPub1 _ c dl => nodupb (del_uids dl) && Nat.eqb c (length dl)
                    | _ => true end) bs.

Fixpoint visible_okb (pre : list (nat * block)) (bs : list (nat * block)) : bool :=
  match bs with
  | [] => true
  | (i, b) :: r =>
      match b with
      | BPub1 id _ dl =>
          forallb (fun s => negb (matches id s) || memb (uid s) (cleaned pre) || memb (uid s) (del_uids dl))
                  (registered pre)
      | _ => true
      end && visible_okb (pre ++ [(i, b)]) r
  end.

(* a subscriber whose delivery failed receives nothing once the publish that saw the failure has
   run its second critical section: the blocks after the first BPub2 of thread i, and the check *)
Definition delivers_to (u : nat) (bs : list (nat * block)) : bool :=
  existsb (fun x => match snd x with BPub1 _ _ dl => memb u (del_uids dl) | _ => false end) bs.

Fixpoint after_pub2 (i : nat) (bs : list (nat * block)) : option (list (nat * block)) :=
  match bs with
  | [] => None
  | (j, BPub2 _) :: r => if Nat.eqb j i then Some r else after_pub2 i r
  | _ :: r => after_pub2 i r
  end.

Fixpoint late_okb (bs : list (nat * block)) : bool :=
  match bs with
  | [] => true
  | (i, BPub1 _ _ dl) :: r =>
      match after_pub2 i r with
      | None => true
      | Some r3 => forallb (fun d => snd d || negb (delivers_to (fst (fst d)) r3)) dl
      end && late_okb r
  | _ :: r => late_okb r
  end.
