(* Json_proofs.v — the string writer of value.go against the reference JSON reader written from
   RFC 8259 (Json.v): every written string constant is a valid JSON string and decodes to the
   string's items; hence a string value written in JSON mode is valid JSON text decoding to it. *)
From Coq Require Import List Arith NArith Bool Lia.
Import ListNotations.
From GG.gen Require Import Tables.
From GG Require Import Text Json Sdl Sdl_proofs.

Lemma json_hex4_written a b c d l :
  a < 16 -> b < 16 -> c < 16 -> d < 16 ->
  json_hex4 4 (hexdig a :: hexdig b :: hexdig c :: hexdig d :: l) 0 = Some (((a * 16 + b) * 16 + c) * 16 + d, l).
Proof.
  intros Ha Hb Hc Hd. cbn [json_hex4]. change (nn 16) with 16.
  now rewrite (hex_val_hexdig a Ha), (hex_val_hexdig b Hb), (hex_val_hexdig c Hc), (hex_val_hexdig d Hd).
Qed.

Lemma json_string_more_fuel : forall f l acc res extra,
  json_string f l acc = Some res -> json_string (extra + f) l acc = Some res.
Proof.
  induction f as [|f IH]; intros l acc res extra H; [discriminate|].
  replace (extra + S f) with (S (extra + f)) by lia. cbn [json_string] in *.
  destruct l as [|b r]; [discriminate|].
  destruct (Nat.eqb b (nn 34)); [exact H|].
  destruct (Nat.eqb b (nn 92)).
  - destruct r as [|e r]; [discriminate|].
    repeat match goal with
           | H : (if Nat.eqb e ?k then json_string _ _ _ else _) = _ |- (if Nat.eqb e ?k then _ else _) = _ =>
               destruct (Nat.eqb e k); [now apply IH|]
           end.
    destruct (Nat.eqb e (nn 117)); [|discriminate].
    destruct (json_hex4 4 r 0) as [[u r']|]; [now apply IH|discriminate].
  - destruct (b <? nn 32); [discriminate|]. now apply IH.
Qed.

(* the items the reference reader produces for a rune are those of Json.rune_items *)
Lemma rune_items_is_ritems r : rune_items r = ritems r.
Proof.
  unfold rune_items, ritems, short_escaped. nnorm2. set (c := wr_rune r).
  destruct (Nat.ltb_spec c 128); [|reflexivity].
  destruct (Nat.ltb_spec c 32) as [H32|H32].
  - rewrite orb_true_r. reflexivity.
  - destruct (Nat.eqb_spec c 8); [lia|]. destruct (Nat.eqb_spec c 12); [lia|]. destruct (Nat.eqb_spec c 10); [lia|].
    destruct (Nat.eqb_spec c 13); [lia|]. destruct (Nat.eqb_spec c 9); [lia|]. simpl.
    destruct (Nat.eqb c 92); destruct (Nat.eqb c 34); reflexivity.
Qed.

Lemma json_string_high : forall bs acc l,
  Forall (fun b => 128 <= b) bs ->
  forall f, json_string (length bs + f) (bs ++ l) acc = json_string f l (rev (map SB bs) ++ acc).
Proof.
  induction bs as [|b bs IH]; intros acc l Hb f; [reflexivity|].
  inversion Hb as [|? ? H128 Hb']; subst. cbn [length Nat.add app json_string]. nnorm2.
  destruct (Nat.eqb_spec b 34); [lia|]. destruct (Nat.eqb_spec b 92); [lia|].
  destruct (Nat.ltb_spec b 32); [lia|].
  rewrite (IH (SB b :: acc) l Hb' f). simpl. now rewrite <- app_assoc.
Qed.

(* one rune *)
Lemma json_string_rune r : wf_rune r -> forall acc l,
  exists n, n <= length (write_rune r) /\
    forall f, json_string (n + f) (write_rune r ++ l) acc = json_string f l (rev (ritems r) ++ acc).
Proof.
  intros Hw acc l. unfold write_rune, ritems, short_escaped in *. nnorm2. set (c := wr_rune r) in *.
  destruct (Nat.eqb_spec c 8) as [E|N8]; [exists 1; split; [simpl; lia|]; intros f; rewrite E; reflexivity|].
  destruct (Nat.eqb_spec c 12) as [E|N12]; [exists 1; split; [simpl; lia|]; intros f; rewrite E; reflexivity|].
  destruct (Nat.eqb_spec c 10) as [E|N10]; [exists 1; split; [simpl; lia|]; intros f; rewrite E; reflexivity|].
  destruct (Nat.eqb_spec c 13) as [E|N13]; [exists 1; split; [simpl; lia|]; intros f; rewrite E; reflexivity|].
  destruct (Nat.eqb_spec c 9) as [E|N9]; [exists 1; split; [simpl; lia|]; intros f; rewrite E; reflexivity|].
  destruct (Nat.eqb_spec c 92) as [E|N92]; [exists 1; split; [simpl; lia|]; intros f; rewrite E; reflexivity|].
  destruct (Nat.eqb_spec c 34) as [E|N34]; [exists 1; split; [simpl; lia|]; intros f; rewrite E; reflexivity|].
  cbn [orb].
  destruct (Nat.ltb_spec c 128) as [H128|H128].
  - destruct (Nat.ltb_spec c 32) as [H32|H32].
    + destruct (control_digits c H32) as (D1 & D2 & D3 & D4 & Dv).
      exists 1. split; [simpl; lia|]. intros f. cbn [Nat.add app json_string]. nnorm2. cbn [Nat.eqb].
      rewrite (json_hex4_written _ _ _ _ l D1 D2 D3 D4), Dv. reflexivity.
    + exists 1. split; [simpl; lia|]. intros f. cbn [Nat.add app json_string]. nnorm2.
      destruct (Nat.eqb_spec c 34); [contradiction|]. destruct (Nat.eqb_spec c 92); [contradiction|].
      destruct (Nat.ltb_spec c 32); [lia|]. reflexivity.
  - exists (length (wr_utf8 r)). split; [lia|]. intros f. apply json_string_high. exact (Hw H128).
Qed.

(* a whole string, after its opening quote: the reference reader accepts it, stops right behind the
   closing quote and returns the string's items *)
Theorem json_string_written : forall rs acc k,
  Forall wf_rune rs ->
  json_string (length (flat_map write_rune rs) + 1) (flat_map write_rune rs ++ 34 :: k) acc
  = Some (rev acc ++ flat_map rune_items rs, k).
Proof.
  induction rs as [|r rs IH]; intros acc k Hw.
  - simpl. nnorm2. cbn [Nat.eqb]. now rewrite app_nil_r.
  - inversion Hw as [|? ? Hr Hw']; subst. cbn [flat_map]. rewrite <- app_assoc.
    destruct (json_string_rune r Hr acc (flat_map write_rune rs ++ 34 :: k)) as (n & Hn & E).
    rewrite app_length.
    replace (length (write_rune r) + length (flat_map write_rune rs) + 1)
      with (n + ((length (write_rune r) - n) + (length (flat_map write_rune rs) + 1))) by lia.
    rewrite E. rewrite (json_string_more_fuel _ _ _ _ (length (write_rune r) - n) (IH (rev (ritems r) ++ acc) k Hw')).
    rewrite rev_app_distr, rev_involutive, <- app_assoc, rune_items_is_ritems. reflexivity.
Qed.

Lemma json_value_string f l :
  json_value (S f) (34 :: l) =
  match json_string (length l + 1) l [] with Some (s, r') => Some (JStr s, r') | None => None end.
Proof.
  cbn [json_value]. replace (skip_ws (34 :: l)) with (34 :: l) by reflexivity.
  change (Nat.eqb 34 (nn 34)) with true. cbn iota. reflexivity.
Qed.

(* a string value written in JSON mode, at any indent setting, is valid JSON text and decodes (with
   the reference reader) to the string *)
Theorem json_written_string_value_valid sdl indent s :
  Forall wf_rune s ->
  json_parse (write_value sdl indent (WStr s) 0) = Some (to_json (WStr s)).
Proof.
  intros Hw. cbn [write_value to_json]. unfold write_string, json_parse. nnorm2.
  set (w := flat_map write_rune s). cbn [app].
  match goal with |- context [json_value ?n _] => remember n as fuel eqn:Ef end.
  destruct fuel as [|f]; [exfalso; lia|].
  match goal with |- context [json_value (S f) ?l] => change l with (34 :: (w ++ [34])) end.
  rewrite json_value_string.
  pose proof (json_string_written s [] [] Hw) as Hj. fold w in Hj. cbn [rev app] in Hj.
  pose proof (json_string_more_fuel _ _ _ _ 1 Hj) as Hj1.
  assert (El : length (w ++ [34]) + 1 = 1 + (length w + 1)) by (rewrite app_length; simpl; lia).
  match goal with |- context [json_string ?n ?l ?a] => replace (json_string n l a) with (json_string (1 + (length w + 1)) (w ++ [34]) []) end.
  - rewrite Hj1. reflexivity.
  - f_equal. symmetry. exact El.
Qed.
