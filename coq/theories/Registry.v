(* Registry.v — executable model of the subscription registry of pkg/ggql/root.go
   (subscribe / Unsubscribe / AddEvent), written to mirror the Go code loop by loop,
   and the abstract specification of property C19.  No proofs in this file. *)
From Coq Require Import List Arith ZArith Bool.
Import ListNotations.

(* A subscriber is external behaviour, entering as data of the case:
   uid   : identity of the *Subscription pointer (unique per registration)
   pat   : Match(eventID): None = wildcard, Some p = exact match on p
   sel   : the subscriber's own selection set (indices of event fields), as it reads under the
           variables of the operation that made the subscription: what is included is decided by the
           values the variables had when the request was made, for every later event (finding F19v:
           ggql applied the selection set under an empty variable map)
   sched : failure schedule of Send, consumed one entry per delivery
           (true = this delivery fails; exhausted = success)               *)
Record sub := mkSub { uid : nat; pat : option nat; sel : list nat; sched : list bool }.

(* an event: the value of each of its fields, None for a field whose resolution fails (the message
   then holds null there and the publish reports an error; the subscriber stays) *)
Definition event := list (option Z).
Definition msg := list (nat * option Z).

Inductive outev :=
| Deliver (u : nat) (m : msg) (ok : bool)
| Cleanup (u : nat).

Definition matches (id : nat) (s : sub) : bool :=
  match pat s with None => true | Some p => Nat.eqb p id end.

(* the subscriber's selection set applied to the event: root.resolve(event, …, s.field, …) *)
Definition render (sl : list nat) (ev : event) : msg :=
  map (fun i => (i, nth i ev None)) sl.

(* a delivered message that holds a failed field *)
Definition msg_bad (m : msg) : bool :=
  existsb (fun kv => match snd kv with None => true | Some _ => false end) m.
Definition dl_bad (dl : list (nat * msg * bool)) : bool := existsb (fun d => msg_bad (snd (fst d))) dl.

(* s.sub.Send(result): returns (failed?, subscriber afterwards) *)
Definition send (s : sub) : bool * sub :=
  match sched s with
  | [] => (false, s)
  | b :: r => (b, mkSub (uid s) (pat s) (sel s) r)
  end.

Fixpoint remove_at {A} (i : nat) (l : list A) : list A :=
  match l, i with
  | [], _ => []
  | _ :: t, 0 => t
  | h :: t, S j => h :: remove_at j t
  end.

(* ---------------------------------------------------------------- concrete machine *)

Definition state := list sub.

(* root.subscribe: append (one call per *Subscription found in the result map; the order of
   several subscriptions of one operation is Go map order, here a parameter of the op) *)
Definition subscribe (news : list sub) (l : state) : state := l ++ news.

(* Unsubscribe: for i := len-1; 0 <= i; i-- { s := subs[i]; if Match { delete i; s.Unsubscribe(); cnt++ } }
   None = index out of range (Go would panic). *)
Fixpoint unsub_loop (id : nat) (n : nat) (l : state) (cnt : nat) (log : list nat)
  : option (state * nat * list nat) :=
  match n with
  | 0 => Some (l, cnt, log)
  | S i =>
      match nth_error l i with
      | None => None
      | Some s =>
          if matches id s
          then unsub_loop id i (remove_at i l) (S cnt) (log ++ [uid s])
          else unsub_loop id i l cnt log
      end
  end.

Definition unsubscribe (id : nat) (l : state) : option (state * nat * list nat) :=
  unsub_loop id (length l) l 0 [].

(* AddEvent, first critical section: for _, s := range subs { if Match { render; cnt++; Send; collect failed } } *)
Fixpoint phase1 (id : nat) (ev : event) (l : state)
  : state * nat * list (nat * msg * bool) * list nat :=
  match l with
  | [] => ([], 0, [], [])
  | s :: t =>
      let '(t', c, dl, f) := phase1 id ev t in
      if matches id s then
        let (fail, s') := send s in
        (s' :: t', S c, (uid s, render (sel s) ev, negb fail) :: dl,
         if fail then uid s :: f else f)
      else (s :: t', c, dl, f)
  end.

(* AddEvent, second critical section, inner loop: reverse scan, delete by identity, clean up *)
Fixpoint rm_loop (u : nat) (n : nat) (l : state) (log : list nat) : option (state * list nat) :=
  match n with
  | 0 => Some (l, log)
  | S i =>
      match nth_error l i with
      | None => None
      | Some s =>
          if Nat.eqb (uid s) u
          then rm_loop u i (remove_at i l) (log ++ [uid s])
          else rm_loop u i l log
      end
  end.

Fixpoint phase2 (failed : list nat) (l : state) (log : list nat) : option (state * list nat) :=
  match failed with
  | [] => Some (l, log)
  | u :: r =>
      match rm_loop u (length l) l log with
      | None => None
      | Some (l', log') => phase2 r l' log'
      end
  end.

Record pub_out := mkPub { p_cnt : nat; p_err : bool; p_del : list (nat * msg * bool); p_clean : list nat }.

Definition add_event (id : nat) (ev : event) (l : state) : option (state * pub_out) :=
  let '(l1, c, dl, f) := phase1 id ev l in
  match phase2 f l1 [] with
  | None => None
  | Some (l2, cl) => Some (l2, mkPub c (negb (Nat.eqb (length f) 0) || dl_bad dl) dl cl)
  end.

Inductive op :=
| OSub (news : list sub)
| OPub (id : nat) (ev : event)
| OUnsub (id : nat).

Inductive out :=
| RSub
| RPub (o : pub_out)
| RUnsub (cnt : nat) (clean : list nat).

Definition step (l : state) (o : op) : option (state * out) :=
  match o with
  | OSub news => Some (subscribe news l, RSub)
  | OPub id ev =>
      match add_event id ev l with
      | None => None
      | Some (l', po) => Some (l', RPub po)
      end
  | OUnsub id =>
      match unsubscribe id l with
      | None => None
      | Some (l', c, cl) => Some (l', RUnsub c cl)
      end
  end.

Fixpoint run (l : state) (h : list op) : option (state * list out) :=
  match h with
  | [] => Some (l, [])
  | o :: r =>
      match step l o with
      | None => None
      | Some (l', x) =>
          match run l' r with
          | None => None
          | Some (l'', xs) => Some (l'', x :: xs)
          end
      end
  end.

(* ---------------------------------------------------------------- abstract specification
   The registry is the list of live subscribers in registration order.  Written from the
   property text, not from the code. *)

(* one live subscriber seeing one publish: (what it is sent, whether it stays live) *)
Definition pub1 (id : nat) (ev : event) (s : sub) : option (nat * msg * bool) * option sub :=
  if matches id s then
    let (fail, s') := send s in
    (Some (uid s, render (sel s) ev, negb fail), if fail then None else Some s')
  else (None, Some s).

Definition opt_list {A} (o : option A) : list A := match o with Some a => [a] | None => [] end.

Definition a_publish (id : nat) (ev : event) (l : state) : state * pub_out :=
  let rs := map (pub1 id ev) l in
  let dl := flat_map (fun r => opt_list (fst r)) rs in
  let removed := flat_map (fun s => if matches id s then if fst (send s) then [uid s] else [] else []) l in
  (flat_map (fun r => opt_list (snd r)) rs,
   mkPub (length (filter (matches id) l)) (negb (Nat.eqb (length removed) 0) || dl_bad dl) dl removed).

Definition a_unsubscribe (id : nat) (l : state) : state * nat * list nat :=
  (filter (fun s => negb (matches id s)) l,
   length (filter (matches id) l),
   map uid (filter (matches id) l)).

Definition a_step (l : state) (o : op) : state * out :=
  match o with
  | OSub news => (l ++ news, RSub)
  | OPub id ev => let (l', po) := a_publish id ev l in (l', RPub po)
  | OUnsub id => let '(l', c, cl) := a_unsubscribe id l in (l', RUnsub c cl)
  end.

Fixpoint a_run (l : state) (h : list op) : state * list out :=
  match h with
  | [] => (l, [])
  | o :: r => let (l', x) := a_step l o in let (l'', xs) := a_run l' r in (l'', x :: xs)
  end.

(* Outputs are compared modulo the order of clean-up calls inside one call (the property
   fixes the order of deliveries, not of clean-ups). *)
From Coq Require Import Permutation.
Definition out_equiv (x y : out) : Prop :=
  match x, y with
  | RSub, RSub => True
  | RPub a, RPub b => p_cnt a = p_cnt b /\ p_err a = p_err b /\ p_del a = p_del b /\ Permutation (p_clean a) (p_clean b)
  | RUnsub c cl, RUnsub c' cl' => c = c' /\ Permutation cl cl'
  | _, _ => False
  end.

(* well-formed histories: every registration uses a fresh identity *)
Fixpoint new_uids (h : list op) : list nat :=
  match h with
  | [] => []
  | OSub news :: r => map uid news ++ new_uids r
  | _ :: r => new_uids r
  end.

Definition wf_hist (h : list op) : Prop := NoDup (new_uids h).

(* the flat trace of subscriber-visible events of a run, in order (clean-ups of one call
   after its deliveries, as the outputs list them) *)
Definition trace_of_out (x : out) : list outev :=
  match x with
  | RSub => []
  | RPub po => map (fun d => Deliver (fst (fst d)) (snd (fst d)) (snd d)) (p_del po) ++ map Cleanup (p_clean po)
  | RUnsub _ cl => map Cleanup cl
  end.
Definition trace (xs : list out) : list outev := flat_map trace_of_out xs.

(* The two whole-history guarantees as a checkable predicate on a trace: no delivery to, and no
   second clean-up of, an identity that has already been cleaned up. *)
Fixpoint trace_ok (dead : list nat) (t : list outev) : Prop :=
  match t with
  | [] => True
  | Deliver u _ _ :: r => ~ In u dead /\ trace_ok dead r
  | Cleanup u :: r => ~ In u dead /\ trace_ok (u :: dead) r
  end.

Definition memb (u : nat) (f : list nat) : bool := existsb (Nat.eqb u) f.

Fixpoint trace_okb (dead : list nat) (t : list outev) : bool :=
  match t with
  | [] => true
  | Deliver u _ _ :: r => negb (memb u dead) && trace_okb dead r
  | Cleanup u :: r => negb (memb u dead) && trace_okb (u :: dead) r
  end.
