(* LazyReg_proofs.v — determinacy of first-use bindings and absence of deadlock. *)
From Coq Require Import List Arith Bool Lia.
Import ListNotations.
From GG Require Import LazyReg.

Section Det.
Variable binding : nat -> nat.
Notation exec_op := (exec_op binding).
Notation step := (step binding).
Notation run := (run binding).

Definition sound (st : store) : Prop := forall c x, get st c = Some x -> x = binding c.

(* a program is safe in a store when every read is of a cell bound in the store or bound earlier in
   the program *)
Definition safe (st : store) (p : list op) : Prop :=
  exists bound, (forall c, In c bound -> get st c <> None) /\ binds_before_reads bound p = true.

Lemma get_grows st o c x : get st c = Some x -> get (fst (exec_op st o)) c = Some x.
Proof.
  intros H. destruct o as [c'|c']; simpl; [|exact H].
  destruct (get st c') eqn:E; simpl; [exact H|].
  destruct (Nat.eqb_spec c' c) as [->|]; [congruence|exact H].
Qed.

Lemma sound_exec st o : sound st -> sound (fst (exec_op st o)).
Proof.
  intros Hs. destruct o as [c'|c']; simpl; [|exact Hs].
  destruct (get st c') eqn:E; simpl; [exact Hs|].
  intros c x. simpl. destruct (Nat.eqb_spec c' c) as [->|]; [intros H; now inversion H|apply Hs].
Qed.

Lemma safe_grows st o p : safe st p -> safe (fst (exec_op st o)) p.
Proof.
  intros (bound & Hb & Hp). exists bound. split; [|exact Hp].
  intros c Hc. specialize (Hb c Hc). destruct (get st c) eqn:E; [|contradiction].
  rewrite (get_grows st o c n E). discriminate.
Qed.

Lemma existsb_in c l : existsb (Nat.eqb c) l = true -> In c l.
Proof. intros H. apply existsb_exists in H. destruct H as (x & Hx & E). apply Nat.eqb_eq in E. now subst. Qed.

(* one step of a safe program in a sound store: what it reads is the static binding *)
Lemma safe_step st o r :
  sound st -> safe st (o :: r) ->
  safe (fst (exec_op st o)) r /\ Forall (fun co => snd co = Some (binding (fst co))) (snd (exec_op st o)).
Proof.
  intros Hs (bound & Hb & Hp). destruct o as [c|c]; simpl in *.
  - split; [|constructor]. exists (c :: bound). split; [|exact Hp].
    intros c' [<-|Hc'].
    + destruct (get st c) eqn:E; simpl; [rewrite E; discriminate|]. rewrite Nat.eqb_refl. discriminate.
    + specialize (Hb c' Hc'). destruct (get st c) eqn:E; simpl; [exact Hb|].
      destruct (Nat.eqb_spec c c'); [discriminate|exact Hb].
  - apply andb_true_iff in Hp. destruct Hp as [Hin Hp]. apply existsb_in in Hin.
    split; [exists bound; auto|]. constructor; [|constructor]. simpl.
    specialize (Hb c Hin). destruct (get st c) eqn:E; [|contradiction]. now rewrite (Hs c n E).
Qed.

Definition inv (cf : conf) : Prop :=
  sound (c_store cf) /\ Forall (safe (c_store cf)) (c_progs cf) /\
  Forall (Forall (fun co => snd co = Some (binding (fst co)))) (c_reads cf).

Lemma Forall_update {A} (P : A -> Prop) l i x : Forall P l -> P x -> Forall P (update l i x).
Proof.
  revert i; induction l as [|y l IH]; intros i Hl Hx; simpl; [constructor|].
  inversion Hl; subst. destruct i; constructor; auto.
Qed.

Lemma Forall_nth_default {A} (P : A -> Prop) l i d : Forall P l -> P d -> P (nth i l d).
Proof.
  revert i; induction l as [|y l IH]; intros i Hl Hd; destruct i; simpl; auto; inversion Hl; subst; auto.
Qed.

Lemma step_inv cf i : inv cf -> inv (step cf i).
Proof.
  intros (Hs & Hp & Hr). unfold step.
  destruct (nth_error (c_progs cf) i) as [[|o rest]|] eqn:E; try (split; [|split]; assumption).
  assert (Hsafe : safe (c_store cf) (o :: rest)).
  { rewrite Forall_forall in Hp. apply Hp. eapply nth_error_In; eauto. }
  destruct (safe_step _ _ _ Hs Hsafe) as [Hsafe' Hout].
  destruct (exec_op (c_store cf) o) as [st' out] eqn:Ex. simpl in *.
  assert (Est : st' = fst (exec_op (c_store cf) o)) by now rewrite Ex.
  split; [|split]; simpl.
  - rewrite Est. now apply sound_exec.
  - apply Forall_update; [|exact Hsafe']. rewrite Est.
    eapply Forall_impl; [|exact Hp]. intros p. apply safe_grows.
  - apply Forall_update; [exact Hr|]. apply Forall_app. split; [|exact Hout].
    apply Forall_nth_default; [exact Hr|constructor].
Qed.

Lemma init_inv progs : forallb (binds_before_reads []) progs = true -> inv (init progs).
Proof.
  intros H. split; [|split]; simpl.
  - intros c x Hc. discriminate.
  - rewrite forallb_forall in H. apply Forall_forall. intros p Hp. exists []. split; [intros c []|now apply H].
  - apply Forall_forall. intros l Hl. apply in_map_iff in Hl. destruct Hl as (_ & <- & _). constructor.
Qed.

(* determinacy: whatever the interleaving, however far it has run, every value any request has
   read from a shared cell is that cell's static binding - the value it reads when it runs alone *)
Theorem reads_are_static progs sched :
  forallb (binds_before_reads []) progs = true ->
  Forall (Forall (fun co => snd co = Some (binding (fst co)))) (c_reads (run (init progs) sched)).
Proof.
  intros H. assert (Hi : inv (run (init progs) sched)).
  { unfold run. generalize (init_inv progs H). generalize (init progs).
    induction sched as [|i r IH]; intros cf Hc; simpl; [exact Hc|]. apply IH. now apply step_inv. }
  apply Hi.
Qed.

End Det.

(* ---- no deadlock ---- *)
Lemma list_max_in l : l <> [] -> In (list_max l) l.
Proof.
  induction l as [|x l IH]; [contradiction|]. intros _. simpl.
  destruct l as [|y l'].
  - simpl. left. lia.
  - destruct (Nat.max_spec x (list_max (y :: l'))) as [[_ ->]|[_ ->]]; [right; apply IH; discriminate|now left].
Qed.

Lemma list_max_ge l x : In x l -> x <= list_max l.
Proof.
  intros H. pose proof (list_max_le l (list_max l)) as [Hl _]. specialize (Hl (le_n _)).
  rewrite Forall_forall in Hl. now apply Hl.
Qed.

Lemma disciplined_step t : disciplined (held t) (todo t) = true -> disciplined (held (lstep_thread t)) (todo (lstep_thread t)) = true.
Proof.
  unfold lstep_thread. destruct (todo t) as [|[l|] r] eqn:E; simpl; intros H; [now rewrite E|..].
  - apply andb_true_iff in H. tauto.
  - destruct (held t); [discriminate|exact H].
Qed.

Lemma forallb_update {A} (f : A -> bool) l i x : forallb f l = true -> f x = true -> forallb f (update l i x) = true.
Proof.
  revert i; induction l as [|y l IH]; intros i Hl Hx; simpl; [reflexivity|].
  simpl in Hl. apply andb_true_iff in Hl. destruct Hl as [H1 H2]. destruct i; simpl.
  - now rewrite Hx, H2.
  - rewrite H1. simpl. now apply IH.
Qed.

Theorem discipline_preserved ts i : all_disciplined ts = true -> all_disciplined (lstep ts i) = true.
Proof.
  intros H. unfold lstep. destruct (nth_error ts i) as [t|] eqn:E; [|exact H].
  destruct (enabled ts t); [|exact H]. unfold all_disciplined in *. apply forallb_update; [exact H|].
  apply disciplined_step. rewrite forallb_forall in H. apply H. eapply nth_error_In; eauto.
Qed.

Theorem progress ts :
  all_disciplined ts = true -> finished ts = false ->
  exists i t, nth_error ts i = Some t /\ enabled ts t = true.
Proof.
  intros Hd Hf. unfold all_disciplined in Hd. rewrite forallb_forall in Hd.
  set (H := flat_map held ts).
  destruct H as [|h0 hs] eqn:EH.
  - (* nothing is held: an unfinished thread wants a lock, and it is free *)
    assert (Hnone : forall l, holds_any ts l = false).
    { intros l. unfold holds_any. apply not_true_is_false. intros Hx. apply existsb_exists in Hx.
      destruct Hx as (t & Ht & Hx). apply existsb_exists in Hx. destruct Hx as (x & Hx & _).
      assert (In x (flat_map held ts)) by (apply in_flat_map; eauto). unfold H in EH. rewrite EH in H0. destruct H0. }
    unfold finished in Hf. apply not_true_iff_false in Hf.
    assert (Hex : exists t, In t ts /\ todo t <> []).
    { destruct (existsb (fun t => match todo t with [] => false | _ => true end) ts) eqn:Ex.
      - apply existsb_exists in Ex. destruct Ex as (t & Ht & Hx). exists t. split; [exact Ht|]. destruct (todo t); [discriminate|discriminate].
      - exfalso. apply Hf. apply forallb_forall. intros t Ht.
        destruct (todo t) eqn:Et; [reflexivity|].
        assert (existsb (fun t => match todo t with [] => false | _ => true end) ts = true).
        { apply existsb_exists. exists t. split; [exact Ht|now rewrite Et]. }
        congruence. }
    destruct Hex as (t & Ht & Hne). destruct (In_nth_error _ _ Ht) as (i & Hi). exists i, t. split; [exact Hi|].
    assert (Hh : held t = []).
    { destruct (held t) as [|x xs] eqn:Eh; [reflexivity|].
      assert (In x (flat_map held ts)) by (apply in_flat_map; exists t; split; [exact Ht|rewrite Eh; now left]).
      unfold H in EH. rewrite EH in H0. destruct H0. }
    specialize (Hd t Ht). unfold enabled. destruct (todo t) as [|[l|] r]; [contradiction| |].
    + now rewrite Hnone.
    + rewrite Hh in Hd. simpl in Hd. discriminate.
  - (* the holder of the greatest held lock is not blocked *)
    assert (Hne : flat_map held ts <> []) by (unfold H in EH; rewrite EH; discriminate).
    pose proof (list_max_in _ Hne) as Hm. set (m := list_max (flat_map held ts)) in *.
    apply in_flat_map in Hm. destruct Hm as (t & Ht & Hmt).
    destruct (In_nth_error _ _ Ht) as (i & Hi). exists i, t. split; [exact Hi|].
    specialize (Hd t Ht). unfold enabled.
    destruct (todo t) as [|[l|] r] eqn:Et.
    + destruct (held t); [destruct Hmt|discriminate].
    + simpl in Hd. apply andb_true_iff in Hd. destruct Hd as [Hlt _]. rewrite forallb_forall in Hlt.
      specialize (Hlt m Hmt). apply Nat.ltb_lt in Hlt.
      apply negb_true_iff. unfold holds_any. apply not_true_is_false. intros Hx. apply existsb_exists in Hx.
      destruct Hx as (t' & Ht' & Hx). apply existsb_exists in Hx. destruct Hx as (x & Hx & Ex). apply Nat.eqb_eq in Ex. subst x.
      assert (Hin : In l (flat_map held ts)) by (apply in_flat_map; eauto).
      pose proof (list_max_ge _ _ Hin). fold m in H0. lia.
    + destruct (held t); [destruct Hmt|reflexivity].
Qed.

(* from any start state that obeys the discipline, along any schedule *)
Corollary no_deadlock ts sched :
  all_disciplined ts = true ->
  let ts' := fold_left lstep sched ts in
  finished ts' = false -> exists i t, nth_error ts' i = Some t /\ enabled ts' t = true.
Proof.
  intros H ts' Hf. apply progress; [|exact Hf]. unfold ts'. clear Hf ts'.
  revert ts H. induction sched as [|i r IH]; intros ts H; simpl; [exact H|]. apply IH. now apply discipline_preserved.
Qed.
