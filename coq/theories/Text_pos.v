(* Text_pos.v — where the scanner's (line, col) stands relative to the submitted bytes, for every
   layout: it is the position just behind the last byte taken from the reader; hence the position
   recorded when a token's first byte has been read (readToken after skipSpace) is that token's
   line and its 1-based column plus one, whatever precedes or follows the token. *)
From Coq Require Import List Arith NArith Bool Lia.
Import ListNotations.
From GG.gen Require Import Tables.
From GG Require Import Text.

(* the position of the next byte after a prefix: lines and columns count from 1 *)
Definition advance (p : nat * nat) (b : byte) : nat * nat :=
  if Nat.eqb b 10 then (S (fst p), 1) else (fst p, S (snd p)).
Definition pos_after (pre : list byte) : nat * nat := fold_left advance pre (1, 1).

Lemma pos_after_snoc pre b : pos_after (pre ++ [b]) = advance (pos_after pre) b.
Proof. unfold pos_after. now rewrite fold_left_app. Qed.

(* the scanner is somewhere inside text: pre has been taken from the reader (a looked-ahead byte is
   its last), the reader still holds rest; line 0 is the not-yet-started state *)
Definition at_text (text : list byte) (s : pst) : Prop :=
  exists pre, text = pre ++ rest s /\
    (ondeck s <> 0 -> exists pre', pre = pre' ++ [ondeck s]) /\
    ((line s = 0 /\ pre = []) \/ (line s <> 0 /\ (line s, col s) = pos_after pre)).

Lemma at_init text flt : at_text text (init_pst text flt).
Proof. exists []. simpl. split; [reflexivity|]. split; [intros H; contradiction|]. left. auto. Qed.

(* the position the scanner counts from *)
Definition cur_pos (s : pst) : nat * nat := if Nat.eqb (line s) 0 then (1, 1) else (line s, col s).

Lemma cur_pos_at (text : list byte) s pre :
  ((line s = 0 /\ pre = []) \/ (line s <> 0 /\ (line s, col s) = pos_after pre)) -> cur_pos s = pos_after pre.
Proof.
  unfold cur_pos. intros [[H0 ->]|[Hn Hq]].
  - rewrite H0. reflexivity.
  - destruct (Nat.eqb_spec (line s) 0); [contradiction|exact Hq].
Qed.

(* read_byte when a byte comes from the reader *)
Lemma read_byte_from_reader s x r :
  ondeck s = 0 -> eof s = false -> rest s = x :: r ->
  read_byte s = ROk x (mkP r (fault s) 0 false (fst (advance (cur_pos s) x)) (snd (advance (cur_pos s) x))).
Proof.
  intros Ho Ee Er. unfold read_byte, cur_pos, advance. rewrite Ho, Ee, Er. cbn [Nat.eqb negb]. change (nn 10) with 10.
  destruct (Nat.eqb (line s) 0); destruct (Nat.eqb x 10); reflexivity.
Qed.

Lemma advance_line_nonzero p x : fst p <> 0 -> fst (advance p x) <> 0.
Proof. unfold advance. destruct (Nat.eqb x 10); simpl; lia. Qed.

Lemma pos_after_line_nonzero pre : fst (pos_after pre) <> 0.
Proof.
  unfold pos_after. assert (H : forall l p, fst p <> 0 -> fst (fold_left advance l p) <> 0).
  { induction l as [|x l IH]; intros p Hp; [exact Hp|]. simpl. apply IH. now apply advance_line_nonzero. }
  apply H. simpl. discriminate.
Qed.

Lemma read_byte_at text s b s1 : at_text text s -> read_byte s = ROk b s1 -> at_text text s1.
Proof.
  intros (pre & Ht & Hd & Hp) E.
  destruct (Nat.eq_dec (ondeck s) 0) as [Ho|Ho].
  - destruct (eof s) eqn:Ee.
    + unfold read_byte in E. rewrite Ho, Ee in E. cbn [Nat.eqb negb] in E. injection E as <- <-. exists pre. auto.
    + destruct (rest s) as [|x r] eqn:Er.
      * unfold read_byte in E. rewrite Ho, Ee, Er in E. cbn [Nat.eqb negb] in E.
        destruct (fault s); [destruct (Nat.eqb (line s) 0); discriminate|].
        pose proof (cur_pos_at text s pre Hp) as Hc. unfold cur_pos in Hc.
        destruct (Nat.eqb (line s) 0); injection E as <- <-; exists pre; simpl; (split; [now rewrite <- Ht|]);
          (split; [intros H; contradiction|]); right; (split; [|]).
        { discriminate. } { rewrite <- Hc. reflexivity. }
        { assert (Hl : line s = fst (pos_after pre)) by (rewrite <- Hc; reflexivity). rewrite Hl. apply pos_after_line_nonzero. }
        { exact Hc. }
      * rewrite (read_byte_from_reader s x r Ho Ee Er) in E. injection E as <- <-.
        exists (pre ++ [x]). simpl. split; [rewrite Ht; now rewrite <- app_assoc|]. split; [intros H; contradiction|].
        right. rewrite pos_after_snoc, <- (cur_pos_at text s pre Hp). split; [|now rewrite <- surjective_pairing].
        apply advance_line_nonzero. rewrite (cur_pos_at text s pre Hp). apply pos_after_line_nonzero.
  - unfold read_byte in E. destruct (Nat.eqb_spec (ondeck s) 0); [contradiction|]. cbn [negb] in E. injection E as <- <-.
    exists pre. simpl. split; [exact Ht|]. split; [intros H; contradiction|].
    destruct Hp as [[H0 Hnil]|Hq]; [|right; exact Hq].
    destruct (Hd Ho) as (pre' & Hx). subst. destruct pre'; discriminate.
Qed.

(* when a byte really comes from the reader, it is the last of what has been taken *)
Lemma read_byte_last text s b s1 :
  at_text text s -> read_byte s = ROk b s1 -> b <> 0 ->
  ondeck s1 = 0 /\ exists pre, text = pre ++ [b] ++ rest s1 /\ line s1 <> 0 /\ (line s1, col s1) = pos_after (pre ++ [b]).
Proof.
  intros (pre & Ht & Hd & Hp) E Hb.
  destruct (Nat.eq_dec (ondeck s) 0) as [Ho|Ho].
  - destruct (eof s) eqn:Ee.
    + unfold read_byte in E. rewrite Ho, Ee in E. cbn [Nat.eqb negb] in E. injection E as <- <-. contradiction.
    + destruct (rest s) as [|x r] eqn:Er.
      * unfold read_byte in E. rewrite Ho, Ee, Er in E. cbn [Nat.eqb negb] in E.
        destruct (fault s); [destruct (Nat.eqb (line s) 0); discriminate|].
        destruct (Nat.eqb (line s) 0); injection E as <- <-; contradiction.
      * rewrite (read_byte_from_reader s x r Ho Ee Er) in E. injection E as <- <-. split; [reflexivity|].
        exists pre. simpl. split; [exact Ht|].
        rewrite pos_after_snoc, <- (cur_pos_at text s pre Hp). split; [|now rewrite <- surjective_pairing].
        apply advance_line_nonzero. rewrite (cur_pos_at text s pre Hp). apply pos_after_line_nonzero.
  - unfold read_byte in E. destruct (Nat.eqb_spec (ondeck s) 0); [contradiction|]. cbn [negb] in E. injection E as <- <-.
    split; [reflexivity|]. destruct (Hd Ho) as (pre' & Hx). subst pre.
    exists pre'. simpl. split; [now rewrite <- app_assoc in Ht|].
    destruct Hp as [[_ Hnil]|[Hn Hq]]; [destruct pre'; discriminate|]. split; [exact Hn|exact Hq].
Qed.

Lemma put_back_at text s b :
  at_text text s -> ondeck s = 0 -> (exists pre, text = pre ++ [b] ++ rest s /\ line s <> 0 /\ (line s, col s) = pos_after (pre ++ [b])) ->
  at_text text (put_back b s).
Proof.
  intros _ Ho (pre & Ht & Hn & Hq). exists (pre ++ [b]). unfold put_back. simpl.
  split; [now rewrite <- app_assoc|]. split; [intros _; now exists pre|]. right. split; assumption.
Qed.

(* skipSpace: when it returns a byte b <> 0, b is looked ahead, it is the last byte taken from the
   reader, and (line, col) is the position just behind it *)
Definition stands_behind (text : list byte) (b : byte) (s : pst) : Prop :=
  ondeck s = b /\ exists pre, text = pre ++ [b] ++ rest s /\ line s <> 0 /\ (line s, col s) = pos_after (pre ++ [b]).

Lemma skip_comment_at : forall fuel text s b s1, at_text text s -> skip_comment fuel s = ROk b s1 -> at_text text s1.
Proof.
  induction fuel as [|f IH]; intros text s b s1 Ha E; [discriminate|]. cbn [skip_comment] in E.
  destruct (read_byte s) as [x s0| |] eqn:Er; try discriminate.
  pose proof (read_byte_at _ _ _ _ Ha Er) as Ha0.
  destruct (Nat.eqb x 0); [inversion E; subst; exact Ha0|].
  destruct (Nat.eqb x (nn 10)); [inversion E; subst; exact Ha0|]. eapply IH; eauto.
Qed.

Theorem skip_space_position : forall fuel text s b s1,
  at_text text s -> skip_space fuel s = ROk b s1 -> b <> 0 -> stands_behind text b s1.
Proof.
  induction fuel as [|f IH]; intros text s b s1 Ha E Hb; [discriminate|]. cbn [skip_space] in E.
  destruct (read_byte s) as [x s0| |] eqn:Er; try discriminate.
  pose proof (read_byte_at _ _ _ _ Ha Er) as Ha0.
  destruct (Nat.eqb_spec x 0) as [Ex|Ex]; [inversion E; subst; contradiction|].
  destruct (is_space x); [eapply IH; eauto|].
  destruct (Nat.eqb x (nn 35)).
  - destruct (skip_comment f s0) as [b2 s2| |] eqn:Ec; try discriminate.
    pose proof (skip_comment_at _ _ _ _ _ Ha0 Ec) as Ha2.
    destruct (Nat.eqb b2 0); [inversion E; subst; contradiction|]. eapply IH; eauto.
  - inversion E; subst. destruct (read_byte_last _ _ _ _ Ha Er Ex) as (_ & pre & Ht & Hn & Hq).
    split; [reflexivity|]. exists pre. unfold put_back. simpl. auto.
Qed.

(* the column convention, for every layout: text = pre ++ b :: post, b not a line break. The position
   recorded when b has just been read is (the line of b, the 1-based column of b, plus one). *)
Theorem token_start_position pre b :
  b <> 10 -> pos_after (pre ++ [b]) = (fst (pos_after pre), S (snd (pos_after pre))).
Proof.
  intros Hb. rewrite pos_after_snoc. unfold advance. destruct (Nat.eqb_spec b 10); [contradiction|reflexivity].
Qed.

(* lines and columns are positive *)
Lemma pos_after_positive pre : 1 <= fst (pos_after pre) /\ 1 <= snd (pos_after pre).
Proof.
  unfold pos_after.
  assert (H : forall l p, 1 <= fst p /\ 1 <= snd p -> 1 <= fst (fold_left advance l p) /\ 1 <= snd (fold_left advance l p)).
  { induction l as [|x l IH]; intros p Hp; [exact Hp|]. simpl. apply IH. unfold advance. destruct (Nat.eqb x 10); simpl; lia. }
  apply H. simpl. lia.
Qed.
