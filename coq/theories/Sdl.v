(* Sdl.v — descriptions in printed SDL: the writer of base.go writeDesc and the reader
   parser.go readDesc (readString of Text.v followed by the line normalisation).  Byte level.
   No proofs here. *)
From Coq Require Import List Arith NArith Bool.
Import ListNotations.
From GG Require Import Text.

Definition bs (n : N) : byte := nn n.
Definition QUOTE : byte := nn 34.
Definition BSL : byte := nn 92.
Definition NL : byte := nn 10.
Definition SP : byte := nn 32.

(* ---- writeDesc ---- *)
Definition shift (indent : nat) : list byte := repeat SP (2 * indent).

Definition needs_block (d : list byte) : bool := existsb (fun b => Nat.eqb b NL || Nat.eqb b QUOTE) d.

(* strings.ReplaceAll(desc, "\\", "\\\\") *)
Definition esc_backslash (d : list byte) : list byte :=
  flat_map (fun b => if Nat.eqb b BSL then [BSL; BSL] else [b]) d.
(* in the block form: every quote escaped, every newline followed by the indentation *)
Definition esc_block (sh : list byte) (d : list byte) : list byte :=
  flat_map (fun b => if Nat.eqb b QUOTE then [BSL; QUOTE] else if Nat.eqb b NL then NL :: sh else [b]) d.

Definition write_desc (d : list byte) (indent : nat) : list byte :=
  match d with
  | [] => []
  | _ =>
      let sh := shift indent in
      let e := esc_backslash d in
      (if 0 <? indent then [NL] else []) ++
      (if needs_block e then
         sh ++ [QUOTE; QUOTE; QUOTE] ++ (NL :: sh) ++ esc_block sh e ++ (NL :: sh) ++ [QUOTE; QUOTE; QUOTE] ++ (NL :: sh)
       else sh ++ [QUOTE] ++ e ++ [QUOTE; NL] ++ sh)
  end.

(* ---- readDesc ---- *)
(* runes produced by escapes are written with buf.WriteRune: UTF-8, surrogates as U+FFFD *)
Definition utf8_enc (r : nat) : list byte :=
  if r <? nn 128 then [r]
  else if r <? nn 2048 then [nn 192 + r / nn 64; nn 128 + r mod nn 64]
  else if (nn 55296 <=? r) && (r <=? nn 57343) then [nn 239; nn 191; nn 189]
  else if r <? nn 65536 then [nn 224 + r / nn 4096; nn 128 + (r / nn 64) mod nn 64; nn 128 + r mod nn 64]
  else [nn 239; nn 191; nn 189].

Definition item_bytes (i : sitem) : list byte := match i with SB b => [b] | SR r => utf8_enc r end.
Definition items_bytes (l : list sitem) : list byte := flat_map item_bytes l.

(* strings.Split(s, "\n") *)
Fixpoint split_nl (cur : list byte) (l : list byte) : list (list byte) :=
  match l with
  | [] => [rev cur]
  | b :: r => if Nat.eqb b NL then rev cur :: split_nl [] r else split_nl (b :: cur) r
  end.

(* strings.TrimSpace, for the ASCII white space (tab, LF, VT, FF, CR, space) *)
Definition is_ws (b : byte) : bool :=
  Nat.eqb b (nn 9) || Nat.eqb b (nn 10) || Nat.eqb b (nn 11) || Nat.eqb b (nn 12) || Nat.eqb b (nn 13) || Nat.eqb b (nn 32).
Fixpoint trim_left (l : list byte) : list byte :=
  match l with b :: r => if is_ws b then trim_left r else l | [] => [] end.
Definition trim (l : list byte) : list byte := rev (trim_left (rev (trim_left l))).

Fixpoint join_nl (ls : list (list byte)) : list byte :=
  match ls with
  | [] => []
  | [l] => l
  | l :: r => l ++ NL :: join_nl r
  end.

Definition norm_desc (raw : list byte) : list byte :=
  join_nl (filter (fun l => match l with [] => false | _ => true end) (map trim (split_nl [] raw))).

(* readDesc on a text: Some description and the scanner state after it *)
Definition read_desc (fuel : nat) (s : pst) : res (list byte) :=
  match read_string fuel s with
  | ROk (Some l) s1 => ROk (norm_desc (items_bytes l)) s1
  | ROk None s1 => ROk [] s1
  | RErr s1 => RErr s1
  | RFuel => RFuel
  end.

(* the description read from the start of a text, and what is left *)
Definition read_desc_text (text : list byte) : option (list byte * list byte) :=
  match read_desc (length text + 2) (init_pst text false) with
  | ROk d s1 => Some (d, (if Nat.eqb (ondeck s1) 0 then [] else [ondeck s1]) ++ rest s1)
  | _ => None
  end.

(* what the property calls a description obtainable from SDL: every line non-empty and without
   white space at its ends, no NUL *)
Definition canonical (d : list byte) : bool :=
  negb (existsb (fun b => Nat.eqb b 0) d) &&
  forallb (fun l => match l with [] => false | _ => true end) (split_nl [] d) &&
  forallb (fun l => if list_eq_dec Nat.eq_dec (trim l) l then true else false) (split_nl [] d).
