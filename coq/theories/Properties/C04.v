(* Property C04 — resolvers only receive arguments that conform to the declared input types.
   Statements only. *)
From Coq Require Import List Arith ZArith Bool.
Import ListNotations.
From GG Require Import Coerce Coerce_proofs Coerce_declared.

(* For every input type expression (scalars, enums, input objects, lists and non-null in any nesting)
   and every value the request parser or a JSON decoder can hand over — every Go integer kind with
   any value, floats described by the facts Go computes about them, strings with their parse
   results, symbols, lists, maps, times, foreign values: whenever input coercion succeeds, the
   delivered value conforms to the declared type (Int within 32 bits, Float finite and in range, enum a
   declared member, lists element-wise, input objects with only declared fields, required fields present,
   defaults filled in, non-null never null) and denotes the value the client wrote.  Hence a value for
   which no conforming denotation exists is refused (contrapositive), and nothing is silently altered. *)
Theorem C04_delivered_values_conform :
  forall t, wf_cty t -> forall v w, wf_cv v ->
    coerce_input t v = Some w -> conforms t w = true /\ denotes v w = true.
Proof. exact coerce_input_sound. Qed.
Print Assumptions C04_delivered_values_conform.

Theorem C04_reject :
  forall t v, wf_cty t -> wf_cv v ->
    (forall w, ~ (conforms t w = true /\ denotes v w = true)) -> coerce_input t v = None.
Proof.
  intros t v Ht Hv H. destruct (coerce_input t v) as [w|] eqn:E; auto.
  exfalso. apply (H w). eapply coerce_input_sound; eauto.
Qed.
Print Assumptions C04_reject.

(* non-null positions never receive null *)
Theorem C04_non_null :
  forall t v w, coerce_input (TNonNullOf t) v = Some w -> w <> CNil.
Proof.
  intros t v w H Hw. subst. simpl in H. destruct v; try discriminate; apply coerce_input_nil in H; discriminate.
Qed.
Print Assumptions C04_non_null.

(* ---- instances: boundary values ---- *)
Example C04_int_boundaries :
  coerce_input (TScalar SInt) (CI KInt64 2147483647) = Some (CI KInt32 2147483647) /\
  coerce_input (TScalar SInt) (CI KInt64 2147483648) = None /\
  coerce_input (TScalar SInt) (CI KInt64 4294967297) = None /\
  coerce_input (TScalar SInt) (CI KUint64 18446744073709551615) = None /\
  coerce_input (TScalar SInt) (CFl (FIn (mkFlt 1 false true 3 true true))) = Some (CI KInt32 3) /\
  coerce_input (TScalar SInt) (CFl (FIn (mkFlt 2 false true 3 false true))) = None /\
  coerce_input (TScalar SFloat) (CFl (FIn (mkFlt 3 false true 0 false false))) = None /\
  coerce_input (TNonNullOf (TListOf (TNonNullOf (TScalar SInt)))) (CList [CI KInt 1; CNil]) = None.
Proof. repeat split; reflexivity. Qed.

Definition ex_input : cty :=
  TInput [(1%nat, (TNonNullOf (TScalar SInt), None)); (2%nat, (TScalar SString, Some (CStr (mkStr (-1) None None None None))));
          (3%nat, (TListOf (TNonNullOf (TScalar SInt)), None))].

Example C04_input_object :
  wf_cty ex_input /\
  coerce_input ex_input (CMap [(1%nat, CI KInt64 7)]) = Some (CMap [(1%nat, CI KInt32 7); (2%nat, CStr (mkStr (-1) None None None None))]) /\
  coerce_input ex_input (CMap [(2%nat, CNil)]) = None /\
  coerce_input ex_input (CMap [(1%nat, CI KInt 1); (9%nat, CBool true)]) = None.
Proof.
  split; [|repeat split; reflexivity].
  simpl. split; [repeat constructor; simpl; intuition congruence|]. repeat split; auto; discriminate.
Qed.

(* "input objects containing only declared fields ... no value is silently altered": whatever CoerceIn
   accepts holds, at every depth - under lists, non-null wrappers and declared fields - only objects
   whose keys their input type declares; a key the type does not declare makes the request an error
   whatever it holds (an explicit null included).  No hypothesis on t or v. *)
Theorem C04_only_declared_keys_accepted :
  forall t v w, coerce_input t v = Some w -> only_declared t v = true.
Proof. exact coerce_input_only_declared. Qed.
Print Assumptions C04_only_declared_keys_accepted.

Example C04_undeclared_null_key_refused :
  only_declared ex_input (CMap [(1%nat, CI KInt 1); (9%nat, CNil)]) = false /\
  coerce_input ex_input (CMap [(1%nat, CI KInt 1); (9%nat, CNil)]) = None /\
  coerce_input (TListOf ex_input) (CList [CMap [(9%nat, CNil)]]) = None.
Proof. repeat split; reflexivity. Qed.
