(* Property C17 — introspection reports the loaded schema faithfully.
   Only statements; every proof is `exact <lemma>` into Introspect_proofs.v.
   Introspect.info_of reads the description of a definition off the flat reading of the accepted
   definitions; Introspect.enc_type lays it out as the response to the full introspection
   selection; schema_answer / type_answer are the answers to __schema and __type.  The answers are
   functions of the accepted definitions and of includeDeprecated only: the strategy serving the
   application's data does not enter (that the real root behaves so, for the interface, reflection
   and AnyResolver strategies, is the correspondence). *)
From Coq Require Import List Arith ZArith Bool.
Import ListNotations.
From GG Require Import Schema Introspect Introspect_proofs.

(* The answer describes exactly that description: reading the response back yields it again —
   kind, name, description, every field with arguments, type, deprecation flag and reason,
   interfaces, possible types, enum values, input fields. *)
Theorem C17_answer_determines_description :
  forall fl i, dec_type (enc_type fl i) = Some i.
Proof. exact dec_enc_type. Qed.
Print Assumptions C17_answer_determines_description.

Theorem C17_distinct_descriptions_distinct_answers :
  forall fl i j, enc_type fl i = enc_type fl j -> i = j.
Proof. exact enc_type_injective. Qed.
Print Assumptions C17_distinct_descriptions_distinct_answers.

(* Wrappers are unrolled through ofType at any depth. *)
Theorem C17_type_references :
  forall fl t, dec_tref (enc_tref fl t) = Some t.
Proof. exact dec_enc_tref. Qed.
Print Assumptions C17_type_references.

(* __type on an unknown name is null; on a defined name it is that type's entry. *)
Theorem C17_unknown_type_is_null :
  forall st incl n,
    (forall b, In b (fl_bases (flatten (core_items ++ st))) -> is_type_def b = true -> b_name b <> n) ->
    type_answer st incl n = INull.
Proof. exact type_answer_unknown. Qed.
Print Assumptions C17_unknown_type_is_null.

Theorem C17_known_type :
  forall st incl b,
    let fl := flatten (core_items ++ st) in
    In b (fl_bases fl) -> is_type_def b = true ->
    (forall b', In b' (fl_bases fl) -> is_type_def b' = true -> b_name b' = b_name b -> b' = b) ->
    type_answer st incl (b_name b) = enc_type fl (info_of fl incl b).
Proof. exact type_answer_known. Qed.
Print Assumptions C17_known_type.

(* Non-vacuity: a deprecated field disappears without includeDeprecated and is reported with it. *)
Example C17_example :
  let f n ds := {| fd_name := n; f_desc := []; f_ty := TL (TNN (TN 0)); fd_args := []; f_dirs := ds |} in
  let q := {| it_ext := false; it_kind := KObject; it_name := 10; it_desc := []; it_dirs := []; it_ifaces := [];
              it_fields := [f 10 []; f 11 [{| du_name := 2; du_args := [] |}]];
              it_members := []; it_vals := []; it_inputs := []; it_locs := [] |} in
  let fl := flatten (core_items ++ [q]) in
  option_map (fun i => option_map (@length _) (ti_fields i)) (dec_type (type_answer [q] false 10)) = Some (Some 1) /\
  option_map (fun i => option_map (map fi_dep) (ti_fields i)) (dec_type (type_answer [q] true 10))
    = Some (Some [None; Some (QStr 0)]).
Proof. vm_compute. split; reflexivity. Qed.
