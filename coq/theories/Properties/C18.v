(* Property C18 — value text formats round-trip and the JSON writer emits valid JSON.
   Proved so far: facts about the class tables (regenerated from parser.go on every run) and the string
   writer that the round trip rests on, and computed instances of the round trip through the model's
   writer, reader and the RFC 8259 reference reader.  The unbounded statement for whole values is
   carried by byte-for-byte correspondence plus the read-back oracle in this commit (DESIGN.md 7, C18:
   partial). *)
From Coq Require Import List Arith ZArith Bool Lia.
Import ListNotations.
From GG Require Import Text Json Text_proofs Sdl Sdl_proofs Json_proofs.

(* names (symbols, variable names, unquoted keys) are exactly the non-empty words over [A-Za-z0-9_];
   number tokens are words over [0-9+-.eE]; the string delimiters and NUL are in no class; comma is
   white space — for all 256 byte values, from the tables of the current source *)
Theorem C18_token_bytes : forall b, b < 256 -> is_token b = is_alnum_us b.
Proof. exact token_bytes. Qed.
Print Assumptions C18_token_bytes.

Theorem C18_number_bytes : forall b, b < 256 -> is_num b = is_numchar b.
Proof. exact num_bytes. Qed.
Print Assumptions C18_number_bytes.

Theorem C18_delimiters :
  is_token 34 = false /\ is_num 34 = false /\ is_space 34 = false /\
  is_token 92 = false /\ is_num 92 = false /\ is_space 92 = false /\
  is_token 0 = false /\ is_num 0 = false /\ is_space 0 = false /\
  is_space 44 = true /\ is_space 32 = true /\ is_space 10 = true /\ is_space 13 = true /\ is_space 9 = true.
Proof. exact delimiters_unclassified. Qed.
Print Assumptions C18_delimiters.

(* every ASCII rune is written either as itself — then it is not a quote, not a backslash and not a
   control character — or as an escape sequence starting with a backslash: string content can never close
   the string or produce a raw control character (JSON validity of strings) *)
Theorem C18_string_writer_ascii :
  forall r, wr_rune r < 128 ->
    (exists b, write_rune r = [b] /\ b <> 34 /\ b <> 92 /\ 32 <= b) \/ (exists tl, write_rune r = 92 :: tl).
Proof. exact write_rune_ascii_safe. Qed.
Print Assumptions C18_string_writer_ascii.

(* Every string constant written by the writer - any runes: quotes, backslashes, every control
   character, non-ASCII - is a valid JSON string for the reference reader written from RFC 8259, which
   stops right behind the closing quote and returns exactly the string's items. *)
Theorem C18_json_string_constant_valid :
  forall rs acc k, Forall wf_rune rs ->
    json_string (length (flat_map write_rune rs) + 1) (flat_map write_rune rs ++ 34 :: k) acc
    = Some (rev acc ++ flat_map rune_items rs, k).
Proof. exact json_string_written. Qed.
Print Assumptions C18_json_string_constant_valid.

(* Hence a string value written in JSON mode, at every indent setting, is valid JSON text that
   decodes to the string. *)
Theorem C18_json_string_value_valid :
  forall sdl indent s, Forall wf_rune s ->
    json_parse (write_value sdl indent (WStr s) 0) = Some (to_json (WStr s)).
Proof. exact json_written_string_value_valid. Qed.
Print Assumptions C18_json_string_value_valid.

(* The same constant is read back rune for rune by ggql's own reader (proved for C15). *)
Theorem C18_string_constant_round_trip :
  forall r rs s k,
    Forall wf_rune (r :: rs) -> write_rune r <> [] ->
    ready s (34 :: flat_map write_rune (r :: rs) ++ 34 :: k) ->
    exists s', read_string (length (flat_map write_rune (r :: rs)) + 1) s = ROk (Some (flat_map ritems (r :: rs))) s' /\ ready s' k.
Proof. exact read_string_written. Qed.
Print Assumptions C18_string_constant_round_trip.

(* ---- computed instances of the round trip (model writer -> model reader / reference JSON reader) ---- *)
Definition rn (c : nat) : wrune := mkWR c [c].
Definition ex_value : wv :=
  WList [WNum [49]; WMap [([rn 97], WList []); ([rn 98; rn 32], WStr [rn 34; rn 92; rn 10; rn 1; mkWR 233 [195; 169]])];
         WSym [rn 69]; WVar [rn 118]; WList [WMap []; WNull; WBool true]].

Example C18_roundtrip_instance :
  (* tight SDL form: a list holding a number, a map with a name key and a quoted key, a symbol, a variable, a list *)
  (exists s, parse_value (fun _ => false) (write_value true (-1) ex_value 0) false =
     ROk (PList [PInt 1; PMap [([SB 97], PList []); ([SB 98; SB 32], PStr [SR 34; SR 92; SR 10; SR 1; SB 195; SB 169])];
                 PSym [69]; PVar [118]; PList [PMap []; PNull; PBool true]]) s) /\
  json_parse (write_value false 2 ex_value 0) = Some (to_json ex_value) /\
  json_parse (write_value false (-1) ex_value 0) = Some (to_json ex_value) /\
  json_parse (write_value false 0 ex_value 0) = Some (to_json ex_value).
Proof. split; [eexists; vm_compute; reflexivity|]. repeat split; vm_compute; reflexivity. Qed.
