(* Property C18 — value text formats round-trip and the JSON writer emits valid JSON.
   Proved: the JSON half for whole values (C18_json_value_valid: every value of the property's domain,
   any nesting, any indent setting, is accepted by the RFC 8259 reference reader and decodes to the
   same structure); facts about the class tables (regenerated from parser.go on every run) and the
   string writer that the SDL round trip rests on; the string constant round trip through ggql's own
   reader; computed instances of the whole SDL round trip.  The unbounded SDL round trip for whole
   values is carried by byte-for-byte correspondence plus the read-back oracle (DESIGN.md 7, C18:
   partial). *)
From Coq Require Import List Arith ZArith Bool Lia.
Import ListNotations.
From GG Require Import Text Json Text_proofs Sdl Sdl_proofs Json_proofs Json_value Tokens_proofs Values_scalar Values_list.

(* names (symbols, variable names, unquoted keys) are exactly the non-empty words over [A-Za-z0-9_];
   number tokens are words over [0-9+-.eE]; the string delimiters and NUL are in no class; comma is
   white space — for all 256 byte values, from the tables of the current source *)
Theorem C18_token_bytes : forall b, b < 256 -> is_token b = is_alnum_us b.
Proof. exact token_bytes. Qed.
Print Assumptions C18_token_bytes.

Theorem C18_number_bytes : forall b, b < 256 -> is_num b = is_numchar b.
Proof. exact num_bytes. Qed.
Print Assumptions C18_number_bytes.

Theorem C18_delimiters :
  is_token 34 = false /\ is_num 34 = false /\ is_space 34 = false /\
  is_token 92 = false /\ is_num 92 = false /\ is_space 92 = false /\
  is_token 0 = false /\ is_num 0 = false /\ is_space 0 = false /\
  is_space 44 = true /\ is_space 32 = true /\ is_space 10 = true /\ is_space 13 = true /\ is_space 9 = true.
Proof. exact delimiters_unclassified. Qed.
Print Assumptions C18_delimiters.

(* every ASCII rune is written either as itself — then it is not a quote, not a backslash and not a
   control character — or as an escape sequence starting with a backslash: string content can never close
   the string or produce a raw control character (JSON validity of strings) *)
Theorem C18_string_writer_ascii :
  forall r, wr_rune r < 128 ->
    (exists b, write_rune r = [b] /\ b <> 34 /\ b <> 92 /\ 32 <= b) \/ (exists tl, write_rune r = 92 :: tl).
Proof. exact write_rune_ascii_safe. Qed.
Print Assumptions C18_string_writer_ascii.

(* Every string constant written by the writer - any runes: quotes, backslashes, every control
   character, non-ASCII - is a valid JSON string for the reference reader written from RFC 8259, which
   stops right behind the closing quote and returns exactly the string's items. *)
Theorem C18_json_string_constant_valid :
  forall rs acc k, Forall wf_rune rs ->
    json_string (length (flat_map write_rune rs) + 1) (flat_map write_rune rs ++ 34 :: k) acc
    = Some (rev acc ++ flat_map rune_items rs, k).
Proof. exact json_string_written. Qed.
Print Assumptions C18_json_string_constant_valid.

(* Hence a string value written in JSON mode, at every indent setting, is valid JSON text that
   decodes to the string. *)
Theorem C18_json_string_value_valid :
  forall sdl indent s, Forall wf_rune s ->
    json_parse (write_value sdl indent (WStr s) 0) = Some (to_json (WStr s)).
Proof. exact json_written_string_value_valid. Qed.
Print Assumptions C18_json_string_value_valid.

(* The JSON form of every value - null, booleans, numbers, strings of any content, enum symbols,
   variables, times, lists and string-keyed objects in any nesting, empty containers included - at
   every indent setting (< 0, = 0, > 0) is text the reference reader accepts, and it decodes to the
   same structure (symbols and variables as strings, object members in the order written).
   wf_wv: the runes of every string and key come with their UTF-8 bytes (what Go's range and
   EncodeRune yield; invalid bytes arrive as U+FFFD); number tokens are JSON numbers (what strconv
   prints for integers and finite floats - NaN and infinities are refused by coercion, C05); the text
   of a time or of a foreign value holds no quote, backslash or control character. *)
Theorem C18_json_value_valid :
  forall indent v, wf_wv v -> json_parse (write_value false indent v 0) = Some (to_json v).
Proof. exact json_written_value_valid. Qed.
Print Assumptions C18_json_value_valid.

(* ... and anywhere inside other text: the reader stops right behind the value *)
Theorem C18_json_value_in_context :
  forall indent v, wf_wv v -> forall d k fuel, size v <= fuel -> follow_ok k ->
    json_value fuel (write_value false indent v d ++ k) = Some (to_json v, trailer indent d v ++ k).
Proof. intros indent v. exact (all_written indent v). Qed.
Print Assumptions C18_json_value_in_context.

(* "is a JSON number" is a property of the token alone, decided by running the reference reader on it *)
Theorem C18_number_tokens : forall t, json_num_token t = true -> num_ok t.
Proof. exact json_num_token_ok. Qed.
Print Assumptions C18_number_tokens.

Example C18_number_token_instances :
  (* 0, -12, 1.5, 1e+06, 1.5e-07, -0.5 as strconv prints them; NaN, +Inf, 01, 1. and 2e+06.0 are no numbers *)
  (forallb json_num_token [[48]; [45; 49; 50]; [49; 46; 53]; [49; 101; 43; 48; 54]; [49; 46; 53; 101; 45; 48; 55]; [45; 48; 46; 53]] = true) /\
  (existsb json_num_token [[78; 97; 78]; [43; 73; 110; 102]; [48; 49]; [49; 46]; [50; 101; 43; 48; 54; 46; 48]] = false).
Proof. split; vm_compute; reflexivity. Qed.

(* The word-level half of the SDL round trip, for words of any length: a name - enum symbol, variable
   name, unquoted object key, null/true/false - written as it is and followed by any byte outside
   [A-Za-z0-9_] (a space, comma, bracket, colon, quote ...) is returned whole by readToken, which skips
   nothing and leaves the scanner in front of that byte; likewise a number token and readNumberToken. *)
Theorem C18_name_token_round_trip :
  forall (w : list byte) s b0 k fuel,
    w <> [] -> Forall (fun b => is_token b = true) w -> is_token b0 = false -> b0 <> 0 ->
    ready s (w ++ b0 :: k) -> length w < fuel ->
    exists s', read_token fuel s = ROk w s' /\ ready s' (b0 :: k).
Proof. exact read_token_written. Qed.
Print Assumptions C18_name_token_round_trip.

Theorem C18_number_token_round_trip :
  forall (w : list byte) s b0 k fuel,
    Forall (fun b => is_num b = true) w -> is_num b0 = false -> b0 <> 0 ->
    ready s (w ++ b0 :: k) -> length w < fuel ->
    exists s', read_number_token fuel s = ROk w s' /\ ready s' (b0 :: k).
Proof. exact read_number_token_written. Qed.
Print Assumptions C18_number_token_round_trip.

Example C18_token_round_trip_premises :
  (* RED_1 followed by ']' and -1.5e+07 followed by ',' at the start of a text meet the premises *)
  let s0 l := mkP l false 0 false 0 0 in
  (Forall (fun b => is_token b = true) [82; 69; 68; 95; 49] /\ is_token 93 = false /\ ready (s0 ([82; 69; 68; 95; 49] ++ [93])) ([82; 69; 68; 95; 49] ++ [93])) /\
  (Forall (fun b => is_num b = true) [45; 49; 46; 53; 101; 43; 48; 55] /\ is_num 44 = false) /\
  (exists s', read_token 6 (s0 ([82; 69; 68; 95; 49] ++ [93])) = ROk [82; 69; 68; 95; 49] s').
Proof.
  cbv zeta. split; [|split].
  - split; [repeat constructor|split; [reflexivity|split; reflexivity]].
  - split; [repeat constructor|reflexivity].
  - eexists. vm_compute. reflexivity.
Qed.

(* The SDL round trip of every scalar through ggql's value reader (readValue), names and number tokens
   of any length, at any nesting-depth counter and scanner position: $name reads back as the variable;
   a name reads back as the enum symbol - or as true / false / null when it is that keyword; a number
   token starting with '-' or a digit, followed by a byte that may follow a value, reads back as the
   integer it denotes when it fits int64 and otherwise as the float token Go accepts. *)
Theorem C18_variable_round_trip :
  forall float_ok (w : list byte) s b0 k fuel d,
    w <> [] -> Forall (fun b => is_token b = true) w -> is_token b0 = false -> b0 <> 0 ->
    ready s (36 :: w ++ b0 :: k) -> length w + 1 < fuel ->
    exists s', read_value float_ok fuel d s = ROk (PVar w) s' /\ ready s' (b0 :: k).
Proof. exact read_value_variable_written. Qed.
Print Assumptions C18_variable_round_trip.

Theorem C18_name_round_trip :
  forall float_ok (a : byte) (w : list byte) s b0 k fuel d,
    name_start a = true -> Forall (fun b => is_token b = true) w -> is_token b0 = false -> b0 <> 0 ->
    ready s ((a :: w) ++ b0 :: k) -> length w + 1 < fuel ->
    exists s', read_value float_ok fuel d s = ROk (keyword_value (a :: w)) s' /\ ready s' (b0 :: k).
Proof. exact read_value_name_written. Qed.
Print Assumptions C18_name_round_trip.

Theorem C18_number_round_trip :
  forall float_ok (a : byte) (w : list byte) s b0 k fuel d v,
    (Nat.eqb a 45 || digit a) = true -> Forall (fun b => is_num b = true) (a :: w) ->
    value_follow b0 = true -> b0 <> 0 -> number_value float_ok (a :: w) = Some v ->
    ready s ((a :: w) ++ b0 :: k) -> length w + 1 < fuel ->
    exists s', read_value float_ok fuel d s = ROk v s' /\ ready s' (b0 :: k).
Proof. exact read_value_number_written. Qed.
Print Assumptions C18_number_round_trip.

(* ... and the empty containers, at every depth the nesting bound admits *)
Theorem C18_empty_list_round_trip :
  forall float_ok s k fuel d,
    ready s (91 :: 93 :: k) -> 2 <= fuel -> S d <= max_nesting ->
    exists s', read_value float_ok fuel d s = ROk (PList []) s' /\ ready s' k.
Proof. exact read_value_empty_list_written. Qed.
Print Assumptions C18_empty_list_round_trip.

Theorem C18_empty_object_round_trip :
  forall float_ok s k fuel d,
    ready s (123 :: 125 :: k) -> 2 <= fuel -> S d <= max_nesting ->
    exists s', read_value float_ok fuel d s = ROk (PMap []) s' /\ ready s' k.
Proof. exact read_value_empty_map_written. Qed.
Print Assumptions C18_empty_object_round_trip.

(* Composition through the list loop of readValue: a bracketed text e1,e2,...,en] (n >= 1) whose elements
   each read back - for every sufficient fuel, followed by a comma or the closing bracket - reads back
   as the list of their values; names are such elements, and so is such a list itself one level
   further in (until the nesting bound): comma-separated lists of names nest to any depth below it. *)
Theorem C18_list_round_trip :
  forall float_ok m d e v es vs s k F,
    elem_reads float_ok m (S d) e v -> Forall2 (elem_reads float_ok m (S d)) es vs ->
    ready s (91 :: e ++ tail_text es ++ k) -> m + length es + 3 < F -> S d <= max_nesting ->
    exists s', read_value float_ok F d s = ROk (PList (v :: vs)) s' /\ ready s' k.
Proof. exact read_value_list_written. Qed.
Print Assumptions C18_list_round_trip.

Theorem C18_names_are_list_elements :
  forall float_ok a w d, name_start a = true -> Forall (fun b => is_token b = true) w ->
    elem_reads float_ok (length w + 2) d (a :: w) (keyword_value (a :: w)).
Proof. exact name_elem_reads. Qed.
Print Assumptions C18_names_are_list_elements.

Theorem C18_numbers_are_list_elements :
  forall float_ok (a : byte) (w : list byte) d v,
    (Nat.eqb a 45 || digit a) = true -> Forall (fun b => is_num b = true) (a :: w) ->
    number_value float_ok (a :: w) = Some v ->
    elem_reads float_ok (length w + 2) d (a :: w) v.
Proof. exact number_elem_reads. Qed.
Print Assumptions C18_numbers_are_list_elements.

Theorem C18_variables_are_list_elements :
  forall float_ok (w : list byte) d, w <> [] -> Forall (fun b => is_token b = true) w ->
    elem_reads float_ok (length w + 2) d (36 :: w) (PVar w).
Proof. exact variable_elem_reads. Qed.
Print Assumptions C18_variables_are_list_elements.

Theorem C18_lists_are_list_elements :
  forall float_ok m d e v es vs,
    elem_reads float_ok m (S d) e v -> Forall2 (elem_reads float_ok m (S d)) es vs -> S d <= max_nesting ->
    elem_reads float_ok (m + length es + 4) d (91 :: e ++ tail_text es) (PList (v :: vs)).
Proof. exact list_elem_reads. Qed.
Print Assumptions C18_lists_are_list_elements.

Example C18_scalar_round_trip_instances :
  (* RED_1] is the symbol, null, is null, -12] is the integer: the theorems' conclusions computed *)
  let s0 l := mkP l false 0 false 0 0 in
  name_start 82 = true /\ name_start 110 = true /\ value_follow 93 = true /\
  keyword_value [82; 69; 68; 95; 49] = PSym [82; 69; 68; 95; 49] /\ keyword_value [110; 117; 108; 108] = PNull /\
  number_value (fun _ => false) [45; 49; 50] = Some (PInt (-12)) /\
  (exists s', read_value (fun _ => false) 8 3 (s0 [82; 69; 68; 95; 49; 93]) = ROk (PSym [82; 69; 68; 95; 49]) s') /\
  (exists s', read_value (fun _ => false) 8 0 (s0 [45; 49; 50; 93]) = ROk (PInt (-12)) s').
Proof. cbv zeta. repeat split; try (vm_compute; reflexivity); eexists; vm_compute; reflexivity. Qed.

(* The same constant is read back rune for rune by ggql's own reader (proved for C15). *)
Theorem C18_string_constant_round_trip :
  forall r rs s k,
    Forall wf_rune (r :: rs) -> write_rune r <> [] ->
    ready s (34 :: flat_map write_rune (r :: rs) ++ 34 :: k) ->
    exists s', read_string (length (flat_map write_rune (r :: rs)) + 1) s = ROk (Some (flat_map ritems (r :: rs))) s' /\ ready s' k.
Proof. exact read_string_written. Qed.
Print Assumptions C18_string_constant_round_trip.

(* ---- computed instances of the round trip (model writer -> model reader / reference JSON reader) ---- *)
Definition rn (c : nat) : wrune := mkWR c [c].
Definition ex_value : wv :=
  WList [WNum [49]; WMap [([rn 97], WList []); ([rn 98; rn 32], WStr [rn 34; rn 92; rn 10; rn 1; mkWR 233 [195; 169]])];
         WSym [rn 69]; WVar [rn 118]; WList [WMap []; WNull; WBool true]].

Example C18_roundtrip_instance :
  (* tight SDL form: a list holding a number, a map with a name key and a quoted key, a symbol, a variable, a list *)
  (exists s, parse_value (fun _ => false) (write_value true (-1) ex_value 0) false =
     ROk (PList [PInt 1; PMap [([SB 97], PList []); ([SB 98; SB 32], PStr [SR 34; SR 92; SR 10; SR 1; SB 195; SB 169])];
                 PSym [69]; PVar [118]; PList [PMap []; PNull; PBool true]]) s) /\
  json_parse (write_value false 2 ex_value 0) = Some (to_json ex_value) /\
  json_parse (write_value false (-1) ex_value 0) = Some (to_json ex_value) /\
  json_parse (write_value false 0 ex_value 0) = Some (to_json ex_value).
Proof. split; [eexists; vm_compute; reflexivity|]. repeat split; vm_compute; reflexivity. Qed.

(* the premises of C18_json_value_valid hold of that value *)
Example C18_instance_well_formed : wf_wv ex_value.
Proof.
  assert (H1 : wf_rune (rn 97) /\ wf_rune (rn 98) /\ wf_rune (rn 32) /\ wf_rune (rn 34) /\ wf_rune (rn 92) /\
               wf_rune (rn 10) /\ wf_rune (rn 1) /\ wf_rune (rn 69) /\ wf_rune (rn 118) /\ wf_rune (mkWR 233 [195; 169])).
  { unfold wf_rune, rn. cbn [wr_rune wr_utf8]. repeat split; intros; try lia; repeat constructor; lia. }
  destruct H1 as (A & B & C & D & E & F & G & H & I & J).
  cbn [ex_value wf_wv fst snd]. repeat split; auto; try (repeat constructor; assumption).
  - apply json_num_token_ok. vm_compute. reflexivity.
  - repeat (constructor; [assumption|]). constructor.
Qed.
