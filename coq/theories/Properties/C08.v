(* Property C08 — abstract-typed fields are resolved by each object's concrete type. Statements only. *)
From Coq Require Import List Arith ZArith Bool Lia.
Import ListNotations.
From GG Require Import Exec ExecSpec ExecSpec_proofs.

(* the executor's fragment test (resolve.go condApplies) is the type relation of the specification *)
Theorem C08_applies :
  forall S cond t, cond_applies S cond t = applies S cond t.
Proof. exact cond_applies_spec. Qed.
Print Assumptions C08_applies.

(* ... which says: a fragment applies exactly when there is no condition, the concrete type is the
   condition, implements it, or is a member of it *)
Theorem C08_applies_iff :
  forall S c t,
    applies S (Some c) t = true <->
    (c = t \/
     (exists fs ifaces fs', lookup t S = Some (DObject fs ifaces) /\ lookup c S = Some (DInterface fs') /\ In c ifaces) \/
     (exists fs ifaces ms, lookup t S = Some (DObject fs ifaces) /\ lookup c S = Some (DUnion ms) /\ In t ms)).
Proof.
  intros S c t. unfold applies, implements, member_of. rewrite !orb_true_iff, Nat.eqb_eq. split.
  - intros [[H|H]|H]; auto.
    + right; left. destruct (lookup t S) as [[k|fs ifaces|fs|ms|fs]|]; try discriminate.
      destruct (lookup c S) as [[k|fs' ifaces'|fs'|ms|fs']|]; try discriminate.
      apply existsb_exists in H. destruct H as [x [Hx E]]. apply Nat.eqb_eq in E. subst. eauto 8.
    + right; right. destruct (lookup t S) as [[k|fs ifaces|fs|ms|fs]|]; try discriminate.
      destruct (lookup c S) as [[k|fs' ifaces'|fs'|ms|fs']|]; try discriminate.
      apply existsb_exists in H. destruct H as [x [Hx E]]. apply Nat.eqb_eq in E. subst. eauto 8.
  - intros [H|[[fs [ifaces [fs' [H1 [H2 H3]]]]]|[fs [ifaces [ms [H1 [H2 H3]]]]]]]; auto.
    + left; right. rewrite H1, H2. apply existsb_exists. exists c. split; auto. apply Nat.eqb_refl.
    + right. rewrite H1, H2. apply existsb_exists. exists t. split; auto. apply Nat.eqb_refl.
Qed.
Print Assumptions C08_applies_iff.

(* Under an interface-typed field the selection set is evaluated against the object type bound to
   the value's Go type (model: the executor; the same holds in the specification by construction). *)
Theorem C08_interface_concrete :
  forall S G frags any md vars fuel obj fid fsels n fs depth s,
    is_nil obj = false -> Nat.eqb depth 0 = false ->
    lookup n S = Some (DInterface fs) ->
    resolve S G frags any md vars (Datatypes.S fuel) obj fid fsels (TNamed n) depth s =
    match resolve_sels S G frags any md vars fuel obj fsels (concrete_type S G obj n) [] (depth - 1) s with
    | Done (m, ea, s') => Done (RObj m, ea, s')
    | OutOfFuel => OutOfFuel
    end.
Proof. intros. rewrite resolve_eq, H, H0, H1. reflexivity. Qed.
Print Assumptions C08_interface_concrete.

Theorem C08_concrete_type_bound :
  forall S G n nd fs ifaces static,
    lookup n G = Some nd -> lookup (n_gotype nd) S = Some (DObject fs ifaces) ->
    concrete_type S G (GNodeR n) static = n_gotype nd /\ concrete_type S G (GNodeA n) static = n_gotype nd.
Proof. intros. unfold concrete_type, gotype_of. rewrite H, H0. auto. Qed.
Print Assumptions C08_concrete_type_bound.

(* a union-typed field dispatches to the member bound to the value's Go type *)
Theorem C08_union_member :
  forall S G n nd ms,
    lookup n G = Some nd -> In (n_gotype nd) ms ->
    (exists fs ifaces, lookup (n_gotype nd) S = Some (DObject fs ifaces)) ->
    union_member S G (GNodeR n) ms = Some (n_gotype nd).
Proof.
  intros S G n nd ms Hn Hin [fs [ifaces Ho]]. induction ms as [|m ms IH]; [inversion Hin|].
  cbn [union_member]. unfold gotype_of. rewrite Hn.
  destruct (Nat.eqb_spec (n_gotype nd) m) as [E|E].
  - subst m. rewrite Ho. reflexivity.
  - destruct Hin as [Hin|Hin]; [congruence|]. specialize (IH Hin).
    destruct (lookup m S) as [[k|fs' ifaces'|fs'|ms'|fs']|]; auto.
Qed.
Print Assumptions C08_union_member.

(* ... and a value whose Go type is bound to no object type stays in the interface the field declares
   (the case the property leaves out): its selection set is evaluated against the interface itself *)
Theorem C08_unbound_stays_in_the_interface :
  forall S G obj static,
    (forall gt, gotype_of G obj = Some gt -> match lookup gt S with Some (DObject _ _) => False | _ => True end) ->
    concrete_type S G obj static = static.
Proof.
  intros S G obj static H. unfold concrete_type. destruct (gotype_of G obj) as [gt|]; [|reflexivity].
  specialize (H gt eq_refl). destruct (lookup gt S) as [[k|fs ifaces|fs|ms|fs]|]; try reflexivity. contradiction.
Qed.
Print Assumptions C08_unbound_stays_in_the_interface.

(* __typename reports the type the selection set is evaluated against (the concrete type) *)
Theorem C08_typename :
  forall S G frags any md vars fuel obj id alias args fsels t result depth s,
    resolve_field S G frags any md vars (Datatypes.S fuel) obj id alias TYPENAME args fsels t result depth s =
    match snd (sort_args S t TYPENAME args) with
    | [] => Done (set_key (key_of alias TYPENAME) (RTypeName t) result, [],
                  mkSt ((id, t) :: s_args s) (s_calls s))
    | e :: r => Done (result, errs_in (PKey (key_of alias TYPENAME)) (e :: r), mkSt ((id, t) :: s_args s) (s_calls s))
    end.
Proof.
  intros. rewrite resolve_field_eq. cbv zeta.
  destruct (sort_args S t TYPENAME args) as [a [|e r]]; reflexivity.
Qed.
Print Assumptions C08_typename.

(* ---- instance: a list mixing two concrete types under an interface-typed field, fragments on the
   object, on the interface and on a union ---- *)
Definition s8 : schema :=
  [(11, DLeaf LString);
   (20, DObject [mkF 1 (TNamed 11) []] [28]); (21, DObject [mkF 1 (TNamed 11) []; mkF 2 (TNamed 11) []] [28]);
   (28, DInterface [mkF 1 (TNamed 11) []]); (29, DUnion [21]);
   (1, DObject [mkF 3 (TList (TNamed 28)) []] [])].
Definition g8 : graph :=
  [(1, mkNode 1 [(3, BConst (GList [GNodeR 2; GNodeR 3]))]);
   (2, mkNode 20 [(1, BConst (GStr 1))]); (3, mkNode 21 [(1, BConst (GStr 2)); (2, BConst (GStr 3))])].
Definition d8 : doc :=
  mkDoc [mkOp OpQuery None []
           [SField 1 None 3 [] []
              [SField 2 None TYPENAME [] [] [];
               SInline 3 (Some 21) [] [SField 4 None 2 [] [] []];
               SInline 5 (Some 29) [] [SField 6 (Some 7) 1 [] [] []];
               SInline 7 (Some 28) [] [SField 8 None 1 [] [] []]]]] [].

Example C08_example :
  exists r s', exec_op s8 g8 false 100 1000 d8 None [] (GNodeR 1) (mkSt [] []) = Done (r, s') /\
    r_data r = Some (RObj [(3, RList [RObj [(TYPENAME, RTypeName 20); (1, RStr 1)];
                                      RObj [(TYPENAME, RTypeName 21); (2, RStr 3); (7, RStr 2); (1, RStr 2)]])]).
Proof. eexists; eexists. split; [vm_compute; reflexivity|reflexivity]. Qed.
