(* Property C09 — @skip and @include follow GraphQL inclusion logic.
   Statements only; proofs are one-liners into ExecSpec_proofs.v / computations over a finite table. *)
From Coq Require Import List Arith ZArith Bool Permutation.
Import ListNotations.
From GG Require Import Exec ExecSpec ExecSpec_proofs.

(* The executor's skip decision (root.skipSel, modelled by Exec.skip_sel) is exactly the inclusion
   rule, for every directive list — any length, any order, literals and variables mixed — and every
   variable map. *)
Theorem C09_inclusion :
  forall (vars : list (nat * value)) (x : sel),
    fst (skip_sel vars x) = negb (included vars (sel_dirs x)).
Proof. intros. now rewrite skip_sel_spec. Qed.
Print Assumptions C09_inclusion.

(* what "included" means, spelled out: no @skip whose condition is true, no @include whose condition
   is false (a condition that is not a Boolean excludes and is reported) *)
Theorem C09_included_iff :
  forall vars dirs,
    included vars dirs = true <->
    (forall d, In d dirs ->
       match d_name d, dir_cond vars d with
       | DSkip, Some (Some b) => b = false
       | DInclude, Some (Some b) => b = true
       | DSkip, Some None | DInclude, Some None => False
       | _, _ => True
       end).
Proof.
  intros vars dirs. unfold included. rewrite negb_true_iff. split.
  - intros H d Hd.
    assert (Hx : dir_excludes vars d = false).
    { destruct (dir_excludes vars d) eqn:E; auto.
      assert (existsb (dir_excludes vars) dirs = true) by (apply existsb_exists; eauto). congruence. }
    unfold dir_excludes in Hx. destruct (d_name d); destruct (dir_cond vars d) as [[b|]|]; auto; try discriminate.
    now apply negb_false_iff.
  - intros H. destruct (existsb (dir_excludes vars) dirs) eqn:E; auto.
    apply existsb_exists in E. destruct E as [d [Hd Hx]]. specialize (H d Hd).
    unfold dir_excludes in Hx. destruct (d_name d); destruct (dir_cond vars d) as [[b|]|]; try discriminate; try contradiction.
    + congruence.
    + subst. discriminate.
Qed.
Print Assumptions C09_included_iff.

(* independent of the order in which the directives are written *)
Theorem C09_order_independent :
  forall vars dirs dirs', Permutation dirs dirs' -> included vars dirs = included vars dirs'.
Proof.
  intros vars dirs dirs' Hp. unfold included. f_equal.
  induction Hp; simpl; auto.
  - now rewrite IHHp.
  - destruct (dir_excludes vars x), (dir_excludes vars y); reflexivity.
  - congruence.
Qed.
Print Assumptions C09_order_independent.

(* An excluded selection contributes no response entry and none of its resolvers run: the entries
   and the resolver calls of a selection set whose head is excluded are those of its tail
   (specification), and the executor's result map and call log are those of the tail too (model). *)
Theorem C09_no_effect_spec :
  forall S G frags any vars fuel obj x r t depth path,
    included vars (sel_dirs x) = false ->
    match sem_sels_loop S G frags any vars (Datatypes.S fuel) obj (x :: r) t depth path,
          sem_sels_loop S G frags any vars fuel obj r t depth path with
    | Done (es, _, cs), Done (es', _, cs') => es = es' /\ cs = cs'
    | OutOfFuel, OutOfFuel => True
    | _, _ => False
    end.
Proof.
  intros S G frags any vars fuel obj x r t depth path Hx.
  rewrite sem_sels_loop_eq. cbv zeta. rewrite Hx. simpl negb. cbv iota.
  destruct (sem_sels_loop S G frags any vars fuel obj r t depth path) as [[[es ea] cs]|]; auto.
Qed.
Print Assumptions C09_no_effect_spec.

Theorem C09_no_effect_model :
  forall S G frags any md vars fuel obj x r t result depth s,
    fst (skip_sel vars x) = true ->
    match resolve_sels_loop S G frags any md vars (Datatypes.S fuel) obj (x :: r) t result depth s,
          resolve_sels_loop S G frags any md vars fuel obj r t result depth s with
    | Done (m, _, s1), Done (m', _, s1') => m = m' /\ s1 = s1'
    | OutOfFuel, OutOfFuel => True
    | _, _ => False
    end.
Proof.
  intros S G frags any md vars fuel obj x r t result depth s Hx.
  rewrite resolve_sels_loop_eq. destruct (skip_sel vars x) as [sk ea0]. simpl in Hx. subst sk.
  destruct (resolve_sels_loop S G frags any md vars fuel obj r t result depth s) as [[[m ea] s1]|]; auto.
Qed.
Print Assumptions C09_no_effect_model.

(* The finite table of the property's quantifier, checked exhaustively by computation:
   {absent, literal true, literal false, variable true, variable false, variable defaulted(true/false)}
   for @skip x the same for @include x both orders; variable 1 is bound to true, 2 to false,
   3 and 4 are the defaulted ones (bound by bind_vars to their defaults true / false). *)
Definition c09_conds : list (option value) :=
  [None; Some (VBool true); Some (VBool false); Some (VVar 1); Some (VVar 2); Some (VVar 3); Some (VVar 4)].
Definition c09_vars : list (nat * value) := [(1, VBool true); (2, VBool false); (3, VBool true); (4, VBool false)].
Definition c09_truth (c : option value) : option bool :=
  match c with
  | None => None
  | Some (VBool b) => Some b
  | Some (VVar 1) | Some (VVar 3) => Some true
  | Some (VVar 2) | Some (VVar 4) => Some false
  | _ => None
  end.
Definition c09_expected (sk inc : option value) : bool :=   (* included? *)
  negb (match c09_truth sk with Some true => true | _ => false end) &&
  negb (match c09_truth inc with Some false => true | _ => false end).
Definition c09_dirs (sk inc : option value) (skip_first : bool) : list dir :=
  let ds := match sk with Some v => [mkDir DSkip (Some v)] | None => [] end in
  let di := match inc with Some v => [mkDir DInclude (Some v)] | None => [] end in
  if skip_first then ds ++ di else di ++ ds.
Definition c09_table_ok : bool :=
  forallb (fun sk => forallb (fun inc => forallb (fun order =>
    Bool.eqb (negb (fst (skip_sel c09_vars (SInline 0 None (c09_dirs sk inc order) []))))
             (c09_expected sk inc)) [true; false]) c09_conds) c09_conds.

Theorem C09_table : c09_table_ok = true.
Proof. vm_compute. reflexivity. Qed.
Print Assumptions C09_table.

(* Non-vacuity / the repaired defect F04: '@skip(if:true) @include(if:true)' is excluded, in both orders. *)
Example C09_skip_true_include_true :
  fst (skip_sel [] (SField 1 None 5 [] [mkDir DSkip (Some (VBool true)); mkDir DInclude (Some (VBool true))] [])) = true /\
  fst (skip_sel [] (SField 1 None 5 [] [mkDir DInclude (Some (VBool true)); mkDir DSkip (Some (VBool true))] [])) = true.
Proof. split; reflexivity. Qed.
