(* Property C02 — interface, root (any) and reflection resolvers give the same response.
   Only statements; proofs are `exact <lemma>` into ExecSpec_proofs.v or a computation.
   The executor model (Exec.v) carries the strategy of every data node (GNodeR: the object implements
   Resolver; GNodeA: a plain value served by the installed AnyResolver).  The stateless specification
   (ExecSpec.v) asks a node for its field values through answerer_of, the single place a strategy
   is consulted, and with an AnyResolver installed answerer_of does not distinguish the two.  The
   refinement theorem holds for every assignment of strategies, so any two assignments produce
   responses related to the same specification response (data entry for entry, errors as a
   multiset with the same paths).  Reflection is not in the model: that a graph of Go values whose
   fields are found by reflection (registered or discovered bindings), and mixtures of it with
   Resolver objects, answers exactly like the all-Resolver assignment is the correspondence run on
   every check. *)
From Coq Require Import List Arith ZArith Bool Lia.
Import ListNotations.
From GG Require Import Exec ExecSpec ExecSpec_proofs.

(* every assignment of the Resolver / AnyResolver strategies refines the one specification *)
Theorem C02_every_assignment_refines_the_specification :
  forall S G any_installed max_depth fuel d name supplied rootobj s,
    wf_schema_args S = true -> wf_doc S d = true -> 0 < max_depth ->
    match exec_op S G any_installed max_depth fuel d name supplied rootobj s with
    | OutOfFuel => sem_op S G any_installed max_depth fuel d name supplied rootobj = OutOfFuel
    | Done (r, s') => exists r', sem_op S G any_installed max_depth fuel d name supplied rootobj = Done r' /\ resp_rel r r'
    end.
Proof. exact exec_op_refines. Qed.
Print Assumptions C02_every_assignment_refines_the_specification.

(* the specification consults the strategy in one place, and with an AnyResolver installed it
   answers alike for both *)
Theorem C02_specification_is_strategy_blind :
  forall n, answerer_of true (GNodeA n) = answerer_of true (GNodeR n).
Proof. reflexivity. Qed.
Print Assumptions C02_specification_is_strategy_blind.

(* precedence in the executor model: a Resolver object answers for itself whether or not an
   AnyResolver is installed; a plain value is answered by the AnyResolver when there is one and
   falls to reflection otherwise *)
Theorem C02_precedence :
  forall any n,
    strategy_of any (GNodeR n) = Some (Some n) /\
    strategy_of true (GNodeA n) = Some (Some n) /\
    strategy_of false (GNodeA n) = None.
Proof. intros any n. repeat split. Qed.
Print Assumptions C02_precedence.
