(* Property C11 — resolving does not change the parsed request: results are repeatable. Statements only. *)
From Coq Require Import List Arith ZArith Bool Permutation Lia.
Import ListNotations.
From GG Require Import Exec ExecSpec ExecSpec_proofs.

(* The executor writes into the request AST (Field.ConType and the re-ordered Field.Args); the model
   threads that as state.  The specification has no state.  Since every call refines the
   specification from ANY state (exec_op_refines), what a call returns does not depend on the calls
   made before it on the same parsed document: *)
Theorem C11_state_independent :
  forall S G any max_depth fuel d name supplied rootobj s1 s2 r1 s1' r2 s2',
    wf_schema_args S = true -> wf_doc S d = true -> 0 < max_depth ->
    exec_op S G any max_depth fuel d name supplied rootobj s1 = Done (r1, s1') ->
    exec_op S G any max_depth fuel d name supplied rootobj s2 = Done (r2, s2') ->
    r_data r1 = r_data r2 /\ r_calls r1 = r_calls r2 /\
    Permutation (map strip_frag (r_errs r1)) (map strip_frag (r_errs r2)).
Proof.
  intros S G any max_depth fuel d name supplied rootobj s1 s2 r1 s1' r2 s2' Hs Hd Hm H1 H2.
  pose proof (exec_op_refines S G any max_depth fuel d name supplied rootobj s1 Hs Hd Hm) as R1.
  pose proof (exec_op_refines S G any max_depth fuel d name supplied rootobj s2 Hs Hd Hm) as R2.
  rewrite H1 in R1. rewrite H2 in R2.
  destruct R1 as [r' [E1 [D1 [P1 C1]]]]. destruct R2 as [r'' [E2 [D2 [P2 C2]]]].
  rewrite E1 in E2. inversion E2; subst r''. repeat split; try congruence.
  eapply perm_trans; [apply Permutation_sym; exact P1|exact P2].
Qed.
Print Assumptions C11_state_independent.

(* histories: a list of calls (operation name, variables) on one parsed document, threading the AST
   state, versus each call on a fresh parse *)
Fixpoint run_history (S : schema) (G : graph) (any : bool) (md fuel : nat) (d : doc) (rootobj : gv)
         (calls : list (option nat * list (nat * value))) (s : st) : list (outcome response) :=
  match calls with
  | [] => []
  | (name, vars) :: r =>
      match exec_op S G any md fuel d name vars rootobj s with
      | OutOfFuel => OutOfFuel :: run_history S G any md fuel d rootobj r s
      | Done (resp, s') => Done resp :: run_history S G any md fuel d rootobj r s'
      end
  end.

Definition fresh_each (S : schema) (G : graph) (any : bool) (md fuel : nat) (d : doc) (rootobj : gv)
           (calls : list (option nat * list (nat * value))) : list (outcome response) :=
  map (fun c => match exec_op S G any md fuel d (fst c) (snd c) rootobj (mkSt [] []) with
                | OutOfFuel => OutOfFuel | Done (resp, _) => Done resp end) calls.

Definition resp_equiv (a b : outcome response) : Prop :=
  match a, b with
  | OutOfFuel, OutOfFuel => True
  | Done r1, Done r2 => r_data r1 = r_data r2 /\ r_calls r1 = r_calls r2 /\
                        Permutation (map strip_frag (r_errs r1)) (map strip_frag (r_errs r2))
  | _, _ => False
  end.

Theorem C11_repeatable :
  forall S G any md fuel d rootobj calls s,
    wf_schema_args S = true -> wf_doc S d = true -> 0 < md ->
    Forall2 resp_equiv (run_history S G any md fuel d rootobj calls s) (fresh_each S G any md fuel d rootobj calls).
Proof.
  intros S G any md fuel d rootobj calls. induction calls as [|[name vars] r IH]; intros s Hs Hd Hm; simpl.
  - constructor.
  - pose proof (exec_op_refines S G any md fuel d name vars rootobj s Hs Hd Hm) as R1.
    pose proof (exec_op_refines S G any md fuel d name vars rootobj (mkSt [] []) Hs Hd Hm) as R2.
    destruct (exec_op S G any md fuel d name vars rootobj s) as [[r1 s1]|];
      destruct (exec_op S G any md fuel d name vars rootobj (mkSt [] [])) as [[r2 s2]|].
    + constructor; [|apply IH; auto].
      destruct R1 as [r' [E1 [D1 [P1 C1]]]]. destruct R2 as [r'' [E2 [D2 [P2 C2]]]].
      rewrite E1 in E2. inversion E2; subst r''. simpl. repeat split; try congruence.
      eapply perm_trans; [apply Permutation_sym; exact P1|exact P2].
    + destruct R1 as [r' [E1 _]]. congruence.
    + destruct R2 as [r' [E2 _]]. congruence.
    + constructor; [exact I|apply IH; auto].
Qed.
Print Assumptions C11_repeatable.

(* How far the printed form can move (finding F08a): what is printed for a visited field is the
   argument list sorted under the container type of its latest evaluation - when that type declares
   every supplied argument, exactly the arguments the request wrote, in another order; the values,
   the selections and everything else of the request are never written to (the state the model
   threads holds nothing but the container type per field). *)
Theorem C11_printed_arguments_permuted :
  forall S sa id name args t0,
    wf_schema_args S = true -> NoDup (map fst args) ->
    lookup id sa = Some t0 -> undeclared_args S t0 name args = [] ->
    Permutation (printed_args S sa id name args) args.
Proof.
  intros S sa id name args t0 Hs Hn Hl Hu. unfold printed_args. rewrite Hl.
  exact (sort_args_perm S t0 name args Hs Hn Hu).
Qed.
Print Assumptions C11_printed_arguments_permuted.

Theorem C11_unvisited_fields_print_as_written :
  forall S sa id name args, lookup id sa = None -> printed_args S sa id name args = args.
Proof. intros. unfold printed_args. now rewrite H. Qed.
Print Assumptions C11_unvisited_fields_print_as_written.

(* The printed form: Field.Args is printed in its current order.  After a first visit under an object
   type the order is the declaration order (nil entries dropped), so the printed form of a document whose
   arguments were written in another order changes — the part of finding F08 this model covers. *)
Example C11_print_refuted :
  let S := [(10, DLeaf LInt); (1, DObject [mkF 3 (TNamed 10) [mkA 1 (TNamed 10) None; mkA 2 (TNamed 10) None]] [])] in
  let G := [(1, mkNode 1 [(3, BEcho 1)])] in
  let d := mkDoc [mkOp OpQuery None [] [SField 7 None 3 [(2, VInt 5); (1, VInt 6)] [] []]] [] in
  exists r s', exec_op S G false 100 100 d None [] (GNodeR 1) (mkSt [] []) = Done (r, s') /\
    printed_args S [] 7 3 [(2, VInt 5); (1, VInt 6)] = [(2, VInt 5); (1, VInt 6)] /\
    printed_args S (s_args s') 7 3 [(2, VInt 5); (1, VInt 6)] = [(1, VInt 6); (2, VInt 5)].
Proof. eexists; eexists. split; [vm_compute; reflexivity|]. split; reflexivity. Qed.
