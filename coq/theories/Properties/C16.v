(* Property C16 — a schema means the same however its definitions are ordered or split.
   Only statements; every proof is `exact <lemma>` into Schema_perm.v.
   The specification reads a list of definitions and extensions through its flat reading
   (Schema.flatten: every member tagged with its owner); the rule catalogue and everything observed
   are functions of that reading. *)
From Coq Require Import List Arith ZArith Bool Permutation.
Import ListNotations.
From Coq Require Import Sorted.
From GG Require Import Schema Schema_perm Listing.

(* Order: every permutation of the definitions (and extensions) is accepted or refused alike. *)
Theorem C16_order_accept :
  forall items items', Permutation items items' -> ok items = ok items'.
Proof. exact ok_perm. Qed.
Print Assumptions C16_order_accept.

(* ... and defines the same schema: every component of the flat reading is the same up to order
   (the driver sorts before comparing), and so are the operation root types. *)
Theorem C16_order_same_schema :
  forall items items', Permutation items items' ->
    let a := flatten items in let b := flatten items' in
    Permutation (fl_bases a) (fl_bases b) /\ Permutation (fl_dirs a) (fl_dirs b) /\
    Permutation (fl_ifaces a) (fl_ifaces b) /\ Permutation (fl_fields a) (fl_fields b) /\
    Permutation (fl_members a) (fl_members b) /\ Permutation (fl_vals a) (fl_vals b) /\
    Permutation (fl_inputs a) (fl_inputs b) /\ Permutation (fl_locs a) (fl_locs b).
Proof. exact flatten_components_perm. Qed.
Print Assumptions C16_order_same_schema.

Theorem C16_order_same_operation_roots :
  forall items items', Permutation items items' -> Permutation (op_roots items) (op_roots items').
Proof. exact op_roots_perm. Qed.
Print Assumptions C16_order_same_operation_roots.

(* directive-argument defaults are filled in alike *)
Theorem C16_defaults_filled_alike :
  forall items items' du, Permutation items items' ->
    Permutation (du_args (fill_duse (flatten items) du)) (du_args (fill_duse (flatten items') du)).
Proof. intros items items' du H. apply fill_duse_perm. now destruct (flatten_perm _ _ H). Qed.
Print Assumptions C16_defaults_filled_alike.

(* Extend blocks: writing some directives, interfaces, fields, members, values or input fields of a
   definition in an extend block, anywhere in the list, changes neither acceptance ... *)
Theorem C16_extend_split_accept :
  forall l1 l2 whole base ext, splits whole base ext ->
    ok (l1 ++ whole :: l2) = ok (l1 ++ base :: ext :: l2).
Proof. exact ok_split. Qed.
Print Assumptions C16_extend_split_accept.

(* ... nor the members of any definition. *)
Theorem C16_extend_split_same_members :
  forall {A} (sel : item -> list A) whole base ext,
    ikey base = ikey whole -> ikey ext = ikey whole -> sel whole = sel base ++ sel ext ->
    tagged sel [whole] = tagged sel [base; ext].
Proof. intros A. exact (@tagged_split A). Qed.
Print Assumptions C16_extend_split_same_members.

(* Successive loads: when every load of a partition is accepted the root holds exactly what loading
   the concatenation as one document gives. *)
Theorem C16_partition :
  forall docs, all_accepted [] docs = true -> load [] (concat docs) = (true, after [] docs).
Proof. exact partition_as_one_document. Qed.
Print Assumptions C16_partition.

(* Non-vacuity: a split definition. *)
Example C16_example_split :
  let f n := {| fd_name := n; f_desc := []; f_ty := TN 0; fd_args := []; f_dirs := [] |} in
  let mk ext fs := {| it_ext := ext; it_kind := KObject; it_name := 10; it_desc := []; it_dirs := []; it_ifaces := [];
                      it_fields := fs; it_members := []; it_vals := []; it_inputs := []; it_locs := [] |} in
  splits (mk false [f 10; f 11]) (mk false [f 10]) (mk true [f 11]) /\
  ok [mk false [f 10; f 11]] = true /\ ok [mk true [f 11]; mk false [f 10]] = true.
Proof. vm_compute. repeat split; try reflexivity; discriminate. Qed.

(* One load whose definitions lie in several files read in any order (Root.ParseFS reads the files
   it matched in the order of a Go map and parses their concatenation): acceptance and the schema
   are those of the definitions in any one order. *)
Theorem C16_files_read_in_any_order :
  forall (items : list item) (files files' : list (list item)),
    Permutation (concat files) items -> Permutation files files' ->
    ok (concat files') = ok items /\
    Permutation (op_roots (concat files')) (op_roots items) /\
    Permutation (fl_bases (flatten (concat files'))) (fl_bases (flatten items)).
Proof.
  intros items files files' Hc Hp.
  assert (P : Permutation (concat files') items).
  { eapply perm_trans; [apply perm_concat, Permutation_sym; exact Hp|exact Hc]. }
  split; [now apply ok_perm|]. split; [now apply op_roots_perm|].
  now destruct (flatten_components_perm _ _ P) as [B _].
Qed.
Print Assumptions C16_files_read_in_any_order.

(* The order in which a root lists its types and directives (Root.Types(), Root.Directives(),
   __schema{types directives}): by rank, then by name in byte order — a function of the set of
   definitions, whatever the order or partition in which they arrived.  `coherent`: one definition
   per name in a table. *)
Theorem C16_listing_is_arrangement_independent :
  forall a b : list entry, Permutation a b -> coherent a -> listing a = listing b.
Proof. exact listing_canonical. Qed.
Print Assumptions C16_listing_is_arrangement_independent.

Theorem C16_listing_sorted_permutation :
  forall l : list entry, StronglySorted le_prop (listing l) /\ Permutation l (listing l).
Proof. intros l. split; [apply listing_sorted|apply listing_perm]. Qed.
Print Assumptions C16_listing_sorted_permutation.

(* the check applied to the lists the library returns: a list passes exactly when it is in that order,
   and then it IS the listing of any arrangement of its entries *)
Theorem C16_listed_check :
  forall l : list entry, listed_okb l = true <-> StronglySorted le_prop l.
Proof. exact listed_okb_spec. Qed.
Print Assumptions C16_listed_check.

Theorem C16_listed_check_canonical :
  forall l a : list entry, listed_okb l = true -> Permutation a l -> coherent a -> listing a = l.
Proof.
  intros l a H Hp Hc. apply listed_okb_spec in H.
  rewrite (listing_canonical a l Hp Hc). now apply listing_fixpoint.
Qed.
Print Assumptions C16_listed_check_canonical.

(* Non-vacuity: names that differ by case only are told apart (byte order), operation types come first *)
Example C16_listing_example :
  listing [(0, [116; 49]); (1, [84; 49]); (0, [84; 49; 48]); (1, n_Query); (4, [69])]
  = [(1, n_Query); (1, [84; 49]); (4, [69]); (0, [84; 49; 48]); (0, [116; 49])].
Proof. vm_compute. reflexivity. Qed.
