(* Property C01 — a query response contains exactly the data the request selected.
   Statements only. *)
From Coq Require Import List Arith ZArith Bool Permutation Lia.
Import ListNotations.
From GG Require Import Exec ExecSpec ExecSpec_proofs.

(* For every schema, data graph, document whose arguments are declared (wf_doc), operation name,
   variable map, resolver-strategy assignment, AST state left by earlier calls, fuel and depth limit:
   whenever the executor returns, the specification returns too and
   - the resolver calls are the specification's, in order, with the same arguments;
   - the data is the specification's data — entry for entry — provided no selection set produces
     two entries with one response key (where the implementation overwrites instead of merging:
     finding F12);
   - when the request is rejected before execution there is no data and no resolver ran. *)
Theorem C01_data_exact :
  forall S G any max_depth fuel d name supplied rootobj s r s',
    wf_schema_args S = true -> wf_doc S d = true -> 0 < max_depth ->
    exec_op S G any max_depth fuel d name supplied rootobj s = Done (r, s') ->
    exists r', sem_op S G any max_depth fuel d name supplied rootobj = Done r' /\
      r_calls r = r_calls r' /\
      (forall dt, r_data r' = Some dt -> nodup_keys dt = true -> r_data r = Some dt) /\
      (r_data r' = None -> r_data r = None).
Proof.
  intros S G any max_depth fuel d name supplied rootobj s r s' Hs Hd Hm He.
  pose proof (exec_op_refines S G any max_depth fuel d name supplied rootobj s Hs Hd Hm) as H.
  rewrite He in H. destruct H as [r' [Hsem [Hdata [_ Hcalls]]]].
  exists r'. repeat split; auto.
  - intros dt Hdt Hn. rewrite Hdata, Hdt. simpl. now rewrite norm_nodup.
  - intros Hn. now rewrite Hdata, Hn.
Qed.
Print Assumptions C01_data_exact.

(* The operation executed is the one named, or the only one; an unknown or ambiguous name executes
   no resolver at all. *)
Theorem C01_op_choice :
  forall S G any max_depth fuel d name supplied rootobj s,
    choose_op d name = None ->
    exec_op S G any max_depth fuel d name supplied rootobj s = Done (mkResp None [mkErr [] LNone EOpChoice] [], s).
Proof. intros. unfold exec_op. now rewrite H. Qed.
Print Assumptions C01_op_choice.

Theorem C01_op_named :
  forall d name o, choose_op d name = Some o ->
    same_name (op_name o) name = true \/ (name = None /\ d_ops d = [o]).
Proof.
  intros d name o H. unfold choose_op in H.
  destruct (find (fun o0 => same_name (op_name o0) name) (d_ops d)) eqn:E.
  - inversion H; subst. apply find_some in E. tauto.
  - destruct name; [discriminate|]. destruct (d_ops d) as [|o1 [|o2 r]]; try discriminate. inversion H; subst. auto.
Qed.

(* an unknown name executes no resolver, also when the document has only one operation *)
Theorem C01_unknown_name_no_resolver :
  forall S G any max_depth fuel d n supplied rootobj s,
    (forall o, In o (d_ops d) -> op_name o <> Some n) ->
    exec_op S G any max_depth fuel d (Some n) supplied rootobj s = Done (mkResp None [mkErr [] LNone EOpChoice] [], s).
Proof.
  intros S G any max_depth fuel d n supplied rootobj s Hn. apply C01_op_choice.
  unfold choose_op. destruct (find (fun o => same_name (op_name o) (Some n)) (d_ops d)) as [o|] eqn:E; [|reflexivity].
  apply find_some in E. destruct E as [Hin Hs]. exfalso. apply (Hn o Hin).
  unfold same_name in Hs. destruct (op_name o) as [x|]; [|discriminate]. apply Nat.eqb_eq in Hs. now subst.
Qed.
Print Assumptions C01_unknown_name_no_resolver.

Print Assumptions C01_op_named.

(* What the specification prescribes for one field selection: at most one entry, under the
   response key (alias, else field name); __typename yields the object's type name. *)
Theorem C01_one_entry_per_selection :
  forall S G frags any vars fuel obj id alias name args fsels t depth path es ea cs,
    sem_field S G frags any vars fuel obj id alias name args fsels t depth path = Done (es, ea, cs) ->
    length es <= 1 /\ forall kv, In kv es -> fst kv = key_of alias name.
Proof.
  intros S G frags any vars fuel obj id alias name args fsels t depth path es ea cs H.
  destruct fuel as [|fuel']; [discriminate|]. rewrite sem_field_eq in H. cbv zeta in H.
  destruct (undeclared_args S t name args) as [|b0 bad].
  2:{ inversion H; subst. simpl. split; [lia|]. intros kv []. }
  destruct (Nat.eqb name TYPENAME).
  { inversion H; subst. simpl. split; [lia|]. intros kv [<-|[]]. reflexivity. }
  destruct (get_field_def S t name) as [fd|].
  2:{ inversion H; subst. simpl. split; [lia|]. intros kv []. }
  destruct (answerer_of any obj) as [n| |].
  - destruct (spec_args S vars id fd args (path ++ [PKey (key_of alias name)])) as [cargs [|e0 ea0]].
    + destruct (run_behav G n name cargs) as [attr rerr]. destruct (is_nil attr).
      * inversion H; subst. simpl. split; [lia|]. intros kv [<-|[]]. reflexivity.
      * destruct (sem_value S G frags any vars fuel' attr id fsels (f_type fd) depth _) as [[[fv ea2] cs2]|]; [|discriminate].
        inversion H; subst. simpl. split; [lia|]. intros kv [<-|[]]. reflexivity.
    + inversion H; subst. simpl. split; [lia|]. intros kv [<-|[]]. reflexivity.
  - destruct (spec_args S vars id fd args (path ++ [PKey (key_of alias name)])) as [cargs [|e0 ea0]];
      inversion H; subst; simpl; (split; [lia|]); intros kv [<-|[]]; reflexivity.
  - destruct (lookup t S) as [[k|fs ifaces|fs|ms|fs]|]; inversion H; subst; simpl; (split; [lia|]);
      intros kv [<-|[]]; reflexivity.
Qed.
Print Assumptions C01_one_entry_per_selection.

(* (no object type declares a field called __typename - the name is reserved, C13 - so no argument
   is "undeclared by the field" there; the hypothesis says just that) *)
Theorem C01_typename :
  forall S G frags any vars fuel obj id alias args fsels t depth path,
    undeclared_args S t TYPENAME args = [] ->
    sem_field S G frags any vars (Datatypes.S fuel) obj id alias TYPENAME args fsels t depth path
    = Done ([(key_of alias TYPENAME, RTypeName t)], [], []).
Proof. intros. rewrite sem_field_eq. cbv zeta. rewrite H. reflexivity. Qed.
Print Assumptions C01_typename.

(* ---- a concrete instance: alias + inline fragment + list with a null element + nested object ---- *)
Definition ex_schema : schema :=
  [(10, DLeaf LInt); (11, DLeaf LString);
   (20, DObject [mkF 1 (TNamed 11) []; mkF 2 (TList (TNamed 20)) []] []);
   (1, DObject [mkF 3 (TList (TNamed 20)) []; mkF 4 (TNamed 10) []] [])].
Definition ex_graph : graph :=
  [(1, mkNode 1 [(3, BConst (GList [GNodeR 2; GNil; GNodeR 3])); (4, BConst (GInt 7))]);
   (2, mkNode 20 [(1, BConst (GStr 5)); (2, BConst (GList []))]);
   (3, mkNode 20 [(1, BConst GNil); (2, BConst (GList [GNodeR 2]))])].
Definition ex_doc : doc :=
  mkDoc [mkOp OpQuery None []
           [SField 1 (Some 9) 3 [] []
              [SField 2 None 1 [] [] [];
               SInline 3 (Some 20) [] [SField 4 (Some 8) 2 [] [] [SField 5 None TYPENAME [] [] []]]];
            SField 6 None 4 [] [] []]] [].

Example C01_example :
  wf_schema_args ex_schema = true /\ wf_doc ex_schema ex_doc = true /\
  exists r s', exec_op ex_schema ex_graph false 100 1000 ex_doc None [] (GNodeR 1) (mkSt [] []) = Done (r, s') /\
    r_data r = Some (RObj [(9, RList [RObj [(1, RStr 5); (8, RList [])]; RNull;
                                      RObj [(1, RNull); (8, RList [RObj [(TYPENAME, RTypeName 20)]])]]);
                           (4, RInt 7)]) /\
    r_errs r = [] /\
    sem_op ex_schema ex_graph false 100 1000 ex_doc None [] (GNodeR 1) = Done r.
Proof. split; [reflexivity|]. split; [reflexivity|]. eexists; eexists. split; [vm_compute; reflexivity|]. repeat split. Qed.

(* ---- finding F12 (refutation of the unrestricted statement): two selections with one response key
   are not merged — the later overwrites the earlier, and both resolvers run ---- *)
Definition dup_doc : doc :=
  mkDoc [mkOp OpQuery None []
           [SField 1 None 3 [] [] [SField 2 None 1 [] [] []];
            SField 3 None 3 [] [] [SField 4 None 2 [] [] [SField 5 None TYPENAME [] [] []]]]] [].

Example C01_refuted_dupkey :
  wf_doc ex_schema dup_doc = true /\
  exists r s' r', exec_op ex_schema ex_graph false 100 1000 dup_doc None [] (GNodeR 1) (mkSt [] []) = Done (r, s') /\
    sem_op ex_schema ex_graph false 100 1000 dup_doc None [] (GNodeR 1) = Done r' /\
    r_data r <> r_data r' /\ length (r_calls r) = 6.
Proof.
  split; [reflexivity|]. eexists; eexists; eexists. split; [vm_compute; reflexivity|].
  split; [vm_compute; reflexivity|]. split; [discriminate|reflexivity].
Qed.
