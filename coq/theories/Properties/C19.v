(* Property C19 — subscription events reach exactly the live, matching subscribers.
   Only statements; every proof is `exact <lemma>` into Registry_proofs.v. *)
From Coq Require Import List Arith ZArith Bool Permutation.
Import ListNotations.
From GG Require Import Registry Registry_proofs.

(* Refinement: for EVERY finite history of subscribe/publish/unsubscribe whose registrations
   use fresh identities, the Go-shaped machine (index loops, two-phase publish) does not hit an
   out-of-range index, ends in the abstract registry's state, and produces the abstract
   registry's outputs (deliveries in registration order, counts, error flag; clean-ups as a set). *)
Theorem C19_refines :
  forall (h : list op) (l : state),
    NoDup (map uid l ++ new_uids h) ->
    exists xs, run l h = Some (fst (a_run l h), xs) /\ Forall2 out_equiv xs (snd (a_run l h)).
Proof. exact run_refines. Qed.
Print Assumptions C19_refines.

(* A publish delivers to each live matching subscriber exactly one message — that subscriber's
   own selection set applied to the event — in registration order, and reports their number. *)
Theorem C19_delivery_exact :
  forall id ev (l : state),
    NoDup (map uid l) ->
    exists l' po, add_event id ev l = Some (l', po) /\
      p_del po = map (fun s => (uid s, render (sel s) ev, negb (fst (send s)))) (filter (matches id) l) /\
      p_cnt po = length (filter (matches id) l).
Proof.
  intros id ev l Hn. rewrite (add_event_spec id ev l Hn).
  exists (fst (a_publish id ev l)), (snd (a_publish id ev l)).
  split; [now destruct (a_publish id ev l)|]. split; [apply deliveries_exact|reflexivity].
Qed.
Print Assumptions C19_delivery_exact.

(* A field of the event whose resolution fails is null in the message and makes the publish report an
   error, but it is not a failed delivery: the subscriber whose Send succeeded stays registered
   (only a failing Send removes it). *)
Theorem C19_resolve_error_is_not_a_failed_delivery :
  forall id ev (s : sub),
    matches id s = true -> fst (send s) = false ->
    pub1 id ev s = (Some (uid s, render (sel s) ev, true), Some (snd (send s))).
Proof.
  intros id ev s Hm Hs. unfold pub1. rewrite Hm. destruct (send s) as [fail s'] eqn:E. simpl in *. subst fail. reflexivity.
Qed.
Print Assumptions C19_resolve_error_is_not_a_failed_delivery.

Theorem C19_publish_reports_failing_fields :
  forall id ev (l : state) (s : sub),
    In s l -> matches id s = true -> msg_bad (render (sel s) ev) = true ->
    p_err (snd (a_publish id ev l)) = true.
Proof.
  intros id ev l s Hin Hm Hb. unfold a_publish. cbn [snd p_err]. apply orb_true_iff. right.
  unfold dl_bad. apply existsb_exists.
  exists (uid s, render (sel s) ev, negb (fst (send s))). split; [|exact Hb].
  apply in_flat_map. exists (pub1 id ev s). split; [now apply in_map|].
  unfold pub1. rewrite Hm. destruct (send s) as [fail s']. simpl. now left.
Qed.
Print Assumptions C19_publish_reports_failing_fields.

(* Over a whole history: a subscriber's clean-up is called at most once, and it receives
   nothing after it (trace_ok [] t: no Deliver or Cleanup of an identity already cleaned up). *)
Theorem C19_cleanup_once_nothing_after :
  forall (h : list op) l' xs,
    wf_hist h -> run [] h = Some (l', xs) -> trace_ok [] (trace xs).
Proof.
  intros h l' xs Hw Hr. eapply run_trace_ok; eauto. unfold inv3. exact Hw.
Qed.
Print Assumptions C19_cleanup_once_nothing_after.

(* Unsubscribing removes exactly the matching subscribers and cleans each up once. *)
Theorem C19_unsubscribe_exact :
  forall id (l : state),
    unsubscribe id l =
    Some (filter (fun s => negb (matches id s)) l,
          length (filter (matches id) l),
          rev (map uid (filter (matches id) l))).
Proof. exact unsubscribe_spec. Qed.
Print Assumptions C19_unsubscribe_exact.

(* Non-vacuity: a concrete history meets the hypotheses and exercises failure removal. *)
Example C19_nonvacuous :
  let h := [OSub [mkSub 1 None [0;1] [false;true]]; OSub [mkSub 2 (Some 7) [1] []];
            OPub 7 [Some 10; Some 20]%Z; OPub 7 [Some 11; Some 21]%Z; OPub 7 [Some 12; None]%Z; OUnsub 7] in
  wf_hist h /\
  exists l xs, run [] h = Some (l, xs) /\ l = [] /\
    trace xs = [Deliver 1 [(0,Some 10%Z);(1,Some 20%Z)] true; Deliver 2 [(1,Some 20%Z)] true;
                Deliver 1 [(0,Some 11%Z);(1,Some 21%Z)] false; Deliver 2 [(1,Some 21%Z)] true; Cleanup 1;
                Deliver 2 [(1,None)] true; Cleanup 2].
Proof.
  split.
  - unfold wf_hist. simpl. repeat constructor; simpl; intuition congruence.
  - eexists; eexists. split; [vm_compute; reflexivity|]. split; reflexivity.
Qed.
