(* Property C06 — each field failure is reported once, at the right path, keeping partial data.
   Statements only. *)
From Coq Require Import List Arith ZArith Bool Permutation Lia.
Import ListNotations.
From GG Require Import Exec ExecSpec ExecSpec_proofs.
From GG.Properties Require C01.

(* The executor builds error paths bottom-up (prefixing a key or an index each time it unwinds one
   level); the specification builds them top-down (the response path of the position being computed).
   For every schema, graph, document (declared arguments), variables, strategy assignment, AST state
   and fuel: the errors of the executor — once the "fragment at L:C" segments that every named-fragment
   spread inserts (finding F11, pinned by the test-suite) are erased — are exactly the
   specification's errors as a multiset: same response paths, same locations, same kinds, same
   multiplicity (one per failure, one per member of a grouped error). *)
Theorem C06_errors_exact :
  forall S G any max_depth fuel d name supplied rootobj s r s',
    wf_schema_args S = true -> wf_doc S d = true -> 0 < max_depth ->
    exec_op S G any max_depth fuel d name supplied rootobj s = Done (r, s') ->
    exists r', sem_op S G any max_depth fuel d name supplied rootobj = Done r' /\
      Permutation (r_errs r') (map strip_frag (r_errs r)) /\
      r_data r = option_map norm (r_data r').
Proof.
  intros S G any max_depth fuel d name supplied rootobj s r s' Hs Hd Hm He.
  pose proof (exec_op_refines S G any max_depth fuel d name supplied rootobj s Hs Hd Hm) as H.
  rewrite He in H. destruct H as [r' [Hsem [Hdata [Herr _]]]]. eauto.
Qed.
Print Assumptions C06_errors_exact.

(* What the specification prescribes at a failing field: when the resolver of a field at response
   path p.key returns no value together with a failure (a plain error, or a group of k errors), the
   entry at that key is null and there is exactly one error per failure (k for a group), each with
   path p.key and the field's location; the resolver was invoked once. *)
Theorem C06_failure_at_position :
  forall S G frags any vars fuel obj n id alias name args fsels t depth path fd cargs k,
    Nat.eqb name TYPENAME = false ->
    get_field_def S t name = Some fd ->
    undeclared_args S t name args = [] ->
    answerer_of any obj = ANode n ->
    spec_args S vars id fd args (path ++ [PKey (key_of alias name)]) = (cargs, []) ->
    run_behav G n name cargs = (GNil, Some k) ->
    sem_field S G frags any vars (Datatypes.S fuel) obj id alias name args fsels t depth path =
    Done ([(key_of alias name, RNull)],
          repeat (mkErr (path ++ [PKey (key_of alias name)]) (LNode id) EResolver) (match k with 0 => 1 | _ => k end),
          [mkCall n name (canon_args cargs)]).
Proof.
  intros S G frags any vars fuel obj n id alias name args fsels t depth path fd cargs k Hn Hg Hu Ha Hs Hr.
  rewrite sem_field_eq. cbv zeta. rewrite Hu, Hn, Hg, Ha, Hs, Hr. simpl is_nil. cbv iota.
  destruct k; reflexivity.
Qed.
Print Assumptions C06_failure_at_position.

(* a failing list accessor: element i is null, one error with path p.i *)
Theorem C06_nth_failure :
  forall S G frags any vars fuel r i fid fsels lt depth path,
    match sem_any_elems S G frags any vars (Datatypes.S fuel) (None :: r) i fid fsels lt depth path,
          sem_any_elems S G frags any vars fuel r (Datatypes.S i) fid fsels lt depth path with
    | Done (vs, ea, cs), Done (vs', ea', cs') =>
        vs = RNull :: vs' /\ ea = mkErr (path ++ [PIdx i]) LNone ENth :: ea' /\ cs = cs'
    | OutOfFuel, OutOfFuel => True
    | _, _ => False
    end.
Proof.
  intros. rewrite sem_any_elems_eq.
  destruct (sem_any_elems S G frags any vars fuel r (Datatypes.S i) fid fsels lt depth path) as [[[vs ea] cs]|]; auto.
Qed.
Print Assumptions C06_nth_failure.

(* an output-coercion failure at a leaf: one error with the leaf's path *)
Theorem C06_coercion_failure :
  forall S G frags any vars fuel obj fid fsels n k depth path r,
    is_nil obj = false -> Nat.eqb depth 0 = false ->
    lookup n S = Some (DLeaf k) -> coerce_out k obj = (r, true) ->
    sem_value S G frags any vars (Datatypes.S fuel) obj fid fsels (TNamed n) depth path =
    Done (r, [mkErr path (LNode fid) ECoerceOut], []).
Proof. intros. rewrite sem_value_eq, H, H0, H1, H2. reflexivity. Qed.
Print Assumptions C06_coercion_failure.

(* ---- instance: failures inside a list of lists behind an alias ---- *)
Definition g_fail : graph :=
  [(1, mkNode 1 [(3, BConst (GList [GNodeR 2; GNodeR 3])); (4, BFail 0 GNil)]);
   (2, mkNode 20 [(1, BFail 2 GNil); (2, BConst (GList []))]);
   (3, mkNode 20 [(1, BConst (GStr 1)); (2, BConst (GList [GNodeR 2]))])].

Example C06_example :
  exists r s', exec_op C01.ex_schema g_fail false 100 1000 C01.ex_doc None [] (GNodeR 1) (mkSt [] []) = Done (r, s') /\
    r_data r = Some (RObj [(9, RList [RObj [(1, RNull); (8, RList [])];
                                      RObj [(1, RStr 1); (8, RList [RObj [(TYPENAME, RTypeName 20)]])]]);
                           (4, RNull)]) /\
    r_errs r = [mkErr [PKey 9; PIdx 0; PKey 1] (LNode 2) EResolver; mkErr [PKey 9; PIdx 0; PKey 1] (LNode 2) EResolver;
                mkErr [PKey 4] (LNode 6) EResolver].
Proof. eexists; eexists. split; [vm_compute; reflexivity|]. split; reflexivity. Qed.

(* ---- finding F11 (refutation of the statement without erasure): an error raised inside a named
   fragment carries a path segment that is not a response key ---- *)
Definition frag_doc : doc :=
  mkDoc [mkOp OpQuery None [] [SFrag 1 1 []]] [(1, mkFrag (Some 1) [SField 2 None 4 [] [] []] [])].

Example C06_refuted_fragment_segment :
  exists r s', exec_op C01.ex_schema g_fail false 100 1000 frag_doc None [] (GNodeR 1) (mkSt [] []) = Done (r, s') /\
    r_errs r = [mkErr [PFragAt 1; PKey 4] (LNode 2) EResolver].
Proof. eexists; eexists. split; [vm_compute; reflexivity|reflexivity]. Qed.
