(* Property C12 — concurrent requests on one root are mutually isolated and do not deadlock.
   Only statements; every proof is `exact <lemma>` into LazyReg_proofs.v.
   The model (LazyReg.v) is the protocol of the lazily registered bindings: shared cells bound on
   first use under their mutex with a value that is a function of static data, read later under the
   same mutex; mutexes taken in increasing level (the field's before the object's) and released
   last-in first-out.  Everything else a request touches (its AST, variables, result maps) is its
   own.  PARTIAL by nature: a data race is a property of memory accesses, not of this protocol; the
   decomposition into critical sections is the modelling assumption, which the check attacks with a
   syntactic lock-discipline scan and with cold-root rounds under the Go race detector. *)
From Coq Require Import List Arith Bool Lia.
Import ListNotations.
From GG Require Import LazyReg LazyReg_proofs.

(* Isolation: for any number of requests and any interleaving of their steps, stopped anywhere:
   every value any request has read from a shared cell is that cell's static binding - exactly what
   the request reads when it runs alone (the one-thread instance of the same statement). *)
Theorem C12_reads_are_static :
  forall binding progs sched,
    forallb (binds_before_reads []) progs = true ->
    Forall (Forall (fun co => snd co = Some (binding (fst co)))) (c_reads (run binding (init progs) sched)).
Proof. exact reads_are_static. Qed.
Print Assumptions C12_reads_are_static.

(* No deadlock: from any state obeying the lock discipline, along any schedule, while some request
   is unfinished some request can take its next step. *)
Theorem C12_no_deadlock :
  forall ts sched,
    all_disciplined ts = true ->
    let ts' := fold_left lstep sched ts in
    finished ts' = false -> exists i t, nth_error ts' i = Some t /\ enabled ts' t = true.
Proof. exact no_deadlock. Qed.
Print Assumptions C12_no_deadlock.

(* Non-vacuity: two requests racing on the first use of one field of one object type (cells 1 = the
   object's Go type, 2 = the field's binding); fd.mu = lock 1 taken before obj.mu = lock 2. *)
Example C12_example :
  let p := [Bind 1; Read 1; Bind 2; Read 2] in
  c_reads (run (fun c => 10 + c) (init [p; p]) [0; 1; 1; 0; 1; 0; 0; 1]) =
    [[(1, Some 11); (2, Some 12)]; [(1, Some 11); (2, Some 12)]] /\
  all_disciplined [mkT [] [Acq 1; Acq 2; Rel; Rel]; mkT [] [Acq 1; Acq 2; Rel; Rel]] = true.
Proof. vm_compute. split; reflexivity. Qed.
