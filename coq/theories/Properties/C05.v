(* Property C05 — response data is well-typed with respect to the schema. Statements only.
   Leaf level here; the composite levels (object for object types, list for list types, null
   plus one error at a failing position) are the C01/C06 theorems about the executor. *)
From Coq Require Import List Arith ZArith Bool.
Import ListNotations.
From GG Require Import Coerce Coerce_proofs.

(* For every leaf type and every Go value a resolver may return (every numeric kind and value, floats
   incl. NaN/Inf/overflow, numeric and non-numeric strings, symbols, slices, maps, times, foreign values):
   output coercion either fails, or yields a value of the JSON shape of the declared type — Int a
   32-bit integer, Int64 a 64-bit integer, Float/Float64 finite, String/ID a string, Boolean a
   boolean, Time an RFC 3339 text, enum the name of a declared value — except that an enum leaf
   accepts any string / symbol (finding F06e, pinned by TestEnum). *)
Theorem C05_leaf_well_typed :
  forall t v r, leaf_out t v = (r, false) ->
    has_shape t r = true \/
    (exists vals s, t = TEnum vals /\ r = CStr s) \/
    (exists vals e, t = TEnum vals /\ r = CSymName e /\ existsb (Nat.eqb e) vals = false).
Proof. exact leaf_out_shape. Qed.
Print Assumptions C05_leaf_well_typed.

(* the unconverted value never leaks: when output coercion fails the value it returns is nil *)
Theorem C05_no_leak : forall t v r, leaf_out t v = (r, true) -> r = CNil.
Proof. exact leaf_out_error_nil. Qed.
Print Assumptions C05_no_leak.

(* the delivered leaf is the resolver's value: integers are not wrapped, strings not re-parsed into other
   numbers, floats only narrowed or truncated as documented *)
Theorem C05_leaf_faithful : forall t v r, leaf_out t v = (r, false) -> out_faithful v r = true.
Proof. exact leaf_out_faithful. Qed.
Print Assumptions C05_leaf_faithful.

Example C05_boundaries :
  leaf_out (TScalar SInt) (CI KInt64 8589934597) = (CNil, true) /\
  leaf_out (TScalar SInt) (CStr (mkStr 0 None None None None)) = (CNil, true) /\
  leaf_out (TScalar SBoolean) (CStr (mkStr 0 None None None None)) = (CNil, true) /\
  leaf_out (TScalar SFloat64) (CFl (FIn (mkFlt 1 false false 0 false false))) = (CNil, true) /\
  leaf_out (TScalar SInt) (CFl (FIn (mkFlt 2 true true 3 false true))) = (CI KInt32 3, false) /\
  leaf_out (TScalar SString) (CI KUint64 18446744073709551615) = (CStrOfInt 18446744073709551615, false).
Proof. repeat split; reflexivity. Qed.

(* finding F06e (refutation of the unrestricted statement) *)
Example C05_refuted_enum_membership :
  leaf_out (TEnum [1%nat; 2%nat; 3%nat]) (CStr (mkStr 0 None None None None)) = (CStr (mkStr 0 None None None None), false) /\
  has_shape (TEnum [1%nat; 2%nat; 3%nat]) (CStr (mkStr 0 None None None None)) = false.
Proof. split; reflexivity. Qed.
