(* Property C15 — printed SDL re-parses to the same schema.
   Only statements; every proof is `exact <lemma>` into Sdl_proofs.v.
   The part of the property that is a relation over all strings is stated and proved here at byte
   level: what base.go writeDesc writes for a description (Sdl.write_desc) is read back by
   parser.go readDesc (Text.read_string + the line normalisation, Sdl.read_desc) as that description,
   and what value.go writeString writes for a string constant is read back by readString rune for
   rune.  That the remaining, structural part of the printers and the SDL parser round-trip (types,
   fields, arguments, wrappers, directive uses, numbers, lists, objects) is checked on the real
   code by printing, re-loading and comparing every generated schema, and by running the ggqlgen
   binary on it; Sdl.write_desc is compared byte for byte with the library on every case. *)
From Coq Require Import List Arith NArith Bool.
Import ListNotations.
From GG Require Import Text Sdl Sdl_proofs.

(* What writeDesc writes is white space, then the quoted form, then white space. *)
Theorem C15_description_layout :
  forall d indent, d <> [] ->
    exists lead trail, write_desc d indent = lead ++ desc_core d indent ++ trail /\
                       Forall (fun b => is_ws b = true) lead /\ Forall (fun b => is_ws b = true) trail.
Proof. exact write_desc_layout. Qed.
Print Assumptions C15_description_layout.

(* Every description obtainable from SDL (non-empty lines without white space at their ends, no NUL)
   containing anything else - quotes, triple quotes, backslashes, line breaks, non-ASCII bytes - at
   every indentation, followed by any text: the reader positioned at its first quote returns exactly
   the description and stops right behind the closing quote. *)
Theorem C15_description_round_trip :
  forall d indent s k,
    canonical d = true -> ready s (desc_core d indent ++ k) ->
    exists s', read_desc (length (desc_core d indent) + 1) s = ROk d s' /\ ready s' k.
Proof. exact canonical_description_reads_back. Qed.
Print Assumptions C15_description_round_trip.

(* Every string constant (default values, directive arguments): the written form, with its
   escapes for quotes, backslashes, control characters, read back gives the string's runes, its
   bytes are the string's bytes, and the reader stops right behind the closing quote. *)
Theorem C15_string_constant_round_trip :
  forall r rs s k,
    Forall wf_rune (r :: rs) -> write_rune r <> [] ->
    ready s (34 :: flat_map write_rune (r :: rs) ++ 34 :: k) ->
    exists s', read_string (length (flat_map write_rune (r :: rs)) + 1) s = ROk (Some (flat_map ritems (r :: rs))) s' /\
               ready s' k /\ items_bytes (flat_map ritems (r :: rs)) = flat_map rune_bytes (r :: rs).
Proof.
  intros r rs s k Hw Hne Hr. destruct (read_string_written r rs s k Hw Hne Hr) as (s' & E & R).
  exists s'. split; [exact E|]. split; [exact R|apply written_string_bytes].
Qed.
Print Assumptions C15_string_constant_round_trip.

(* Non-vacuity: a two-line description with a quote, a triple quote and a backslash, at indent 1. *)
Example C15_example :
  let d := [97; 34; 98; 10; 34; 34; 34; 92; 99] in
  canonical d = true /\
  read_desc_text (desc_core d 1 ++ [10; 120]) = Some (d, [10; 120]).
Proof. vm_compute. split; reflexivity. Qed.
