(* Property C10 — undefined fields, arguments, directives or types are rejected, never resolved.
   Statements about the executor model (Exec.v) for every container type t — object, interface,
   union member or root operation type alike — and every depth. *)
From Coq Require Import List Arith ZArith Bool Lia.
Import ListNotations.
From GG Require Import Exec ExecSpec ExecSpec_proofs.

(* state after the argument block of resolveField: ConType = t recorded, Field.Args sorted under t *)
Definition visited (s : st) (id t : nat) : st := mkSt ((id, t) :: s_args s) (s_calls s).

(* when the container has no such field, sortArgs has nothing to complain about *)
Lemma sort_args_no_field S t name args :
  Nat.eqb name TYPENAME = false ->
  get_field_def S t name = None -> snd (sort_args S t name args) = [].
Proof.
  unfold get_field_def, sort_args, meta_arg_errs. intros Hn H. destruct args; [reflexivity|]. rewrite Hn.
  destruct (lookup t S) as [[k|fs ifaces|fs|ms|fs]|]; try reflexivity; rewrite H; reflexivity.
Qed.

(* An undefined field: one error naming the selection (its key as path, its position as location),
   no response entry, no resolver invoked - whatever was resolved before on the same parsed
   document (any state s), for every container type t. *)
Theorem C10_unknown_field :
  forall S G frags any md vars fuel obj id alias name args fsels t result depth s,
    Nat.eqb name TYPENAME = false ->
    get_field_def S t name = None ->
    resolve_field S G frags any md vars (Datatypes.S fuel) obj id alias name args fsels t result depth s =
    Done (result, [mkErr [PKey (key_of alias name)] (LNode id) ENotField], visited s id t).
Proof.
  intros S G frags any md vars fuel obj id alias name args fsels t result depth s Hn Hg.
  rewrite resolve_field_eq. cbv zeta. unfold visited.
  pose proof (sort_args_no_field S t name args Hn Hg) as Ht.
  destruct (sort_args S t name args) as [a e]. simpl in Ht. subst e.
  rewrite Hn, Hg. reflexivity.
Qed.
Print Assumptions C10_unknown_field.

(* __typename declares no arguments: one written on it is reported like any other undeclared
   argument, in every container type, and the selection gets no entry. *)
Theorem C10_argument_on_typename :
  forall S G frags any md vars fuel obj id alias a args fsels t result depth s,
    get_field_def S t TYPENAME = None ->
    exists e ea, resolve_field S G frags any md vars (Datatypes.S fuel) obj id alias TYPENAME (a :: args) fsels t result depth s =
                 Done (result, errs_in (PKey (key_of alias TYPENAME)) (e :: ea), visited s id t) /\
                 e_kind e = EBadArg.
Proof.
  intros S G frags any md vars fuel obj id alias a args fsels t result depth s Hg.
  assert (Hne : exists e ea, snd (sort_args S t TYPENAME (a :: args)) = e :: ea /\ e_kind e = EBadArg).
  { unfold sort_args, get_field_def, meta_arg_errs in *. cbn [Nat.eqb TYPENAME].
    destruct (lookup t S) as [[k|fs ifaces|fs|ms|fs]|]; try (rewrite Hg); cbn [snd map]; eauto. }
  destruct Hne as [e [ea [He Hk]]]. exists e, ea. split; auto.
  rewrite resolve_field_eq. cbv zeta. unfold visited.
  destruct (sort_args S t TYPENAME (a :: args)) as [sa se]. simpl in He. subst se. reflexivity.
Qed.
Print Assumptions C10_argument_on_typename.

(* An undeclared argument under an object or interface container t: on every visit of that Field - the first or a
   later one, after visits under the same or under OTHER container types, in the same or a later
   resolve of the parsed document (any state s) - the selection yields an error for the argument, no
   entry, and no resolver is invoked (the call log of the state is unchanged). *)
Theorem C10_undeclared_argument :
  forall S G frags any md vars fuel obj id alias name args fsels t fd a v result depth s,
    get_field_def S t name = Some fd ->
    In (a, v) args -> find_arg a (f_args fd) = None ->
    exists e ea, resolve_field S G frags any md vars (Datatypes.S fuel) obj id alias name args fsels t result depth s =
                 Done (result, errs_in (PKey (key_of alias name)) (e :: ea), visited s id t) /\
                 e_kind e = EBadArg.
Proof.
  intros S G frags any md vars fuel obj id alias name args fsels t fd a v result depth s Hg Hin Hna.
  assert (Hne : exists e ea, snd (sort_args S t name args) = e :: ea /\ e_kind e = EBadArg).
  { unfold sort_args, get_field_def in *. destruct args as [|a0 args0]; [inversion Hin|].
    destruct (lookup t S) as [[k|fs ifaces|fs|ms|fs]|]; try discriminate; rewrite Hg; cbn [snd];
      set (flt := filter _ _);
      (assert (Hi : In (a, v) flt) by (apply filter_In; split; auto; simpl; now rewrite Hna));
      (destruct flt as [|x r]; [inversion Hi|]); simpl; eauto. }
  destruct Hne as [e [ea [He Hk]]]. exists e, ea. split; auto.
  rewrite resolve_field_eq. cbv zeta. unfold visited.
  destruct (sort_args S t name args) as [sa se]. simpl in He. subst se. reflexivity.
Qed.
Print Assumptions C10_undeclared_argument.

(* The same at the level of the specification the whole executor refines (exec_op_refines, for
   every document whose arguments are not repeated): a selection with arguments the object type's
   field does not declare yields one error per such argument at the selection, no entry, and no
   resolver call - C01_data_exact / C06_errors_exact / C11_repeatable carry this to whole responses
   and histories. *)
Theorem C10_spec_undeclared_argument :
  forall S G frags any vars fuel obj id alias name args fsels t depth path b bad,
    undeclared_args S t name args = b :: bad ->
    sem_field S G frags any vars (Datatypes.S fuel) obj id alias name args fsels t depth path =
    Done ([], map (fun _ => mkErr (path ++ [PKey (key_of alias name)]) LOther EBadArg) (b :: bad), []).
Proof. intros. rewrite sem_field_eq. cbv zeta. rewrite H. reflexivity. Qed.
Print Assumptions C10_spec_undeclared_argument.

(* A required argument that is not supplied: formArgs reports it ... *)
Theorem C10_missing_required_reported :
  forall S vars id fd cur d,
    In d (f_args fd) -> is_nonnull (a_type d) = true ->
    (forall v, ~ In (a_name d, v) (somes cur)) ->
    In (mkErr [] (LNode id) EMissingArg) (snd (form_args S vars id fd cur)).
Proof.
  intros S vars id fd cur d Hd Hnn Hno. unfold form_args. rewrite form_args_loop_spec. cbn [snd].
  apply in_app_iff. right. apply in_map_iff. exists d. split; auto.
  apply filter_In. split; auto. rewrite Hnn. simpl.
  destruct (existsb _ _) eqn:E; auto. apply existsb_exists in E. destruct E as [x [Hx E]].
  apply Nat.eqb_eq in E. subst x. apply in_map_iff in Hx. destruct Hx as [[a v] [Ea Hf]].
  apply filter_In in Hf. simpl in Ea. subst a. exfalso. apply (Hno v). tauto.
Qed.
Print Assumptions C10_missing_required_reported.

(* ... and whenever formArgs reports anything the resolver is not invoked: the entry is null and the
   call log is unchanged; the errors are those of formArgs, placed at the selection *)
Theorem C10_argument_errors_no_call :
  forall S G frags any md vars fuel obj id alias name args fsels t fd result depth s cur cargs e ea n,
    Nat.eqb name TYPENAME = false ->
    get_field_def S t name = Some fd ->
    sort_args S t name args = (cur, []) ->
    strategy_of any obj = Some n ->
    form_args S vars id fd cur = (cargs, e :: ea) ->
    resolve_field S G frags any md vars (Datatypes.S fuel) obj id alias name args fsels t result depth s =
    Done (set_key (key_of alias name) RNull result,
          (if Nat.ltb depth md then errs_in (PKey (key_of alias name)) ((e :: ea) ++ []) else (e :: ea) ++ []),
          visited s id t).
Proof.
  intros S G frags any md vars fuel obj id alias name args fsels t fd result depth s cur cargs e ea n Hn Hg Hso Hstr Hfa.
  rewrite resolve_field_eq. cbv zeta. rewrite Hso. rewrite Hn, Hg, Hstr, Hfa.
  simpl is_nil. cbv iota. reflexivity.
Qed.
Print Assumptions C10_argument_errors_no_call.

(* The two together: a selection that omits a required argument of the field as the container type
   t declares it - t being whatever object type the selection is evaluated in, on any visit - gets an
   error of the missing-argument kind at the selection, a null entry, and the resolver is not
   invoked. *)
Theorem C10_missing_required_no_call :
  forall S G frags any md vars fuel obj id alias name args fsels t fd result depth s cur n d,
    Nat.eqb name TYPENAME = false ->
    get_field_def S t name = Some fd ->
    sort_args S t name args = (cur, []) ->
    strategy_of any obj = Some n ->
    In d (f_args fd) -> is_nonnull (a_type d) = true ->
    (forall v, ~ In (a_name d, v) (somes cur)) ->
    exists errs x,
      resolve_field S G frags any md vars (Datatypes.S fuel) obj id alias name args fsels t result depth s =
      Done (set_key (key_of alias name) RNull result, errs, visited s id t) /\
      In x errs /\ e_kind x = EMissingArg /\ e_loc x = LNode id.
Proof.
  intros S G frags any md vars fuel obj id alias name args fsels t fd result depth s cur n d Hn Hg Hso Hstr Hd Hnn Hno.
  pose proof (C10_missing_required_reported S vars id fd cur d Hd Hnn Hno) as Hin.
  destruct (form_args S vars id fd cur) as [cargs ea] eqn:Hfa. cbn [snd] in Hin.
  destruct ea as [|e ea]; [inversion Hin|].
  rewrite (C10_argument_errors_no_call S G frags any md vars fuel obj id alias name args fsels t fd result depth s cur cargs e ea n Hn Hg Hso Hstr Hfa).
  rewrite app_nil_r.
  destruct (Nat.ltb depth md).
  - eexists. exists (mkErr (PKey (key_of alias name) :: []) (LNode id) EMissingArg). split; [reflexivity|].
    split; [|split; reflexivity].
    unfold errs_in. apply in_map_iff. exists (mkErr [] (LNode id) EMissingArg). split; [reflexivity|exact Hin].
  - eexists. exists (mkErr [] (LNode id) EMissingArg). split; [reflexivity|]. split; [exact Hin|split; reflexivity].
Qed.
Print Assumptions C10_missing_required_no_call.

(* Valid siblings are still resolved: after an undefined field the rest of the selection set is
   evaluated on the same result map and call log as if the defective selection were absent. *)
Theorem C10_siblings_after_unknown_field :
  forall S G frags any md vars fuel obj id alias name args dirs fsels r t result depth s,
    skip_sel vars (SField id alias name args dirs fsels) = (false, []) ->
    Nat.eqb name TYPENAME = false -> get_field_def S t name = None ->
    match resolve_sels_loop S G frags any md vars (Datatypes.S (Datatypes.S fuel)) obj (SField id alias name args dirs fsels :: r) t result depth s,
          resolve_sels_loop S G frags any md vars (Datatypes.S fuel) obj r t result depth (visited s id t) with
    | Done (m, ea, s1), Done (m', ea', s1') =>
        m = m' /\ s1 = s1' /\ ea = mkErr [PKey (key_of alias name)] (LNode id) ENotField :: ea'
    | OutOfFuel, OutOfFuel => True
    | _, _ => False
    end.
Proof.
  intros S G frags any md vars fuel obj id alias name args dirs fsels r t result depth s Hsk Hn Hg.
  rewrite (resolve_sels_loop_eq S G frags any md vars (Datatypes.S fuel)). rewrite Hsk.
  rewrite C10_unknown_field; auto.
  destruct (resolve_sels_loop S G frags any md vars (Datatypes.S fuel) obj r t result depth (visited s id t)) as [[[m ea] s1]|]; auto.
Qed.
Print Assumptions C10_siblings_after_unknown_field.

(* Rejected before execution (model of ParseExecutable + Validate): an unknown or misplaced directive
   anywhere on a selection, and an inline fragment on an undefined type. *)
Theorem C10_unknown_directive_rejected :
  forall S id alias name args dirs sels n v,
    n <> DECLARED_DIR ->
    In (mkDir (DOther n) v) dirs -> sel_rejects S (SField id alias name args dirs sels) = true.
Proof.
  intros S id alias name args dirs sels n v Hn Hin. cbn [sel_rejects]. apply orb_true_iff. left. apply orb_true_iff. right.
  apply existsb_exists. eexists; split; eauto. unfold dir_rejects. cbn [d_name].
  apply Nat.eqb_neq in Hn. now rewrite Hn.
Qed.
Print Assumptions C10_unknown_directive_rejected.

Theorem C10_undefined_inline_condition_rejected :
  forall S id c dirs sels, lookup c S = None -> sel_rejects S (SInline id (Some c) dirs sels) = true.
Proof. intros. cbn [sel_rejects]. now rewrite H. Qed.
Print Assumptions C10_undefined_inline_condition_rejected.

(* A directive use on a fragment definition is rejected (none of the directives known to these
   schemas may stand at FRAGMENT_DEFINITION), wherever the definition stands relative to the
   spreads that refer to it. *)
Theorem C10_directive_on_fragment_definition_rejected :
  forall S d n fr, In (n, fr) (d_frags d) -> fr_dirs fr <> [] -> doc_rejects S d = true.
Proof.
  intros S d n fr Hin Hd. unfold doc_rejects.
  assert (H : existsb (fun nf => match fr_dirs (snd nf) with [] => false | _ => true end) (d_frags d) = true).
  { apply existsb_exists. exists (n, fr). split; [exact Hin|]. simpl. destruct (fr_dirs fr); [contradiction|reflexivity]. }
  rewrite H. rewrite !orb_true_r. reflexivity.
Qed.
Print Assumptions C10_directive_on_fragment_definition_rejected.

(* ---- finding F10a (refutation): a fragment DEFINITION on an undefined type is accepted and is
   silently empty (pinned by TestParseExecutableError, which parses fragments on undefined types) ---- *)
From GG.Properties Require C01.
Definition f10a_doc : doc :=
  mkDoc [mkOp OpQuery None [] [SFrag 1 1 []; SField 2 None 4 [] [] []]] [(1, mkFrag (Some 99) [SField 3 None 4 [] [] []] [])].

Example C10_refuted_fragment_on_undefined_type :
  doc_rejects C01.ex_schema f10a_doc = false /\
  exists r s', exec_op C01.ex_schema C01.ex_graph false 100 1000 f10a_doc None [] (GNodeR 1) (mkSt [] []) = Done (r, s') /\
    r_errs r = [] /\ r_data r = Some (RObj [(4, RInt 7)]).
Proof. split; [reflexivity|]. eexists; eexists. split; [vm_compute; reflexivity|]. split; reflexivity. Qed.
