(* Property C20 — the subscription registry under concurrent publish/subscribe/unsubscribe.
   Statements over EVERY schedule (list of thread indices) of ANY number of threads, each thread
   being one public call decomposed into the critical sections it runs under root.subLock.
   Only statements; proofs are `exact`/short instantiations of Sched_proofs.v. *)
From Coq Require Import List Arith ZArith Bool Lia.
Import ListNotations.
From GG Require Import Registry Registry_proofs Sched Sched_proofs Sched_failed.

(* calls that have not started, registering pairwise distinct fresh identities *)
Definition wf_calls (ts : list tstate) : Prop :=
  NoDup (pending ts) /\ Forall (fun t => initial t = true) ts.

Lemma wf_calls_Inv ts : wf_calls ts -> Inv [] ts [].
Proof.
  intros [Hn Hf]. split; [exact Hn|].
  rewrite Forall_forall in *. intros t Ht. specialize (Hf t Ht). destruct t; simpl in *; auto. discriminate.
Qed.

(* No critical section ever indexes out of range (no panic), whatever the interleaving; and the
   subscriber-visible trace satisfies: no subscriber is cleaned up twice (two publishers failing on
   the same subscriber and unsubscribe racing the failure clean-up included) and nothing is
   delivered to a subscriber after the critical section that cleaned it up — in particular not
   after the Unsubscribe call that removed it has returned. *)
Theorem C20_safe_cleanup_once_no_late_delivery :
  forall (sched : list nat) (ts : list tstate),
    wf_calls ts ->
    exists l' ts' bs, exec sched [] ts = Some (l', ts', bs) /\ trace_ok [] (strace bs).
Proof.
  intros sched ts Hw. destruct (exec_safe sched [] ts [] (wf_calls_Inv ts Hw)) as [l' [ts' [bs [E [T _]]]]].
  eauto.
Qed.
Print Assumptions C20_safe_cleanup_once_no_late_delivery.

(* Each publish is delivered at most once to each subscriber, and reports the number delivered. *)
Theorem C20_once :
  forall (sched : list nat) (ts : list tstate) l' ts' bs i id c dl,
    wf_calls ts -> exec sched [] ts = Some (l', ts', bs) -> In (i, BPub1 id c dl) bs ->
    NoDup (map (fun x => fst (fst x)) dl) /\ c = length dl.
Proof. intros. eapply exec_once; eauto using wf_calls_Inv. Qed.
Print Assumptions C20_once.

(* An event published (first critical section) after a subscribe block reaches that subscriber if
   it matches and has not been cleaned up before. *)
Theorem C20_visible :
  forall (sched : list nat) (ts : list tstate) l' ts' b1 i id c dl b2 s,
    wf_calls ts -> exec sched [] ts = Some (l', ts', b1 ++ (i, BPub1 id c dl) :: b2) ->
    In s (registered b1) -> ~ In (uid s) (cleaned b1) -> matches id s = true ->
    In (uid s) (map (fun x => fst (fst x)) dl).
Proof.
  intros sched ts l' ts' b1 i id c dl b2 s Hw He Hr Hc Hm.
  eapply (exec_visible sched [] ts [] [] l' ts' _ (wf_calls_Inv ts Hw)); eauto.
  intros s0 H. inversion H.
Qed.
Print Assumptions C20_visible.

(* No deadlock: in every reachable configuration every unfinished call can run its next critical
   section (one lock, never held across a wait), and doing so strictly decreases its remaining work. *)
Theorem C20_no_deadlock :
  forall (sched : list nat) (ts : list tstate) l' ts' bs i t,
    wf_calls ts -> exec sched [] ts = Some (l', ts', bs) ->
    nth_error ts' i = Some t -> t <> TDone ->
    exists l'' t' b, tstep l' t = BOk l'' t' b /\ steps_left t' < steps_left t.
Proof.
  intros sched ts l' ts' bs i t Hw He Hn Hd.
  destruct (exec_safe sched [] ts [] (wf_calls_Inv ts Hw)) as [l2 [ts2 [bs2 [E [_ I2]]]]].
  rewrite He in E. inversion E; subst.
  destruct (tstep_progress _ _ _ _ _ I2 Hn Hd) as [l'' [t' [b Hs]]].
  exists l'', t', b. split; auto. eapply tstep_decreases; eauto.
Qed.
Print Assumptions C20_no_deadlock.

(* A subscriber whose delivery failed is removed and cleaned up, at the latest, by the second critical
   section of the publish that saw the failure (by that section itself, or earlier by an Unsubscribe
   or by another publish that failed on it too) — whatever runs between the two sections. *)
Theorem C20_failed_subscriber_cleaned_up :
  forall (sched : list nat) (ts : list tstate) l' ts' b1 i id c dl b2 cl b3 u m,
    wf_calls ts ->
    exec sched [] ts = Some (l', ts', b1 ++ (i, BPub1 id c dl) :: b2 ++ (i, BPub2 cl) :: b3) ->
    In (u, m, false) dl ->
    In u (cleaned (b1 ++ (i, BPub1 id c dl) :: b2 ++ [(i, BPub2 cl)])).
Proof.
  intros sched ts l' ts' b1 i id c dl b2 cl b3 u m Hw He Hf.
  eapply (exec_failed_cleaned sched [] ts [] [] l' ts' _ (wf_calls_Inv ts Hw)); eauto.
  - intros s H. inversion H.
  - intros s H. inversion H.
Qed.
Print Assumptions C20_failed_subscriber_cleaned_up.

(* ... and it receives nothing once that publish has finished (the check
   "failed-subscriber-still-receives-events" the harness applies to the observed block log). *)
Theorem C20_failed_subscriber_receives_nothing_afterwards :
  forall (sched : list nat) (ts : list tstate) l' ts' b1 i id c dl b2 cl b3 u m,
    wf_calls ts ->
    exec sched [] ts = Some (l', ts', b1 ++ (i, BPub1 id c dl) :: b2 ++ (i, BPub2 cl) :: b3) ->
    In (u, m, false) dl ->
    forall m' ok, ~ In (Deliver u m' ok) (strace b3).
Proof.
  intros sched ts l' ts' b1 i id c dl b2 cl b3 u m Hw He Hf m' ok.
  pose proof (C20_failed_subscriber_cleaned_up _ _ _ _ _ _ _ _ _ _ _ _ _ _ Hw He Hf) as Hc.
  destruct (exec_safe sched [] ts [] (wf_calls_Inv ts Hw)) as [l2 [ts2 [bs2 [E [T _]]]]].
  rewrite He in E. inversion E; subst bs2. clear E.
  replace (b1 ++ (i, BPub1 id c dl) :: b2 ++ (i, BPub2 cl) :: b3)
    with ((b1 ++ (i, BPub1 id c dl) :: b2 ++ [(i, BPub2 cl)]) ++ b3) in T
    by (rewrite <- app_assoc; simpl; rewrite <- app_assoc; reflexivity).
  unfold strace in T. rewrite flat_map_app in T. apply trace_ok_app in T. destruct T as [_ T].
  eapply trace_ok_dead_no_delivery; eauto. apply (cleaned_dead [] _ u Hc).
Qed.
Print Assumptions C20_failed_subscriber_receives_nothing_afterwards.

(* Non-vacuity: two subscribers fail on one event, an Unsubscribe removes the first of them between
   the two sections of the publish, the second section removes the other; the next event reaches nobody. *)
Example C20_failed_nonvacuous :
  let ts := [TSub [mkSub 1 None [0] [true]]; TSub [mkSub 2 (Some 0) [1] [true]];
             TPub1 0 [Some 3%Z; Some 2%Z]; TUnsub 1; TPub1 0 [Some 4%Z; Some 2%Z]] in
  wf_calls ts /\
  exists l bs, exec [0; 1; 2; 3; 2; 4; 4] [] ts = Some (l, [TDone; TDone; TDone; TDone; TDone], bs) /\
    strace bs = [Deliver 1 [(0, Some 3%Z)] false; Deliver 2 [(1, Some 2%Z)] false; Cleanup 1; Cleanup 2].
Proof.
  split.
  - split; [simpl; repeat constructor; simpl; intuition discriminate|repeat constructor].
  - eexists; eexists. split; vm_compute; reflexivity.
Qed.

(* The executable forms of the guarantees (the checks the harness applies to the implementation's
   observed block log) hold of every model execution. *)
Theorem C20_checks_hold :
  forall (sched : list nat) (ts : list tstate) l' ts' bs,
    wf_calls ts -> exec sched [] ts = Some (l', ts', bs) ->
    once_okb bs = true /\ visible_okb [] bs = true /\ trace_okb [] (strace bs) = true /\ late_okb bs = true.
Proof.
  intros sched ts l' ts' bs Hw He. split; [|split; [|split]]; [| | |eapply exec_late_okb; eauto using wf_calls_Inv].
  - eapply exec_once_okb; eauto using wf_calls_Inv.
  - eapply exec_visible_okb; eauto using wf_calls_Inv. intros s H. inversion H.
  - apply trace_okb_spec.
    destruct (exec_safe sched [] ts [] (wf_calls_Inv ts Hw)) as [l2 [ts2 [bs2 [E [T _]]]]].
    rewrite He in E. inversion E; subst. exact T.
Qed.
Print Assumptions C20_checks_hold.

(* Non-vacuity: two publishers failing on the same subscriber while an unsubscribe races the
   failure clean-up; the schedule interleaves the four critical sections. *)
Example C20_nonvacuous :
  let ts := [TSub [mkSub 1 None [0] [true; true]]; TPub1 5 [Some 7%Z]; TPub1 5 [Some 8%Z]; TUnsub 5] in
  wf_calls ts /\
  exists l bs, exec [0; 1; 2; 3; 1; 2] [] ts = Some (l, [TDone; TDone; TDone; TDone], bs) /\
    strace bs = [Deliver 1 [(0, Some 7%Z)] false; Deliver 1 [(0, Some 8%Z)] false; Cleanup 1].
Proof.
  split.
  - split; [simpl; repeat constructor; simpl; tauto|repeat constructor].
  - eexists; eexists. split; vm_compute; reflexivity.
Qed.
