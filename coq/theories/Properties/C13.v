(* Property C13 — schema validation accepts the well-formed and rejects each rule violation.
   Only statements; every proof is `exact <lemma>` into Schema_proofs.v.
   Schema.errors IS the rule catalogue, written over the flat relational reading of the definitions
   (order- and extend-independent by construction, see C16); a root accepts a document iff the
   catalogue finds no error in "accepted ++ document".  The theorems below say what acceptance
   implies, rule by rule, for every position and wrapper depth; that the real root refuses exactly
   when the catalogue finds an error, and names an offender the catalogue cites, is the
   correspondence run on every check. *)
From Coq Require Import List Arith ZArith Bool.
Import ListNotations.
From GG Require Import Schema Schema_proofs.

(* Every state a root can reach passes the rule catalogue: the independent re-check. *)
Theorem C13_reachable_states_pass_the_catalogue :
  forall docs, errors_in (final [] docs) = [].
Proof. intros docs. apply ok_errors. apply reachable_ok. exact empty_root_ok. Qed.
Print Assumptions C13_reachable_states_pass_the_catalogue.

(* names: defined once, not reserved *)
Theorem C13_type_names :
  forall items b, ok items = true -> In b (fl_bases (accepted_flat items)) ->
    (b_kind b <> KSchema -> reserved (b_name b) = false) /\
    count (fun o => key_eqb (bkey o) (bkey b)) (fl_bases (accepted_flat items)) = 1.
Proof. exact accepted_type_names. Qed.
Print Assumptions C13_type_names.

(* fields, written inline or in an extend block, under any wrappers: defined output type, name not
   reserved; arguments of defined input types *)
Theorem C13_fields :
  forall items b f, ok items = true -> In b (fl_bases (accepted_flat items)) ->
    b_kind b = KObject \/ b_kind b = KInterface ->
    In (bkey b, f) (fl_fields (accepted_flat items)) ->
    let fl := accepted_flat items in
    reserved (fd_name f) = false /\
    type_defined fl (tbase (f_ty f)) = true /\ is_output_named fl (tbase (f_ty f)) = true /\
    forall a, In a (fd_args f) ->
      reserved (ad_name a) = false /\ type_defined fl (tbase (a_ty a)) = true /\
      is_input_named fl (tbase (a_ty a)) = true.
Proof. exact accepted_field. Qed.
Print Assumptions C13_fields.

(* directive arguments and input fields: input types at every wrapper depth *)
Theorem C13_input_positions :
  forall items b a, ok items = true -> In b (fl_bases (accepted_flat items)) ->
    b_kind b = KDirective \/ b_kind b = KInput ->
    In (bkey b, a) (fl_inputs (accepted_flat items)) ->
    let fl := accepted_flat items in
    reserved (ad_name a) = false /\ type_defined fl (tbase (a_ty a)) = true /\ is_input_named fl (tbase (a_ty a)) = true.
Proof. exact accepted_input_position. Qed.
Print Assumptions C13_input_positions.

(* non-empty objects, interfaces, enums, input objects; unions of at least one object *)
Theorem C13_nonempty_and_unions :
  forall items b, ok items = true -> In b (fl_bases (accepted_flat items)) ->
    let fl := accepted_flat items in
    match b_kind b with
    | KObject | KInterface => count_key (bkey b) (fl_fields fl) <> 0
    | KUnion => count_key (bkey b) (fl_members fl) <> 0 /\
                forall m, In (bkey b, m) (fl_members fl) -> has_kind fl KObject m = true
    | KEnum => count_key (bkey b) (fl_vals fl) <> 0
    | KInput => count_key (bkey b) (fl_inputs fl) <> 0
    | _ => True
    end.
Proof. exact accepted_nonempty. Qed.
Print Assumptions C13_nonempty_and_unions.

(* objects provide every field of their interfaces with a compatible type *)
Theorem C13_interfaces :
  forall items b i fi, ok items = true -> In b (fl_bases (accepted_flat items)) -> b_kind b = KObject ->
    let fl := accepted_flat items in
    In (bkey b, i) (fl_ifaces fl) -> In ((0, i), fi) (fl_fields fl) ->
    has_kind fl KInterface i = true /\
    exists fo, In fo (fields_of fl (0, b_name b)) /\ fd_name fo = fd_name fi /\ sub_type fl (f_ty fi) (f_ty fo) = true.
Proof. exact accepted_implements. Qed.
Print Assumptions C13_interfaces.

(* Non-vacuity and refutation shape: a wrapped output type as a directive argument is an error. *)
Example C13_example_wrapped_output_type_refused :
  let obj := {| it_ext := false; it_kind := KObject; it_name := 20; it_desc := []; it_dirs := []; it_ifaces := [];
                it_fields := [{| fd_name := 10; f_desc := []; f_ty := TN 0; fd_args := []; f_dirs := [] |}];
                it_members := []; it_vals := []; it_inputs := []; it_locs := [] |} in
  let d := mk_item KDirective 10 [] [mk_arg 10 (TL (TL (TNN (TN 20)))) None] [9] in
  ok [obj] = true /\ ok [obj; d] = false.
Proof. vm_compute. split; reflexivity. Qed.
