(* Property C14 — schema loading is all-or-nothing.
   Only statements; every proof is `exact <lemma>` into Schema_proofs.v.
   The root is specified as a history machine over the SET of accepted definitions (Schema.v):
   a load is refused when its text breaks off, its reader fails, or the rule catalogue finds an
   error in "accepted ++ document"; everything observable of a root (Schema.observe) is a function
   of the accepted definitions. *)
From Coq Require Import List Arith ZArith Bool.
Import ListNotations.
From GG Require Import Schema Schema_proofs.

(* A refused load - for any reason: syntax, reader fault, undefined reference, failed extension,
   validation rule - leaves the accepted definitions, hence every observable, as they were. *)
Theorem C14_atomic :
  forall st d, fst (load_m st d) = false ->
    snd (load_m st d) = st /\ observe (snd (load_m st d)) = observe st.
Proof. intros st d H. rewrite (load_m_rejected_unchanged st d H). split; reflexivity. Qed.
Print Assumptions C14_atomic.

(* Over any history of interleaved failing and succeeding loads: the root ends in the state
   produced by its accepted loads alone, every one of which is accepted again when replayed
   without the failed ones - a later valid load behaves as if the failed ones had never happened. *)
Theorem C14_history :
  forall st docs,
    final st (accepted_of st docs) = final st docs /\
    Forall (fun r => fst r = true) (loads_m st (accepted_of st docs)).
Proof. exact history_collapses. Qed.
Print Assumptions C14_history.

(* The state is exactly the accepted documents, concatenated in order. *)
Theorem C14_state_is_accepted_documents :
  forall st docs,
    final st docs = st ++ concat (map (fun d => drop_core_redecl (snd d)) (accepted_of st docs)).
Proof. exact final_concat. Qed.
Print Assumptions C14_state_is_accepted_documents.

(* Non-vacuity: a history with a failing load in the middle. *)
Example C14_example :
  let q := mk_item KObject 10 [] [] [] in
  let q := {| it_ext := false; it_kind := KObject; it_name := 10; it_desc := []; it_dirs := []; it_ifaces := [];
              it_fields := [{| fd_name := 10; f_desc := []; f_ty := TN 0; fd_args := []; f_dirs := [] |}];
              it_members := []; it_vals := []; it_inputs := []; it_locs := [] |} in
  let bad := {| it_ext := false; it_kind := KObject; it_name := 20; it_desc := []; it_dirs := []; it_ifaces := [];
                it_fields := [{| fd_name := 10; f_desc := []; f_ty := TN 99; fd_args := []; f_dirs := [] |}];
                it_members := []; it_vals := []; it_inputs := []; it_locs := [] |} in
  map fst (loads_m [] [(false, [q]); (false, [bad]); (true, [q]); (false, [q])]) = [true; false; false; false] /\
  final [] [(false, [q]); (false, [bad])] = [q].
Proof. vm_compute. split; reflexivity. Qed.
