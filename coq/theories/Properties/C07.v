(* Property C07 — every response is a well-formed envelope with locations inside the document.
   Only statements; proofs are `exact <lemma>` into Text_pos.v, or a case analysis of exec_op.
   Positions: the scanner model (Text.v read_byte / put_back / skip_space, whose class tables are
   regenerated from parser.go) keeps (line, col) at the position just behind the last byte taken
   from the reader, for every text; the position ggql records for a token is taken when the
   token's first byte has just been read (readToken after skipSpace), so it is that token's line
   and its 1-based column plus one - in every layout, whatever precedes or follows the token.
   Envelope: the executor model's response has data and/or a non-empty error list, and its paths
   are keys and indices by construction.  The JSON text of a response is covered by C18's value
   writer model and reference reader; here every response is also decoded by encoding/json at
   three indent settings. *)
From Coq Require Import List Arith NArith Bool Lia.
Import ListNotations.
From GG Require Import Text Text_pos Exec Json Json_value.

(* When skipSpace returns a byte, that byte is the last one taken from the reader, it is looked
   ahead, and (line, col) is the position just behind it - for every text and every start state
   inside that text. *)
Theorem C07_scanner_position :
  forall fuel text s b s1,
    at_text text s -> skip_space fuel s = ROk b s1 -> b <> 0 -> stands_behind text b s1.
Proof. exact skip_space_position. Qed.
Print Assumptions C07_scanner_position.

(* That position is (line of the byte, its 1-based column + 1): the convention of every location in
   a response, independent of the layout before the token and of what follows it. *)
Theorem C07_column_convention :
  forall pre b, b <> 10 -> pos_after (pre ++ [b]) = (fst (pos_after pre), S (snd (pos_after pre))).
Proof. exact token_start_position. Qed.
Print Assumptions C07_column_convention.

Theorem C07_positions_positive :
  forall pre, 1 <= fst (pos_after pre) /\ 1 <= snd (pos_after pre).
Proof. exact pos_after_positive. Qed.
Print Assumptions C07_positions_positive.

(* every byte read keeps the scanner inside the text *)
Theorem C07_scanner_stays_in_text :
  forall text s b s1, at_text text s -> read_byte s = ROk b s1 -> at_text text s1.
Proof. exact read_byte_at. Qed.
Print Assumptions C07_scanner_stays_in_text.

(* The envelope of the executor model: a response without data carries at least one error. *)
Theorem C07_envelope :
  forall S G any md fuel d name supplied rootobj s r s',
    exec_op S G any md fuel d name supplied rootobj s = Done (r, s') ->
    r_data r = None -> r_errs r <> [].
Proof.
  intros S G any md fuel d name supplied rootobj s r s' H Hn. unfold exec_op in H.
  destruct (choose_op d name); [|inversion H; subst; discriminate].
  destruct (bind_vars S (op_vars o) supplied); [|inversion H; subst; discriminate].
  destruct (is_nil rootobj); [inversion H; subst; discriminate|].
  destruct (resolve_sels _ _ _ _ _ _ _ _ _ _ _ _ _) as [[[m ea] s2]|]; [|discriminate].
  inversion H; subst. discriminate.
Qed.
Print Assumptions C07_envelope.

(* The JSON text of a response: the envelope is a string-keyed object of values (data: nested objects,
   lists, coerced leaves; errors: a list of objects with a message, a path of strings and integers,
   locations of integers); written at any indent setting it is text the RFC 8259 reference reader
   accepts, and it decodes to the same structure (theorem of C18, for every value). *)
Theorem C07_response_serialises_to_valid_json :
  forall indent (response : list (list wrune * wv)),
    wf_wv (WMap response) ->
    json_parse (write_value false indent (WMap response) 0) = Some (to_json (WMap response)).
Proof. intros indent response. exact (json_written_value_valid indent (WMap response)). Qed.
Print Assumptions C07_response_serialises_to_valid_json.

(* Non-vacuity: a token on the third line after CRLF line ends and a comment. *)
Example C07_example :
  let pre := [123; 13; 10; 32; 35; 99; 13; 10; 32; 32] in   (* "{\r\n #c\r\n  " *)
  pos_after (pre ++ [110]) = (3, 4).
Proof. vm_compute. reflexivity. Qed.
