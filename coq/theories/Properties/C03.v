(* Property C03 — no input crashes or hangs the library.  Statements proved so far, about the
   byte-level scanner model (parser.go readByte / skipSpace); the value reader's totality for whole
   inputs and the SDL / request parsers are carried by the watchdogged correspondence in this commit
   (see DESIGN.md section 7, C03: partial). *)
From Coq Require Import List Arith Bool Lia.
Import ListNotations.
From GG Require Import Text Text_proofs.

(* readByte never diverges, never grows what is left to read, and strictly shrinks it whenever it
   delivers a byte other than 0 (0 = end of input): every loop of the parsers that reads a non-zero
   byte per iteration therefore terminates — for every byte sequence and every reader fault position. *)
Theorem C03_read_byte_progress :
  forall s b s1, read_byte s = ROk b s1 ->
    measure s1 <= measure s /\ (b <> 0 -> measure s1 < measure s) /\ ondeck s1 = 0.
Proof. exact read_byte_measure. Qed.
Print Assumptions C03_read_byte_progress.

Theorem C03_read_byte_total : forall s, read_byte s <> RFuel.
Proof. exact read_byte_never_fuel. Qed.
Print Assumptions C03_read_byte_total.

(* skipSpace (white space, commas and # comments, incl. a comment that ends at end of input or holds a
   NUL byte) terminates within measure+1 steps on every input *)
Theorem C03_skip_space_total : forall fuel s, measure s < fuel -> skip_space fuel s <> RFuel.
Proof. exact skip_space_total. Qed.
Print Assumptions C03_skip_space_total.

Theorem C03_skip_comment_total : forall fuel s, measure s < fuel -> skip_comment fuel s <> RFuel.
Proof. exact skip_comment_total. Qed.
Print Assumptions C03_skip_comment_total.

(* instances: hostile inputs on which the model terminates with an error or a value (computed) *)
Example C03_examples :
  (exists s, parse_value (fun _ => false) [91; 91; 91; 91] false = RErr s) /\                 (* [[[[ *)
  (exists s, parse_value (fun _ => false) [123; 97; 58] false = ROk (PMap [([SB 97], PNull)]) s \/
             parse_value (fun _ => false) [123; 97; 58] false = RErr s) /\                      (* {a: *)
  (exists s, parse_value (fun _ => false) [34; 92; 117; 48; 48] false = RErr s) /\               (* a truncated unicode escape *)
  (exists s, parse_value (fun _ => false) [35; 32; 120] false = ROk PNull s) /\                   (* # x   (comment to EOF) *)
  (exists s, parse_value (fun _ => false) [91; 41] false = RErr s).                               (* [) *)
Proof. repeat split; eexists; vm_compute; try reflexivity; try (right; reflexivity). Qed.
