(* Property C03 — no input crashes or hangs the library.  Statements about the byte-level model of
   parser.go: the scanner (readByte / skipSpace) and the whole value reader (ParseValue,
   ParseValueString: readValue with its string, token, number, list and object loops and the nesting
   bound) terminate on every byte sequence and every failing reader, and never build a value nested
   deeper than maxNesting.  The SDL and request parsers have no byte-level model: for them the
   property is carried by the watchdogged correspondence (see DESIGN.md section 7, C03: partial). *)
From Coq Require Import List Arith Bool Lia.
Import ListNotations.
From GG Require Import Text Text_proofs Text_total.

(* The value reader of the model never runs out of fuel: for EVERY byte sequence bs, every reader
   that ends (flt = false) or fails when exhausted (flt = true), and every answer of strconv.ParseFloat
   (float_ok), ParseValue returns a value or an error.  The fuel of the model stands for Go's stack
   and loop iterations: 2 * length bs + 8 always suffices, because every loop consumes a byte per
   iteration or stops and every nesting level consumes its opening bracket. *)
Theorem C03_value_reader_total :
  forall float_ok bs flt, parse_value float_ok bs flt <> RFuel.
Proof. exact parse_value_total. Qed.
Print Assumptions C03_value_reader_total.

(* ... from any scanner state, at any nesting depth, given twice the bytes still to read as fuel *)
Theorem C03_read_value_total :
  forall float_ok fuel d s, 2 * measure s + 1 < fuel -> read_value float_ok fuel d s <> RFuel.
Proof. intros float_ok fuel. destruct (totals float_ok fuel) as [T _]. exact T. Qed.
Print Assumptions C03_read_value_total.

(* a value that starts at the scanner position is consumed: reading never returns a result without
   having moved (the reason the list and object loops of readValue cannot spin) *)
Theorem C03_read_value_consumes :
  forall float_ok fuel d s v s', read_value float_ok fuel d s = ROk v s' ->
    measure s' <= measure s /\ (starts s -> measure s' < measure s).
Proof. intros float_ok fuel. destruct (measures float_ok fuel) as [Q _]. exact Q. Qed.
Print Assumptions C03_read_value_consumes.

(* no value the reader returns is nested deeper than maxNesting (10000): whatever walks the value
   afterwards (coercion, printing, comparison - all recursive) has a bounded stack *)
Theorem C03_value_depth_bounded :
  forall float_ok bs flt v s, parse_value float_ok bs flt = ROk v s -> depth_pv v <= max_nesting.
Proof. exact parse_value_depth. Qed.
Print Assumptions C03_value_depth_bounded.

(* readByte never diverges, never grows what is left to read, and strictly shrinks it whenever it
   delivers a byte other than 0 (0 = end of input): every loop of the parsers that reads a non-zero
   byte per iteration therefore terminates — for every byte sequence and every reader fault position. *)
Theorem C03_read_byte_progress :
  forall s b s1, read_byte s = ROk b s1 ->
    measure s1 <= measure s /\ (b <> 0 -> measure s1 < measure s) /\ ondeck s1 = 0.
Proof. exact read_byte_measure. Qed.
Print Assumptions C03_read_byte_progress.

Theorem C03_read_byte_total : forall s, read_byte s <> RFuel.
Proof. exact read_byte_never_fuel. Qed.
Print Assumptions C03_read_byte_total.

(* skipSpace (white space, commas and # comments, incl. a comment that ends at end of input or holds a
   NUL byte) terminates within measure+1 steps on every input *)
Theorem C03_skip_space_total : forall fuel s, measure s < fuel -> skip_space fuel s <> RFuel.
Proof. exact skip_space_total. Qed.
Print Assumptions C03_skip_space_total.

Theorem C03_skip_comment_total : forall fuel s, measure s < fuel -> skip_comment fuel s <> RFuel.
Proof. exact skip_comment_total. Qed.
Print Assumptions C03_skip_comment_total.

(* instances: hostile inputs on which the model terminates with an error or a value (computed) *)
Example C03_examples :
  (exists s, parse_value (fun _ => false) [91; 91; 91; 91] false = RErr s) /\                 (* [[[[ *)
  (exists s, parse_value (fun _ => false) [123; 97; 58] false = ROk (PMap [([SB 97], PNull)]) s \/
             parse_value (fun _ => false) [123; 97; 58] false = RErr s) /\                      (* {a: *)
  (exists s, parse_value (fun _ => false) [34; 92; 117; 48; 48] false = RErr s) /\               (* a truncated unicode escape *)
  (exists s, parse_value (fun _ => false) [35; 32; 120] false = ROk PNull s) /\                   (* # x   (comment to EOF) *)
  (exists s, parse_value (fun _ => false) [91; 41] false = RErr s).                               (* [) *)
Proof. repeat split; eexists; vm_compute; try reflexivity; try (right; reflexivity). Qed.
