(* ExecSpec.v — specification of GraphQL execution as ggql promises it (properties C01, C06, C08,
   C09, C10, C11), written from the GraphQL June-2018 execution section and the property texts:
   stateless, response objects as ordered entry lists (nothing is overwritten), error paths
   built from the root downwards, inclusion by the @skip/@include rule, fragments applying by
   type relation.  The leaf-level pieces it shares with the model (what a resolver returns, output
   coercion of one leaf, input coercion of one argument value) are specified separately
   (C04/C05).  No proofs in this file. *)
From Coq Require Import List Arith ZArith Bool.
Import ListNotations.
From GG Require Import Exec.

Section Spec.
Variable S : schema.
Variable G : graph.
Variable frags : list (nat * fragment).
Variable any_installed : bool.
Variable vars : list (nat * value).

(* ---- C09: inclusion ---- *)
(* the condition of one directive, when it has one: Some (Some b) = Boolean b, Some None = not a Boolean *)
Definition dir_cond (d : dir) : option (option bool) :=
  match d_if d with
  | Some (VBool b) => Some (Some b)
  | Some (VVar x) => Some (match lookup x vars with Some (VBool b) => Some b | _ => None end)
  | _ => None
  end.

(* a directive excludes its selection: @skip with a true condition, @include with a false one;
   a condition that is not a Boolean excludes too (and is reported) *)
Definition dir_excludes (d : dir) : bool :=
  match d_name d, dir_cond d with
  | DSkip, Some (Some b) => b
  | DInclude, Some (Some b) => negb b
  | DSkip, Some None | DInclude, Some None => true
  | _, _ => false
  end.

Definition included (dirs : list dir) : bool := negb (existsb dir_excludes dirs).

Definition dir_bad (d : dir) : bool :=
  match d_name d, dir_cond d with
  | DSkip, Some None | DInclude, Some None => true
  | _, _ => false
  end.

(* ---- C08: when a fragment applies to an object of type t ---- *)
Definition implements (t c : nat) : bool :=
  match lookup t S, lookup c S with
  | Some (DObject _ ifaces), Some (DInterface _) => existsb (Nat.eqb c) ifaces
  | _, _ => false
  end.
Definition member_of (t c : nat) : bool :=
  match lookup t S, lookup c S with
  | Some (DObject _ _), Some (DUnion members) => existsb (Nat.eqb t) members
  | _, _ => false
  end.
Definition applies (cond : option nat) (t : nat) : bool :=
  match cond with
  | None => true
  | Some c => Nat.eqb c t || implements t c || member_of t c
  end.

(* ---- arguments the container does not declare: under an object type (or an interface, for a value
   bound to no object type) that defines the field, the supplied arguments its definition does not
   name (checked on every evaluation of the selection, against the type it is evaluated in) ---- *)
Definition declared_by (fd : fdef) (av : arg) : bool := existsb (fun d => Nat.eqb (a_name d) (fst av)) (f_args fd).
Definition undeclared_args (t name : nat) (args : list arg) : list arg :=
  match lookup t S with
  | Some (DObject fs _) | Some (DInterface fs) =>
      match find_field name fs with
      | Some fd => filter (fun av => negb (declared_by fd av)) args
      | None => if Nat.eqb name TYPENAME then args else []
      end
  | _ => if Nat.eqb name TYPENAME then args else []
  end.

(* ---- arguments: each declared argument that the request supplies, variables substituted,
   coerced to the declared type; a required argument that is not supplied is an error ---- *)
Definition spec_args (fid : nat) (fd : fdef) (args : list arg) (path : list pseg) : list (nat * value) * list err :=
  let supplied := flat_map (fun d => match lookup (a_name d) args with
                                     | Some v => [(d, v)]
                                     | None => [] end) (f_args fd) in
  let coerced := map (fun dv => (a_name (fst dv), replace_arg_vars S vars (snd dv) (Some (a_type (fst dv))))) supplied in
  let missing := filter (fun d => is_nonnull (a_type d) &&
                                  match lookup (a_name d) args with Some VNull | None => true | Some _ => false end) (f_args fd) in
  (map (fun x => (fst x, fst (snd x))) coerced,
   flat_map (fun x => map (fun e => mkErr (path ++ PArg (fst x) :: e_path e) (e_loc e) (e_kind e)) (snd (snd x))) coerced
   ++ map (fun d => mkErr path (LNode fid) EMissingArg) missing).

Definition sem_t (A : Type) := (A * list err * list call)%type.

(* who answers for a value: a data node (through Resolver, or through the AnyResolver when it is
   installed), the AnyResolver on something that is not a data node, or nobody *)
Inductive answerer := ANode (n : nat) | AAnyOther | ANobody.
Definition answerer_of (obj : gv) : answerer :=
  match obj with
  | GNodeR n => ANode n
  | GNodeA n => if any_installed then ANode n else ANobody
  | _ => if any_installed then AAnyOther else ANobody
  end.

Definition at_path (path : list pseg) (loc : eloc) (k : ekind) : err := mkErr path loc k.

(* an object position: the entries of its selection set, in order, one per field selection reached *)
Definition as_object (o : outcome (sem_t (list (nat * rv)))) : outcome (sem_t rv) :=
  match o with
  | Done (entries, ea, cs) => Done (RObj entries, ea, cs)
  | OutOfFuel => OutOfFuel
  end.

(* ---- the walk.  path = response path of the position being computed. *)
Fixpoint sem_value (fuel : nat) (obj : gv) (fid : nat) (fsels : list sel) (t : ty) (depth : nat) (path : list pseg)
  {struct fuel} : outcome (sem_t rv) :=
  match fuel with
  | 0 => OutOfFuel
  | Datatypes.S fuel' =>
      if is_nil obj then Done (RNull, [], [])
      else if Nat.eqb depth 0 then Done (RLeak obj, [], [])      (* MaxResolveDepth reached: resolution stops *)
      else
        match t with
        | TNonNull b => sem_value fuel' obj fid fsels b depth path
        | TList lt =>
            match fuel' with
            | 0 => OutOfFuel
            | Datatypes.S fuel'' =>
                match obj with
                | GLRes l | GList l =>
                    match sem_elems fuel'' l 0 fid fsels lt (depth - 1) path with
                    | Done (rs, ea, cs) => Done (RList rs, ea, cs)
                    | OutOfFuel => OutOfFuel
                    end
                | GAList l =>
                    if any_installed then
                      match sem_any_elems fuel'' l 0 fid fsels lt (depth - 1) path with
                      | Done (rs, ea, cs) => Done (RList rs, ea, cs)
                      | OutOfFuel => OutOfFuel
                      end
                    else Done (RNull, [at_path path (LNode fid) ENotList], [])
                | _ =>
                    if any_installed then Done (RList [], [], [])
                    else Done (RNull, [at_path path (LNode fid) ENotList], [])
                end
            end
        | TNamed n =>
            match lookup n S with
            | Some (DLeaf k) =>
                let (r, bad) := coerce_out k obj in
                Done (r, if bad then [at_path path (LNode fid) ECoerceOut] else [], [])
            | Some (DObject _ _) => as_object (sem_sels fuel' obj fsels n (depth - 1) path)
            | Some (DInterface _) => as_object (sem_sels fuel' obj fsels (concrete_type S G obj n) (depth - 1) path)
            | Some (DUnion members) =>
                match union_member S G obj members with
                | Some m => as_object (sem_sels fuel' obj fsels m (depth - 1) path)
                | None => Done (RObj [], [], [])
                end
            | _ => Done (RNull, [], [])
            end
        end
  end

with sem_elems (fuel : nat) (l : list gv) (i : nat) (fid : nat) (fsels : list sel) (lt : ty) (depth : nat) (path : list pseg)
  {struct fuel} : outcome (sem_t (list rv)) :=
  match fuel with
  | 0 => OutOfFuel
  | Datatypes.S fuel' =>
      match l with
      | [] => Done ([], [], [])
      | x :: r =>
          match sem_value fuel' x fid fsels lt depth (path ++ [PIdx i]) with
          | OutOfFuel => OutOfFuel
          | Done (v, ea, cs) =>
              match sem_elems fuel' r (Datatypes.S i) fid fsels lt depth path with
              | OutOfFuel => OutOfFuel
              | Done (vs, ea2, cs2) => Done (v :: vs, ea ++ ea2, cs ++ cs2)
              end
          end
      end
  end

with sem_any_elems (fuel : nat) (l : list (option gv)) (i : nat) (fid : nat) (fsels : list sel) (lt : ty) (depth : nat) (path : list pseg)
  {struct fuel} : outcome (sem_t (list rv)) :=
  match fuel with
  | 0 => OutOfFuel
  | Datatypes.S fuel' =>
      match l with
      | [] => Done ([], [], [])
      | None :: r =>                              (* the list accessor fails for element i *)
          match sem_any_elems fuel' r (Datatypes.S i) fid fsels lt depth path with
          | OutOfFuel => OutOfFuel
          | Done (vs, ea2, cs2) => Done (RNull :: vs, at_path (path ++ [PIdx i]) LNone ENth :: ea2, cs2)
          end
      | Some x :: r =>
          match sem_value fuel' x fid fsels lt depth (path ++ [PIdx i]) with
          | OutOfFuel => OutOfFuel
          | Done (v, ea, cs) =>
              match sem_any_elems fuel' r (Datatypes.S i) fid fsels lt depth path with
              | OutOfFuel => OutOfFuel
              | Done (vs, ea2, cs2) => Done (v :: vs, ea ++ ea2, cs ++ cs2)
              end
          end
      end
  end

with sem_sels (fuel : nat) (obj : gv) (sels : list sel) (t : nat) (depth : nat) (path : list pseg)
  {struct fuel} : outcome (sem_t (list (nat * rv))) :=
  match fuel with
  | 0 => OutOfFuel
  | Datatypes.S fuel' =>
      match sels with
      | [] => Done ([], [at_path path LNone ENotLeaf], [])    (* a composite position without sub-selections *)
      | _ => sem_sels_loop fuel' obj sels t depth path
      end
  end

with sem_sels_loop (fuel : nat) (obj : gv) (sels : list sel) (t : nat) (depth : nat) (path : list pseg)
  {struct fuel} : outcome (sem_t (list (nat * rv))) :=
  match fuel with
  | 0 => OutOfFuel
  | Datatypes.S fuel' =>
      match sels with
      | [] => Done ([], [], [])
      | x :: r =>
          let bad := repeat (at_path (path ++ match x with SField _ a nm _ _ _ => [PKey (key_of a nm)] | _ => [] end)
                                     (sel_errloc x) ESkipVar)
                            (length (filter dir_bad (sel_dirs x))) in
          if negb (included (sel_dirs x)) then
            (* excluded: no entry, no resolver runs *)
            match sem_sels_loop fuel' obj r t depth path with
            | OutOfFuel => OutOfFuel
            | Done (es, ea, cs) => Done (es, bad ++ ea, cs)
            end
          else
            match
              match x with
              | SField id alias name args _ fsels => sem_field fuel' obj id alias name args fsels t depth path
              | SInline _ cond _ isels =>
                  if applies cond t then sem_sels fuel' obj isels t depth path else Done ([], [], [])
              | SFrag _ fname _ =>
                  match lookup fname frags with
                  | None => Done ([], [], [])
                  | Some fr => if applies (fr_cond fr) t then sem_sels fuel' obj (fr_sels fr) t depth path else Done ([], [], [])
                  end
              end
            with
            | OutOfFuel => OutOfFuel
            | Done (es1, ea1, cs1) =>
                match sem_sels_loop fuel' obj r t depth path with
                | OutOfFuel => OutOfFuel
                | Done (es2, ea2, cs2) => Done (es1 ++ es2, bad ++ ea1 ++ ea2, cs1 ++ cs2)
                end
            end
      end
  end

(* one field selection: at most one entry, under its response key *)
with sem_field (fuel : nat) (obj : gv) (id : nat) (alias : option nat) (name : nat) (args : list arg)
               (fsels : list sel) (t : nat) (depth : nat) (path : list pseg)
  {struct fuel} : outcome (sem_t (list (nat * rv))) :=
  match fuel with
  | 0 => OutOfFuel
  | Datatypes.S fuel' =>
      let key := key_of alias name in
      let here := path ++ [PKey key] in
      match undeclared_args t name args with
      | (_ :: _) as bad =>
          (* an argument the field does not declare: an error for each, no entry, nothing resolved *)
          Done ([], map (fun _ => at_path here LOther EBadArg) bad, [])
      | [] =>
      if Nat.eqb name TYPENAME then Done ([(key, RTypeName t)], [], [])
      else
        match get_field_def S t name with
        | None => Done ([], [at_path here (LNode id) ENotField], [])       (* undefined field: an error, nothing resolved *)
        | Some fd =>
            match answerer_of obj with
            | ANobody =>
                match lookup t S with
                | Some (DObject _ _) => Done ([(key, RNull)], [at_path here (LNode id) EReflect], [])
                | _ => Done ([(key, RNull)], [], [])
                end
            | who =>
                let (cargs, ea_args) := spec_args id fd args here in
                match ea_args with
                | _ :: _ => Done ([(key, RNull)], ea_args, [])             (* arguments do not conform: resolver not invoked *)
                | [] =>
                    let '(attr, rerr, cs) :=
                      match who with
                      | ANode n => let (a, e) := run_behav G n name cargs in (a, e, [mkCall n name (canon_args cargs)])
                      | _ => (GNil, Some 0, [])
                      end in
                    let ea_res := match rerr with
                                  | None => []
                                  | Some 0 => [at_path here (LNode id) EResolver]
                                  | Some k => repeat (at_path here (LNode id) EResolver) k
                                  end in
                    if is_nil attr then Done ([(key, RNull)], ea_res, cs)
                    else
                      match sem_value fuel' attr id fsels (f_type fd) depth here with
                      | OutOfFuel => OutOfFuel
                      | Done (fv, ea2, cs2) => Done ([(key, fv)], ea_res ++ ea2, cs ++ cs2)
                      end
                end
            end
        end
      end
  end.

End Spec.

(* ---- whole operations ---- *)
Definition sem_op (S : schema) (G : graph) (any_installed : bool) (max_depth fuel : nat)
           (d : doc) (name : option nat) (supplied : list (nat * value)) (rootobj : gv) : outcome response :=
  match choose_op d name with
  | None => Done (mkResp None [mkErr [] LNone EOpChoice] [])            (* no resolver at all *)
  | Some o =>
      match bind_vars S (op_vars o) supplied with
      | None => Done (mkResp None [mkErr [] LOther ECoerceIn] [])
      | Some vars =>
          if is_nil rootobj then Done (mkResp (Some RNull) [] [])
          else
            match sem_sels S G (d_frags d) any_installed vars fuel rootobj (op_sels o)
                           (op_root_type (op_kind o)) (max_depth - 1) [] with
            | OutOfFuel => OutOfFuel
            | Done (es, ea, cs) => Done (mkResp (Some (RObj es)) ea cs)
            end
      end
  end.

(* error paths of the implementation carry a "fragment at L:C" segment for every named-fragment
   spread they pass through (pinned by the test-suite, finding F11); the specification's paths are
   response paths only *)
Definition strip_frag (e : err) : err :=
  mkErr (filter (fun p => match p with PFragAt _ => false | _ => true end) (e_path e)) (e_loc e) (e_kind e).

Fixpoint nodup_nat (l : list nat) : bool :=
  match l with [] => true | x :: r => negb (existsb (Nat.eqb x) r) && nodup_nat r end.

(* ---- static validity of documents with respect to arguments: no argument is supplied twice (such a
   document is refused when it is parsed) ---- *)
Definition field_args_ok (S : schema) (name : nat) (args : list arg) : bool := nodup_nat (map fst args).

(* argument names of every field definition are distinct *)
Definition wf_schema_args (S : schema) : bool :=
  forallb (fun ttd =>
             match snd ttd with
             | DObject fs _ | DInterface fs => forallb (fun fd => nodup_nat (map a_name (f_args fd))) fs
             | _ => true
             end) S.

Fixpoint wf_sel (S : schema) (s : sel) {struct s} : bool :=
  match s with
  | SField _ _ name args _ fsels => field_args_ok S name args && forallb (wf_sel S) fsels
  | SInline _ _ _ isels => forallb (wf_sel S) isels
  | SFrag _ _ _ => true
  end.

Definition wf_sels (S : schema) (sels : list sel) : bool := forallb (wf_sel S) sels.
Definition wf_frags (S : schema) (frags : list (nat * fragment)) : bool :=
  forallb (fun nf => wf_sels S (fr_sels (snd nf))) frags.
Definition wf_doc (S : schema) (d : doc) : bool :=
  forallb (fun o => wf_sels S (op_sels o)) (d_ops d) && wf_frags S (d_frags d).

(* A response object is a map: when a selection set yields two entries with one response key the
   implementation keeps the later one in the earlier one's place.  norm applies that to a
   specification value; on values without duplicate keys it is the identity (ExecSpec_proofs). *)
Fixpoint norm (r : rv) : rv :=
  match r with
  | RList l => RList (map norm l)
  | RObj es => RObj (fold_left (fun m kv => set_key (fst kv) (snd kv) m) (map (fun kv => (fst kv, norm (snd kv))) es) [])
  | _ => r
  end.

Definition norm_entries (es : list (nat * rv)) : list (nat * rv) := map (fun kv => (fst kv, norm (snd kv))) es.
Definition add_entries (es : list (nat * rv)) (m : list (nat * rv)) : list (nat * rv) :=
  fold_left (fun m kv => set_key (fst kv) (snd kv) m) es m.

(* no object anywhere in the value has two entries with one key *)
Fixpoint nodup_keys (r : rv) : bool :=
  match r with
  | RList l => forallb nodup_keys l
  | RObj es => nodup_nat (map fst es) && forallb (fun kv => nodup_keys (snd kv)) es
  | _ => true
  end.
