(* Introspect_proofs.v — the introspection answer determines the description it was made from:
   reading the response tree back gives the description again, for every schema. *)
From Coq Require Import List Arith ZArith Bool.
Import ListNotations.
From GG Require Import Schema Introspect.

Lemma dec_list_map {A} (enc : A -> jt) (dec : jt -> option A) l :
  (forall x, dec (enc x) = Some x) -> dec_list dec (map enc l) = Some l.
Proof. intros H. induction l as [|x l IH]; simpl; [reflexivity|]. now rewrite H, IH. Qed.

(* type references: every wrapper nesting is recovered through ofType *)
Theorem dec_enc_tref fl t : dec_tref (enc_tref fl t) = Some t.
Proof.
  induction t as [n|t IH|t IH]; simpl; [|now rewrite IH|now rewrite IH].
  generalize (named_kind fl n). intros k. do 8 (destruct k as [|k]; [reflexivity|]). reflexivity.
Qed.

Lemma dec_val_opt_enc o : dec_val_opt (enc_opt IVal o) = Some o.
Proof. destruct o; reflexivity. Qed.

Theorem dec_enc_arg fl ns a : dec_arg ns (enc_arg fl ns a) = Some a.
Proof.
  unfold dec_arg, enc_arg. rewrite Nat.eqb_refl, dec_enc_tref, dec_val_opt_enc. now destruct a.
Qed.

Theorem dec_enc_field fl f : dec_field (enc_field fl f) = Some f.
Proof.
  unfold dec_field, enc_field.
  rewrite (dec_list_map (enc_arg fl 4) (dec_arg 4) _ (dec_enc_arg fl 4)), dec_enc_tref, dec_val_opt_enc.
  now destruct f.
Qed.

Theorem dec_enc_val v : dec_valinfo (enc_val v) = Some v.
Proof. unfold dec_valinfo, enc_val. rewrite dec_val_opt_enc. now destruct v. Qed.

Lemma dec_name_enc n : dec_name (IName 0 n) = Some n.
Proof. reflexivity. Qed.

Lemma dec_opt_set {A} (enc : A -> jt) (dec : jt -> option A) (o : option (list A)) :
  (forall x, dec (enc x) = Some x) ->
  dec_opt_list dec (enc_opt (fun l => ISet (map enc l)) o) = Some o.
Proof. intros H. destruct o as [l|]; simpl; [|reflexivity]. now rewrite (dec_list_map enc dec l H). Qed.

(* a whole type description *)
Theorem dec_enc_type fl i : dec_type (enc_type fl i) = Some i.
Proof.
  unfold dec_type, enc_type.
  rewrite (dec_opt_set (enc_field fl) dec_field _ (dec_enc_field fl)).
  rewrite !(dec_opt_set (IName 0) dec_name _ dec_name_enc).
  rewrite (dec_opt_set enc_val dec_valinfo _ dec_enc_val).
  rewrite (dec_opt_set (enc_arg fl 3) (dec_arg 3) _ (dec_enc_arg fl 3)).
  now destruct i.
Qed.

(* hence two descriptions with the same answer are the same description *)
Corollary enc_type_injective fl i j : enc_type fl i = enc_type fl j -> i = j.
Proof. intros H. apply (f_equal dec_type) in H. rewrite !dec_enc_type in H. now injection H. Qed.

(* __type on a name that is not defined is null *)
Theorem type_answer_unknown st incl n :
  (forall b, In b (fl_bases (flatten (core_items ++ st))) -> is_type_def b = true -> b_name b <> n) ->
  type_answer st incl n = INull.
Proof.
  intros H. unfold type_answer.
  destruct (filter _ (fl_bases (flatten (core_items ++ st)))) as [|b l] eqn:E; [reflexivity|].
  assert (Hb : In b (filter (fun b => is_type_def b && Nat.eqb (b_name b) n) (fl_bases (flatten (core_items ++ st)))))
    by (rewrite E; now left).
  apply filter_In in Hb. destruct Hb as [Hb1 Hb2]. apply andb_true_iff in Hb2. destruct Hb2 as [Hd Hn].
  apply Nat.eqb_eq in Hn. exfalso. exact (H b Hb1 Hd Hn).
Qed.

(* __type on a defined name is that definition's entry of __schema.types *)
Theorem type_answer_known st incl b :
  let fl := flatten (core_items ++ st) in
  In b (fl_bases fl) -> is_type_def b = true ->
  (forall b', In b' (fl_bases fl) -> is_type_def b' = true -> b_name b' = b_name b -> b' = b) ->
  type_answer st incl (b_name b) = enc_type fl (info_of fl incl b).
Proof.
  intros fl Hb Hd Hu. unfold type_answer. fold fl.
  destruct (filter _ (fl_bases fl)) as [|b' l] eqn:E.
  - assert (Hin : In b (filter (fun x => is_type_def x && Nat.eqb (b_name x) (b_name b)) (fl_bases fl))).
    { apply filter_In. split; [exact Hb|]. now rewrite Hd, Nat.eqb_refl. }
    rewrite E in Hin. destruct Hin.
  - assert (Hb' : In b' (filter (fun x => is_type_def x && Nat.eqb (b_name x) (b_name b)) (fl_bases fl))) by (rewrite E; now left).
    apply filter_In in Hb'. destruct Hb' as [H1 H2]. apply andb_true_iff in H2. destruct H2 as [H2 H3].
    apply Nat.eqb_eq in H3. now rewrite (Hu b' H1 H2 H3).
Qed.
