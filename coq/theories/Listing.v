(* Listing.v — the order in which a root lists its types (typelist.go add: by rank, then by name in
   byte order) as a function of the SET of definitions: whatever the order or the partition into
   loads in which they arrived, the listing is the same (property C16; also what introspection's
   __schema{types} and Root.Types() show).  Model and proofs; the property statements are in
   Properties/C16.v. *)
From Coq Require Import List Arith Bool Permutation Sorted Lia.
Import ListNotations.

Definition name := list nat.   (* the bytes of a name *)

(* strings.Compare(a, b) <= 0 *)
Fixpoint lex_le (a b : name) : bool :=
  match a, b with
  | [], _ => true
  | _ :: _, [] => false
  | x :: a', y :: b' => if Nat.ltb x y then true else if Nat.ltb y x then false else lex_le a' b'
  end.

Definition name_eqb (a b : name) : bool := if list_eq_dec Nat.eq_dec a b then true else false.

Definition n_Query : name := [81; 117; 101; 114; 121].
Definition n_Mutation : name := [77; 117; 116; 97; 116; 105; 111; 110].
Definition n_Subscription : name := [83; 117; 98; 115; 99; 114; 105; 112; 116; 105; 111; 110].

(* kinds as the harness numbers them: 0 scalar, 1 object, 2 interface, 3 union, 4 enum, 5 input,
   6 directive, 7 schema block; ranks as in rank.go / Object.Rank *)
Definition rank_of (k : nat) (n : name) : nat :=
  match k with
  | 7 => 1
  | 1 => if name_eqb n n_Query then 2 else if name_eqb n n_Mutation then 3
         else if name_eqb n n_Subscription then 4 else 5
  | 5 => 6
  | 3 => 7
  | 2 => 8
  | 4 => 9
  | 0 => 10
  | 6 => 11
  | _ => 0
  end.

Definition entry := (nat * name)%type.   (* kind, name *)

Definition entry_le (x y : entry) : bool :=
  let rx := rank_of (fst x) (snd x) in
  let ry := rank_of (fst y) (snd y) in
  if Nat.ltb rx ry then true else if Nat.ltb ry rx then false else lex_le (snd x) (snd y).

Fixpoint insert (x : entry) (l : list entry) : list entry :=
  match l with
  | [] => [x]
  | y :: r => if entry_le x y then x :: l else y :: insert x r
  end.

Definition listing (l : list entry) : list entry := fold_right insert [] l.

(* ---- the order ---- *)
Lemma lex_le_refl a : lex_le a a = true.
Proof. induction a as [|x a IH]; simpl; auto. rewrite Nat.ltb_irrefl. exact IH. Qed.

Lemma lex_le_total a b : lex_le a b = true \/ lex_le b a = true.
Proof.
  revert b. induction a as [|x a IH]; intros b; [left; reflexivity|].
  destruct b as [|y b]; [right; reflexivity|]. simpl.
  destruct (Nat.ltb_spec x y); [left; reflexivity|].
  destruct (Nat.ltb_spec y x); [right; reflexivity|]. apply IH.
Qed.

Lemma lex_le_antisym a b : lex_le a b = true -> lex_le b a = true -> a = b.
Proof.
  revert b. induction a as [|x a IH]; intros b H1 H2.
  - destruct b; [reflexivity|discriminate].
  - destruct b as [|y b]; [discriminate|]. simpl in H1, H2.
    destruct (Nat.ltb_spec x y) as [L|L].
    + destruct (Nat.ltb_spec y x); [lia|]. discriminate.
    + destruct (Nat.ltb_spec y x) as [M|M]; [discriminate|].
      assert (x = y) by lia. subst. f_equal. apply IH; assumption.
Qed.

Lemma lex_le_trans a b c : lex_le a b = true -> lex_le b c = true -> lex_le a c = true.
Proof.
  revert b c. induction a as [|x a IH]; intros b c H1 H2; [reflexivity|].
  destruct b as [|y b]; [discriminate|]. destruct c as [|z c]; [simpl in H2; discriminate|].
  simpl in *.
  destruct (Nat.ltb_spec x y) as [L|L].
  - destruct (Nat.ltb_spec y z) as [M|M].
    + destruct (Nat.ltb_spec x z); [reflexivity|lia].
    + destruct (Nat.ltb_spec z y); [discriminate|].
      destruct (Nat.ltb_spec x z); [reflexivity|lia].
  - destruct (Nat.ltb_spec y x) as [L2|L2]; [discriminate|].
    assert (x = y) by lia. subst y.
    destruct (Nat.ltb_spec x z); [reflexivity|].
    destruct (Nat.ltb_spec z x); [discriminate|]. eapply IH; eauto.
Qed.

(* entries of one listing carry the names of one root: a name determines its entry's kind only
   together with the table it is in (types and directives are apart), so the order is stated on
   entries whose kind is a function of the rank and name; two entries that compare equal both ways
   have the same rank and the same name *)
Lemma entry_le_total x y : entry_le x y = true \/ entry_le y x = true.
Proof.
  unfold entry_le. destruct (Nat.ltb_spec (rank_of (fst x) (snd x)) (rank_of (fst y) (snd y))); [left; reflexivity|].
  destruct (Nat.ltb_spec (rank_of (fst y) (snd y)) (rank_of (fst x) (snd x))); [right; reflexivity|].
  apply lex_le_total.
Qed.

Lemma entry_le_trans x y z : entry_le x y = true -> entry_le y z = true -> entry_le x z = true.
Proof.
  unfold entry_le.
  set (rx := rank_of (fst x) (snd x)). set (ry := rank_of (fst y) (snd y)). set (rz := rank_of (fst z) (snd z)).
  destruct (Nat.ltb_spec rx ry); destruct (Nat.ltb_spec ry rz); destruct (Nat.ltb_spec rx rz);
    destruct (Nat.ltb_spec ry rx); destruct (Nat.ltb_spec rz ry); destruct (Nat.ltb_spec rz rx);
    try reflexivity; try discriminate; try lia; intros; try discriminate.
  eapply lex_le_trans; eauto.
Qed.

Lemma entry_le_antisym_name x y :
  entry_le x y = true -> entry_le y x = true ->
  rank_of (fst x) (snd x) = rank_of (fst y) (snd y) /\ snd x = snd y.
Proof.
  unfold entry_le.
  destruct (Nat.ltb_spec (rank_of (fst x) (snd x)) (rank_of (fst y) (snd y)));
    destruct (Nat.ltb_spec (rank_of (fst y) (snd y)) (rank_of (fst x) (snd x)));
    try lia; try discriminate; intros H1 H2.
  split; [lia|]. apply lex_le_antisym; assumption.
Qed.

(* ---- insertion sort: sorted, a permutation, and canonical ---- *)
Definition le_prop (x y : entry) : Prop := entry_le x y = true.

Lemma insert_perm x l : Permutation (x :: l) (insert x l).
Proof.
  induction l as [|y r IH]; simpl; auto.
  destruct (entry_le x y); auto.
  eapply perm_trans; [apply perm_swap|]. now apply perm_skip.
Qed.

Lemma listing_perm l : Permutation l (listing l).
Proof.
  induction l as [|x l IH]; simpl; auto.
  eapply perm_trans; [apply perm_skip; exact IH|]. apply insert_perm.
Qed.

Lemma insert_sorted x l : StronglySorted le_prop l -> StronglySorted le_prop (insert x l).
Proof.
  induction l as [|y r IH]; intros Hs; simpl.
  - constructor; constructor.
  - inversion Hs as [|? ? Hr Hy]; subst.
    destruct (entry_le x y) eqn:E.
    + constructor; [exact Hs|]. constructor; [exact E|].
      rewrite Forall_forall in *. intros z Hz. eapply entry_le_trans; [exact E|]. now apply Hy.
    + constructor; [now apply IH|].
      assert (Hyx : entry_le y x = true).
      { destruct (entry_le_total x y) as [H|H]; [congruence|exact H]. }
      rewrite Forall_forall in *. intros z Hz.
      apply (Permutation_in _ (Permutation_sym (insert_perm x r))) in Hz.
      destruct Hz as [<-|Hz]; [exact Hyx|now apply Hy].
Qed.

Lemma listing_sorted l : StronglySorted le_prop (listing l).
Proof. induction l as [|x l IH]; simpl; [constructor|now apply insert_sorted]. Qed.

(* entries whose kind is determined by rank and name (true of the entries of one table of one root:
   a table holds one definition per name) *)
Definition coherent (l : list entry) : Prop :=
  forall x y, In x l -> In y l -> snd x = snd y -> x = y.

Lemma sorted_perm_unique a b :
  StronglySorted le_prop a -> StronglySorted le_prop b -> Permutation a b -> coherent a -> a = b.
Proof.
  revert b. induction a as [|x a IH]; intros b Ha Hb Hp Hc.
  - apply Permutation_nil in Hp. now subst.
  - destruct b as [|y b]; [apply Permutation_sym, Permutation_nil in Hp; discriminate|].
    inversion Ha as [|? ? Ha' Hx]; subst. inversion Hb as [|? ? Hb' Hy]; subst.
    rewrite Forall_forall in Hx, Hy.
    assert (Hxy : x = y).
    { assert (Iy : In y (x :: a)) by (eapply Permutation_in; [apply Permutation_sym; exact Hp|now left]).
      assert (Ix : In x (y :: b)) by (eapply Permutation_in; [exact Hp|now left]).
      destruct Iy as [E|Iy]; [exact E|]. destruct Ix as [E|Ix]; [now symmetry|].
      destruct (entry_le_antisym_name x y (Hx _ Iy) (Hy _ Ix)) as [_ En].
      apply Hc; [now left|now right|exact En]. }
    subst y. f_equal. apply IH; auto.
    + eapply Permutation_cons_inv; eauto.
    + intros u v Hu Hv. apply Hc; now right.
Qed.

Theorem listing_canonical a b :
  Permutation a b -> coherent a -> listing a = listing b.
Proof.
  intros Hp Hc. apply sorted_perm_unique; try apply listing_sorted.
  - eapply perm_trans; [apply Permutation_sym, listing_perm|].
    eapply perm_trans; [exact Hp|apply listing_perm].
  - intros x y Hx Hy. apply Hc; eapply Permutation_in; try (apply Permutation_sym, listing_perm); assumption.
Qed.

(* a list is its own listing exactly when it is sorted: the check the harness applies to what
   Root.Types() and Root.Directives() return *)
Lemma insert_head x l : Forall (le_prop x) l -> insert x l = x :: l.
Proof.
  destruct l as [|y r]; intros H; simpl; auto. inversion H; subst.
  unfold le_prop in *. now rewrite H2.
Qed.

Theorem listing_fixpoint l : StronglySorted le_prop l -> listing l = l.
Proof.
  induction l as [|x l IH]; intros Hs; simpl; auto.
  inversion Hs; subst. rewrite IH by assumption. now apply insert_head.
Qed.

Definition entry_eqb (x y : entry) : bool := Nat.eqb (fst x) (fst y) && name_eqb (snd x) (snd y).

Fixpoint entries_eqb (a b : list entry) : bool :=
  match a, b with
  | [], [] => true
  | x :: a', y :: b' => entry_eqb x y && entries_eqb a' b'
  | _, _ => false
  end.

Definition listed_okb (l : list entry) : bool := entries_eqb (listing l) l.

Lemma entry_eqb_spec x y : entry_eqb x y = true <-> x = y.
Proof.
  unfold entry_eqb, name_eqb. destruct x as [k n], y as [k' n']. simpl.
  destruct (Nat.eqb_spec k k'); destruct (list_eq_dec Nat.eq_dec n n'); simpl; split; intros H;
    try discriminate; try (inversion H; congruence); subst; reflexivity.
Qed.

Lemma entries_eqb_spec a b : entries_eqb a b = true <-> a = b.
Proof.
  revert b. induction a as [|x a IH]; intros [|y b]; simpl; split; intros H; try discriminate; auto.
  - apply andb_true_iff in H. destruct H as [H1 H2]. apply entry_eqb_spec in H1. apply IH in H2. congruence.
  - inversion H; subst. apply andb_true_iff. split; [now apply entry_eqb_spec|now apply IH].
Qed.

Theorem listed_okb_spec l : listed_okb l = true <-> StronglySorted le_prop l.
Proof.
  unfold listed_okb. rewrite entries_eqb_spec. split; intros H.
  - rewrite <- H. apply listing_sorted.
  - now apply listing_fixpoint.
Qed.

(* the concatenation of a list of lists, read in another order, is a permutation of it *)
Lemma perm_concat {A} (l l' : list (list A)) : Permutation l l' -> Permutation (concat l) (concat l').
Proof.
  induction 1 as [|x l l' _ IH|x y l|l l' l'' _ IH1 _ IH2]; simpl; auto.
  - now apply Permutation_app_head.
  - rewrite !app_assoc. apply Permutation_app_tail. apply Permutation_app_comm.
  - eapply perm_trans; eauto.
Qed.

