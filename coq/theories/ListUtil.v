(* Small list lemmas missing from the Coq 8.16 standard library. *)
From Coq Require Import List Arith Lia Permutation.
Import ListNotations.

Lemma NoDup_app_r {A} (a b : list A) : NoDup (a ++ b) -> NoDup b.
Proof. induction a as [|x a IH]; simpl; auto. intros H. inversion H; auto. Qed.

Lemma NoDup_app_l {A} (a b : list A) : NoDup (a ++ b) -> NoDup a.
Proof.
  induction a as [|x a IH]; simpl; intros H; [constructor|].
  inversion H; subst. constructor; auto. intros Hc. apply H2. apply in_app_iff. auto.
Qed.

Lemma NoDup_app_disj {A} (a b : list A) x : NoDup (a ++ b) -> In x a -> In x b -> False.
Proof.
  induction a as [|y a IH]; simpl; intros H Ha Hb; [tauto|].
  inversion H; subst. destruct Ha as [->|Ha]; [apply H2; apply in_app_iff; auto|eauto].
Qed.
