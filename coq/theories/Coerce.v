(* Coerce.v — executable model of input and output coercion of pkg/ggql (intscalar.go, int64scalar.go,
   floatscalar.go, float64scalar.go, stringscalar.go, idscalar.go, booleanscalar.go, timescalar.go,
   enum.go, list.go, nonnull.go, input.go without a registered Go struct), over the Go values a JSON
   decoder, the request parser or a resolver can hand to them, and the specifications of properties C04
   (conforms / denotes) and C05 (has_shape).  Floating point, strconv and time are Go's: a float, a
   string and a time enter as abstract values carrying exactly the facts ggql's decisions depend on,
   computed by Go in the harness.  No proofs in this file. *)
From Coq Require Import List Arith ZArith Bool.
Import ListNotations.
Open Scope Z_scope.

Inductive ikind := KInt | KInt8 | KInt16 | KInt32 | KInt64 | KUint | KUint8 | KUint16 | KUint32 | KUint64.

(* a Go float (float64, or float32 when f_w32), as far as ggql looks at it *)
Record flt := mkFlt {
  f_id : Z;                 (* identity: equal ids are the same bits *)
  f_w32 : bool;             (* it is a float32 *)
  f_finite : bool;          (* neither NaN nor +-Inf *)
  f_trunc : Z;              (* math.Trunc(f) as an integer, when finite *)
  f_integral : bool;        (* finite and f == Trunc(f) *)
  f_fits32 : bool           (* float32(f) is finite *)
}.

(* a Go string, as far as ggql parses it *)
Record str := mkStr {
  s_id : Z;
  s_int : option Z;         (* strconv.ParseInt(s, 10, 64) *)
  s_flt : option flt;       (* strconv.ParseFloat(s, 64) *)
  s_bool : option bool;     (* strconv.ParseBool(s) *)
  s_time : option Z         (* time.Parse(RFC3339Nano, s): identity of the instant *)
}.

Inductive fval :=           (* float results, symbolically *)
| FIn (f : flt)             (* the input float unchanged *)
| F32Of (f : flt)           (* float32(f) *)
| F64Of (f : flt)           (* float64(f) *)
| F32OfInt (z : Z)          (* float32 of an integer *)
| F64OfInt (z : Z).

Inductive tval := TIn (id : Z) | TOfSecs (z : Z) | TParsed (id : Z) | TOfFlt (id : Z) (* float64 epoch seconds *).

Inductive cv :=
| CNil
| CI (k : ikind) (z : Z)
| CFl (f : fval)
| CStr (s : str)
| CStrOfInt (z : Z)         (* decimal text of an integer *)
| CStrOfBool (b : bool)     (* "true" / "false" *)
| CStrOfFlt (f : flt)       (* strconv.FormatFloat(f, 'g', -1, 32|64) *)
| CBool (b : bool)
| CSym (e : nat)            (* ggql.Symbol "E<e>" *)
| CSymName (e : nat)        (* the string "E<e>" *)
| CList (l : list cv)
| CMap (kvs : list (nat * cv))
| CTime (t : tval)
| CTimeText (t : tval)      (* RFC 3339 text of the instant in UTC *)
| COther.

Definition in32 (z : Z) : bool := (-2147483648 <=? z) && (z <=? 2147483647).
Definition in64 (z : Z) : bool := (-9223372036854775808 <=? z) && (z <=? 9223372036854775807).

Inductive skind := SInt | SInt64 | SFloat | SFloat64 | SString | SBoolean | SID | STime | SCustom.

(* Time from seconds: a float is a number of seconds an int64 holds when it is finite and strictly
   inside (-2^63, 2^63); an instant can be written as RFC 3339 when its year has four digits:
   0000-01-01T00:00:00Z = -62167219200 s, 9999-12-31T23:59:59Z = 253402300799 s *)
Definition flt_secs_ok (f : flt) : bool :=
  f_finite f && (-9223372036854775808 <? f_trunc f) && (f_trunc f <? 9223372036854775808).
(* a time.Time handed over by the application (TIn id): whether its year, in UTC, lies in 0..9999 is a
   fact about the Go value; the harness numbers the values of its zoo so that exactly the ids below 100
   are in that range *)
Definition tin_rfc (id : Z) : bool := id <? 100.

Definition rfc_secs (z : Z) : bool := (-62167219200 <=? z) && (z <=? 253402300799).

Arguments rfc_secs : simpl never.
Arguments tin_rfc : simpl never.

(* the instant can be written as an RFC 3339 text (years 0..9999 in UTC), as far as the value says *)
Definition tval_rfc (t : tval) : bool :=
  match t with TIn id => tin_rfc id | TOfSecs z => rfc_secs z | _ => true end.
Arguments tval_rfc : simpl never.
Definition rfc_flt (f : flt) : bool :=
  ((-62167219200 <? f_trunc f) || ((f_trunc f =? -62167219200) && f_integral f)) && (f_trunc f <=? 253402300799).

(* ------------------------------------------------------------------ input coercion of scalars *)
(* (value, error?) — on error the value is nil *)
Definition scalar_in (k : skind) (v : cv) : cv * bool :=
  match k, v with
  | _, CNil => (CNil, false)
  (* Int: every Go integer kind and float64 (what the JSON decoder yields), within 32 bits *)
  | SInt, CI _ z => if in32 z then (CI KInt32 z, false) else (CNil, true)
  | SInt, CFl (FIn f) =>
      if negb (f_w32 f) && f_integral f && in32 (f_trunc f) then (CI KInt32 (f_trunc f), false) else (CNil, true)
  (* Int64 *)
  | SInt64, CI KInt64 z => (CI KInt64 z, false)
  | SInt64, CI KInt32 z => (CI KInt32 z, false)
  | SInt64, CStr s => match s_int s with Some z => (CI KInt64 z, false) | None => (CNil, true) end
  (* Float: float32; float64 narrowed; int32/int64 converted *)
  | SFloat, CFl (FIn f) =>
      if f_w32 f then (if f_finite f then (CFl (FIn f), false) else (CNil, true))
      else if f_finite f && f_fits32 f then (CFl (F32Of f), false) else (CNil, true)
  | SFloat, CI KInt32 z | SFloat, CI KInt64 z => (CFl (F32OfInt z), false)
  (* Float64 *)
  | SFloat64, CFl (FIn f) =>
      if f_finite f then (if f_w32 f then (CFl (F64Of f), false) else (CFl (FIn f), false)) else (CNil, true)
  | SFloat64, CI KInt32 z | SFloat64, CI KInt64 z => (CFl (F64OfInt z), false)
  | SFloat64, CStr s =>
      match s_flt s with Some f => if f_finite f && negb (f_w32 f) then (CFl (FIn f), false) else (CNil, true) | None => (CNil, true) end
  (* String and custom (SDL-declared) scalars *)
  | SString, CStr s | SCustom, CStr s => (CStr s, false)
  | SBoolean, CBool b => (CBool b, false)
  (* ID: strings, and int / int32 / int64 as decimal text *)
  | SID, CStr s => (CStr s, false)
  | SID, CI KInt z | SID, CI KInt32 z | SID, CI KInt64 z => (CStrOfInt z, false)
  (* Time *)
  | STime, CTime t => (CTime t, false)
  | STime, CI KInt64 z => (CTime (TOfSecs z), false)
  | STime, CFl (FIn f) => if f_w32 f || negb (flt_secs_ok f) then (CNil, true) else (CTime (TOfFlt (f_id f)), false)
  | STime, CStr s => match s_time s with Some t => (CTime (TParsed t), false) | None => (CNil, true) end
  | _, _ => (CNil, true)
  end.

(* ------------------------------------------------------------------ output coercion of scalars *)
Definition scalar_out (k : skind) (v : cv) : cv * bool :=
  match k, v with
  | _, CNil => (CNil, false)
  | SInt, CI _ z => if in32 z then (CI KInt32 z, false) else (CNil, true)
  | SInt, CFl (FIn f) => if f_finite f && in32 (f_trunc f) then (CI KInt32 (f_trunc f), false) else (CNil, true)
  | SInt, CStr s => match s_int s with Some z => if in32 z then (CI KInt32 z, false) else (CNil, true) | None => (CNil, true) end
  | SInt64, CI _ z => if in64 z then (CI KInt64 z, false) else (CNil, true)
  | SInt64, CFl (FIn f) => if f_finite f && in64 (f_trunc f) then (CI KInt64 (f_trunc f), false) else (CNil, true)
  | SInt64, CStr s => match s_int s with Some z => (CI KInt64 z, false) | None => (CNil, true) end
  | SFloat, CFl (FIn f) =>
      if f_w32 f then (if f_finite f then (CFl (FIn f), false) else (CNil, true))
      else if f_finite f && f_fits32 f then (CFl (F32Of f), false) else (CNil, true)
  | SFloat, CI _ z => (CFl (F32OfInt z), false)
  | SFloat, CStr s =>
      match s_flt s with Some f => if f_finite f && f_fits32 f then (CFl (F32Of f), false) else (CNil, true) | None => (CNil, true) end
  | SFloat64, CFl (FIn f) =>
      if f_finite f then (if f_w32 f then (CFl (F64Of f), false) else (CFl (FIn f), false)) else (CNil, true)
  | SFloat64, CI _ z => (CFl (F64OfInt z), false)
  | SFloat64, CStr s =>
      match s_flt s with Some f => if f_finite f then (CFl (FIn f), false) else (CNil, true) | None => (CNil, true) end
  | SString, CStr s | SCustom, CStr s => (CStr s, false)
  | SString, CBool b | SCustom, CBool b => (CStrOfBool b, false)
  | SString, CI _ z | SCustom, CI _ z => (CStrOfInt z, false)
  | SString, CFl (FIn f) | SCustom, CFl (FIn f) => (CStrOfFlt f, false)
  | SBoolean, CBool b => (CBool b, false)
  | SBoolean, CI KInt32 z => (CBool (negb (z =? 0)), false)
  | SBoolean, CFl (FIn f) => if f_w32 f then (CBool (negb (f_integral f && (f_trunc f =? 0))), false) else (CNil, true)
  | SBoolean, CStr s => match s_bool s with Some b => (CBool b, false) | None => (CNil, true) end
  | SID, CStr s => (CStr s, false)
  | SID, CI _ z => (CStrOfInt z, false)
  | STime, CTime t => if tval_rfc t then (CTimeText t, false) else (CNil, true)
  | STime, CI KInt64 z => if rfc_secs z then (CTimeText (TOfSecs z), false) else (CNil, true)
  | STime, CFl (FIn f) =>
      if f_w32 f || negb (flt_secs_ok f) || negb (rfc_flt f) then (CNil, true) else (CTimeText (TOfFlt (f_id f)), false)
  | STime, CStr s => match s_time s with Some t => (CTimeText (TParsed t), false) | None => (CNil, true) end
  | _, _ => (CNil, true)
  end.

(* ------------------------------------------------------------------ types *)
Inductive cty :=
| TScalar (k : skind)
| TEnum (vals : list nat)
| TInput (fields : list (nat * (cty * option cv)))     (* name, type, default *)
| TListOf (t : cty)
| TNonNullOf (t : cty).

Definition if_name (f : nat * (cty * option cv)) : nat := fst f.
Definition if_type (f : nat * (cty * option cv)) : cty := fst (snd f).
Definition if_dflt (f : nat * (cty * option cv)) : option cv := snd (snd f).

Fixpoint lookupc {A} (k : nat) (l : list (nat * A)) : option A :=
  match l with [] => None | (k', v) :: r => if Nat.eqb k k' then Some v else lookupc k r end.

Definition is_cnil (v : cv) : bool := match v with CNil => true | _ => false end.

Definition is_nn (t : cty) : bool := match t with TNonNullOf _ => true | _ => false end.

Definition declared (fields : list (nat * (cty * option cv))) (k : nat) : bool :=
  existsb (fun f => Nat.eqb (if_name f) k) fields.

(* the element loop of List.CoerceIn and the field loop of Input.CoerceIn, over the coercion of the
   element / field types *)
Definition list_loop (ci : cv -> option cv) : list cv -> option (list cv) :=
  fix go (l : list cv) : option (list cv) :=
    match l with
    | [] => Some []
    | x :: r => match go r, ci x with
                | Some r', Some x' => Some (x' :: r')
                | _, _ => None
                end
    end.

Definition input_loop (ci : cty -> cv -> option cv) (kvs : list (nat * cv))
  : list (nat * (cty * option cv)) -> option (list (nat * cv)) :=
  fix go (fs : list (nat * (cty * option cv))) : option (list (nat * cv)) :=
    match fs with
    | [] => Some []
    | f :: r =>
        match go r with
        | None => None
        | Some m =>
            match lookupc (fst f) kvs with
            | None =>
                match snd (snd f) with
                | Some d => Some ((fst f, d) :: m)
                | None => if is_nn (fst (snd f)) then None else Some m
                end
            | Some ov =>
                if is_cnil ov then
                  match snd (snd f) with
                  | Some d => Some ((fst f, d) :: m)
                  | None => if is_nn (fst (snd f)) then None else Some ((fst f, CNil) :: m)
                  end
                else match ci (fst (snd f)) ov with
                     | Some w => Some ((fst f, w) :: m)
                     | None => None
                     end
            end
        end
    end.

(* CoerceIn of any input type; None = error.  Lists are coerced element by element (the Go loop
   runs from the last element to the first and stops at the first failure: only whether an error
   occurs is observable).  Input objects: an undeclared key is an error; every declared field is
   looked at: absent or nil -> its default when there is one, an error when non-null, else left as it
   is; present -> coerced. *)
Fixpoint coerce_input (t : cty) (v : cv) {struct t} : option cv :=
  match t with
  | TScalar k => let (w, bad) := scalar_in k v in if bad then None else Some w
  | TEnum vals =>
      match v with
      | CNil => Some CNil
      | CSym e => if existsb (Nat.eqb e) vals then Some (CSym e) else None
      | _ => None
      end
  | TNonNullOf b => match v with CNil => None | _ => coerce_input b v end
  | TListOf b =>
      match v with
      | CNil => Some CNil
      | CList l => option_map CList (list_loop (coerce_input b) l)
      | _ => None
      end
  | TInput fields =>
      match v with
      | CNil => Some CNil
      | CMap kvs =>
          if forallb (fun kv => declared fields (fst kv)) kvs
          then option_map CMap (input_loop coerce_input kvs fields)
          else None
      | _ => None
      end
  end.

(* CoerceOut of output leaf types (scalars, enums) and the wrappers the executor peels itself *)
Definition leaf_out (t : cty) (v : cv) : cv * bool :=
  match t with
  | TScalar k => scalar_out k v
  | TEnum _ =>
      match v with
      | CNil => (CNil, false)
      | CSym e => (CSymName e, false)
      | CStr s => (CStr s, false)          (* any string passes: finding F06e, pinned by TestEnum *)
      | _ => (CNil, true)
      end
  | _ => (CNil, true)
  end.

(* ================================================================== specifications *)

(* C04: the value handed to a resolver conforms to the declared type ... *)
Definition scalar_conforms (k : skind) (w : cv) : bool :=
  match k, w with
  | _, CNil => true
  | SInt, CI KInt32 z => in32 z
  | SInt64, CI KInt64 _ | SInt64, CI KInt32 _ => true
  | SFloat, CFl (FIn f) => f_w32 f && f_finite f
  | SFloat, CFl (F32Of f) => f_finite f && f_fits32 f
  | SFloat, CFl (F32OfInt _) => true
  | SFloat64, CFl (FIn f) => negb (f_w32 f) && f_finite f
  | SFloat64, CFl (F64Of f) => f_finite f
  | SFloat64, CFl (F64OfInt _) => true
  | SString, CStr _ | SCustom, CStr _ => true
  | SBoolean, CBool _ => true
  | SID, CStr _ | SID, CStrOfInt _ => true
  | STime, CTime _ => true
  | _, _ => false
  end.

Fixpoint conforms (t : cty) (w : cv) {struct t} : bool :=
  match t with
  | TNonNullOf b => match w with CNil => false | _ => conforms b w end
  | TScalar k => scalar_conforms k w
  | TEnum vals => match w with CNil => true | CSym e => existsb (Nat.eqb e) vals | _ => false end
  | TListOf b => match w with CNil => true | CList l => forallb (conforms b) l | _ => false end
  | TInput fields =>
      match w with
      | CNil => true
      | CMap kvs =>
          (* only declared fields; every declared field that is present conforms, and is not null when
             the field declares a default (the default stands wherever the client gave nothing or
             null); a field that is absent is neither required nor defaulted *)
          forallb (fun kv => declared fields (fst kv)) kvs &&
          (fix go (fs : list (nat * (cty * option cv))) : bool :=
             match fs with
             | [] => true
             | f :: r =>
                 match lookupc (fst f) kvs with
                 | Some w' => conforms (fst (snd f)) w' && match snd (snd f) with Some _ => negb (is_cnil w') | None => true end
                 | None => negb (is_nn (fst (snd f))) && match snd (snd f) with Some _ => false | None => true end
                 end && go r
             end) fields
      | _ => false
      end
  end.

(* ... and denotes the value the client wrote (v: what the parser / JSON decoder produced) *)
Definition tval_eqb (t t' : tval) : bool :=
  match t, t' with
  | TIn a, TIn b | TOfSecs a, TOfSecs b | TParsed a, TParsed b | TOfFlt a, TOfFlt b => a =? b
  | _, _ => false
  end.

Fixpoint denotes (v w : cv) {struct v} : bool :=
  match v, w with
  | CNil, CNil => true
  | CI _ z, CI _ z' => z =? z'
  | CFl (FIn f), CI _ z' => f_integral f && (f_trunc f =? z')
  | CFl (FIn f), CFl (FIn f') | CFl (FIn f), CFl (F32Of f') | CFl (FIn f), CFl (F64Of f') => f_id f =? f_id f'
  | CFl (FIn f), CTime (TOfFlt id) => f_id f =? id
  | CI _ z, CFl (F32OfInt z') | CI _ z, CFl (F64OfInt z') => z =? z'
  | CStr s, CStr s' => s_id s =? s_id s'
  | CStr s, CI _ z' => match s_int s with Some z => z =? z' | None => false end
  | CStr s, CFl (FIn f') => match s_flt s with Some f => f_id f =? f_id f' | None => false end
  | CStr s, CTime (TParsed t') => match s_time s with Some t => t =? t' | None => false end
  | CI _ z, CStrOfInt z' => z =? z'
  | CI _ z, CTime (TOfSecs z') => z =? z'
  | CBool b, CBool b' => Bool.eqb b b'
  | CSym e, CSym e' => Nat.eqb e e'
  | CTime t, CTime t' => tval_eqb t t'
  | CList l, CList l' =>
      (fix go (a b : list cv) : bool :=
         match a, b with
         | [], [] => true
         | x :: r, y :: r' => denotes x y && go r r'
         | _, _ => false
         end) l l'
  | CMap kvs, CMap kvs' =>
      (* every supplied non-nil entry is kept with the same meaning (the other entries of kvs' are defaults) *)
      (fix go (a : list (nat * cv)) : bool :=
         match a with
         | [] => true
         | kv :: r =>
             (if is_cnil (snd kv) then true
              else match lookupc (fst kv) kvs' with Some y => denotes (snd kv) y | None => false end) && go r
         end) kvs
  | _, _ => false
  end.

(* ... and every input object the client wrote, at every depth, holds only keys its input type
   declares (a request with an undeclared key - whatever it holds, null included - cannot be coerced:
   accepting it would silently drop what the client wrote) *)
Definition decl_loop (rec : cty -> cv -> bool) (kvs : list (nat * cv)) :=
  fix go (fs : list (nat * (cty * option cv))) : bool :=
    match fs with
    | [] => true
    | f :: r => (match lookupc (fst f) kvs with Some x => rec (fst (snd f)) x | None => true end) && go r
    end.

Fixpoint only_declared (t : cty) (v : cv) {struct t} : bool :=
  match t with
  | TScalar _ | TEnum _ => true
  | TNonNullOf b => only_declared b v
  | TListOf b => match v with CList l => forallb (only_declared b) l | _ => true end
  | TInput fields =>
      match v with
      | CMap kvs => forallb (fun kv => declared fields (fst kv)) kvs && decl_loop only_declared kvs fields
      | _ => true
      end
  end.

(* C05: the JSON shape of a leaf of declared type t *)
Definition has_shape (t : cty) (r : cv) : bool :=
  match t, r with
  | _, CNil => true
  | TScalar SInt, CI KInt32 z => in32 z
  | TScalar SInt64, CI KInt64 _ => true
  | TScalar SFloat, CFl (FIn f) => f_w32 f && f_finite f
  | TScalar SFloat, CFl (F32Of f) => f_finite f && f_fits32 f
  | TScalar SFloat, CFl (F32OfInt _) => true
  | TScalar SFloat64, CFl (FIn f) => f_finite f
  | TScalar SFloat64, CFl (F64Of f) => f_finite f
  | TScalar SFloat64, CFl (F64OfInt _) => true
  | TScalar SString, CStr _ | TScalar SString, CStrOfInt _ | TScalar SString, CStrOfBool _ | TScalar SString, CStrOfFlt _ => true
  | TScalar SCustom, CStr _ | TScalar SCustom, CStrOfInt _ | TScalar SCustom, CStrOfBool _ | TScalar SCustom, CStrOfFlt _ => true
  | TScalar SID, CStr _ | TScalar SID, CStrOfInt _ => true
  | TScalar SBoolean, CBool _ => true
  | TScalar STime, CTimeText t => tval_rfc t
  | TEnum vals, CSymName e => existsb (Nat.eqb e) vals
  | _, _ => false
  end.

(* C05, second half: the leaf delivered is the resolver's value, not another number *)
Definition out_faithful (v r : cv) : bool :=
  match v, r with
  | CI _ z, CI _ z' | CI _ z, CStrOfInt z' | CI _ z, CFl (F32OfInt z') | CI _ z, CFl (F64OfInt z') => z =? z'
  | CFl (FIn f), CI _ z' => f_trunc f =? z'          (* Int / Int64 truncate floats (pinned by the tests) *)
  | CStr s, CI _ z' => match s_int s with Some z => z =? z' | None => false end
  | CFl (FIn f), CFl (FIn f') | CFl (FIn f), CFl (F32Of f') | CFl (FIn f), CFl (F64Of f') => f_id f =? f_id f'
  | CFl (FIn f), CStrOfFlt f' => f_id f =? f_id f'
  | CStr s, CStr s' => s_id s =? s_id s'
  | CBool b, CBool b' | CBool b, CStrOfBool b' => Bool.eqb b b'
  | _, _ => true
  end.
