(* Schema_perm.v — the rule catalogue and the flat reading do not depend on the order of the
   definitions, on how they are cut into documents, or on whether members are written inline or in
   extend blocks (C16). *)
From Coq Require Import List Arith ZArith Bool Lia Permutation.
Import ListNotations.
From GG Require Import Schema.

(* ---- generic facts ---- *)
Lemma existsb_perm {A} (f : A -> bool) l l' : Permutation l l' -> existsb f l = existsb f l'.
Proof.
  induction 1 as [|x l l' _ IH|x y l|l l' l'' _ IH1 _ IH2]; simpl; auto.
  - now rewrite IH.
  - destruct (f x), (f y); reflexivity.
  - congruence.
Qed.

Lemma filter_perm {A} (f : A -> bool) l l' : Permutation l l' -> Permutation (filter f l) (filter f l').
Proof.
  induction 1 as [|x l l' _ IH|x y l|l l' l'' _ IH1 _ IH2]; simpl; auto.
  - destruct (f x); auto.
  - destruct (f x), (f y); auto. apply perm_swap.
  - eapply perm_trans; eauto.
Qed.

Lemma flat_map_perm {A B} (f : A -> list B) l l' : Permutation l l' -> Permutation (flat_map f l) (flat_map f l').
Proof. apply Permutation_flat_map. Qed.

Lemma nodup_perm {A} (dec : forall x y : A, {x = y} + {x <> y}) l l' :
  Permutation l l' -> Permutation (nodup dec l) (nodup dec l').
Proof.
  intros H. apply NoDup_Permutation; try apply NoDup_nodup.
  intros x. rewrite !nodup_In. split; intros Hx; [eapply Permutation_in; eauto|eapply Permutation_in; [apply Permutation_sym|]; eauto].
Qed.

Lemma count_perm {A} (p : A -> bool) l l' : Permutation l l' -> count p l = count p l'.
Proof. intros H. unfold count. apply Permutation_length. now apply filter_perm. Qed.

(* ---- error lists up to order and up to the names they cite ---- *)
Definition R (a b : list verr) : Prop := Permutation (map fst a) (map fst b).

Lemma R_refl a : R a a. Proof. apply Permutation_refl. Qed.
Lemma R_trans a b c : R a b -> R b c -> R a c. Proof. unfold R. apply perm_trans. Qed.
Lemma R_app a a' b b' : R a a' -> R b b' -> R (a ++ b) (a' ++ b').
Proof. unfold R. intros. rewrite !map_app. now apply Permutation_app. Qed.
Lemma R_nil_l b : R [] b -> b = [].
Proof. unfold R. simpl. intros H. apply Permutation_nil in H. now destruct b. Qed.
Lemma R_nil_iff a b : R a b -> (a = [] <-> b = []).
Proof.
  intros H. split; intros ->.
  - exact (R_nil_l _ H).
  - unfold R in H. simpl in H. apply Permutation_sym, Permutation_nil in H. now destruct a.
Qed.
Lemma R_on_err b b' e e' : b = b' -> fst e = fst e' -> R (on_err b e) (on_err b' e').
Proof. intros -> H. unfold R, on_err. destruct b'; simpl; [rewrite H|]; apply Permutation_refl. Qed.

Lemma R_flat_map {A} (f g : A -> list verr) l l' :
  Permutation l l' -> (forall x, R (f x) (g x)) -> R (flat_map f l) (flat_map g l').
Proof.
  intros Hp Hf. apply R_trans with (flat_map g l).
  - clear Hp. induction l as [|x l IH]; simpl; [apply R_refl|]. apply R_app; auto.
  - unfold R. rewrite !flat_map_concat_map, !concat_map, !map_map.
    rewrite <- !flat_map_concat_map. now apply flat_map_perm.
Qed.

Lemma R_flat_map_same {A} (f g : A -> list verr) l : (forall x, R (f x) (g x)) -> R (flat_map f l) (flat_map g l).
Proof. intros. apply R_flat_map; auto. Qed.

(* ---- equivalence of flat readings ---- *)
Record fequiv (a b : flat) : Prop := {
  fe_bases : Permutation (fl_bases a) (fl_bases b);
  fe_dirs : Permutation (fl_dirs a) (fl_dirs b);
  fe_ifaces : Permutation (fl_ifaces a) (fl_ifaces b);
  fe_fields : Permutation (fl_fields a) (fl_fields b);
  fe_members : Permutation (fl_members a) (fl_members b);
  fe_vals : Permutation (fl_vals a) (fl_vals b);
  fe_inputs : Permutation (fl_inputs a) (fl_inputs b);
  fe_locs : Permutation (fl_locs a) (fl_locs b) }.

Section Equiv.
Variables a b : flat.
Hypothesis E : fequiv a b.

Lemma has_kind_eq k n : has_kind a k n = has_kind b k n.
Proof. unfold has_kind. apply existsb_perm, E. Qed.
Lemma type_defined_eq n : type_defined a n = type_defined b n.
Proof. unfold type_defined. apply existsb_perm, E. Qed.
Lemma dir_defined_eq n : dir_defined a n = dir_defined b n.
Proof. apply has_kind_eq. Qed.
Lemma is_input_named_eq n : is_input_named a n = is_input_named b n.
Proof. unfold is_input_named. now rewrite !has_kind_eq. Qed.
Lemma is_output_named_eq n : is_output_named a n = is_output_named b n.
Proof. unfold is_output_named. now rewrite !has_kind_eq. Qed.
Lemma enum_has_eq e v : enum_has a e v = enum_has b e v.
Proof. unfold enum_has. apply existsb_perm, E. Qed.
Lemma judged_named_eq n : judged_named a n = judged_named b n.
Proof. unfold judged_named. now rewrite has_kind_eq. Qed.

Lemma coercible_named_eq n v : coercible_named a n v = coercible_named b n v.
Proof.
  unfold coercible_named. rewrite has_kind_eq.
  destruct v; try reflexivity; repeat (match goal with |- context [if ?c then _ else _] => destruct c end; try reflexivity);
    apply enum_has_eq.
Qed.

(* values are trees: induction with the list case handled by a nested fix *)
Lemma coercible_eq : forall t v, coercible a t v = coercible b t v.
Proof.
  induction t as [n|t IH|t IH]; intros v; simpl.
  - apply coercible_named_eq.
  - destruct v; try reflexivity. induction l as [|x l IHl]; simpl; [reflexivity|]. now rewrite IH, IHl.
  - destruct v; try reflexivity; apply IH.
Qed.

Lemma iface_member_of_eq o i : iface_member_of a o i = iface_member_of b o i.
Proof. unfold iface_member_of. apply existsb_perm, E. Qed.
Lemma is_union_member_eq u m : is_union_member a u m = is_union_member b u m.
Proof. unfold is_union_member. apply existsb_perm, E. Qed.

Lemma sub_type_eq : forall t s, sub_type a t s = sub_type b t s.
Proof.
  induction t as [n|t IH|t IH]; intros s; simpl.
  - destruct (strip_nn s); try reflexivity. now rewrite !has_kind_eq, is_union_member_eq, iface_member_of_eq.
  - destruct (strip_nn s); try reflexivity. apply IH.
  - destruct s; try reflexivity. apply IH.
Qed.

Lemma dir_args_perm d : Permutation (dir_args a d) (dir_args b d).
Proof. unfold dir_args. apply Permutation_map, filter_perm, E. Qed.
Lemma fields_of_perm k : Permutation (fields_of a k) (fields_of b k).
Proof. unfold fields_of. apply Permutation_map, filter_perm, E. Qed.
Lemma dir_uses_perm d : Permutation (dir_uses a d) (dir_uses b d).
Proof. unfold dir_uses. apply flat_map_perm, dir_args_perm. Qed.

Lemma flat_map_dir_uses_perm l l' : Permutation l l' -> Permutation (flat_map (dir_uses a) l) (flat_map (dir_uses b) l').
Proof.
  intros H. apply perm_trans with (flat_map (dir_uses a) l'); [now apply flat_map_perm|].
  clear H. induction l' as [|x l' IH]; simpl; [constructor|]. apply Permutation_app; [apply dir_uses_perm|exact IH].
Qed.

Lemma dir_reach_eq : forall fuel from from' target,
  Permutation from from' -> dir_reach a fuel from target = dir_reach b fuel from' target.
Proof.
  induction fuel as [|f IH]; intros from from' target H; simpl; [reflexivity|].
  rewrite (existsb_perm _ _ _ H). f_equal. apply IH. apply nodup_perm. now apply flat_map_dir_uses_perm.
Qed.

Lemma dir_cyclic_eq d : dir_cyclic a d = dir_cyclic b d.
Proof.
  unfold dir_cyclic. rewrite (Permutation_length (fe_bases a b E)). apply dir_reach_eq, dir_uses_perm.
Qed.

Lemma count_key_eq {A} (sel : flat -> list (key * A)) k :
  Permutation (sel a) (sel b) -> count_key k (sel a) = count_key k (sel b).
Proof. intros H. unfold count_key. now apply count_perm. Qed.

Lemma names_unique_eq {A} (sel : flat -> list (key * A)) k (nm : A -> nat) :
  Permutation (sel a) (sel b) -> names_unique k nm (sel a) = names_unique k nm (sel b).
Proof.
  intros H. unfold names_unique.
  assert (Hp : Permutation (map (fun kx => nm (snd kx)) (filter (fun kx => key_eqb (fst kx) k) (sel a)))
                           (map (fun kx => nm (snd kx)) (filter (fun kx => key_eqb (fst kx) k) (sel b))))
    by now apply Permutation_map, filter_perm.
  rewrite (Permutation_length Hp), (Permutation_length (nodup_perm Nat.eq_dec _ _ Hp)). reflexivity.
Qed.

(* ---- the checks ---- *)
Lemma check_tref_R owner owner' t : R (check_tref a owner t) (check_tref b owner' t).
Proof. unfold check_tref. apply R_app; apply R_on_err; try reflexivity. now rewrite type_defined_eq. Qed.

Lemma check_duse_R owner owner' loc du :
  existsb (fun c => Nat.eqb (fst c) 1) owner = existsb (fun c => Nat.eqb (fst c) 1) owner' ->
  R (check_duse a owner loc du) (check_duse b owner' loc du).
Proof.
  intros Ho. unfold check_duse. rewrite Ho, dir_defined_eq.
  destruct (negb (dir_defined b (du_name du))); [unfold R; simpl; apply Permutation_refl|].
  repeat apply R_app.
  - apply R_on_err; [|reflexivity]. f_equal. apply existsb_perm, E.
  - apply R_flat_map_same. intros av. apply R_app.
    + apply R_on_err; [|reflexivity].
      pose proof (filter_perm (fun x => Nat.eqb (ad_name x) (fst av)) _ _ (dir_args_perm (du_name du))) as Hp.
      destruct (filter _ (dir_args a _)) as [|x l] eqn:E1; destruct (filter _ (dir_args b _)) as [|y l'] eqn:E2; try reflexivity.
      * apply Permutation_nil in Hp. discriminate.
      * apply Permutation_sym, Permutation_nil in Hp. discriminate.
    + apply R_flat_map; [apply filter_perm, dir_args_perm|]. intros x. apply R_on_err; [|reflexivity].
      now rewrite judged_named_eq, coercible_eq.
  - apply R_flat_map; [apply dir_args_perm|]. intros x. apply R_on_err; reflexivity.
  - apply R_on_err; reflexivity.
Qed.

Lemma check_duses_R owner owner' loc l :
  existsb (fun c => Nat.eqb (fst c) 1) owner = existsb (fun c => Nat.eqb (fst c) 1) owner' ->
  R (check_duses a owner loc l) (check_duses b owner' loc l).
Proof.
  intros Ho. unfold check_duses. apply R_app.
  - apply R_flat_map_same. intros du. now apply check_duse_R.
  - apply R_on_err; reflexivity.
Qed.

Lemma check_duses_perm_R owner loc l l' :
  Permutation l l' -> R (check_duses a owner loc l) (check_duses b owner loc l').
Proof.
  intros H. unfold check_duses. apply R_app.
  - apply R_flat_map; [exact H|]. intros du. now apply check_duse_R.
  - apply R_on_err; [|reflexivity].
    rewrite (Permutation_length H).
    rewrite (Permutation_length (nodup_perm Nat.eq_dec _ _ (Permutation_map du_name H))). reflexivity.
Qed.

Opaque check_tref check_duses check_duse check_name.
Lemma check_arg_R owner loc x : R (check_arg a owner loc x) (check_arg b owner loc x).
Proof.
  unfold check_arg. repeat apply R_app.
  - apply R_refl.
  - apply check_tref_R.
  - apply R_on_err; [|reflexivity]. now rewrite type_defined_eq, is_input_named_eq.
  - apply check_duses_R. reflexivity.
Qed.

Opaque check_arg.
Lemma check_args_R owner loc l : R (check_args a owner loc l) (check_args b owner loc l).
Proof.
  unfold check_args. apply R_app; [|apply R_refl]. apply R_flat_map_same. intros x. apply check_arg_R.
Qed.

Opaque check_args.
Lemma check_field_R owner f : R (check_field a owner f) (check_field b owner f).
Proof.
  unfold check_field. repeat apply R_app.
  - apply R_refl.
  - apply check_tref_R.
  - apply R_on_err; [|reflexivity]. now rewrite type_defined_eq, is_output_named_eq.
  - apply check_args_R.
  - apply check_duses_R. reflexivity.
Qed.

Opaque check_field.
Lemma check_impl_field_R obj iface fi : R (check_impl_field a obj iface fi) (check_impl_field b obj iface fi).
Proof.
  unfold check_impl_field.
  pose proof (filter_perm (fun fo => Nat.eqb (fd_name fo) (fd_name fi)) _ _ (fields_of_perm (0, obj))) as Hp.
  apply R_app.
  - apply R_on_err; [|reflexivity].
    destruct (filter _ (fields_of a _)) as [|x l]; destruct (filter _ (fields_of b _)) as [|y l']; try reflexivity.
    + apply Permutation_nil in Hp. discriminate.
    + apply Permutation_sym, Permutation_nil in Hp. discriminate.
  - apply R_flat_map; [exact Hp|]. intros fo. repeat apply R_app; try apply R_refl.
    apply R_on_err; [|reflexivity]. now rewrite sub_type_eq.
Qed.

Opaque check_impl_field.
Lemma check_iface_use_R ki : R (check_iface_use a ki) (check_iface_use b ki).
Proof.
  unfold check_iface_use. rewrite type_defined_eq, has_kind_eq.
  destruct (negb (type_defined b (snd ki))); [apply R_refl|].
  destruct (negb (has_kind b KInterface (snd ki))); [apply R_refl|].
  apply R_flat_map; [apply fields_of_perm|]. intros fi. apply check_impl_field_R.
Qed.

Opaque check_iface_use.
Lemma guarded_R {A} (sel : flat -> list (key * A)) k (f g : A -> list verr) :
  Permutation (sel a) (sel b) -> (forall x, R (f x) (g x)) ->
  R (flat_map (fun kx => if key_eqb (fst kx) k then f (snd kx) else []) (sel a))
    (flat_map (fun kx => if key_eqb (fst kx) k then g (snd kx) else []) (sel b)).
Proof.
  intros H Hf. apply R_flat_map; [exact H|]. intros kx. destruct (key_eqb (fst kx) k); [apply Hf|apply R_refl].
Qed.

Lemma check_base_R x : R (check_base a x) (check_base b x).
Proof.
  unfold check_base.
  apply R_app; [apply R_on_err; [|reflexivity]; now rewrite (count_perm _ _ _ (fe_bases a b E))|].
  apply R_app; [apply R_refl|].
  apply R_app; [apply check_duses_perm_R, Permutation_map, filter_perm, E|].
  destruct (b_kind x).
  - apply R_refl.
  - repeat apply R_app.
    + apply R_on_err; [|reflexivity]. now rewrite (count_key_eq fl_fields _ (fe_fields a b E)).
    + apply R_on_err; [|reflexivity]. now rewrite (names_unique_eq fl_fields _ _ (fe_fields a b E)).
    + apply R_on_err; [|reflexivity]. now rewrite (names_unique_eq fl_ifaces _ _ (fe_ifaces a b E)).
    + apply R_flat_map; [apply fields_of_perm|]. intros f. apply check_field_R.
    + apply R_flat_map; [apply filter_perm, E|]. intros ki. apply check_iface_use_R.
  - repeat apply R_app.
    + apply R_on_err; [|reflexivity]. now rewrite (count_key_eq fl_fields _ (fe_fields a b E)).
    + apply R_on_err; [|reflexivity]. now rewrite (names_unique_eq fl_fields _ _ (fe_fields a b E)).
    + apply R_flat_map; [apply fields_of_perm|]. intros f. apply check_field_R.
  - repeat apply R_app.
    + apply R_on_err; [|reflexivity]. now rewrite (count_key_eq fl_members _ (fe_members a b E)).
    + apply R_on_err; [|reflexivity]. now rewrite (names_unique_eq fl_members _ _ (fe_members a b E)).
    + apply R_flat_map; [apply E|]. intros km. destruct (key_eqb (fst km) (bkey x)); [|apply R_refl].
      rewrite type_defined_eq. destruct (negb (type_defined b (snd km))); [apply R_refl|].
      apply R_on_err; [|reflexivity]. now rewrite has_kind_eq.
  - repeat apply R_app.
    + apply R_on_err; [|reflexivity]. now rewrite (count_key_eq fl_vals _ (fe_vals a b E)).
    + apply R_on_err; [|reflexivity]. now rewrite (names_unique_eq fl_vals _ _ (fe_vals a b E)).
    + apply R_flat_map; [apply E|]. intros kv. destruct (key_eqb (fst kv) (bkey x)); [|apply R_refl].
      repeat apply R_app; try apply R_refl. apply check_duses_R. reflexivity.
  - repeat apply R_app.
    + apply R_on_err; [|reflexivity]. now rewrite (count_key_eq fl_inputs _ (fe_inputs a b E)).
    + apply R_on_err; [|reflexivity]. now rewrite (names_unique_eq fl_inputs _ _ (fe_inputs a b E)).
    + apply (guarded_R fl_inputs); [apply E|]. intros y. apply check_arg_R.
  - repeat apply R_app.
    + apply R_on_err; [|reflexivity]. now rewrite (names_unique_eq fl_inputs _ _ (fe_inputs a b E)).
    + apply (guarded_R fl_inputs); [apply E|]. intros y. apply check_arg_R.
    + apply R_flat_map; [apply E|]. intros ka. destruct (key_eqb (fst ka) (bkey x)); [|apply R_refl].
      destruct (a_def (snd ka)); [|apply R_refl]. apply R_on_err; [|reflexivity].
      now rewrite judged_named_eq, coercible_eq.
    + apply R_flat_map; [apply E|]. intros kl. apply R_refl.
    + apply R_on_err; [|reflexivity]. apply dir_cyclic_eq.
  - repeat apply R_app.
    + apply R_on_err; [|reflexivity]. now rewrite (names_unique_eq fl_fields _ _ (fe_fields a b E)).
    + apply R_flat_map; [apply fields_of_perm|]. intros f. repeat apply R_app.
      * apply R_refl.
      * apply check_tref_R.
      * apply R_on_err; [|reflexivity]. now rewrite type_defined_eq, is_output_named_eq.
Qed.

Lemma check_ext_R x : R (check_ext a x) (check_ext b x).
Proof. unfold check_ext. apply R_app; [apply R_refl|]. apply R_on_err; [|reflexivity]. now rewrite has_kind_eq. Qed.

Transparent check_tref check_duses check_duse check_name check_arg check_args check_field check_impl_field check_iface_use.
End Equiv.

(* the catalogue on a flat reading *)
Definition errors_fl (fl : flat) : list verr :=
  flat_map (check_base fl) (fl_bases fl) ++ flat_map (check_ext fl) (fl_exts fl).

Lemma errors_is_errors_fl items : errors items = errors_fl (flatten items).
Proof. reflexivity. Qed.

Theorem errors_fl_equiv a b :
  fequiv a b -> Permutation (fl_exts a) (fl_exts b) -> R (errors_fl a) (errors_fl b).
Proof.
  intros E Hx. unfold errors_fl. apply R_app.
  - apply R_flat_map; [apply E|]. intros x. now apply check_base_R.
  - apply R_flat_map; [exact Hx|]. intros x. now apply check_ext_R.
Qed.

(* ---- arrangements ---- *)
Lemma tagged_perm {A} (sel : item -> list A) items items' :
  Permutation items items' -> Permutation (tagged sel items) (tagged sel items').
Proof. apply flat_map_perm. Qed.

Lemma flatten_perm items items' :
  Permutation items items' ->
  fequiv (flatten items) (flatten items') /\ Permutation (fl_exts (flatten items)) (fl_exts (flatten items')).
Proof.
  intros H. split; [constructor|]; simpl; try (now apply tagged_perm);
    apply Permutation_map; unfold bases, exts; now apply filter_perm.
Qed.

(* order: any permutation of the definitions is judged alike *)
Theorem errors_perm items items' :
  Permutation items items' -> (errors items = [] <-> errors items' = []).
Proof.
  intros H. destruct (flatten_perm _ _ H) as [E Hx]. apply R_nil_iff. rewrite !errors_is_errors_fl.
  now apply errors_fl_equiv.
Qed.

(* documents: cutting a list of definitions into successive documents does not change the list *)
Lemma concat_cut {A} (l1 l2 : list A) : concat [l1; l2] = l1 ++ l2.
Proof. simpl. now rewrite app_nil_r. Qed.

(* extend blocks: a definition written whole, or as a definition plus an extension carrying some of
   its directives, interfaces, fields, members, values and input fields *)
Definition splits (whole base ext : item) : Prop :=
  it_ext whole = false /\ it_ext base = false /\ it_ext ext = true /\
  it_kind base = it_kind whole /\ it_kind ext = it_kind whole /\
  it_name base = it_name whole /\ it_name ext = it_name whole /\
  it_desc base = it_desc whole /\ it_kind whole <> KDirective /\
  it_dirs whole = it_dirs base ++ it_dirs ext /\ it_ifaces whole = it_ifaces base ++ it_ifaces ext /\
  it_fields whole = it_fields base ++ it_fields ext /\ it_members whole = it_members base ++ it_members ext /\
  it_vals whole = it_vals base ++ it_vals ext /\ it_inputs whole = it_inputs base ++ it_inputs ext /\
  it_locs whole = it_locs base ++ it_locs ext.

Lemma tagged_app {A} (sel : item -> list A) l1 l2 : tagged sel (l1 ++ l2) = tagged sel l1 ++ tagged sel l2.
Proof. unfold tagged. apply flat_map_app. Qed.

Lemma tagged_split {A} (sel : item -> list A) whole base ext :
  ikey base = ikey whole -> ikey ext = ikey whole -> sel whole = sel base ++ sel ext ->
  tagged sel [whole] = tagged sel [base; ext].
Proof.
  intros Hb He Hs. unfold tagged. simpl. rewrite !app_nil_r, Hs, map_app, Hb, He. reflexivity.
Qed.

Theorem errors_split l1 l2 whole base ext :
  splits whole base ext ->
  (errors (l1 ++ whole :: l2) = [] <-> errors (l1 ++ base :: ext :: l2) = []).
Proof.
  intros (Hw & Hb & He & Hkb & Hke & Hnb & Hne & Hd & Hnd & H1 & H2 & H3 & H4 & H5 & H6 & H7).
  assert (Kb : ikey base = ikey whole) by (unfold ikey; now rewrite Hkb, Hnb).
  assert (Ke : ikey ext = ikey whole) by (unfold ikey; now rewrite Hke, Hne).
  set (A := l1 ++ whole :: l2). set (B := l1 ++ base :: ext :: l2).
  assert (T : forall {X} (sel : item -> list X), sel whole = sel base ++ sel ext -> tagged sel A = tagged sel B).
  { intros X sel Hs. unfold A, B.
    change (whole :: l2) with ([whole] ++ l2). change (base :: ext :: l2) with ([base; ext] ++ l2).
    rewrite !tagged_app. f_equal. f_equal. now apply tagged_split. }
  assert (Hbases : fl_bases (flatten A) = fl_bases (flatten B)).
  { unfold A, B. simpl. unfold bases. rewrite !filter_app. simpl. rewrite Hw, Hb, He. simpl.
    rewrite !map_app. simpl. f_equal. f_equal. unfold bdef_of. now rewrite Hkb, Hnb, Hd. }
  assert (Hexts : Permutation ((it_kind ext, it_name ext) :: fl_exts (flatten A)) (fl_exts (flatten B))).
  { unfold A, B. simpl. unfold exts. rewrite !filter_app. simpl. rewrite Hw, Hb, He. simpl.
    rewrite !map_app. simpl. apply Permutation_middle. }
  assert (E : fequiv (flatten A) (flatten B)).
  { constructor; simpl.
    - change (Permutation (fl_bases (flatten A)) (fl_bases (flatten B))). rewrite Hbases. apply Permutation_refl.
    - rewrite (T _ it_dirs H1). apply Permutation_refl.
    - rewrite (T _ it_ifaces H2). apply Permutation_refl.
    - rewrite (T _ it_fields H3). apply Permutation_refl.
    - rewrite (T _ it_members H4). apply Permutation_refl.
    - rewrite (T _ it_vals H5). apply Permutation_refl.
    - rewrite (T _ it_inputs H6). apply Permutation_refl.
    - rewrite (T _ it_locs H7). apply Permutation_refl. }
  (* the base part is judged alike; the extension part differs by the new extension, which has its base *)
  rewrite !errors_is_errors_fl. unfold errors_fl.
  assert (Rb : R (flat_map (check_base (flatten A)) (fl_bases (flatten A)))
                 (flat_map (check_base (flatten B)) (fl_bases (flatten B)))).
  { apply R_flat_map; [apply E|]. intros x. now apply check_base_R. }
  assert (Rx : R (check_ext (flatten B) (it_kind ext, it_name ext) ++ flat_map (check_ext (flatten A)) (fl_exts (flatten A)))
                 (flat_map (check_ext (flatten B)) (fl_exts (flatten B)))).
  { change (check_ext (flatten B) (it_kind ext, it_name ext) ++ flat_map (check_ext (flatten A)) (fl_exts (flatten A)))
      with (check_ext (flatten B) (it_kind ext, it_name ext) ++ flat_map (check_ext (flatten A)) (fl_exts (flatten A))).
    apply R_trans with (flat_map (check_ext (flatten B)) ((it_kind ext, it_name ext) :: fl_exts (flatten A))).
    - simpl. apply R_app; [apply R_refl|]. apply R_flat_map_same. intros x. now apply check_ext_R.
    - apply R_flat_map; [exact Hexts|]. intros x. apply R_refl. }
  assert (Hnew : check_ext (flatten B) (it_kind ext, it_name ext) = []).
  { unfold check_ext. simpl. rewrite Hke.
    assert (Hk : kind_eqb (it_kind whole) KDirective = false) by (destruct (it_kind whole); try reflexivity; contradiction).
    rewrite Hk. simpl.
    assert (Hh : has_kind (flatten B) (it_kind whole) (it_name ext) = true).
    { unfold has_kind. apply existsb_exists. exists (bdef_of base). split.
      - simpl. unfold B, bases. apply in_map. apply filter_In. split; [apply in_or_app; right; now left|now rewrite Hb].
      - simpl. rewrite Hkb, Hnb, Hne, Nat.eqb_refl. destruct (it_kind whole); reflexivity. }
    rewrite Hh. reflexivity. }
  rewrite Hnew in Rx. simpl in Rx.
  apply R_nil_iff. now apply R_app.
Qed.

(* ---- what is observed ---- *)
(* every component of the flat reading of a permuted list is a permutation of the original's, the
   filled-in arguments of a directive use are the same up to order, and the operation roots agree *)
Lemma fill_duse_perm a b du : fequiv a b -> Permutation (du_args (fill_duse a du)) (du_args (fill_duse b du)).
Proof.
  intros E. unfold fill_duse. simpl. apply Permutation_app; [apply Permutation_refl|].
  apply flat_map_perm. now apply dir_args_perm.
Qed.

Theorem flatten_components_perm items items' :
  Permutation items items' ->
  let a := flatten items in let b := flatten items' in
  Permutation (fl_bases a) (fl_bases b) /\ Permutation (fl_dirs a) (fl_dirs b) /\
  Permutation (fl_ifaces a) (fl_ifaces b) /\ Permutation (fl_fields a) (fl_fields b) /\
  Permutation (fl_members a) (fl_members b) /\ Permutation (fl_vals a) (fl_vals b) /\
  Permutation (fl_inputs a) (fl_inputs b) /\ Permutation (fl_locs a) (fl_locs b).
Proof. intros H a b. destruct (flatten_perm _ _ H) as [E _]. destruct E. repeat split; assumption. Qed.

Theorem op_roots_perm items items' :
  Permutation items items' -> Permutation (op_roots items) (op_roots items').
Proof.
  intros H. destruct (flatten_perm _ _ H) as [E _]. unfold op_roots.
  rewrite (existsb_perm _ _ _ (fe_bases _ _ E)).
  destruct (existsb _ (fl_bases (flatten items'))).
  - apply Permutation_map. now apply fields_of_perm.
  - simpl. rewrite !(type_defined_eq _ _ E). apply Permutation_refl.
Qed.

(* ---- acceptance does not depend on the arrangement ---- *)
Theorem ok_perm items items' : Permutation items items' -> ok items = ok items'.
Proof.
  intros H. unfold ok.
  assert (Hp : Permutation (core_items ++ items) (core_items ++ items')) by now apply Permutation_app_head.
  pose proof (errors_perm _ _ Hp) as [H1 H2].
  destruct (errors (core_items ++ items)) eqn:E1; destruct (errors (core_items ++ items')) eqn:E2; try reflexivity.
  - specialize (H1 eq_refl). discriminate.
  - specialize (H2 eq_refl). discriminate.
Qed.

Theorem ok_split l1 l2 whole base ext :
  splits whole base ext -> ok (l1 ++ whole :: l2) = ok (l1 ++ base :: ext :: l2).
Proof.
  intros H. unfold ok. rewrite !app_assoc.
  pose proof (errors_split (core_items ++ l1) l2 whole base ext H) as [H1 H2].
  destruct (errors ((core_items ++ l1) ++ whole :: l2)) eqn:E1;
    destruct (errors ((core_items ++ l1) ++ base :: ext :: l2)) eqn:E2; try reflexivity.
  - specialize (H1 eq_refl). discriminate.
  - specialize (H2 eq_refl). discriminate.
Qed.

Lemma drop_core_redecl_app l1 l2 : drop_core_redecl (l1 ++ l2) = drop_core_redecl l1 ++ drop_core_redecl l2.
Proof. unfold drop_core_redecl. apply filter_app. Qed.

(* successive loads: if every load of a partition is accepted, the root holds the concatenation,
   and the concatenation is accepted as one document *)
Fixpoint all_accepted (st : list item) (docs : list (list item)) : bool :=
  match docs with
  | [] => true
  | d :: rest => fst (load st d) && all_accepted (snd (load st d)) rest
  end.

Fixpoint after (st : list item) (docs : list (list item)) : list item :=
  match docs with [] => st | d :: rest => after (snd (load st d)) rest end.

Theorem partition_accepted st docs :
  ok st = true -> all_accepted st docs = true ->
  after st docs = st ++ drop_core_redecl (concat docs) /\ ok (after st docs) = true.
Proof.
  revert st; induction docs as [|d rest IH]; intros st Hs H; simpl in *.
  - now rewrite app_nil_r.
  - apply andb_true_iff in H. destruct H as [H1 H2]. unfold load in *.
    destruct (ok (st ++ drop_core_redecl d)) eqn:E; simpl in *; [|discriminate].
    destruct (IH _ E H2) as [Ha Hb]. split; [|exact Hb].
    rewrite Ha, drop_core_redecl_app. now rewrite app_assoc.
Qed.

Corollary partition_as_one_document docs :
  all_accepted [] docs = true -> load [] (concat docs) = (true, after [] docs).
Proof.
  intros H. destruct (partition_accepted [] docs eq_refl H) as [Ha Hb]. unfold load. simpl in *.
  rewrite <- Ha, Hb. reflexivity.
Qed.
