(* Schema.v — the schema core as a specification: a schema is the SET of definitions a root has
   accepted; loading a document is "candidate = accepted ++ document; accept iff the rule catalogue
   holds of the candidate, else leave the root as it was".  Everything is written over the flat
   relational reading of a definition list (every member tagged with its owner, extends folded in by
   flat_map), so that order, partition and extend-splitting are Permutations of flat lists.
   Names are numbers; the harness renders them (T0020, f0003, __T0007 for 1000+7, ...).  No proofs here. *)
From Coq Require Import List Arith ZArith Bool.
Import ListNotations.

Inductive tref := TN (n : nat) | TL (t : tref) | TNN (t : tref).

Inductive cval :=
| QNull | QInt (z : Z) | QStr (s : nat) | QBool (b : bool) | QSym (s : nat) | QList (l : list cval)
| QObj (kvs : list (nat * cval)).      (* an input object constant: field name, value *)

Record duse := { du_name : nat; du_args : list (nat * cval) }.
Record argd := { ad_name : nat; a_desc : list nat; a_ty : tref; a_def : option cval; a_dirs : list duse }.
Record fieldd := { fd_name : nat; f_desc : list nat; f_ty : tref; fd_args : list argd; f_dirs : list duse }.
Record evd := { ev_name : nat; ev_desc : list nat; ev_dirs : list duse }.

Inductive kind := KScalar | KObject | KInterface | KUnion | KEnum | KInput | KDirective | KSchema.

(* one definition or extension as written; lists that do not apply to the kind are empty *)
Record item := {
  it_ext : bool; it_kind : kind; it_name : nat; it_desc : list nat; it_dirs : list duse;
  it_ifaces : list nat; it_fields : list fieldd; it_members : list nat; it_vals : list evd;
  it_inputs : list argd;      (* input fields of an input object, arguments of a directive *)
  it_locs : list nat }.

Definition kind_eqb (a b : kind) : bool :=
  match a, b with
  | KScalar, KScalar | KObject, KObject | KInterface, KInterface | KUnion, KUnion
  | KEnum, KEnum | KInput, KInput | KDirective, KDirective | KSchema, KSchema => true
  | _, _ => false
  end.

(* name spaces: directives, the schema block, everything else *)
Definition ns_of (k : kind) : nat := match k with KDirective => 1 | KSchema => 2 | _ => 0 end.

(* ---- the flat reading ---- *)
Definition key := (nat * nat)%type.                     (* name space, name *)
Definition ikey (it : item) : key := (ns_of (it_kind it), it_name it).
Definition key_eqb (a b : key) : bool := Nat.eqb (fst a) (fst b) && Nat.eqb (snd a) (snd b).

Definition bases (items : list item) : list item := filter (fun it => negb (it_ext it)) items.
Definition exts (items : list item) : list item := filter it_ext items.

Definition tagged {A} (sel : item -> list A) (items : list item) : list (key * A) :=
  flat_map (fun it => map (fun x => (ikey it, x)) (sel it)) items.

(* a definition as such: kind, name, description; an extension as such: kind, name *)
Record bdef := { b_kind : kind; b_name : nat; b_desc : list nat }.
Definition bdef_of (it : item) : bdef := {| b_kind := it_kind it; b_name := it_name it; b_desc := it_desc it |}.
Definition bkey (b : bdef) : key := (ns_of (b_kind b), b_name b).

Record flat := {
  fl_bases : list bdef;
  fl_exts : list (kind * nat);
  fl_dirs : list (key * duse);
  fl_ifaces : list (key * nat);
  fl_fields : list (key * fieldd);
  fl_members : list (key * nat);
  fl_vals : list (key * evd);
  fl_inputs : list (key * argd);
  fl_locs : list (key * nat) }.

Definition flatten (items : list item) : flat :=
  {| fl_bases := map bdef_of (bases items); fl_exts := map (fun it => (it_kind it, it_name it)) (exts items);
     fl_dirs := tagged it_dirs items; fl_ifaces := tagged it_ifaces items;
     fl_fields := tagged it_fields items; fl_members := tagged it_members items;
     fl_vals := tagged it_vals items; fl_inputs := tagged it_inputs items;
     fl_locs := tagged it_locs items |}.

(* ---- the built-in environment ---- *)
(* type names: 0 Int 1 Float 2 String 3 Boolean 4 ID 5 Time 6 Int64 7 Float64; 10 Query 11 Mutation
   12 Subscription; user types from 20; 1000+n carries the reserved prefix *)
Definition core_scalar (n : nat) : bool := n <? 8.
Definition reserved (n : nat) : bool := 1000 <=? n.
(* directive names: 0 skip 1 include 2 deprecated 3 go; argument names 0 if 1 reason 2 type *)
(* locations as in __DirectiveLocation: 0 QUERY 1 MUTATION 2 SUBSCRIPTION 3 FIELD 4 FRAGMENT_DEFINITION
   5 FRAGMENT_SPREAD 6 INLINE_FRAGMENT 7 SCHEMA 8 SCALAR 9 OBJECT 10 FIELD_DEFINITION
   11 ARGUMENT_DEFINITION 12 INTERFACE 13 UNION 14 ENUM 15 ENUM_VALUE 16 INPUT_OBJECT
   17 INPUT_FIELD_DEFINITION; anything else is not a location *)
Definition is_location (l : nat) : bool := l <? 18.
Definition loc_of_kind (k : kind) : nat :=
  match k with
  | KSchema => 7 | KScalar => 8 | KObject => 9 | KInterface => 12 | KUnion => 13 | KEnum => 14
  | KInput => 16 | KDirective => 99
  end.

Definition mk_item k n dirs inputs locs : item :=
  {| it_ext := false; it_kind := k; it_name := n; it_desc := []; it_dirs := dirs; it_ifaces := [];
     it_fields := []; it_members := []; it_vals := []; it_inputs := inputs; it_locs := locs |}.
Definition mk_arg n ty def : argd := {| ad_name := n; a_desc := []; a_ty := ty; a_def := def; a_dirs := [] |}.

(* the default of @deprecated(reason:) is a string the harness renders as it is declared in root.go *)
Definition core_items : list item :=
  map (fun n => mk_item KScalar n [] [] []) [0; 1; 2; 3; 4; 5; 6; 7] ++
  [ mk_item KDirective 0 [] [mk_arg 0 (TNN (TN 3)) None] [3; 5; 6];
    mk_item KDirective 1 [] [mk_arg 0 (TNN (TN 3)) None] [3; 5; 6];
    mk_item KDirective 2 [] [mk_arg 1 (TN 2) (Some (QStr 0))] [10; 15];
    mk_item KDirective 3 [] [mk_arg 2 (TNN (TN 2)) None] [7; 0; 1; 2; 9; 10] ].

(* ---- lookups, all by existsb/forallb so that they do not depend on order ---- *)
Definition has_kind (fl : flat) (k : kind) (n : nat) : bool :=
  existsb (fun b => kind_eqb (b_kind b) k && Nat.eqb (b_name b) n) (fl_bases fl).
Definition type_defined (fl : flat) (n : nat) : bool :=
  existsb (fun b => Nat.eqb (ns_of (b_kind b)) 0 && Nat.eqb (b_name b) n) (fl_bases fl).
Definition dir_defined (fl : flat) (n : nat) : bool := has_kind fl KDirective n.

Fixpoint tbase (t : tref) : nat := match t with TN n => n | TL t | TNN t => tbase t end.
Fixpoint twf (t : tref) : bool :=            (* no non-null directly inside a non-null *)
  match t with
  | TN _ => true
  | TL t => twf t
  | TNN t => match t with TNN _ => false | _ => twf t end
  end.

Definition is_input_named (fl : flat) (n : nat) : bool :=
  has_kind fl KScalar n || has_kind fl KEnum n || has_kind fl KInput n.
Definition is_output_named (fl : flat) (n : nat) : bool :=
  has_kind fl KScalar n || has_kind fl KEnum n || has_kind fl KObject n || has_kind fl KInterface n ||
  has_kind fl KUnion n.

Fixpoint tref_eqb (a b : tref) : bool :=
  match a, b with
  | TN x, TN y => Nat.eqb x y
  | TL x, TL y | TNN x, TNN y => tref_eqb x y
  | _, _ => false
  end.

(* count, for uniqueness *)
Definition count {A} (p : A -> bool) (l : list A) : nat := length (filter p l).

(* ---- coercibility of a constant to a declared input type ---- *)
Definition in_int32 (z : Z) : bool := ((-2147483648 <=? z) && (z <=? 2147483647))%Z.

Definition enum_has (fl : flat) (e v : nat) : bool :=
  existsb (fun kv => key_eqb (fst kv) (0, e) && Nat.eqb (ev_name (snd kv)) v) (fl_vals fl).

Definition coercible_named (fl : flat) (n : nat) (v : cval) : bool :=
  match v with
  | QNull => true
  | QList _ => false
  | QObj _ => false
  | _ =>
      if Nat.eqb n 0 then match v with QInt z => in_int32 z | _ => false end
      else if Nat.eqb n 1 || Nat.eqb n 7 then match v with QInt _ => true | _ => false end
      else if Nat.eqb n 2 then match v with QStr _ => true | _ => false end
      else if Nat.eqb n 3 then match v with QBool _ => true | _ => false end
      else if Nat.eqb n 4 then match v with QStr _ | QInt _ => true | _ => false end
      else if Nat.eqb n 6 then match v with QInt _ => true | _ => false end
      else if has_kind fl KEnum n then match v with QSym s => enum_has fl n s | _ => false end
      else false
  end.

Fixpoint coercible (fl : flat) (t : tref) (v : cval) {struct t} : bool :=
  match t with
  | TN n => coercible_named fl n v
  | TNN t' => match v with QNull => false | _ => coercible fl t' v end
  | TL t' =>
      match v with
      | QNull => true
      | QList l => forallb (coercible fl t') l
      | _ => false
      end
  end.

(* the types whose constants this model judges; the generator keeps directive arguments to these *)
Definition judged_named (fl : flat) (n : nat) : bool :=
  (n <? 5) || Nat.eqb n 6 || Nat.eqb n 7 || has_kind fl KEnum n.

(* ---- errors: a rule number and the names (name space letter, number) an error message may cite ----
   name spaces for citing: 0 type, 1 directive, 3 field, 4 argument, 5 enum value, 6 location *)
Definition cite := (nat * nat)%type.
Definition verr := (nat * list cite)%type.

Definition on_err (b : bool) (e : verr) : list verr := if b then [e] else [].

(* R1 undefined references *)
Definition check_tref (fl : flat) (owner : list cite) (t : tref) : list verr :=
  on_err (negb (type_defined fl (tbase t))) (1, (0, tbase t) :: owner) ++
  on_err (negb (twf t)) (12, (0, tbase t) :: owner).

(* a directive use at a location: defined, allowed there, arguments declared and coercible, required
   arguments present *)
Definition dir_args (fl : flat) (d : nat) : list argd :=
  map snd (filter (fun ka => key_eqb (fst ka) (1, d)) (fl_inputs fl)).

Definition check_duse (fl : flat) (owner : list cite) (loc : nat) (du : duse) : list verr :=
  let d := du_name du in
  (* uses on field definitions, on their arguments and on input fields get their own rule numbers
     (+20): the code leaves exactly these unchecked, and the finding is recorded by these numbers *)
  let off := if Nat.eqb loc 10 || Nat.eqb loc 17 || (Nat.eqb loc 11 && negb (existsb (fun c => Nat.eqb (fst c) 1) owner))
             then 20 else 0 in
  if negb (dir_defined fl d) then [(1, (1, d) :: owner)]
  else
    on_err (negb (existsb (fun kl => key_eqb (fst kl) (1, d) && Nat.eqb (snd kl) loc) (fl_locs fl)))
         (off + 8, (1, d) :: (6, loc) :: owner) ++
    flat_map (fun av =>
      let decl := filter (fun a => Nat.eqb (ad_name a) (fst av)) (dir_args fl d) in
      on_err (match decl with [] => true | _ => false end) (off + 9, (4, fst av) :: (1, d) :: owner) ++
      flat_map (fun a => on_err (judged_named fl (tbase (a_ty a)) && negb (coercible fl (a_ty a) (snd av)))
                                (off + 10, (4, fst av) :: (1, d) :: owner)) decl) (du_args du) ++
    flat_map (fun a =>
      on_err (negb (existsb (fun av => Nat.eqb (fst av) (ad_name a)) (du_args du)) &&
            match a_ty a with TNN _ => match a_def a with None => true | Some QNull => true | _ => false end
                            | _ => false end)
           (off + 16, (4, ad_name a) :: (1, d) :: owner)) (dir_args fl d) ++
    on_err (negb (Nat.eqb (count (fun av => true) (du_args du))
                        (length (nodup Nat.eq_dec (map fst (du_args du))))))
         (2, (1, d) :: owner).

Definition check_duses fl owner loc (l : list duse) : list verr :=
  flat_map (check_duse fl owner loc) l ++
  on_err (negb (Nat.eqb (length l) (length (nodup Nat.eq_dec (map du_name l))))) (2, owner).

Definition check_name (ns : nat) (n : nat) (owner : list cite) : list verr :=
  on_err (reserved n) (3, (ns, n) :: owner).

Definition check_arg (fl : flat) (owner : list cite) (loc : nat) (a : argd) : list verr :=
  let me := (4, ad_name a) :: owner in
  check_name 4 (ad_name a) owner ++
  check_tref fl me (a_ty a) ++
  on_err (type_defined fl (tbase (a_ty a)) && negb (is_input_named fl (tbase (a_ty a)))) (4, me) ++
  check_duses fl me loc (a_dirs a).

Definition check_args (fl : flat) (owner : list cite) (loc : nat) (l : list argd) : list verr :=
  flat_map (check_arg fl owner loc) l ++
  on_err (negb (Nat.eqb (length l) (length (nodup Nat.eq_dec (map ad_name l))))) (2, owner ++ map (fun a => (4, ad_name a)) l).

Definition check_field (fl : flat) (owner : list cite) (f : fieldd) : list verr :=
  let me := (3, fd_name f) :: owner in
  check_name 3 (fd_name f) owner ++
  check_tref fl me (f_ty f) ++
  on_err (type_defined fl (tbase (f_ty f)) && negb (is_output_named fl (tbase (f_ty f)))) (4, me) ++
  check_args fl me 11 (fd_args f) ++
  check_duses fl me 10 (f_dirs f).

(* interface conformance *)
Definition iface_member_of (fl : flat) (obj iface : nat) : bool :=
  existsb (fun ki => key_eqb (fst ki) (0, obj) && Nat.eqb (snd ki) iface) (fl_ifaces fl).
Definition is_union_member (fl : flat) (u m : nat) : bool :=
  existsb (fun km => key_eqb (fst km) (0, u) && Nat.eqb (snd km) m) (fl_members fl).

(* covariance as in the GraphQL rule for implementing fields: a non-null sub-type may stand where
   the interface says nullable; lists are covariant; a member of a union / an implementer of an
   interface may stand for it *)
Definition strip_nn (t : tref) : tref := match t with TNN s => s | _ => t end.

Fixpoint sub_type (fl : flat) (target sub : tref) {struct target} : bool :=
  match target with
  | TNN t => match sub with TNN s => sub_type fl t s | _ => false end
  | TL t => match strip_nn sub with TL s => sub_type fl t s | _ => false end
  | TN t =>
      match strip_nn sub with
      | TN s =>
          Nat.eqb t s ||
          (has_kind fl KUnion t && is_union_member fl t s) ||
          (has_kind fl KInterface t && has_kind fl KObject s && iface_member_of fl s t)
      | _ => false
      end
  end.

Definition fields_of (fl : flat) (owner : key) : list fieldd :=
  map snd (filter (fun kf => key_eqb (fst kf) owner) (fl_fields fl)).

Definition check_impl_field (fl : flat) (obj iface : nat) (fi : fieldd) : list verr :=
  let cites := [(0, obj); (0, iface); (3, fd_name fi)] in
  let mine := filter (fun fo => Nat.eqb (fd_name fo) (fd_name fi)) (fields_of fl (0, obj)) in
  on_err (match mine with [] => true | _ => false end) (5, cites) ++
  flat_map (fun fo =>
      on_err (negb (sub_type fl (f_ty fi) (f_ty fo))) (5, cites) ++
      flat_map (fun ai =>
        on_err (negb (existsb (fun ao => Nat.eqb (ad_name ao) (ad_name ai)) (fd_args fo))) (5, (4, ad_name ai) :: cites))
        (fd_args fi) ++
      flat_map (fun ao =>
        match filter (fun ai => Nat.eqb (ad_name ai) (ad_name ao)) (fd_args fi) with
        | [] => on_err (match a_ty ao with TNN _ => true | _ => false end) (5, (4, ad_name ao) :: cites)
        | ai :: _ => on_err (negb (tref_eqb (a_ty ai) (a_ty ao))) (5, (4, ad_name ao) :: cites)
        end) (fd_args fo)) mine.

Definition check_iface_use (fl : flat) (ki : key * nat) : list verr :=
  let obj := snd (fst ki) in
  let i := snd ki in
  if negb (type_defined fl i) then [(1, [(0, i); (0, obj)])]
  else if negb (has_kind fl KInterface i) then [(5, [(0, i); (0, obj)])]
  else flat_map (check_impl_field fl obj i) (fields_of fl (0, i)).

(* directive definition cycles: d uses e on one of its arguments; a cycle is a directive reaching
   itself.  Reachability is computed with fuel = number of directives. *)
Definition dir_uses (fl : flat) (d : nat) : list nat :=
  flat_map (fun a => map du_name (a_dirs a)) (dir_args fl d).

Fixpoint dir_reach (fl : flat) (fuel : nat) (from : list nat) (target : nat) : bool :=
  match fuel with
  | 0 => false
  | S f =>
      existsb (fun d => Nat.eqb d target) from ||
      dir_reach fl f (nodup Nat.eq_dec (flat_map (dir_uses fl) from)) target
  end.

Definition dir_cyclic (fl : flat) (d : nat) : bool :=
  dir_reach fl (S (length (fl_bases fl))) (dir_uses fl d) d.

(* per definition *)
Definition count_key {A} (k : key) (l : list (key * A)) : nat := count (fun kx => key_eqb (fst kx) k) l.

Definition names_unique {A} (k : key) (nm : A -> nat) (l : list (key * A)) : bool :=
  let mine := map (fun kx => nm (snd kx)) (filter (fun kx => key_eqb (fst kx) k) l) in
  Nat.eqb (length mine) (length (nodup Nat.eq_dec mine)).

(* the names an error about a repeated member may cite: the owner and the members, in name space ns *)
Definition member_cites {A} (ns : nat) (k : key) (nm : A -> nat) (l : list (key * A)) (me : list cite) : list cite :=
  me ++ map (fun kx => (ns, nm (snd kx))) (filter (fun kx => key_eqb (fst kx) k) l).

Definition check_base (fl : flat) (it : bdef) : list verr :=
  let k := bkey it in
  let me := [(fst k, b_name it)] in
  let n := b_name it in
  (* R2 one definition per name (a re-declared built-in scalar is ignored) *)
  on_err (negb (Nat.eqb (count (fun o => key_eqb (bkey o) k) (fl_bases fl)) 1)) (2, me) ++
  (* R3 names *)
  on_err (negb (kind_eqb (b_kind it) KSchema) && reserved n) (3, me) ++
  (* directive uses on the definition, merged over its extends *)
  check_duses fl me (loc_of_kind (b_kind it)) (map snd (filter (fun kd => key_eqb (fst kd) k) (fl_dirs fl))) ++
  match b_kind it with
  | KScalar => []
  | KObject =>
      on_err (Nat.eqb (count_key k (fl_fields fl)) 0) (7, me) ++
      on_err (negb (names_unique k fd_name (fl_fields fl))) (2, member_cites 3 k fd_name (fl_fields fl) me) ++
      on_err (negb (names_unique k (fun x => x) (fl_ifaces fl))) (2, member_cites 0 k (fun x => x) (fl_ifaces fl) me) ++
      flat_map (check_field fl me) (fields_of fl k) ++
      flat_map (check_iface_use fl) (filter (fun ki => key_eqb (fst ki) k) (fl_ifaces fl))
  | KInterface =>
      on_err (Nat.eqb (count_key k (fl_fields fl)) 0) (7, me) ++
      on_err (negb (names_unique k fd_name (fl_fields fl))) (2, member_cites 3 k fd_name (fl_fields fl) me) ++
      flat_map (check_field fl me) (fields_of fl k)
  | KUnion =>
      on_err (Nat.eqb (count_key k (fl_members fl)) 0) (6, me) ++
      on_err (negb (names_unique k (fun x => x) (fl_members fl))) (2, member_cites 0 k (fun x => x) (fl_members fl) me) ++
      flat_map (fun km =>
        if key_eqb (fst km) k then
          if negb (type_defined fl (snd km)) then [(1, (0, snd km) :: me)]
          else on_err (negb (has_kind fl KObject (snd km))) (6, (0, snd km) :: me)
        else []) (fl_members fl)
  | KEnum =>
      on_err (Nat.eqb (count_key k (fl_vals fl)) 0) (7, me) ++
      on_err (negb (names_unique k ev_name (fl_vals fl))) (2, member_cites 5 k ev_name (fl_vals fl) me) ++
      flat_map (fun kv =>
        if key_eqb (fst kv) k then
          let v := snd kv in
          let vme := (5, ev_name v) :: me in
          (* enum values 1 2 3 are rendered true false null *)
          on_err ((1 <=? ev_name v) && (ev_name v <=? 3)) (11, vme) ++
          check_name 5 (ev_name v) me ++
          check_duses fl vme 15 (ev_dirs v)
        else []) (fl_vals fl)
  | KInput =>
      on_err (Nat.eqb (count_key k (fl_inputs fl)) 0) (7, me) ++
      on_err (negb (names_unique k ad_name (fl_inputs fl))) (2, member_cites 4 k ad_name (fl_inputs fl) me) ++
      flat_map (fun ka => if key_eqb (fst ka) k then check_arg fl me 17 (snd ka) else []) (fl_inputs fl)
  | KDirective =>
      on_err (negb (names_unique k ad_name (fl_inputs fl))) (2, member_cites 4 k ad_name (fl_inputs fl) me) ++
      flat_map (fun ka => if key_eqb (fst ka) k then check_arg fl me 11 (snd ka) else []) (fl_inputs fl) ++
      flat_map (fun ka =>
        if key_eqb (fst ka) k then
          match a_def (snd ka) with
          | Some v => on_err (judged_named fl (tbase (a_ty (snd ka))) && negb (coercible fl (a_ty (snd ka)) v))
                           (10, (4, ad_name (snd ka)) :: me)
          | None => []
          end
        else []) (fl_inputs fl) ++
      flat_map (fun kl => if key_eqb (fst kl) k then on_err (negb (is_location (snd kl))) (8, (6, snd kl) :: me) else [])
               (fl_locs fl) ++
      on_err (dir_cyclic fl n) (13, me)
  | KSchema =>
      (* operation kinds 1 2 3 = query mutation subscription *)
      on_err (negb (names_unique k fd_name (fl_fields fl))) (2, member_cites 3 k fd_name (fl_fields fl) me) ++
      flat_map (fun f =>
        on_err (negb ((1 <=? fd_name f) && (fd_name f <=? 3))) (14, [(3, fd_name f)]) ++
        check_tref fl [(3, fd_name f)] (f_ty f) ++
        on_err (type_defined fl (tbase (f_ty f)) && negb (is_output_named fl (tbase (f_ty f)))) (4, [(3, fd_name f)]))
        (fields_of fl k)
  end.

(* an extension needs a definition of the same kind, and directives cannot be extended *)
Definition check_ext (fl : flat) (x : kind * nat) : list verr :=
  let me := [(ns_of (fst x), snd x)] in
  on_err (kind_eqb (fst x) KDirective) (15, me) ++
  on_err (negb (has_kind fl (fst x) (snd x))) (15, me).

Definition errors (items : list item) : list verr :=
  let fl := flatten items in
  flat_map (check_base fl) (fl_bases fl) ++ flat_map (check_ext fl) (fl_exts fl).

(* re-declarations of the built-in scalars are dropped before anything else looks at the document *)
Definition drop_core_redecl (doc : list item) : list item :=
  filter (fun it => negb (kind_eqb (it_kind it) KScalar && core_scalar (it_name it) && negb (it_ext it))) doc.

Definition ok (accepted : list item) : bool :=
  match errors (core_items ++ accepted) with [] => true | _ => false end.

(* ---- the root as a history machine ---- *)
Definition load (st : list item) (doc : list item) : bool * list item :=
  let cand := st ++ drop_core_redecl doc in
  if ok cand then (true, cand) else (false, st).

Fixpoint loads (st : list item) (docs : list (list item)) : list bool * list item :=
  match docs with
  | [] => ([], st)
  | d :: rest =>
      let (r, st1) := load st d in
      let (rs, st2) := loads st1 rest in
      (r :: rs, st2)
  end.

(* ---- what is observed of an accepted state: the flat reading with directive-argument defaults
   filled in; the driver sorts every component before comparing ---- *)
Definition fill_duse (fl : flat) (du : duse) : duse :=
  {| du_name := du_name du;
     du_args := du_args du ++
       flat_map (fun a =>
         if existsb (fun av => Nat.eqb (fst av) (ad_name a)) (du_args du) then []
         else [(ad_name a, match a_def a with Some v => v | None => QNull end)])
         (dir_args fl (du_name du)) |}.

Definition fill_arg fl (a : argd) : argd :=
  {| ad_name := ad_name a; a_desc := a_desc a; a_ty := a_ty a; a_def := a_def a; a_dirs := map (fill_duse fl) (a_dirs a) |}.
Definition fill_field fl (f : fieldd) : fieldd :=
  {| fd_name := fd_name f; f_desc := f_desc f; f_ty := f_ty f; fd_args := map (fill_arg fl) (fd_args f);
     f_dirs := map (fill_duse fl) (f_dirs f) |}.
Definition fill_ev fl (v : evd) : evd :=
  {| ev_name := ev_name v; ev_desc := ev_desc v; ev_dirs := map (fill_duse fl) (ev_dirs v) |}.

Definition on_snd {A B C} (f : B -> C) (p : A * B) : A * C := (fst p, f (snd p)).

(* the operation root types: the schema block if there is one, else the conventional names (whatever
   kind of type carries the name: the rules ggql enforces do not ask for an object type there) *)
Definition op_roots (st : list item) : list (nat * nat) :=
  let fl := flatten st in
  if existsb (fun b => kind_eqb (b_kind b) KSchema) (fl_bases fl) then
    map (fun f => (fd_name f, tbase (f_ty f))) (fields_of fl (2, 0))
  else
    flat_map (fun p => if type_defined fl (snd p) then [p] else []) [(1, 10); (2, 11); (3, 12)].

Record view := {
  v_defs : list bdef;
  v_dirs : list (key * duse);
  v_ifaces : list (key * nat);
  v_fields : list (key * fieldd);
  v_members : list (key * nat);
  v_vals : list (key * evd);
  v_inputs : list (key * argd);
  v_locs : list (key * nat);
  v_ops : list (nat * nat) }.

Definition observe (st : list item) : view :=
  let fl := flatten (core_items ++ st) in
  let ufl := flatten st in
  {| v_defs := fl_bases ufl;
     v_dirs := map (on_snd (fill_duse fl)) (fl_dirs ufl);
     v_ifaces := fl_ifaces ufl;
     v_fields := map (on_snd (fill_field fl)) (fl_fields ufl);
     v_members := fl_members ufl;
     v_vals := map (on_snd (fill_ev fl)) (fl_vals ufl);
     v_inputs := map (on_snd (fill_arg fl)) (fl_inputs ufl);
     v_locs := fl_locs ufl;
     v_ops := op_roots st |}.

(* the same reading of a list of complete definitions, with nothing filled in: used on what the
   harness reads back from a root *)
Definition view_of_items (items : list item) (ops : list (nat * nat)) : view :=
  let ufl := flatten items in
  {| v_defs := fl_bases ufl;
     v_dirs := fl_dirs ufl; v_ifaces := fl_ifaces ufl; v_fields := fl_fields ufl;
     v_members := fl_members ufl; v_vals := fl_vals ufl; v_inputs := fl_inputs ufl;
     v_locs := fl_locs ufl; v_ops := ops |}.

(* a load whose text breaks off or whose reader fails is refused whatever it contains *)
Definition load_m (st : list item) (d : bool * list item) : bool * list item :=
  if fst d then (false, st) else load st (snd d).

Fixpoint loads_m (st : list item) (docs : list (bool * list item)) : list (bool * list item) :=
  match docs with
  | [] => []
  | d :: rest => let r := load_m st d in r :: loads_m (snd r) rest
  end.

Definition errors_in (st : list item) : list verr := errors (core_items ++ st).
