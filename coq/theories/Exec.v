(* Exec.v — executable model of the request executor of pkg/ggql/resolve.go (+ field.go sortArgs),
   mirroring the Go code function by function, bugs included.  Strategies modelled: objects
   implementing Resolver/ListResolver and plain data behind an installed AnyResolver.
   Names (types, fields, aliases, arguments, variables, enum values) are natural numbers; the
   harness renders name n as "f<n>"/"T<n>"/… .  No proofs in this file. *)
From Coq Require Import List Arith ZArith Bool.
Import ListNotations.

(* ------------------------------------------------------------------ schema *)
Inductive ty := TNamed (n : nat) | TList (t : ty) | TNonNull (t : ty).

Inductive lkind := LInt | LString | LBool | LID | LFloat | LEnum (vals : list nat) | LCustom.

Record adef := mkA { a_name : nat; a_type : ty; a_default : option nat (* unused here *) }.
Record fdef := mkF { f_name : nat; f_type : ty; f_args : list adef }.

Inductive tdef :=
| DLeaf (k : lkind)
| DObject (fields : list fdef) (ifaces : list nat)
| DInterface (fields : list fdef)
| DUnion (members : list nat)
| DInput (fields : list adef).

Definition schema := list (nat * tdef).

Fixpoint lookup {A} (k : nat) (l : list (nat * A)) : option A :=
  match l with
  | [] => None
  | (k', v) :: r => if Nat.eqb k k' then Some v else lookup k r
  end.

Definition find_field (name : nat) (fs : list fdef) : option fdef :=
  find (fun f => Nat.eqb (f_name f) name) fs.
Definition find_arg (name : nat) (asx : list adef) : option adef :=
  find (fun a => Nat.eqb (a_name a) name) asx.

(* root.getFieldDef: only Object (Schema, uuSchema) and Interface have field definitions *)
Definition get_field_def (S : schema) (t : nat) (name : nat) : option fdef :=
  match lookup t S with
  | Some (DObject fs _) => find_field name fs
  | Some (DInterface fs) => find_field name fs
  | _ => None
  end.

(* ------------------------------------------------------------------ request AST *)
Inductive value :=
| VNull | VInt (z : Z) | VStr (s : Z) | VBool (b : bool) | VEnum (e : nat) | VVar (v : nat)
| VList (l : list value) | VObj (kvs : list (nat * value)).

Inductive dname := DSkip | DInclude | DOther (n : nat).
Record dir := mkDir { d_name : dname; d_if : option value }.

Definition arg := (nat * value)%type.

(* id: unique identity of a Field / FragRef node (its pointer); the harness maps it to line:col *)
Inductive sel :=
| SField (id : nat) (alias : option nat) (name : nat) (args : list arg) (dirs : list dir) (sels : list sel)
| SInline (id : nat) (cond : option nat) (dirs : list dir) (sels : list sel)
| SFrag (id : nat) (fname : nat) (dirs : list dir).

(* fr_dirs: directive uses written on the fragment DEFINITION (none of the directives of these
   schemas may stand there) *)
Record fragment := mkFrag { fr_cond : option nat; fr_sels : list sel; fr_dirs : list dir }.

Definition TYPENAME : nat := 0.   (* the field name __typename *)

(* ------------------------------------------------------------------ data behind the resolvers *)
(* Go values a resolver can hand back *)
Inductive gv :=
| GNil                                   (* nil interface / nil pointer *)
| GInt (z : Z)                           (* Go int *)
| GStr (s : Z)                           (* string "s<id>" (never parses as a number or boolean) *)
| GBool (b : bool)
| GSym (e : nat)                         (* ggql.Symbol *)
| GNodeR (n : nat)                       (* object implementing Resolver, data node n *)
| GNodeA (n : nat)                       (* plain data node n served by the AnyResolver *)
| GList (l : list gv)                    (* []interface{} *)
| GLRes (l : list gv)                    (* a ListResolver *)
| GAList (l : list (option gv))          (* a custom list served by AnyResolver.Len/Nth; None = Nth fails *)
| GOther (tag : nat).                    (* any other Go value (e.g. a struct) *)

(* what Resolve(field, args) does for one field of one node *)
Inductive behav :=
| BConst (v : gv)                        (* return v, nil *)
| BFail (nerr : nat) (v : gv)            (* return v and an error; nerr = 0: plain error, k > 0: ggql.Errors of k members *)
| BEcho (a : nat).                       (* return args[a] *)

Record node := mkNode { n_gotype : nat; n_fields : list (nat * behav) }.
Definition graph := list (nat * node).

(* ------------------------------------------------------------------ responses *)
Inductive rv :=
| RNull | RInt (z : Z) | RStr (s : Z) | RStrOfInt (z : Z) | RStrOfBool (b : bool) | RBool (b : bool)
| REnum (e : nat) | RTypeName (t : nat) | RFloatOfInt (z : Z)
| RList (l : list rv) | RObj (kvs : list (nat * rv))
| RLeak (g : gv).                        (* an unconverted Go value stored in the response *)

Inductive pseg := PKey (k : nat) | PIdx (i : nat) | PFragAt (id : nat) | PArg (a : nat).

(* error location: none, the position of a selection node, or some other position (an argument value) *)
Inductive eloc := LNone | LNode (id : nat) | LOther.

(* error kinds, recognised on the Go side by message *)
Inductive ekind :=
| EResolver        (* error returned by a resolver *)
| ENotField        (* "<f> is not a field in <T>" *)
| ENotLeaf         (* "<T> is not a valid output leaf type" *)
| ECoerceOut       (* output coercion failed *)
| ENotList         (* "<T> is not a list type" *)
| EBadArg          (* "<a> is not an argument to <f>" *)
| EMissingArg      (* "<a> is required but missing" *)
| ECoerceIn        (* input coercion failed *)
| EBadEnum         (* "<e> is not a valid enum value in <T>" *)
| ESkipVar         (* "... is not a valid 'if' value for @skip/@include" *)
| ENth             (* AnyResolver.Nth failed *)
| EReflect         (* reflection fallback: "<f> is not a field of <GoType>" *)
| EOpChoice.       (* "could not determine operation to evaluate" *)

Record err := mkErr { e_path : list pseg; e_loc : eloc; e_kind : ekind }.

Definition err_in (p : pseg) (e : err) : err := mkErr (p :: e_path e) (e_loc e) (e_kind e).
Definition errs_in (p : pseg) (ea : list err) : list err := map (err_in p) ea.

(* a resolver invocation, as the harness logs it *)
Record call := mkCall { c_node : nat; c_field : nat; c_args : list (nat * value) }.

(* the request AST is written into while resolving: whenever a Field is visited under another container type ConType is set and
   Field.Args is replaced by the definition-ordered slice (sortArgs under that ConType); later
   visits use the mutated Args *)
Record st := mkSt { s_args : list (nat * nat) (* Field node -> ConType of its latest visit (first match); Field.Args = sortArgs under it *); s_calls : list call }.

Inductive outcome (A : Type) := Done (a : A) | OutOfFuel.
Arguments Done {A} a.
Arguments OutOfFuel {A}.

Definition key_of (alias : option nat) (name : nat) : nat :=
  match alias with Some a => a | None => name end.

(* result[key] = v *)
Fixpoint set_key (k : nat) (v : rv) (m : list (nat * rv)) : list (nat * rv) :=
  match m with
  | [] => [(k, v)]
  | (k', v') :: r => if Nat.eqb k k' then (k, v) :: r else (k', v') :: set_key k v r
  end.

Definition is_nil (g : gv) : bool := match g with GNil => true | _ => false end.

Definition in32b (z : Z) : bool := ((-2147483648 <=? z) && (z <=? 2147483647))%Z.

(* CoerceOut of the built-in scalars / enums / custom scalars on the values of this universe:
   (value stored in the response, error?) *)
Definition coerce_out (k : lkind) (g : gv) : rv * bool :=
  match k, g with
  | _, GNil => (RNull, false)
  | LInt, GInt z => if in32b z then (RInt z, false) else (RNull, true)   (* outside 32 bits: error, no wrapping *)
  | LString, GStr s => (RStr s, false)
  | LString, GInt z => (RStrOfInt z, false)
  | LString, GBool b => (RStrOfBool b, false)
  | LBool, GBool b => (RBool b, false)
  | LID, GStr s => (RStr s, false)
  | LID, GInt z => (RStrOfInt z, false)
  | LFloat, GInt z => (RFloatOfInt z, false)
  | LEnum _, GSym e => (REnum e, false)
  | LEnum _, GStr s => (RStr s, false)                 (* any string passes as an enum value *)
  | LCustom, GStr s => (RStr s, false)                 (* `scalar X` in SDL is a stringScalar *)
  | LCustom, GInt z => (RStrOfInt z, false)
  | LCustom, GBool b => (RStrOfBool b, false)
  | _, _ => (RNull, true)
  end.

(* ------------------------------------------------------------------ arguments *)
Definition is_nonnull (t : ty) : bool := match t with TNonNull _ => true | _ => false end.

Fixpoint all_some {A : Type} (l : list (option A)) : option (list A) :=
  match l with
  | [] => Some []
  | Some x :: r => match all_some r with Some xs => Some (x :: xs) | None => None end
  | None :: _ => None
  end.

(* CoerceIn for the argument types used in this model (scalars, enums, lists and NonNull of them);
   None = coercion error *)
Fixpoint coerce_in (S : schema) (t : ty) (v : value) : option value :=
  match t with
  | TNonNull b => match v with VNull => None | _ => coerce_in S b v end
  | TList b =>               (* List.CoerceIn: nil stays nil, a list is coerced element by element, anything else is an error *)
      match v with
      | VNull => Some VNull
      | VList l => option_map VList (all_some (map (coerce_in S b) l))
      | _ => None
      end
  | TNamed n =>
      match lookup n S, v with
      | _, VNull => Some VNull
      | Some (DLeaf LInt), VInt z => if in32b z then Some (VInt z) else None
      | Some (DLeaf LString), VStr s => Some (VStr s)
      | Some (DLeaf LBool), VBool b => Some (VBool b)
      | Some (DLeaf LID), VStr s => Some (VStr s)
      | Some (DLeaf LCustom), VStr s => Some (VStr s)
      | Some (DLeaf (LEnum vals)), VEnum e => if existsb (Nat.eqb e) vals then Some (VEnum e) else None
      | _, _ => None
      end
  end.

Fixpoint base_type (t : ty) : nat :=
  match t with TNamed n => n | TList b => base_type b | TNonNull b => base_type b end.

(* root.replaceArgVars: variables are replaced by their values (in a copy of the literal) and the
   result is coerced by the declared type where there is one.  A literal of the wrong kind for the
   type (a list for a scalar, an enum value for a list, ...) is handed to the type's CoerceIn, which
   refuses it.  A list literal for a list type ([T] or [T]!) is replaced and coerced element by
   element against T; the list itself is not coerced again.  Input object types are not part of
   this model's schemas (Coerce.v has them): an object literal is refused by every declared type. *)
Definition coerce_or_err (S : schema) (t : ty) (v : value) : value * list err :=
  match coerce_in S t v with
  | Some w => (w, [])
  | None => (VNull, [mkErr [] LNone ECoerceIn])
  end.

Definition list_base (t : ty) : option ty :=
  match t with
  | TList b => Some b
  | TNonNull (TList b) => Some b
  | _ => None
  end.

Definition enum_vals (S : schema) (t : ty) : option (list nat) :=
  let n := match t with TNamed n => Some n | TNonNull (TNamed n) => Some n | _ => None end in
  match n with
  | Some n => match lookup n S with Some (DLeaf (LEnum vals)) => Some vals | _ => None end
  | None => None
  end.

Fixpoint replace_arg_vars (S : schema) (vars : list (nat * value)) (v : value) (at_ : option ty) {struct v} : value * list err :=
  match v with
  | VVar x =>
      let val := match lookup x vars with Some w => w | None => VNull end in
      match at_ with
      | Some t => coerce_or_err S t val
      | None => (val, [])
      end
  | VEnum e =>
      match at_ with
      | Some t =>
          match enum_vals S t with
          | Some vals => if existsb (Nat.eqb e) vals then (v, []) else (v, [mkErr [] LNone EBadEnum])
          | None => coerce_or_err S t v
          end
      | None => (v, [])
      end
  | VList l =>
      match at_ with
      | Some t =>
          match list_base t with
          | Some b => let rs := map (fun x => replace_arg_vars S vars x (Some b)) l in
                      (VList (map fst rs), flat_map snd rs)
          | None => coerce_or_err S t v
          end
      | None => let rs := map (fun x => replace_arg_vars S vars x None) l in
                (VList (map fst rs), flat_map snd rs)
      end
  | VObj _ =>
      match at_ with
      | Some t => coerce_or_err S t v
      | None => (v, [])
      end
  | _ =>
      match at_ with
      | Some t => coerce_or_err S t v
      | None => (v, [])
      end
  end.

(* root.formArgs.  args: Field.Args after sortArgs (nil entries possible).  Missing required
   arguments are reported in Go map order; the model reports them in declaration order and the
   harness compares error lists as multisets. *)
Fixpoint form_args_loop (S : schema) (vars : list (nat * value)) (fd : fdef) (args : list (option arg))
  : list (nat * value) * list nat * list err :=
  match args with
  | [] => ([], [], [])
  | None :: r => form_args_loop S vars fd r
  | Some (a, v) :: r =>
      let '(m, given, ea) := form_args_loop S vars fd r in
      let at_ := match find_arg a (f_args fd) with Some d => Some (a_type d) | None => None end in
      let '(w, ea2) := replace_arg_vars S vars v at_ in
      ((a, w) :: m, (match v with VNull => given | _ => a :: given end), errs_in (PArg a) ea2 ++ ea)
  end.

Definition form_args (S : schema) (vars : list (nat * value)) (fid : nat) (fd : fdef) (args : list (option arg))
  : list (nat * value) * list err :=
  let '(m, given, ea) := form_args_loop S vars fd args in
  let missing := filter (fun d => is_nonnull (a_type d) && negb (existsb (Nat.eqb (a_name d)) given)) (f_args fd) in
  (m, ea ++ map (fun d => mkErr [] (LNode fid) EMissingArg) missing).

(* field.sortArgs: when the container is an *Object or an *Interface that has the field *)
(* __typename is defined on no type and declares no arguments: every argument written on it is
   undeclared (field.go sortArgs, the branch without a field definition) *)
Definition meta_arg_errs (name : nat) (args : list arg) : list err :=
  if Nat.eqb name TYPENAME then map (fun av => mkErr [] LOther EBadArg) args else [].

Definition sort_args (S : schema) (t : nat) (name : nat) (args : list arg) : list (option arg) * list err :=
  match args with
  | [] => ([], [])
  | _ =>
      match lookup t S with
      | Some (DObject fs _) | Some (DInterface fs) =>
          match find_field name fs with
          | Some fd =>
              let sorted := map (fun d => find (fun av => Nat.eqb (fst av) (a_name d)) args) (f_args fd) in
              let errs :=
                map (fun av => mkErr [] LOther EBadArg)
                    (filter (fun av => match find_arg (fst av) (f_args fd) with None => true | Some _ => false end) args) in
              (sorted, errs)
          | None => (map Some args, meta_arg_errs name args)
          end
      | _ => (map Some args, meta_arg_errs name args)
      end
  end.

(* A resolver receives its arguments as a Go map: the call log holds the canonical form
   (sorted by argument name). *)
Fixpoint insert_arg (x : nat * value) (l : list (nat * value)) : list (nat * value) :=
  match l with
  | [] => [x]
  | y :: r => if Nat.leb (fst x) (fst y) then x :: l else y :: insert_arg x r
  end.
Fixpoint canon_args (l : list (nat * value)) : list (nat * value) :=
  match l with [] => [] | x :: r => insert_arg x (canon_args r) end.

Fixpoint somes {A} (l : list (option A)) : list A :=
  match l with [] => [] | Some x :: r => x :: somes r | None :: r => somes r end.

(* Field.Args as Executable.String() prints them: the current (possibly re-ordered) slice, nil entries skipped *)
Definition printed_args (S : schema) (s_args : list (nat * nat)) (id name : nat) (args : list arg) : list arg :=
  match lookup id s_args with
  | Some t0 => somes (fst (sort_args S t0 name args))
  | None => args
  end.

(* ------------------------------------------------------------------ @skip / @include *)
Definition cond_value (vars : list (nat * value)) (v : value) : option bool :=
  match v with
  | VBool b => Some b
  | VVar x => match lookup x vars with Some (VBool b) => Some b | _ => None end
  | _ => None
  end.

(* root.skipSel: (skip?, errors).  Mirrors the loop: every directive accumulates into the flag. *)
Fixpoint skip_sel_loop (vars : list (nat * value)) (dirs : list dir) (skip : bool) (nerr : nat) : bool * nat :=
  match dirs with
  | [] => (skip, nerr)
  | d :: r =>
      match d_name d, d_if d with
      | DSkip, Some (VBool b) => skip_sel_loop vars r (skip || b) nerr
      | DSkip, Some (VVar x) =>
          match lookup x vars with
          | Some (VBool b) => skip_sel_loop vars r (skip || b) nerr
          | _ => skip_sel_loop vars r true (S nerr)
          end
      | DInclude, Some (VBool b) => skip_sel_loop vars r (skip || negb b) nerr
      | DInclude, Some (VVar x) =>
          match lookup x vars with
          | Some (VBool b) => skip_sel_loop vars r (skip || negb b) nerr
          | _ => skip_sel_loop vars r true (S nerr)
          end
      | _, _ => skip_sel_loop vars r skip nerr
      end
  end.

Definition sel_errloc (s : sel) : eloc :=
  match s with SField id _ _ _ _ _ => LNode id | SFrag id _ _ => LNode id | SInline id _ _ _ => LNode id end.
Definition sel_dirs (s : sel) : list dir :=
  match s with SField _ _ _ _ d _ => d | SInline _ _ d _ => d | SFrag _ _ d => d end.

Definition skip_sel (vars : list (nat * value)) (s : sel) : bool * list err :=
  let (sk, n) := skip_sel_loop vars (sel_dirs s) false 0 in
  (sk, repeat (mkErr (match s with SField _ a nm _ _ _ => [PKey (key_of a nm)] | _ => [] end) (sel_errloc s) ESkipVar) n).

(* ------------------------------------------------------------------ the walk *)
Section Walk.
Variable S : schema.
Variable G : graph.
Variable frags : list (nat * fragment).
Variable any_installed : bool.        (* root.AnyResolver != nil *)
Variable max_depth : nat.             (* MaxResolveDepth *)
Variable vars : list (nat * value).

(* the Go value a resolver sees for an argument value *)
Fixpoint gv_of_value (v : value) : gv :=
  match v with
  | VNull => GNil
  | VInt z => GInt z
  | VStr s => GStr s
  | VBool b => GBool b
  | VEnum e => GSym e
  | VVar _ => GOther 0
  | VList l => GList (map gv_of_value l)
  | VObj _ => GOther 1
  end.

(* res.Resolve / AnyResolver.Resolve on data node n: (attr, error group size or none) *)
Definition run_behav (n : nat) (name : nat) (args : list (nat * value)) : gv * option nat :=
  match lookup n G with
  | None => (GNil, Some 0)
  | Some nd =>
      match lookup name (n_fields nd) with
      | None => (GNil, Some 0)                  (* the harness resolvers fail on unknown fields *)
      | Some (BConst v) => (v, None)
      | Some (BFail k v) => (v, Some k)
      | Some (BEcho a) => (match lookup a args with Some w => gv_of_value w | None => GNil end, None)
      end
  end.

Definition gotype_of (g : gv) : option nat :=
  match g with
  | GNodeR n | GNodeA n => match lookup n G with Some nd => Some (n_gotype nd) | None => None end
  | _ => None
  end.

(* first union member that is an Object whose registered Go type is the object's *)
Fixpoint union_member (obj : gv) (members : list nat) : option nat :=
  match members with
  | [] => None
  | m :: r =>
      match lookup m S with
      | Some (DObject _ _) =>
          match gotype_of obj with
          | Some gt => if Nat.eqb gt m then Some m else union_member obj r
          | None => union_member obj r
          end
      | _ => union_member obj r
      end
  end.

(* resolve.go condApplies: no condition, identical type, an interface the object type implements,
   or a union the object type is a member of *)
Definition cond_applies (cond : option nat) (t : nat) : bool :=
  match cond with
  | None => true
  | Some c =>
      if Nat.eqb c t then true
      else
        match lookup t S with
        | Some (DObject _ ifaces) =>
            match lookup c S with
            | Some (DInterface _) => existsb (Nat.eqb c) ifaces
            | Some (DUnion members) => existsb (Nat.eqb t) members
            | _ => false
            end
        | _ => false
        end
  end.

(* root.getReflectType(reflect.TypeOf(obj)): the object type bound to the value's Go type
   (every object type of the schema is registered to the Go type of the same number) *)
Definition concrete_type (obj : gv) (static : nat) : nat :=
  match gotype_of obj with
  | Some gt => match lookup gt S with Some (DObject _ _) => gt | _ => static end
  | None => static
  end.

(* the strategy switch of resolveField: a data node answered through Resolver or through the installed
   AnyResolver (Some (Some n)); the AnyResolver asked about something that is not a data node
   (Some None, it fails); or the reflection fallback (None) *)
Definition strategy_of (obj : gv) : option (option nat) :=
  match obj with
  | GNodeR n => Some (Some n)
  | GNodeA n => if any_installed then Some (Some n) else None
  | _ => if any_installed then Some None else None
  end.

Definition res_t := (rv * list err * st)%type.
Definition map_t := (list (nat * rv) * list err * st)%type.

(* resolve / resolveList / resolveFieldSels / resolveSels / resolveField / resolveInline / resolveFragRef,
   one equation each, recursion on fuel (Go: the call stack). depth is MaxResolveDepth's counter. *)
Fixpoint resolve (fuel : nat) (obj : gv) (fid : nat) (fsels : list sel) (t : ty) (depth : nat) (s : st)
  {struct fuel} : outcome res_t :=
  match fuel with
  | 0 => OutOfFuel
  | Datatypes.S fuel' =>
      if (Nat.eqb depth 0 || is_nil obj)%bool
      then Done (match obj with GNil => RNull | _ => RLeak obj end, [], s)
      else
        match t with
        | TList lt => resolve_list fuel' obj fid fsels lt (depth - 1) s
        | TNonNull b => resolve fuel' obj fid fsels b depth s
        | TNamed n =>
            match lookup n S with
            | Some (DObject _ _) =>
                match resolve_sels fuel' obj fsels n [] (depth - 1) s with
                | Done (m, ea, s') => Done (RObj m, ea, s')
                | OutOfFuel => OutOfFuel
                end
            | Some (DInterface _) =>
                match resolve_sels fuel' obj fsels (concrete_type obj n) [] (depth - 1) s with
                | Done (m, ea, s') => Done (RObj m, ea, s')
                | OutOfFuel => OutOfFuel
                end
            | Some (DUnion members) =>
                match union_member obj members with
                | Some m =>
                    match resolve_sels fuel' obj fsels m [] (depth - 1) s with
                    | Done (mm, ea, s') => Done (RObj mm, ea, s')
                    | OutOfFuel => OutOfFuel
                    end
                | None => Done (RObj [], [], s)
                end
            | Some (DLeaf k) =>
                let (r, bad) := coerce_out k obj in
                Done (r, if bad then [mkErr [] (LNode fid) ECoerceOut] else [], s)
            | _ => Done (RNull, [], s)
            end
        end
  end

with resolve_list (fuel : nat) (obj : gv) (fid : nat) (fsels : list sel) (lt : ty) (depth : nat) (s : st)
  {struct fuel} : outcome res_t :=
  match fuel with
  | 0 => OutOfFuel
  | Datatypes.S fuel' =>
      match obj with
      | GLRes l | GList l =>
          match resolve_elems fuel' l 0 fid fsels lt depth s with
          | Done (rs, ea, s') => Done (RList rs, ea, s')
          | OutOfFuel => OutOfFuel
          end
      | GAList l =>
          if any_installed then
            match resolve_any_elems fuel' l 0 fid fsels lt depth s with
            | Done (rs, ea, s') => Done (RList rs, ea, s')
            | OutOfFuel => OutOfFuel
            end
          else Done (RNull, [mkErr [] (LNode fid) ENotList], s)
      | _ =>
          if any_installed
          then Done (RList [], [], s)       (* AnyResolver.Len of a non-list is 0: an empty (nil) list *)
          else Done (RNull, [mkErr [] (LNode fid) ENotList], s)
      end
  end

with resolve_elems (fuel : nat) (l : list gv) (i : nat) (fid : nat) (fsels : list sel) (lt : ty) (depth : nat) (s : st)
  {struct fuel} : outcome (list rv * list err * st) :=
  match fuel with
  | 0 => OutOfFuel
  | Datatypes.S fuel' =>
      match l with
      | [] => Done ([], [], s)
      | x :: r =>
          match resolve fuel' x fid fsels lt depth s with
          | OutOfFuel => OutOfFuel
          | Done (v, ea, s1) =>
              match resolve_elems fuel' r (Datatypes.S i) fid fsels lt depth s1 with
              | OutOfFuel => OutOfFuel
              | Done (vs, ea2, s2) => Done (v :: vs, errs_in (PIdx i) ea ++ ea2, s2)
              end
          end
      end
  end

with resolve_any_elems (fuel : nat) (l : list (option gv)) (i : nat) (fid : nat) (fsels : list sel) (lt : ty) (depth : nat) (s : st)
  {struct fuel} : outcome (list rv * list err * st) :=
  match fuel with
  | 0 => OutOfFuel
  | Datatypes.S fuel' =>
      match l with
      | [] => Done ([], [], s)
      | None :: r =>
          match resolve_any_elems fuel' r (Datatypes.S i) fid fsels lt depth s with
          | OutOfFuel => OutOfFuel
          | Done (vs, ea2, s2) => Done (RNull :: vs, mkErr [PIdx i] LNone ENth :: ea2, s2)
          end
      | Some x :: r =>
          match resolve fuel' x fid fsels lt depth s with
          | OutOfFuel => OutOfFuel
          | Done (v, ea, s1) =>
              match resolve_any_elems fuel' r (Datatypes.S i) fid fsels lt depth s1 with
              | OutOfFuel => OutOfFuel
              | Done (vs, ea2, s2) => Done (v :: vs, errs_in (PIdx i) ea ++ ea2, s2)
              end
          end
      end
  end

with resolve_sels (fuel : nat) (obj : gv) (sels : list sel) (t : nat) (result : list (nat * rv)) (depth : nat) (s : st)
  {struct fuel} : outcome map_t :=
  match fuel with
  | 0 => OutOfFuel
  | Datatypes.S fuel' =>
      match sels with
      | [] => Done (result, [mkErr [] LNone ENotLeaf], s)
      | _ => resolve_sels_loop fuel' obj sels t result depth s
      end
  end

with resolve_sels_loop (fuel : nat) (obj : gv) (sels : list sel) (t : nat) (result : list (nat * rv)) (depth : nat) (s : st)
  {struct fuel} : outcome map_t :=
  match fuel with
  | 0 => OutOfFuel
  | Datatypes.S fuel' =>
      match sels with
      | [] => Done (result, [], s)
      | x :: r =>
          let (skip, ea0) := skip_sel vars x in
          if skip then
            match resolve_sels_loop fuel' obj r t result depth s with
            | OutOfFuel => OutOfFuel
            | Done (m, ea, s') => Done (m, ea0 ++ ea, s')
            end
          else
            match
              match x with
              | SField id alias name args dirs fsels => resolve_field fuel' obj id alias name args fsels t result depth s
              | SInline _ cond _ isels =>
                  if cond_applies cond t then resolve_sels fuel' obj isels t result depth s else Done (result, [], s)
              | SFrag id fname _ =>
                  match lookup fname frags with
                  | None => Done (result, [], s)
                  | Some fr =>
                      if cond_applies (fr_cond fr) t then
                        match resolve_sels fuel' obj (fr_sels fr) t result depth s with
                        | OutOfFuel => OutOfFuel
                        | Done (m, ea, s') => Done (m, errs_in (PFragAt id) ea, s')
                        end
                      else Done (result, [], s)
                  end
              end
            with
            | OutOfFuel => OutOfFuel
            | Done (m1, ea1, s1) =>
                match resolve_sels_loop fuel' obj r t m1 depth s1 with
                | OutOfFuel => OutOfFuel
                | Done (m2, ea2, s2) => Done (m2, ea0 ++ ea1 ++ ea2, s2)
                end
            end
      end
  end

with resolve_field (fuel : nat) (obj : gv) (id : nat) (alias : option nat) (name : nat) (args : list arg)
                   (fsels : list sel) (t : nat) (result : list (nat * rv)) (depth : nat) (s : st)
  {struct fuel} : outcome map_t :=
  match fuel with
  | 0 => OutOfFuel
  | Datatypes.S fuel' =>
      let key := key_of alias name in
      (* ConType = t; sortArgs of the arguments as written whenever the container type differs from the
         previous visit's (the same sorting when it does not): Field.Args is always sorted under t here *)
      let '(cur_args, ea_sort) := sort_args S t name args in
      let s0 := mkSt ((id, t) :: s_args s) (s_calls s) in
      match ea_sort with
      | _ :: _ => Done (result, errs_in (PKey key) ea_sort, s0)
      | [] =>
          if Nat.eqb name TYPENAME then Done (set_key key (RTypeName t) result, [], s0)
          else
            match get_field_def S t name with
            | None => Done (result, [mkErr [PKey key] (LNode id) ENotField], s0)
            | Some fd =>
                (* strategy switch: Resolver, else AnyResolver when installed *)
                let strat := strategy_of obj in
                let pre (ea : list err) := if Nat.ltb depth max_depth then errs_in (PKey key) ea else ea in
                match strat with
                | None =>
                    (* reflection fallback on a value that is neither a Resolver nor served by an AnyResolver:
                       under an *Object regField fails; under an *Interface no Go type is found and nil is returned *)
                    match lookup t S with
                    | Some (DObject _ _) => Done (set_key key RNull result, pre [mkErr [] (LNode id) EReflect], s0)
                    | _ => Done (set_key key RNull result, [], s0)
                    end
                | Some n =>
                    let (cargs, ea_args) := form_args S vars id fd cur_args in
                    let '(attr, rerr, s1) :=
                      match ea_args, n with
                      | [], Some n' => let (a, e) := run_behav n' name cargs in
                                       (a, e, mkSt (s_args s0) (s_calls s0 ++ [mkCall n' name (canon_args cargs)]))
                      | [], None => (GNil, Some 0, s0)
                      | _, _ => (GNil, None, s0)
                      end in
                    let ea_res := match rerr with
                                  | None => []
                                  | Some 0 => [mkErr [] (LNode id) EResolver]
                                  | Some k => repeat (mkErr [] (LNode id) EResolver) k
                                  end in
                    if is_nil attr then Done (set_key key RNull result, pre (ea_args ++ ea_res), s1)
                    else
                      match resolve fuel' attr id fsels (f_type fd) depth s1 with
                      | OutOfFuel => OutOfFuel
                      | Done (fv, ea2, s2) => Done (set_key key fv result, pre (ea_args ++ ea_res ++ ea2), s2)
                      end
                end
            end
      end
  end.

End Walk.

(* ------------------------------------------------------------------ rejection before execution
   What ParseExecutable (parser + Executable.Validate) refuses among the defects of property C10:
   a directive that is not defined or not allowed at the place (every directive other than @skip/@include
   and the schema's own @d8 in these documents), @skip/@include without a Boolean-literal-or-variable condition, an inline
   fragment on an undefined type, a repeated argument.  A fragment DEFINITION on an undefined type is
   accepted (finding F10a). *)
(* the one executable directive of its own every schema of the harness declares:
   directive @d8 on FIELD | FRAGMENT_SPREAD | INLINE_FRAGMENT (it has no part in choosing selections) *)
Definition DECLARED_DIR : nat := 8.

Definition dir_rejects (d : dir) : bool :=
  match d_name d, d_if d with
  | DOther n, _ => negb (Nat.eqb n DECLARED_DIR)
  | _, Some (VBool _) | _, Some (VVar _) => false
  | _, _ => true
  end.

Fixpoint has_dup (l : list nat) : bool :=
  match l with [] => false | x :: r => existsb (Nat.eqb x) r || has_dup r end.

Fixpoint sel_rejects (S : schema) (s : sel) {struct s} : bool :=
  match s with
  | SField _ _ _ args dirs sels =>
      has_dup (map fst args) || existsb dir_rejects dirs || existsb (sel_rejects S) sels
  | SInline _ cond dirs sels =>
      match cond with Some c => match lookup c S with None => true | Some _ => false end | None => false end
      || existsb dir_rejects dirs || existsb (sel_rejects S) sels
  | SFrag _ _ dirs => existsb dir_rejects dirs
  end.

(* ------------------------------------------------------------------ operations *)
Inductive opkind := OpQuery | OpMutation | OpSubscription.
Record vardef := mkVar { vd_name : nat; vd_type : ty; vd_default : option value }.
Record op := mkOp { op_kind : opkind; op_name : option nat; op_vars : list vardef; op_sels : list sel }.
Record doc := mkDoc { d_ops : list op; d_frags : list (nat * fragment) }.

(* exe.Ops[opName], or the only operation when no name is given *)
Definition same_name (a b : option nat) : bool :=
  match a, b with Some x, Some y => Nat.eqb x y | None, None => true | _, _ => false end.

Definition choose_op (d : doc) (name : option nat) : option op :=
  match find (fun o => same_name (op_name o) name) (d_ops d) with
  | Some o => Some o
  | None => match name, d_ops d with None, [o] => Some o | _, _ => None end
  end.

(* variable binding of ResolveExecutable: default, overridden by a non-nil supplied value coerced
   by the declared type; Some error aborts *)
Fixpoint bind_vars (S : schema) (vds : list vardef) (supplied : list (nat * value)) : option (list (nat * value)) :=
  match vds with
  | [] => Some []
  | vd :: r =>
      match bind_vars S r supplied with
      | None => None
      | Some m =>
          let dflt := match vd_default vd with Some v => v | None => VNull end in
          match lookup (vd_name vd) supplied with
          | None | Some VNull => Some ((vd_name vd, dflt) :: m)
          | Some v => match coerce_in S (vd_type vd) v with
                      | Some w => Some ((vd_name vd, w) :: m)
                      | None => None
                      end
          end
      end
  end.

Record response := mkResp { r_data : option rv; r_errs : list err; r_calls : list call }.

(* root type of the operation: fixed names as in the harness schemas (Query = 1, Mutation = 2) *)
Definition op_root_type (k : opkind) : nat := match k with OpQuery => 1 | OpMutation => 2 | OpSubscription => 3 end.

Definition exec_op (S : schema) (G : graph) (any_installed : bool) (max_depth fuel : nat)
           (d : doc) (name : option nat) (supplied : list (nat * value)) (rootobj : gv) (s : st)
  : outcome (response * st) :=
  match choose_op d name with
  | None => Done (mkResp None [mkErr [] LNone EOpChoice] [], s)
  | Some o =>
      match bind_vars S (op_vars o) supplied with
      | None => Done (mkResp None [mkErr [] LOther ECoerceIn] [], s)
      | Some vars =>
          (* resolveField(root.obj, vars, &Field{Alias:"data", Name: op.Type, Sels: op.Sels}, root.schema, result, MaxResolveDepth)
             the schema-level step: root.obj's field "query"/"mutation" yields the operation's root object *)
          if is_nil rootobj then Done (mkResp (Some RNull) [] [], s)
          else
            match resolve_sels S G (d_frags d) any_installed max_depth vars fuel rootobj (op_sels o)
                               (op_root_type (op_kind o)) [] (max_depth - 1) (mkSt (s_args s) []) with
            | OutOfFuel => OutOfFuel
            | Done (m, ea, s') => Done (mkResp (Some (RObj m)) ea (s_calls s'), mkSt (s_args s') [])
            end
      end
  end.

(* fragment cycles (Executable.validateFragmentCycles): some fragment reaches itself through spreads *)
Fixpoint sel_spreads (s : sel) {struct s} : list nat :=
  match s with
  | SField _ _ _ _ _ sels => flat_map sel_spreads sels
  | SInline _ _ _ sels => flat_map sel_spreads sels
  | SFrag _ n _ => [n]
  end.

Definition frag_succ (d : doc) (n : nat) : list nat :=
  match lookup n (d_frags d) with
  | Some fr => flat_map sel_spreads (fr_sels fr)
  | None => []
  end.

Fixpoint frag_reach (d : doc) (k : nat) (front : list nat) : list nat :=
  match k with
  | 0 => []
  | S k' => let nx := nodup Nat.eq_dec (flat_map (frag_succ d) front) in nx ++ frag_reach d k' nx
  end.

Definition frag_cycle (d : doc) : bool :=
  existsb (fun nf => existsb (Nat.eqb (fst nf)) (frag_reach d (length (d_frags d)) [fst nf])) (d_frags d).

Definition doc_rejects (S : schema) (d : doc) : bool :=
  existsb (fun o => existsb (sel_rejects S) (op_sels o)) (d_ops d)
  || existsb (fun nf => existsb (sel_rejects S) (fr_sels (snd nf))) (d_frags d)
  || existsb (fun nf => match fr_dirs (snd nf) with [] => false | _ => true end) (d_frags d)
  || frag_cycle d.
