(* Text.v — byte-level model of the scanner and the value reader of pkg/ggql/parser.go (readByte,
   putBack, skipSpace, readToken, readNumberToken, readString, readEscaped, readValue) and of the value
   writer of value.go (writeValue, writeMap, elementSep, isCollection, writeString), mirroring the Go
   code loop by loop.  Character classes come from gen/Tables.v, regenerated from the source on every
   run.  strconv (ParseInt/ParseFloat/FormatInt/FormatFloat) and UTF-8 encoding are Go's: integers are
   parsed by the decimal reader below, floats and runes enter as abstract tokens.  No proofs here. *)
From Coq Require Import List Arith ZArith NArith Bool.
Import ListNotations.
From GG.gen Require Import Tables.

Definition byte := nat.

(* numerals: written through binary N so that the extracted code holds no large unary constants *)
Definition nn (n : N) : nat := N.to_nat n.
Arguments nn n%N.

Definition class_of (m : list nat) (b : byte) : nat := nth b m 46.
Definition is_space (b : byte) : bool := Nat.eqb (class_of char_map b) space_class.
Definition is_token (b : byte) : bool := Nat.eqb (class_of char_map b) token_class.
Definition is_num (b : byte) : bool := Nat.eqb (class_of num_map b) num_class.

(* ------------------------------------------------------------------ scanner state *)
Record pst := mkP {
  rest : list byte;      (* what the io.Reader will still deliver *)
  fault : bool;          (* the reader fails (instead of EOF) when exhausted *)
  ondeck : byte;         (* one byte of look-ahead, 0 = none *)
  eof : bool;
  line : nat;
  col : nat
}.

Inductive res (A : Type) :=
| ROk (a : A) (s : pst)
| RErr (s : pst)         (* a parse error or a reader error *)
| RFuel.                 (* recursion deeper than the fuel: Go's stack *)
Arguments ROk {A} a s.
Arguments RErr {A} s.
Arguments RFuel {A}.

(* readByte: (byte, state) or a reader error. A 0 byte means end of input (or a literal NUL). *)
Definition read_byte (s : pst) : res byte :=
  if negb (Nat.eqb (ondeck s) 0) then ROk (ondeck s) (mkP (rest s) (fault s) 0 (eof s) (line s) (col s))
  else if eof s then ROk 0 s
  else
    let (l0, c0) := if Nat.eqb (line s) 0 then (1, 1) else (line s, col s) in
    match rest s with
    | [] => if fault s then RErr (mkP [] (fault s) 0 false l0 c0)
            else ROk 0 (mkP [] (fault s) 0 true l0 c0)
    | b :: r =>
        if Nat.eqb b (nn 10) then ROk b (mkP r (fault s) 0 false (S l0) 1)
        else ROk b (mkP r (fault s) 0 false l0 (S c0))
    end.

Definition put_back (b : byte) (s : pst) : pst := mkP (rest s) (fault s) b (eof s) (line s) (col s).

(* skipSpace: returns the first byte that is neither white space nor inside a # comment, put back;
   0 at end of input.  fuel: one unit per byte consumed. *)
Fixpoint skip_comment (fuel : nat) (s : pst) : res byte :=
  match fuel with
  | 0 => RFuel
  | S f =>
      match read_byte s with
      | ROk b s1 => if Nat.eqb b 0 then ROk 0 s1 else if Nat.eqb b (nn 10) then ROk (nn 10) s1 else skip_comment f s1
      | RErr s1 => RErr s1
      | RFuel => RFuel
      end
  end.

Fixpoint skip_space (fuel : nat) (s : pst) : res byte :=
  match fuel with
  | 0 => RFuel
  | S f =>
      match read_byte s with
      | ROk b s1 =>
          if Nat.eqb b 0 then ROk 0 s1
          else if is_space b then skip_space f s1
          else if Nat.eqb b (nn 35) (* # *) then
            match skip_comment f s1 with
            | ROk b2 s2 => if Nat.eqb b2 0 then ROk 0 s2 else skip_space f s2
            | RErr s2 => RErr s2
            | RFuel => RFuel
            end
          else ROk b (put_back b s1)
      | RErr s1 => RErr s1
      | RFuel => RFuel
      end
  end.

(* the inner loop of readToken / readNumberToken *)
Fixpoint read_while (p : byte -> bool) (fuel : nat) (acc : list byte) (s : pst) : res (list byte) :=
  match fuel with
  | 0 => RFuel
  | S f =>
      match read_byte s with
      | ROk b s1 =>
          if Nat.eqb b 0 then ROk (rev acc) s1
          else if p b then read_while p f (b :: acc) s1
          else ROk (rev acc) (put_back b s1)
      | RErr s1 => RErr s1
      | RFuel => RFuel
      end
  end.

Definition read_token (fuel : nat) (s : pst) : res (list byte) :=
  match skip_space fuel s with
  | ROk b s1 => if Nat.eqb b 0 then ROk [] s1 else read_while is_token fuel [] s1
  | RErr s1 => RErr s1
  | RFuel => RFuel
  end.

Definition read_number_token (fuel : nat) (s : pst) : res (list byte) := read_while is_num fuel [] s.

(* ------------------------------------------------------------------ strings *)
(* a string as the reader builds it: raw bytes, and runes produced by \-escapes (written with
   buf.WriteRune, i.e. UTF-8 encoded by Go) *)
Inductive sitem := SB (b : byte) | SR (r : nat).

Definition hex_val (b : byte) : option nat :=
  if ((nn 48) <=? b) && (b <=? (nn 57)) then Some (b - (nn 48))
  else if ((nn 97) <=? b) && (b <=? (nn 102)) then Some (b - (nn 87))
  else if ((nn 65) <=? b) && (b <=? (nn 70)) then Some (b - (nn 55))
  else None.

Fixpoint read_hex4 (n : nat) (acc : nat) (s : pst) : res nat :=
  match n with
  | 0 => ROk acc s
  | S m =>
      match read_byte s with
      | ROk b s1 => match hex_val b with Some h => read_hex4 m (acc * (nn 16) + h) s1 | None => RErr s1 end
      | RErr s1 => RErr s1
      | RFuel => RFuel
      end
  end.

Definition read_escaped (s : pst) : res nat :=
  match read_byte s with
  | ROk b s1 =>
      if Nat.eqb b (nn 34) then ROk (nn 34) s1 else if Nat.eqb b (nn 92) then ROk (nn 92) s1 else if Nat.eqb b (nn 47) then ROk (nn 47) s1
      else if Nat.eqb b (nn 98) then ROk (nn 8) s1 else if Nat.eqb b (nn 102) then ROk (nn 12) s1 else if Nat.eqb b (nn 110) then ROk (nn 10) s1
      else if Nat.eqb b (nn 114) then ROk (nn 13) s1 else if Nat.eqb b (nn 116) then ROk (nn 9) s1
      else if Nat.eqb b (nn 117) then read_hex4 4 0 s1
      else RErr s1
  | RErr s1 => RErr s1
  | RFuel => RFuel
  end.

(* the single-quoted loop of readString *)
Fixpoint read_simple (fuel : nat) (acc : list sitem) (s : pst) : res (list sitem) :=
  match fuel with
  | 0 => RFuel
  | S f =>
      match read_byte s with
      | ROk b s1 =>
          if Nat.eqb b (nn 34) then ROk (rev acc) s1
          else if Nat.eqb b (nn 92) then
            match read_escaped s1 with
            | ROk r s2 => read_simple f (SR r :: acc) s2
            | RErr s2 => RErr s2
            | RFuel => RFuel
            end
          else if Nat.eqb b 0 then RErr s1
          else read_simple f (SB b :: acc) s1
      | RErr s1 => RErr s1
      | RFuel => RFuel
      end
  end.

(* the triple-quoted loop *)
Fixpoint read_block (fuel : nat) (acc : list sitem) (s : pst) : res (list sitem) :=
  match fuel with
  | 0 => RFuel
  | S f =>
      match read_byte s with
      | ROk b s1 =>
          if Nat.eqb b (nn 34) then
            match read_byte s1 with
            | ROk b2 s2 =>
                if Nat.eqb b2 (nn 34) then
                  match read_byte s2 with
                  | ROk b3 s3 =>
                      if Nat.eqb b3 (nn 34) then ROk (rev acc) s3
                      else read_block f (SB b3 :: SB (nn 34) :: SB (nn 34) :: acc) s3
                  | RErr s3 => RErr s3
                  | RFuel => RFuel
                  end
                else read_block f (SB b2 :: SB (nn 34) :: acc) s2
            | RErr s2 => RErr s2
            | RFuel => RFuel
            end
          else if Nat.eqb b (nn 92) then
            match read_escaped s1 with
            | ROk r s2 => read_block f (SR r :: acc) s2
            | RErr s2 => RErr s2
            | RFuel => RFuel
            end
          else if Nat.eqb b 0 then RErr s1
          else read_block f (SB b :: acc) s1
      | RErr s1 => RErr s1
      | RFuel => RFuel
      end
  end.

(* readString: None = no string here (next byte is not a quote) *)
Definition read_string (fuel : nat) (s : pst) : res (option (list sitem)) :=
  match read_byte s with
  | ROk b s1 =>
      if Nat.eqb b 0 then ROk None s1
      else if negb (Nat.eqb b (nn 34)) then ROk None (put_back b s1)
      else
        match read_byte s1 with
        | ROk b2 s2 =>
            if Nat.eqb b2 (nn 34) then
              match read_byte s2 with
              | ROk b3 s3 =>
                  if negb (Nat.eqb b3 (nn 34)) then ROk (Some []) (put_back b3 s3)
                  else match read_block fuel [] s3 with
                       | ROk l s4 => ROk (Some l) s4
                       | RErr s4 => RErr s4
                       | RFuel => RFuel
                       end
              | RErr s3 => RErr s3
              | RFuel => RFuel
              end
            else if Nat.eqb b2 0 then RErr s2
            else match read_simple fuel [] (put_back b2 s2) with
                 | ROk l s3 => ROk (Some l) s3
                 | RErr s3 => RErr s3
                 | RFuel => RFuel
                 end
        | RErr s2 => RErr s2
        | RFuel => RFuel
        end
  | RErr s1 => RErr s1
  | RFuel => RFuel
  end.

(* ------------------------------------------------------------------ values *)
Inductive pv :=
| PNull
| PBool (b : bool)
| PInt (z : Z)
| PFloat (tok : list byte)        (* a float, by the token Go printed / parsed it from *)
| PStr (s : list sitem)
| PSym (tok : list byte)
| PVar (tok : list byte)
| PList (l : list pv)
| PMap (kvs : list (list sitem * pv)).

(* strconv.ParseInt(tok, 10, 64) *)
Fixpoint digits_val (l : list byte) (acc : Z) : option Z :=
  match l with
  | [] => Some acc
  | b :: r => if ((nn 48) <=? b) && (b <=? (nn 57)) then digits_val r (acc * 10 + Z.of_nat (b - (nn 48)))%Z else None
  end.

Definition parse_int64 (tok : list byte) : option Z :=
  let (neg, ds) := match tok with
                   | b0 :: r => if Nat.eqb b0 (nn 45) then (true, r) else if Nat.eqb b0 (nn 43) then (false, r) else (false, tok)
                   | _ => (false, tok)
                   end in
  match ds with
  | [] => None
  | _ => match digits_val ds 0%Z with
         | Some z => let v := if neg then (- z)%Z else z in
                     if ((-9223372036854775808 <=? v) && (v <=? 9223372036854775807))%Z then Some v else None
         | None => None
         end
  end.

Definition value_follow (b : byte) : bool :=
  existsb (Nat.eqb b) [0; (nn 32); (nn 9); (nn 10); (nn 13); (nn 12); (nn 44); (nn 125); (nn 93); (nn 123); (nn 91); (nn 41)].

(* maxNesting of parser.go *)
Definition max_nesting : nat := nn 10000.

Section Values.
(* strconv.ParseFloat(tok, 64) succeeds (decided by Go for the tokens of the case) *)
Variable float_ok : list byte -> bool.

Definition tok_true : list byte := [(nn 116); (nn 114); (nn 117); (nn 101)].
Definition tok_false : list byte := [(nn 102); (nn 97); (nn 108); (nn 115); (nn 101)].
Definition tok_null : list byte := [(nn 110); (nn 117); (nn 108); (nn 108)].
Definition eqb_bytes (a b : list byte) : bool := if list_eq_dec Nat.eq_dec a b then true else false.

(* readValue. fuel bounds the recursion depth and every loop.  d: the lists and objects open around
   this value (parser.depth); a list or object that would be the (max_nesting+1)-th is a parse error *)
Fixpoint read_value (fuel : nat) (d : nat) (s : pst) {struct fuel} : res pv :=
  match fuel with
  | 0 => RFuel
  | S f =>
      match skip_space fuel s with
      | RErr s1 => RErr s1
      | RFuel => RFuel
      | ROk b s1 =>
          if Nat.eqb b 0 then ROk PNull s1
          else if Nat.eqb b (nn 34) then
            match read_string fuel s1 with
            | ROk (Some l) s2 => ROk (PStr l) s2
            | ROk None s2 => ROk (PStr []) s2
            | RErr s2 => RErr s2
            | RFuel => RFuel
            end
          else if Nat.eqb b (nn 36) then
            match read_byte s1 with
            | ROk _ s2 => match read_token fuel s2 with
                          | ROk t s3 => ROk (PVar t) s3
                          | RErr s3 => RErr s3
                          | RFuel => RFuel
                          end
            | RErr s2 => RErr s2
            | RFuel => RFuel
            end
          else if Nat.eqb b (nn 45) || (((nn 48) <=? b) && (b <=? (nn 57))) then
            match read_number_token fuel s1 with
            | ROk t s2 =>
                if value_follow (ondeck s2) then
                  match parse_int64 t with
                  | Some z => ROk (PInt z) s2
                  | None => if float_ok t then ROk (PFloat t) s2 else RErr s2
                  end
                else RErr s2
            | RErr s2 => RErr s2
            | RFuel => RFuel
            end
          else if Nat.eqb b (nn 91) then
            match read_byte s1 with
            | ROk _ s2 => if Nat.ltb max_nesting (S d) then RErr s2 else read_list f fuel (S d) [] s2
            | RErr s2 => RErr s2
            | RFuel => RFuel
            end
          else if Nat.eqb b (nn 123) then
            match read_byte s1 with
            | ROk _ s2 => if Nat.ltb max_nesting (S d) then RErr s2 else read_map f fuel (S d) [] s2
            | RErr s2 => RErr s2
            | RFuel => RFuel
            end
          else
            match read_token fuel s1 with
            | ROk t s2 =>
                if Nat.eqb (line s1) (line s2) && Nat.eqb (col s1) (col s2) && Nat.eqb (ondeck s1) (ondeck s2)
                then RErr s2      (* nothing was consumed: "invalid value" *)
                else if eqb_bytes t tok_true then ROk (PBool true) s2
                else if eqb_bytes t tok_false then ROk (PBool false) s2
                else if eqb_bytes t tok_null || eqb_bytes t [] then ROk PNull s2
                else ROk (PSym t) s2
            | RErr s2 => RErr s2
            | RFuel => RFuel
            end
      end
  end

(* the list loop: n bounds the iterations *)
with read_list (fuel : nat) (n : nat) (d : nat) (acc : list pv) (s : pst) {struct fuel} : res pv :=
  match fuel with
  | 0 => RFuel
  | S f =>
      match n with
      | 0 => RFuel
      | S n' =>
          match skip_space (S n') s with
          | RErr s1 => RErr s1
          | RFuel => RFuel
          | ROk b s1 =>
              if Nat.eqb b 0 then RErr s1
              else if Nat.eqb b (nn 93) then
                match read_byte s1 with
                | ROk _ s2 => ROk (PList (rev acc)) s2
                | RErr s2 => RErr s2
                | RFuel => RFuel
                end
              else
                match read_value f d s1 with
                | ROk v s2 => read_list f n' d (v :: acc) s2
                | RErr s2 => RErr s2
                | RFuel => RFuel
                end
          end
      end
  end

with read_map (fuel : nat) (n : nat) (d : nat) (acc : list (list sitem * pv)) (s : pst) {struct fuel} : res pv :=
  match fuel with
  | 0 => RFuel
  | S f =>
      match n with
      | 0 => RFuel
      | S n' =>
          match skip_space (S n') s with
          | RErr s1 => RErr s1
          | RFuel => RFuel
          | ROk b s1 =>
              if Nat.eqb b 0 then RErr s1
              else if Nat.eqb b (nn 125) then
                match read_byte s1 with
                | ROk _ s2 => ROk (PMap (rev acc)) s2
                | RErr s2 => RErr s2
                | RFuel => RFuel
                end
              else
                match (if Nat.eqb b (nn 34)
                       then match read_string (S n') s1 with
                            | ROk (Some l) s2 => ROk l s2
                            | ROk None s2 => ROk [] s2
                            | RErr s2 => RErr s2
                            | RFuel => RFuel
                            end
                       else match read_token (S n') s1 with
                            | ROk t s2 => ROk (map SB t) s2
                            | RErr s2 => RErr s2
                            | RFuel => RFuel
                            end) with
                | RErr s2 => RErr s2
                | RFuel => RFuel
                | ROk key s2 =>
                    match skip_space (S n') s2 with
                    | RErr s3 => RErr s3
                    | RFuel => RFuel
                    | ROk b3 s3 =>
                        if negb (Nat.eqb b3 (nn 58)) then RErr s3
                        else
                          match read_byte s3 with
                          | ROk _ s4 =>
                              match read_value f d s4 with
                              | ROk v s5 => read_map f n' d ((key, v) :: acc) s5
                              | RErr s5 => RErr s5
                              | RFuel => RFuel
                              end
                          | RErr s4 => RErr s4
                          | RFuel => RFuel
                          end
                    end
                end
          end
      end
  end.

End Values.

Definition init_pst (bs : list byte) (flt : bool) : pst := mkP bs flt 0 false 0 0.

(* ParseValueString / ParseValue *)
Definition parse_value (float_ok : list byte -> bool) (bs : list byte) (flt : bool) : res pv :=
  read_value float_ok (2 * length bs + (nn 8)) 0 (init_pst bs flt).

(* ------------------------------------------------------------------ the writer *)
(* a Go string being written: the result of `for _, r := range s` (runes; invalid bytes arrive as U+FFFD),
   with the UTF-8 encoding of each rune >= 0x80 supplied by Go *)
Record wrune := mkWR { wr_rune : nat; wr_utf8 : list byte }.

Definition hexdig (n : nat) : byte := if n <? (nn 10) then (nn 48) + n else (nn 87) + n.

Definition write_rune (r : wrune) : list byte :=
  let c := wr_rune r in
  if Nat.eqb c (nn 8) then [(nn 92); (nn 98)] else if Nat.eqb c (nn 12) then [(nn 92); (nn 102)] else if Nat.eqb c (nn 10) then [(nn 92); (nn 110)]
  else if Nat.eqb c (nn 13) then [(nn 92); (nn 114)] else if Nat.eqb c (nn 9) then [(nn 92); (nn 116)]
  else if Nat.eqb c (nn 92) then [(nn 92); (nn 92)] else if Nat.eqb c (nn 34) then [(nn 92); (nn 34)]
  else if c <? (nn 128) then
    (if c <? (nn 32) then [(nn 92); (nn 117); hexdig (c / (nn 4096)); hexdig ((c / (nn 256)) mod (nn 16)); hexdig ((c / (nn 16)) mod (nn 16)); hexdig (c mod (nn 16))]
     else [c])
  else wr_utf8 r.

Definition write_string (s : list wrune) (quotes : bool) : list byte :=
  (if quotes then [(nn 34)] else []) ++ flat_map write_rune s ++ (if quotes then [(nn 34)] else []).

Inductive wv :=
| WNull
| WBool (b : bool)
| WNum (text : list byte)            (* an integer or float, as strconv formats it *)
| WStr (s : list wrune)
| WSym (s : list wrune)
| WVar (s : list wrune)
| WTime (text : list byte)
| WOther (text : list wrune)         (* fmt.Sprintf(`"%v"`, v): quotes around raw text *)
| WList (l : list wv)
| WMap (kvs : list (list wrune * wv)).

Definition is_collection (v : wv) : bool := match v with WList _ | WMap _ => true | _ => false end.

Definition element_sep (sdl : bool) (indent : Z) (v : wv) : list byte :=
  if sdl then
    (if (indent =? 0)%Z then [(nn 44); (nn 32)]
     else if (0 <? indent)%Z then []
     else if is_collection v then [] else [(nn 44)])
  else (if (indent =? 0)%Z then [(nn 44); (nn 32)] else [(nn 44)]).

Definition spaces (n : nat) : list byte := repeat (nn 32) n.

Section Writer.
Variable sdl : bool.
Variable indent : Z.

Definition ind (depth : nat) : nat := depth * Z.to_nat indent.

(* value.go isName: not empty, token bytes only (checked on the UTF-8 bytes) *)
Definition is_name (k : list wrune) : bool :=
  negb (match k with [] => true | _ => false end) && forallb is_token (flat_map wr_utf8 k).

(* map keys: JSON strings; in SDL mode a name when possible, else a quoted string *)
Definition write_key (k : list wrune) : list byte :=
  if sdl && is_name k then flat_map wr_utf8 k else write_string k true.

Fixpoint write_value (v : wv) (depth : nat) {struct v} : list byte :=
  match v with
  | WNull => tok_null
  | WBool b => if b then tok_true else tok_false
  | WNum t => t
  | WStr s => write_string s true
  | WSym s => write_string s (negb sdl)
  | WVar s => write_string (mkWR (nn 36) [(nn 36)] :: s) (negb sdl)
  | WTime t => [(nn 34)] ++ t ++ [(nn 34)]
  | WOther t => [(nn 34)] ++ flat_map wr_utf8 t ++ [(nn 34)]
  | WList l =>
      let i2 := if (0 <? indent)%Z then (nn 10) :: spaces (ind (S depth)) else [] in
      [(nn 91)] ++
      (fix go (l : list wv) (nosep : bool) : list byte :=
         match l with
         | [] => []
         | x :: r =>
             (if nosep then [] else element_sep sdl indent x) ++ i2 ++ write_value x (S depth) ++
             go r ((indent <? 0)%Z && sdl && is_collection x)
         end) l true ++
      (if (0 <? indent)%Z then (nn 10) :: spaces (ind depth) else []) ++ [(nn 93)] ++
      (if (0 <? indent)%Z && Nat.eqb depth 0 then [(nn 10)] else [])
  | WMap kvs =>
      let i2 := if (0 <? indent)%Z then (nn 10) :: spaces (ind (S depth)) else [] in
      [(nn 123)] ++
      (fix go (l : list (list wrune * wv)) (nosep : bool) : list byte :=
         match l with
         | [] => []
         | kv :: r =>
             (if (negb sdl || (indent <=? 0)%Z) && negb nosep
              then (nn 44) :: (if (indent =? 0)%Z then [(nn 32)] else []) else []) ++
             i2 ++ write_key (fst kv) ++ [(nn 58)] ++
             (if (0 <=? indent)%Z then [(nn 32)] else []) ++ write_value (snd kv) (S depth) ++
             go r ((indent <? 0)%Z && sdl && is_collection (snd kv))
         end) kvs true ++
      (if (0 <? indent)%Z then (nn 10) :: spaces (ind depth) else []) ++ [(nn 125)] ++
      (if (0 <? indent)%Z && Nat.eqb depth 0 then [(nn 10)] else [])
  end.

End Writer.
