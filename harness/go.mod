module verifharness

go 1.21

require github.com/uhn/ggql v0.0.0

replace github.com/uhn/ggql => /repo
