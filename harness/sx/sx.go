// Package sx prints the s-expression case files shared with the OCaml model driver.
package sx

import (
	"encoding/hex"
	"sort"
	"strconv"
	"strings"
)

// S is an s-expression: an atom (string) or a list.
type S interface{}

// L builds a list.
func L(items ...S) []S { return items }

// A builds an atom from anything simple.
func A(v interface{}) S {
	switch t := v.(type) {
	case string:
		return t
	case int:
		return strconv.Itoa(t)
	case int64:
		return strconv.FormatInt(t, 10)
	case bool:
		if t {
			return "1"
		}
		return "0"
	}
	panic("sx.A: unsupported")
}

// Hex encodes a byte string as x<hex>.
func Hex(s string) S { return "x" + hex.EncodeToString([]byte(s)) }

// Ints builds a list of ints.
func Ints(xs []int) []S {
	out := make([]S, 0, len(xs))
	for _, x := range xs {
		out = append(out, strconv.Itoa(x))
	}
	return out
}

// SortedInts builds a sorted list of ints.
func SortedInts(xs []int) []S {
	ys := append([]int{}, xs...)
	sort.Ints(ys)
	return Ints(ys)
}

// String renders an s-expression.
func String(s S) string {
	var b strings.Builder
	write(&b, s)
	return b.String()
}

func write(b *strings.Builder, s S) {
	switch t := s.(type) {
	case string:
		b.WriteString(t)
	case []S:
		b.WriteByte('(')
		for i, x := range t {
			if i > 0 {
				b.WriteByte(' ')
			}
			write(b, x)
		}
		b.WriteByte(')')
	default:
		panic("sx: bad node")
	}
}

// Parse reads one s-expression.
func Parse(src string) (S, error) {
	p := &parser{s: src}
	v := p.item()
	if p.err != "" {
		return nil, errString(p.err)
	}
	return v, nil
}

type errString string

func (e errString) Error() string { return string(e) }

type parser struct {
	s   string
	pos int
	err string
}

func (p *parser) skip() {
	for p.pos < len(p.s) && (p.s[p.pos] == ' ' || p.s[p.pos] == '\t' || p.s[p.pos] == '\n' || p.s[p.pos] == '\r') {
		p.pos++
	}
}

func (p *parser) item() S {
	p.skip()
	if p.pos >= len(p.s) {
		p.err = "unexpected end"
		return nil
	}
	if p.s[p.pos] == '(' {
		p.pos++
		out := []S{}
		for {
			p.skip()
			if p.pos >= len(p.s) {
				p.err = "unclosed"
				return nil
			}
			if p.s[p.pos] == ')' {
				p.pos++
				return out
			}
			out = append(out, p.item())
			if p.err != "" {
				return nil
			}
		}
	}
	st := p.pos
	for p.pos < len(p.s) && !strings.ContainsRune(" \t\n\r()", rune(p.s[p.pos])) {
		p.pos++
	}
	return p.s[st:p.pos]
}

// Int reads an integer atom.
func Int(s S) int {
	n, err := strconv.Atoi(s.(string))
	if err != nil {
		panic(err)
	}
	return n
}

// Str decodes an x<hex> atom.
func Str(s S) string {
	a := s.(string)
	b, err := hex.DecodeString(a[1:])
	if err != nil {
		panic(err)
	}
	return string(b)
}

// List asserts a list.
func List(s S) []S { return s.([]S) }

// Head returns the leading atom of a list, or "".
func Head(s S) string {
	if l, ok := s.([]S); ok && len(l) > 0 {
		if a, ok := l[0].(string); ok {
			return a
		}
	}
	return ""
}
