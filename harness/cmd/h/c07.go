package main

// C07: the response envelope, error locations under every layout of the document, JSON text.

import (
	"bytes"
	"encoding/json"
	"fmt"
	"math/rand"
	"reflect"
	"regexp"
	"sort"
	"strings"

	"github.com/uhn/ggql/pkg/ggql"

	"verifharness/sx"
)

type c07Tok struct {
	text string
	off  int
}

func isNameByte(c byte) bool {
	return c == '_' || ('0' <= c && c <= '9') || ('a' <= c && c <= 'z') || ('A' <= c && c <= 'Z')
}

// c07Lex cuts the single-line text this harness prints into tokens.
func c07Lex(text string) []c07Tok {
	var out []c07Tok
	i := 0
	for i < len(text) {
		c := text[i]
		switch {
		case c == ' ' || c == '\n' || c == '\t' || c == '\r' || c == ',':
			i++
		case c == '"':
			j := i + 1
			for j < len(text) && text[j] != '"' {
				if text[j] == '\\' {
					j++
				}
				j++
			}
			out = append(out, c07Tok{text[i:min(j+1, len(text))], i})
			i = j + 1
		case c == '.' && strings.HasPrefix(text[i:], "..."):
			out = append(out, c07Tok{"...", i})
			i += 3
		case c == '$' || c == '@':
			j := i + 1
			for j < len(text) && isNameByte(text[j]) {
				j++
			}
			out = append(out, c07Tok{text[i:j], i})
			i = j
		case c == '-' || ('0' <= c && c <= '9'):
			j := i + 1
			for j < len(text) && strings.IndexByte("0123456789.eE+-", text[j]) >= 0 {
				j++
			}
			out = append(out, c07Tok{text[i:j], i})
			i = j
		case isNameByte(c):
			j := i + 1
			for j < len(text) && isNameByte(text[j]) {
				j++
			}
			out = append(out, c07Tok{text[i:j], i})
			i = j
		default:
			out = append(out, c07Tok{text[i : i+1], i})
			i++
		}
	}
	return out
}

// c07Layout writes the tokens in a layout and returns the text and, for every original offset of
// a token start, its line and 1-based column in the new text.
// a number literal standing as a value: after a colon, an opening bracket or a separator
var c07NumRe = regexp.MustCompile(`[:\[, \n\t]-?[0-9]+[ ,\n\r\t)\]}]`)

func c07Layout(toks []c07Tok, style int, r *rand.Rand) (string, map[int][2]int) {
	var b strings.Builder
	pos := map[int][2]int{}
	line, col := 1, 1
	write := func(s string) {
		for i := 0; i < len(s); i++ {
			if s[i] == '\n' {
				line++
				col = 1
			} else {
				col++
			}
		}
		b.WriteString(s)
	}
	depth := 0
	for i, t := range toks {
		if t.text == "}" && depth > 0 {
			depth--
		}
		if i > 0 {
			prev := toks[i-1].text
			glue := prev == "..." && false
			_ = glue
			switch style {
			case 0:
				write(" ")
			case 1:
				write("\n" + strings.Repeat("  ", depth))
			case 2:
				write("\r\n" + strings.Repeat("\t", depth))
			case 3:
				switch r.Intn(4) {
				case 0:
					write(" # " + prev + "\n")
				case 1:
					write(", ")
				case 2:
					write(" ,\n")
				default:
					write(" ")
				}
			default:
				seps := []string{" ", "\n", "\r\n", "\t", ",", " # c\n", "\n\n", "  ", "\r"}
				write(seps[r.Intn(len(seps))])
				if r.Intn(4) == 0 {
					write(seps[r.Intn(len(seps))])
				}
			}
		}
		pos[t.off] = [2]int{line, col}
		write(t.text)
		if t.text == "{" {
			depth++
		}
	}
	if style != 0 {
		write("\n")
	}
	return b.String(), pos
}

var c07NameRe = regexp.MustCompile(`^[_A-Za-z0-9$@."\-]+`)

// the token a position refers to. ggql gives the column of a token's first byte plus one for
// fields, variables, inline fragments and directives, the column of the first byte for
// arguments, and the column just behind the name for a fragment spread; all three are read here
// as "that token". ok is false when the position is not inside the text.
func c07TokenAt(text string, line, col int) (string, bool) {
	lines := strings.Split(text, "\n")
	if line < 1 || line > len(lines) || col < 0 {
		return "", false
	}
	l := strings.TrimSuffix(lines[line-1], "\r")
	if col > len(l)+1 {
		return "", false
	}
	nameAt := func(c int) string { // the name starting at 1-based column c
		if c < 1 || c > len(l) || !isNameStart(l[c-1]) || (c >= 2 && isNameByte(l[c-2])) {
			return ""
		}
		return c07NameRe.FindString(l[c-1:])
	}
	if m := nameAt(col); m != "" {
		return m, true
	}
	if m := nameAt(col + 1); m != "" {
		return m, true
	}
	if end := col - 1; end >= 1 && end <= len(l) && isNameByte(l[end-1]) && (end == len(l) || !isNameByte(l[end])) {
		i := end - 1
		for i > 0 && isNameByte(l[i-1]) {
			i--
		}
		return "<" + l[i:end], true
	}
	if col >= 1 && col <= len(l) {
		return "?" + l[col-1:col], true
	}
	return "?", true
}

func isNameStart(c byte) bool {
	return isNameByte(c) || c == '$' || c == '@' || c == '"' || c == '.' || c == '-'
}

var c07PosRe = regexp.MustCompile(`\d+:\d+`)
var c07AtomRe = regexp.MustCompile(`[^A-Za-z0-9:_\-]`)

func c07StdJSON(v interface{}, indent int) string {
	var jb bytes.Buffer
	if err := ggql.WriteJSONValue(&jb, v, indent); err != nil {
		return "write-error"
	}
	var got interface{}
	dec := json.NewDecoder(bytes.NewReader(jb.Bytes()))
	dec.UseNumber()
	if err := dec.Decode(&got); err != nil {
		return "invalid"
	}
	if dec.More() {
		return "trailing"
	}
	if !reflect.DeepEqual(got, jsonStructure(v)) {
		return "differs"
	}
	return "same"
}

// input: (exec ...sections... (layouts n...) (lseed n) (garble n))
// observed: (layouts (lay style (r keysok datakind (errs E...) (json a b c))...)...)
//
//	E = (e path loc kind (env msgok pathok locok) tok)
func c07Exec(input sx.S) (obs sx.S) {
	secs := sx.List(input)[1:]
	execNastyStrings = true
	defer func() { execNastyStrings = false }()
	if s := section(secs, "lseed"); len(s) > 0 {
		execNastySalt = sx.Int(s[0]) % len(execNasty)
	}
	defer func() { execNastySalt = 0 }()
	defer withMaxDepth(secs)()
	garble := 0
	if s := section(secs, "garble"); len(s) > 0 {
		garble = sx.Int(s[0])
	}
	execUnbind = -1
	if garble > 0 && garble%4 == 2 {
		// no damaged bytes: the first member of the union is bound to no Go type, a value of the union
		// cannot be told apart (the request is answered with an error for every such value)
		for _, t := range section(secs, "schema") {
			if sx.Head(t) == "union" {
				if ms := sx.List(sx.List(t)[2])[1:]; len(ms) > 0 {
					execUnbind = sx.Int(ms[0])
				}
			}
		}
	}
	defer func() { execUnbind = -1 }()
	typed := len(section(secs, "typedparams")) > 0
	if typed {
		execUnbind = sx.Int(section(secs, "root")[0]) // the query type is bound on first use, to c07Typed
	}
	root, w, fail := execSetup(secs)
	if fail != nil {
		return fail
	}
	if typed {
		q := sx.Int(section(secs, "root")[0])
		w.objs[q] = &c07Typed{nodeBase{id: q, w: w}}
	}
	defer func() {
		if r := recover(); r != nil {
			obs = sx.L("panic", sx.Hex(fmt.Sprint(r)))
		}
	}()
	var offsets []int
	docOffsets = &offsets
	text0, order := docText(section(secs, "doc"))
	docOffsets = nil
	toks := c07Lex(text0)
	lseed := int64(1)
	if s := section(secs, "lseed"); len(s) > 0 {
		lseed = int64(sx.Int(s[0]))
	}
	if garble > 0 && garble%4 == 0 {
		// structural damage instead of damaged bytes: the whole document twice (every operation and
		// fragment defined again: the refusal is located at a token of the second copy)
		n := len(toks)
		last := 0
		if n > 0 {
			last = toks[n-1].off + len(toks[n-1].text) + 1
		}
		for i := 0; i < n; i++ {
			toks = append(toks, c07Tok{text: toks[i].text, off: last + toks[i].off})
		}
	}
	out := []sx.S{"layouts"}
	for _, st := range section(secs, "layouts") {
		style := sx.Int(st)
		r := rand.New(rand.NewSource(lseed*31 + int64(style)))
		text, pos := c07Layout(toks, style, r)
		if garble > 0 && garble%4 != 0 && execUnbind < 0 { // a malformed request: bytes removed, doubled or replaced
			g := rand.New(rand.NewSource(int64(garble)))
			if locs := c07NumRe.FindAllStringIndex(text, -1); garble%4 == 1 && len(locs) > 0 {
				// a number that is made of number characters only and is no number, where a value stands
				// (followed by whatever the layout puts there: a space, a comma, a line break)
				l := locs[g.Intn(len(locs))]
				bad := []string{"1.2.3", "1e", "-", "1-2", "--1", "1e+", "0.0.", "1.e5e"}[g.Intn(8)]
				text = text[:l[0]+1] + bad + text[l[1]-1:]
			} else {
				text = mutateBytes(g, text)
			}
		}
		posToID := map[[2]int]int{}
		frLen := c07SpreadLens(section(secs, "doc")) // a fragment spread is positioned just behind its name
		if len(offsets) == len(order) {
			for i, off := range offsets {
				if p, ok := pos[off]; ok {
					posToID[p] = order[i]
				}
			}
		}
		er := &execRun{posToID: map[[2]int]int{}}
		for p, id := range posToID { // ggql reports the column after the first byte: start + 1
			er.posToID[[2]int{p[0], p[1] + 1 + frLen[id]}] = id
		}
		lay := []sx.S{"lay", sx.A(style)}
		for _, c := range section(secs, "calls") {
			cl := sx.List(c)
			opName := ""
			if cl[1].(string) != "-" {
				opName = "O" + cl[1].(string)
			}
			var vars map[string]interface{}
			if vs := sx.List(cl[2])[1:]; len(vs) > 0 {
				vars = map[string]interface{}{}
				for _, v := range vs {
					vl := sx.List(v)
					vars["v"+vl[0].(string)] = jsonValue(vl[1])
				}
			}
			w.calls = nil
			res := root.ResolveString(text, opName, vars)
			lay = append(lay, c07Response(er, res, text, toks, pos))
		}
		out = append(out, lay)
	}
	return out
}

func c07Response(er *execRun, res map[string]interface{}, text string, toks []c07Tok, pos map[int][2]int) sx.S {
	keysOK := true
	for k := range res {
		if k != "data" && k != "errors" {
			keysOK = false
		}
	}
	dataKind := "absent"
	if d, ok := res["data"]; ok {
		if d == nil {
			dataKind = "null"
		} else if _, ok := d.(map[string]interface{}); ok {
			dataKind = "map"
		} else {
			dataKind = "other"
		}
	}
	errs := []sx.S{}
	errsShape := "absent"
	if ev, ok := res["errors"]; ok {
		errsShape = "bad"
		if el, ok := ev.([]interface{}); ok {
			errsShape = "list"
			if len(el) == 0 {
				errsShape = "empty"
			}
			for _, e := range el {
				em, ok := e.(map[string]interface{})
				if !ok {
					errs = append(errs, sx.L("e", sx.L(), "none", "notamap", sx.L("env", "0", "0", "0"), sx.Hex("")))
					continue
				}
				msg, isStr := em["message"].(string)
				msgOK := isStr && msg != ""
				for k := range em {
					if k != "message" && k != "path" && k != "locations" && k != "extensions" {
						msgOK = false
					}
				}
				pathOK := true
				if p, has := em["path"]; has {
					pl, ok := p.([]interface{})
					if !ok {
						pathOK = false
					}
					for _, seg := range pl {
						switch t := seg.(type) {
						case string:
						case int:
							if t < 0 {
								pathOK = false
							}
						default:
							pathOK = false
						}
					}
				}
				locOK := true
				tok := ""
				raw := ""
				if ls, has := em["locations"]; has {
					ll, ok := ls.([]interface{})
					if !ok || len(ll) == 0 {
						locOK = false
					}
					for _, l := range ll {
						lm, ok := l.(map[string]interface{})
						if !ok {
							locOK = false
							continue
						}
						line, ok1 := lm["line"].(int)
						col, ok2 := lm["column"].(int)
						raw += fmt.Sprintf("%v:%v ", lm["line"], lm["column"])
						if !ok1 || !ok2 || line < 1 || col < 1 {
							locOK = false
							continue
						}
						// ggql's column is that of the token's first byte plus one (pinned by the suite)
						t, in := c07TokenAt(text, line, col-1)
						if !in { // a parse error at the start of a line points at column 1: just behind the line break it read
							_, in = c07TokenAt(text, line, col)
						}
						if !in {
							locOK = false
						}
						_ = t
						tok += c07TokenIndex(toks, pos, line, col, strings.Contains(msg, "argument")) + ";"
					}
				}
				ce := sx.List(er.canonErr(em, dataKind != "absent"))
				if k, ok := ce[3].(string); ok {
					ce[3] = c07AtomRe.ReplaceAllString(k, "_")
				}
				// the "fragment at L:C" path segment is finding F11 of C06; here a path only has to be made of
				// strings and integers, so the segment is kept without its position
				if pl, ok := ce[1].([]sx.S); ok {
					for i, seg := range pl {
						if sx.Head(seg) == "fa" {
							pl[i] = sx.L("fa")
						}
					}
				}
				// the message with its positions blanked, for comparing layouts
				blank := c07PosRe.ReplaceAllString(msg, "L:C")
				var locFlag sx.S = sx.A(locOK)
				if !locOK && strings.Contains(msg, "failed to determine union member") {
					locFlag = "u" // located at the member type's definition in the schema text
				}
				errs = append(errs, sx.L("e", ce[1], ce[2], ce[3], sx.L("env", sx.A(msgOK), sx.A(pathOK), locFlag, sx.Hex(raw)), sx.Hex(tok+"|"+blank)))
			}
		}
	}
	sort.Slice(errs, func(i, j int) bool { return sx.String(errs[i]) < sx.String(errs[j]) })
	js := []sx.S{"json"}
	for _, ind := range []int{-1, 0, 2} {
		js = append(js, c07StdJSON(res, ind))
	}
	return sx.L("r", sx.A(keysOK), dataKind, errsShape, append([]sx.S{"errs"}, errs...), js)
}

// c07Typed: an operation root found by reflection whose method for f1 takes a parameter that the
// declared argument type (String) cannot be converted to: ggql refuses the call, the field fails
type c07Typed struct{ nodeBase }

func (n *c07Typed) F1(a1 bool) (interface{}, error) {
	return n.w.reflectCall(n.id, 1, []interface{}{a1})
}
func (n *c07Typed) F2() (interface{}, error) { return n.w.reflectCall(n.id, 2, nil) }

// c07TypedCases: { f2 f1(a1: "s3") } and variations against type Query { f1(a1: String): Int f2: Int }
func c07TypedCases(r *rand.Rand) []Case {
	var out []Case
	docs := []string{
		`(f 1 - 2 (args) (dirs)) (f 2 - 1 (args (a 1 (s 3))) (dirs))`,
		`(f 1 7 1 (args (a 1 (s 4))) (dirs)) (f 2 - 2 (args) (dirs))`,
		`(f 1 - 2 (args) (dirs)) (f 2 - 1 (args (a 1 (s 3))) (dirs)) (f 3 8 1 (args (a 1 (s 5))) (dirs)) (f 4 9 2 (args) (dirs))`,
	}
	for i := 0; i < 9; i++ {
		text := `(exec (schema (leaf 10 int) (leaf 11 string) (obj 1 (fields (f 1 (n 10) (args (a 1 (n 11)))) (f 2 (n 10) (args))) (ifaces)))` +
			` (strat (1 R)) (graph (node 1 1 (field 1 (fail 0 nil)) (field 2 (const (int 5))))) (root 1 -1) (any 0)` +
			` (doc (ops (op query - (vars) ` + docs[i%len(docs)] + `)) (frags)) (calls (call - (vars)))` +
			` (layouts 0 1 2 3 4) (lseed ` + fmt.Sprint(r.Intn(1000000)) + `) (typedparams 1))`
		in, err := sx.Parse(text)
		if err != nil {
			panic(err)
		}
		out = append(out, Case{ID: fmt.Sprintf("t%d", i), Input: in, Tags: []string{"nontrivial", "reflected-method-refuses-the-argument"},
			Human: "type Query { f1(a1: String): Int f2: Int } with F1(a1 bool) found by reflection"})
	}
	return out
}

func c07Valid(input sx.S) bool {
	if !execValid(input) {
		return false
	}
	secs := sx.List(input)[1:]
	ls := section(secs, "layouts")
	if len(ls) == 0 {
		return false
	}
	for _, l := range ls {
		if n := sx.Int(l); n < 0 || n > 4 {
			return false
		}
	}
	return true
}

var profC07 = profile{pFail: 0.2, pIll: 0.1, pDir: 0.15, pAlias: 0.3, pFrag: 0.15, pInline: 0.15, pArgs: 0.8, pAny: 0.4, pBadCall: 0.2, pNullObj: 0.05, maxDepth: 4, calls: 1, fullDepth: true}

func c07Gen(r *rand.Rand, tier string) []Case {
	n := 600
	if tier == "thorough" {
		n = 12000
	}
	var out []Case
	for i := 0; i < n; i++ {
		c := genExecCase(r, &profC07, fmt.Sprintf("e%d", i))
		l := sx.List(c.Input)
		l = append(l, sx.L("layouts", "0", "1", "2", "3", "4"), sx.L("lseed", sx.A(r.Intn(1000000))))
		if i%6 == 5 {
			l = append(l, sx.L("garble", sx.A(1+r.Intn(1000000))))
			c.Tags = append(c.Tags, "malformed")
		}
		c.Input = l
		c.Tags = append(c.Tags, "nontrivial")
		out = append(out, c)
	}
	out = append(out, c07TypedCases(r)...)
	return out
}

func init() {
	props["C07"] = &Prop{Gen: c07Gen, Exec: c07Exec, Valid: c07Valid}
}

// c07SpreadLens maps the node id of every fragment spread to the length of the fragment name.
func c07SpreadLens(doc []sx.S) map[int]int {
	out := map[int]int{}
	var walk func(s sx.S)
	walk = func(s sx.S) {
		l, ok := s.([]sx.S)
		if !ok {
			return
		}
		if sx.Head(s) == "fr" && len(l) >= 3 {
			out[sx.Int(l[1])] = len("F" + l[2].(string))
			return
		}
		for _, x := range l {
			walk(x)
		}
	}
	for _, sec := range doc {
		walk(sec)
	}
	return out
}

// c07TokenIndex names the token of the document a location refers to, as index:text, the same in
// every layout. ggql gives start+1 for fields, variables, inline fragments and directives, the
// start for arguments, and the column just behind the name for a fragment spread.
func c07TokenIndex(toks []c07Tok, pos map[int][2]int, line, col int, argument bool) string {
	byStart := map[[2]int]int{}
	byEnd := map[[2]int]int{}
	for i, t := range toks {
		p, ok := pos[t.off]
		if !ok {
			continue
		}
		byStart[p] = i
		byEnd[[2]int{p[0], p[1] + len(t.text)}] = i // the column just behind the token
	}
	try := func(m map[[2]int]int, c int) string {
		if i, ok := m[[2]int{line, c}]; ok {
			return fmt.Sprintf("%d:%s", i, toks[i].text)
		}
		return ""
	}
	if s := try(byStart, col-1); s != "" {
		return s
	}
	if argument {
		if s := try(byStart, col); s != "" {
			return s
		}
	}
	if s := try(byEnd, col-1); s != "" {
		return "<" + s
	}
	if s := try(byStart, col); s != "" {
		return s
	}
	return "none"
}
