package main

// C15: printed SDL re-parses to the same schema.  A generated schema is loaded from text, then its
// descriptions and default values are replaced through the exported fields by arbitrary canonical
// descriptions and arbitrary constants; the root is printed, the text loaded into a fresh root,
// both roots dumped and printed again.

import (
	"fmt"
	"go/ast"
	"go/parser"
	"go/token"
	"io/ioutil"
	"math"
	"math/rand"
	"os"
	"os/exec"
	"path/filepath"
	"sort"
	"strconv"
	"strings"

	"github.com/uhn/ggql/pkg/ggql"

	"verifharness/sx"
)

// ---- decoration values ----

func prValFromSx(s sx.S) interface{} {
	if a, ok := s.(string); ok {
		if a == "null" {
			return nil
		}
		panic("bad value")
	}
	l := sx.List(s)
	switch l[0].(string) {
	case "s":
		return sx.Str(l[1])
	case "i":
		n, err := strconv.ParseInt(l[1].(string), 10, 64)
		if err != nil {
			panic(err)
		}
		return int32(n)
	case "I":
		n, err := strconv.ParseInt(l[1].(string), 10, 64)
		if err != nil {
			panic(err)
		}
		return n
	case "f":
		f, err := strconv.ParseFloat(sx.Str(l[1]), 64)
		if err != nil {
			panic(err)
		}
		return f
	case "b":
		return l[1].(string) == "1"
	case "y":
		return ggql.Symbol(scValName(sx.Int(l[1])))
	case "l":
		out := []interface{}{}
		for _, e := range l[1:] {
			out = append(out, prValFromSx(e))
		}
		return out
	case "O": // an object with literal keys
		out := map[string]interface{}{}
		for _, e := range l[1:] {
			kv := sx.List(e)
			out[sx.Str(kv[0])] = prValFromSx(kv[1])
		}
		return out
	case "o":
		out := map[string]interface{}{}
		for _, e := range l[1:] {
			kv := sx.List(e)
			out[scFieldName(sx.Int(kv[0]), false)] = prValFromSx(kv[1])
		}
		return out
	}
	panic("bad value kind")
}

// a canonical description: lines without white space at their ends, none empty
func prDesc(r *rand.Rand) string {
	pieces := []string{"a", "b c", "Z", "9", `"`, `\`, `""`, `"""`, `\"`, `\\`, `\n`, `A`, "é", "日本", "😀", "#", "{", "}", "\t", "x y", "'", "`", "$", "@", ":", `""""`, "\\\"\"\""}
	ends := []string{"a", "b", "Z", "9", `"`, `\`, "é", "日", "#", "}", "'", "`"}
	nl := 1
	if r.Intn(3) == 0 {
		nl = 1 + r.Intn(3)
	}
	var lines []string
	for i := 0; i < nl; i++ {
		var b strings.Builder
		b.WriteString(ends[r.Intn(len(ends))])
		for j := r.Intn(4); j > 0; j-- {
			b.WriteString(pieces[r.Intn(len(pieces))])
		}
		if r.Intn(2) == 0 {
			b.WriteString(ends[r.Intn(len(ends))])
		}
		lines = append(lines, b.String())
	}
	return strings.Join(lines, "\n")
}

func prString(r *rand.Rand) string {
	pieces := []string{"a", " ", `"`, `\`, "\n", "\r", "\t", "\b", "\f", "\x01", "\x1f", "\x7f", `"""`, "é", "日本", "😀", " ", "/", "'", "{", "$v", "#"}
	var b strings.Builder
	for j := r.Intn(6); j > 0; j-- {
		b.WriteString(pieces[r.Intn(len(pieces))])
	}
	return b.String()
}

var prCustom = map[int]bool{}

var prFloats = []float64{0, 1, -1, 1.5, -2.25, 0.1, 1e21, 1e-7, 1.0000000000000002, 0.30000000000000004, 123456789.125,
	9007199254740993, 1.7976931348623157e308, 5e-324, 2.2250738585072014e-308, 100, 1e6, 3.0}

func prConst(r *rand.Rand, t scT, inputs map[int][]scArg, depth int) sx.S {
	switch t.K {
	case 2:
		v := prConst(r, *t.Of, inputs, depth)
		if v == sx.S("null") {
			return nil
		}
		return v
	case 1:
		if r.Intn(5) == 0 {
			return "null"
		}
		out := []sx.S{"l"}
		for i := r.Intn(3); i > 0; i-- {
			e := prConst(r, *t.Of, inputs, depth+1)
			if e == nil {
				return nil
			}
			out = append(out, e)
		}
		return out
	}
	switch t.N {
	case 0:
		return sx.L("i", sx.A(r.Intn(4000)-2000))
	case 6:
		return sx.L("I", sx.A(int64(r.Intn(1000))*4294967296))
	case 1, 7:
		return sx.L("f", sx.Hex(strconv.FormatFloat(prFloats[r.Intn(len(prFloats))], 'g', -1, 64)))
	case 2, 4:
		return sx.L("s", sx.Hex(prString(r)))
	case 3:
		return sx.L("b", sx.A(r.Intn(2)))
	}
	if t.N >= 20 && inputs[t.N] == nil && prCustom[t.N] {
		// a custom scalar takes any constant: objects with keys that are and are not names
		keys := []string{"k", "да", "şehir", "a b", "1x", "k-2", "た", "é", "_ok"}
		out := []sx.S{"O"}
		for i := 1 + r.Intn(3); i > 0; i-- {
			out = append(out, sx.L(sx.Hex(keys[r.Intn(len(keys))]), sx.L("i", sx.A(r.Intn(9)))))
		}
		return out
	}
	if fs, ok := inputs[t.N]; ok && depth < 2 {
		out := []sx.S{"o"}
		for _, f := range fs {
			if r.Intn(2) == 0 {
				continue
			}
			v := prConst(r, f.T, inputs, depth+1)
			if v == nil {
				continue
			}
			out = append(out, sx.L(sx.A(f.N), v))
		}
		return out
	}
	return nil
}

// ---- dumping a root ----

func prType(t ggql.Type) string {
	if t == nil {
		return "<nil>"
	}
	return t.Name()
}

func prGo(v interface{}) string {
	switch t := v.(type) {
	case nil:
		return "nil"
	case []interface{}:
		parts := []string{}
		for _, e := range t {
			parts = append(parts, prGo(e))
		}
		return "[" + strings.Join(parts, " ") + "]"
	case map[string]interface{}:
		keys := []string{}
		for k := range t {
			keys = append(keys, k)
		}
		sort.Strings(keys)
		parts := []string{}
		for _, k := range keys {
			parts = append(parts, k+":"+prGo(t[k]))
		}
		return "{" + strings.Join(parts, " ") + "}"
	case float64:
		// a whole float may come back as an integer: the numeric value is what is compared
		if t == math.Trunc(t) && math.Abs(t) < 1e15 {
			return fmt.Sprintf("num:%d", int64(t))
		}
		return "float:" + strconv.FormatFloat(t, 'g', -1, 64)
	case float32:
		return prGo(float64(t))
	case int:
		return fmt.Sprintf("num:%d", t)
	case int32:
		return fmt.Sprintf("num:%d", t)
	case int64:
		return fmt.Sprintf("num:%d", t)
	case string:
		return fmt.Sprintf("str:%q", t)
	case ggql.Symbol:
		return "sym:" + string(t)
	case bool:
		return fmt.Sprintf("bool:%v", t)
	}
	return fmt.Sprintf("%T:%v", v, v)
}

func prDUs(dus []*ggql.DirectiveUse) string {
	var parts []string
	for _, du := range dus {
		s := "@" + prType(du.Directive)
		keys := []string{}
		for k := range du.Args {
			keys = append(keys, k)
		}
		sort.Strings(keys)
		// every argument, defaults filled in from the directive definition for the ones not given
		// (the root fills them only when the directive was known as the use was read)
		vals := map[string]interface{}{}
		for _, k := range keys {
			vals[k] = du.Args[k].Value
		}
		if dd, _ := du.Directive.(*ggql.Directive); dd != nil {
			for _, a := range dd.VerifArgs() {
				if _, has := vals[a.N]; !has {
					vals[a.N] = a.Default
					keys = append(keys, a.N)
				}
			}
			sort.Strings(keys)
		}
		for _, k := range keys {
			s += " " + k + "=" + prGo(vals[k])
		}
		parts = append(parts, s)
	}
	return strings.Join(parts, ",")
}

func prArgs(args []*ggql.Arg) string {
	var parts []string
	for _, a := range args {
		parts = append(parts, fmt.Sprintf("%s[%q]:%s=%s%s", a.N, a.Desc, prType(a.Type), prGo(a.Default), prDUs(a.Dirs)))
	}
	return "(" + strings.Join(parts, "; ") + ")"
}

func prFields(fds []*ggql.FieldDef) []string {
	var out []string
	for _, f := range fds {
		out = append(out, fmt.Sprintf("  %s[%q]%s:%s %s", f.N, f.Desc, prArgs(f.Args()), prType(f.Type), prDUs(f.Dirs)))
	}
	return out
}

func prDump(root *ggql.Root) string {
	var lines []string
	// the operation roots in force (read through the verif accessor, not through Types())
	if sch := root.VerifSchema(); sch != nil {
		lines = append(lines, "operation roots:")
		lines = append(lines, prFields(sch.Fields())...)
	}
	for _, t := range root.Types() {
		if t.Core() || scTypeID(t.Name()) < len(scCoreTypes) {
			continue
		}
		lines = append(lines, fmt.Sprintf("%T %s[%q] %s", t, t.Name(), t.Description(), prDUs(t.Directives())))
		switch tt := t.(type) {
		case *ggql.Schema:
			lines = append(lines, prFields(tt.Fields())...)
		case *ggql.Object:
			for _, i := range tt.Interfaces {
				lines = append(lines, "  implements "+i.Name())
			}
			lines = append(lines, prFields(tt.Fields())...)
		case *ggql.Interface:
			lines = append(lines, prFields(tt.Fields())...)
		case *ggql.Union:
			for _, m := range tt.Members {
				lines = append(lines, "  | "+m.Name())
			}
		case *ggql.Enum:
			for _, v := range tt.Values() {
				lines = append(lines, fmt.Sprintf("  %s[%q] %s", v.Value, v.Description, prDUs(v.Directives)))
			}
		case *ggql.Input:
			for _, f := range tt.Fields() {
				lines = append(lines, fmt.Sprintf("  %s[%q]:%s=%s %s", f.N, f.Desc, prType(f.Type), prGo(f.Default), prDUs(f.Dirs)))
			}
		}
	}
	for _, t := range root.VerifDirectives() {
		d, _ := t.(*ggql.Directive)
		if d == nil || d.Core() {
			continue
		}
		locs := []string{}
		for _, l := range d.On {
			locs = append(locs, string(l))
		}
		lines = append(lines, fmt.Sprintf("directive %s[%q]%s on %s", d.N, d.Desc, prArgs(d.VerifArgs()), strings.Join(locs, "|")))
	}
	return strings.Join(lines, "\n")
}

// ---- applying the decoration ----

func prApply(root *ggql.Root, decor []sx.S) {
	findArg := func(args []*ggql.Arg, n int) *ggql.Arg {
		for _, a := range args {
			if a.N == scArgName(n) {
				return a
			}
		}
		return nil
	}
	for _, d := range decor {
		l := sx.List(d)
		switch l[0].(string) {
		case "td":
			switch tt := root.GetType(scTypeName(sx.Int(l[1]))).(type) {
			case *ggql.Object:
				tt.Desc = sx.Str(l[2])
			case *ggql.Interface:
				tt.Desc = sx.Str(l[2])
			case *ggql.Union:
				tt.Desc = sx.Str(l[2])
			case *ggql.Enum:
				tt.Desc = sx.Str(l[2])
			case *ggql.Input:
				tt.Desc = sx.Str(l[2])
			}
		case "dd":
			if dd, _ := root.GetType(scDirName(sx.Int(l[1]))).(*ggql.Directive); dd != nil {
				dd.Desc = sx.Str(l[2])
			}
		case "fd", "ad", "adef":
			var fd *ggql.FieldDef
			switch tt := root.GetType(scTypeName(sx.Int(l[1]))).(type) {
			case *ggql.Object:
				fd = tt.GetField(scFieldName(sx.Int(l[2]), false))
			case *ggql.Interface:
				fd = tt.GetField(scFieldName(sx.Int(l[2]), false))
			case *ggql.Input:
				if l[0].(string) == "fd" {
					for _, f := range tt.Fields() {
						if f.N == scFieldName(sx.Int(l[2]), false) {
							f.Desc = sx.Str(l[3])
						}
					}
				}
			}
			if fd == nil {
				continue
			}
			switch l[0].(string) {
			case "fd":
				fd.Desc = sx.Str(l[3])
			case "ad":
				if a := findArg(fd.Args(), sx.Int(l[3])); a != nil {
					a.Desc = sx.Str(l[4])
				}
			case "adef":
				if a := findArg(fd.Args(), sx.Int(l[3])); a != nil {
					a.Default = prValFromSx(l[4])
				}
			}
		case "idef":
			if tt, _ := root.GetType(scTypeName(sx.Int(l[1]))).(*ggql.Input); tt != nil {
				for _, f := range tt.Fields() {
					if f.N == scFieldName(sx.Int(l[2]), false) {
						f.Default = prValFromSx(l[3])
					}
				}
			}
		case "vd":
			if tt, _ := root.GetType(scTypeName(sx.Int(l[1]))).(*ggql.Enum); tt != nil {
				for _, v := range tt.Values() {
					if string(v.Value) == scValName(sx.Int(l[2])) {
						v.Description = sx.Str(l[3])
					}
				}
			}
		case "dad", "ddef":
			if dd, _ := root.GetType(scDirName(sx.Int(l[1]))).(*ggql.Directive); dd != nil {
				if a := findArg(dd.VerifArgs(), sx.Int(l[2])); a != nil {
					if l[0].(string) == "dad" {
						a.Desc = sx.Str(l[3])
					} else {
						a.Default = prValFromSx(l[3])
					}
				}
			}
		default:
			panic("bad decoration")
		}
	}
}

func prFlag(b bool) sx.S {
	if b {
		return "1"
	}
	return "0"
}

// input: (print (decor D...) (descs xhex...) (docs ...))
// observed: (printed (whole parse same-schema same-text) (pertype parse same-schema) (descs (d indent xhex-printed)...) msg)
func prExec(input sx.S) (obs sx.S) {
	defer func() {
		if r := recover(); r != nil {
			obs = sx.L("panic", sx.Hex(fmt.Sprint(r)))
		}
	}()
	l := sx.List(input)
	// object constants are printed in key order, as ggqlgen does (otherwise Go's map order, which
	// differs from one print to the next)
	ggql.Sort = true
	defer func() { ggql.Sort = false }()
	root := ggql.NewRoot(nil)
	for _, d := range sx.List(l[3])[1:] {
		dl := sx.List(d)
		var items []scItem
		for _, e := range dl[2:] {
			items = append(items, scItemFromSx(e))
		}
		if err := root.ParseString(scDocText(items)); err != nil {
			return sx.L("load-failed", sx.Hex(err.Error()))
		}
	}
	prApply(root, sx.List(l[1])[1:])
	msg := ""
	text1 := root.SDL(false, true)
	dump1 := prDump(root)
	r2 := ggql.NewRoot(nil)
	whole := []sx.S{"whole"}
	if err := r2.ParseString(text1); err != nil {
		msg = "whole: " + err.Error()
		whole = append(whole, "0", "0", "0")
	} else {
		d2 := prDump(r2)
		if d2 != dump1 && msg == "" {
			msg = "whole: " + prFirstDiff(dump1, d2)
		}
		whole = append(whole, "1", prFlag(d2 == dump1), prFlag(r2.SDL(false, true) == text1))
	}
	// the per-type printed form, which is what ggqlgen -w / -e write
	var b strings.Builder
	for _, t := range root.Types() {
		if !t.Core() {
			b.WriteString("\n")
			b.WriteString(t.SDL(true))
		}
	}
	for _, t := range root.VerifDirectives() {
		if !t.Core() {
			b.WriteString("\n")
			b.WriteString(t.SDL(true))
		}
	}
	r3 := ggql.NewRoot(nil)
	per := []sx.S{"pertype"}
	if err := r3.ParseString(b.String()); err != nil {
		if msg == "" {
			msg = "pertype: " + err.Error()
		}
		per = append(per, "0", "0")
	} else {
		d3 := prDump(r3)
		if d3 != dump1 && msg == "" {
			msg = "pertype: " + prFirstDiff(dump1, d3)
		}
		per = append(per, "1", prFlag(d3 == dump1))
	}
	// descriptions one by one, at the three indentations, as the library prints them
	descs := []sx.S{"descs"}
	for _, d := range sx.List(l[2])[1:] {
		s := sx.Str(d)
		sc := &ggql.Scalar{Base: ggql.Base{N: "S", Desc: s}}
		descs = append(descs, sx.L("d", "0", sx.Hex(sc.SDL(true))))
		o := &ggql.Object{Base: ggql.Base{N: "O"}}
		fd := &ggql.FieldDef{Base: ggql.Base{N: "f", Desc: s}, Type: &ggql.Ref{Base: ggql.Base{N: "Int"}}}
		_ = fd.AddArg(&ggql.Arg{Base: ggql.Base{N: "a", Desc: s}, Type: &ggql.Ref{Base: ggql.Base{N: "Int"}}})
		_ = o.AddField(fd)
		descs = append(descs, sx.L("d", "1", sx.Hex(o.SDL(true))))
	}
	gen := prGgqlgen(text1, dump1, &msg)
	return sx.L("printed", whole, per, gen, descs, sx.Hex(msg))
}

// prGgqlgen writes the printed schema to a file and lets the ggqlgen binary built from the working
// tree rewrite it (-w) and embed it (-e); both results must load and define the same schema.
func prGgqlgen(text, dump string, msg *string) sx.S {
	note := func(m string) {
		if *msg == "" {
			*msg = m
		}
	}
	self, _ := os.Executable()
	bin := filepath.Join(filepath.Dir(self), "ggqlgen")
	if b := os.Getenv("GGQLGEN_BIN"); b != "" {
		bin = b
	}
	if _, err := os.Stat(bin); err != nil {
		note("ggqlgen binary missing: " + bin)
		return sx.L("ggqlgen", "0", "0")
	}
	dir, err := ioutil.TempDir(os.Getenv("VERIF_WORK"), "c15-")
	if err != nil {
		note("tempdir: " + err.Error())
		return sx.L("ggqlgen", "0", "0")
	}
	defer os.RemoveAll(dir)
	same := func(sdl string, what string) sx.S {
		r := ggql.NewRoot(nil)
		if err := r.ParseString(sdl); err != nil {
			note(what + ": " + err.Error())
			return "0"
		}
		if d := prDump(r); d != dump {
			note(what + ": " + prFirstDiff(dump, d))
			return "0"
		}
		return "1"
	}
	file := filepath.Join(dir, "schema.graphql")
	_ = ioutil.WriteFile(file, []byte(text), 0600)
	var w, e sx.S = "0", "0"
	if out, err := exec.Command(bin, "-w", file).CombinedOutput(); err != nil {
		note("ggqlgen -w: " + string(out))
	} else if b, err := ioutil.ReadFile(file); err == nil {
		w = same(string(b), "ggqlgen -w")
	}
	_ = ioutil.WriteFile(file, []byte(text), 0600)
	emb := filepath.Join(dir, "emb.go")
	if out, err := exec.Command(bin, "-p", "x", "-e", file+":"+emb+":Sdl", file).CombinedOutput(); err != nil {
		note("ggqlgen -e: " + string(out))
	} else if b, err := ioutil.ReadFile(emb); err == nil {
		// read the constant as a Go compiler would
		fset := token.NewFileSet()
		f, perr := parser.ParseFile(fset, emb, b, parser.AllErrors)
		lit := ""
		if perr == nil {
			// the value of the constant: string literals joined by +
			var eval func(x ast.Expr) string
			eval = func(x ast.Expr) string {
				switch t := x.(type) {
				case *ast.BasicLit:
					v, _ := strconv.Unquote(t.Value)
					return v
				case *ast.BinaryExpr:
					return eval(t.X) + eval(t.Y)
				case *ast.ParenExpr:
					return eval(t.X)
				}
				return ""
			}
			ast.Inspect(f, func(n ast.Node) bool {
				if vs, ok := n.(*ast.ValueSpec); ok && len(vs.Values) == 1 && lit == "" {
					lit = eval(vs.Values[0])
				}
				return true
			})
		}
		if perr != nil {
			note("ggqlgen -e: the embedded file is not Go: " + perr.Error())
		} else {
			e = same(lit, "ggqlgen -e")
		}
	}
	return sx.L("ggqlgen", w, e)
}

func prFirstDiff(a, b string) string {
	al, bl := strings.Split(a, "\n"), strings.Split(b, "\n")
	for i := 0; i < len(al) && i < len(bl); i++ {
		if al[i] != bl[i] {
			return fmt.Sprintf("before %q after %q", al[i], bl[i])
		}
	}
	return fmt.Sprintf("line counts %d %d", len(al), len(bl))
}

func prValid(input sx.S) bool {
	l := sx.List(input)
	if len(l) != 4 || l[0].(string) != "print" || sx.Head(l[1]) != "decor" || sx.Head(l[2]) != "descs" {
		return false
	}
	for _, d := range sx.List(l[1])[1:] {
		dl := sx.List(d)
		switch dl[0].(string) {
		case "td", "dd":
			if len(dl) != 3 || !prCanonical(sx.Str(dl[2])) {
				return false
			}
		case "fd", "vd", "dad":
			if len(dl) != 4 || !prCanonical(sx.Str(dl[3])) {
				return false
			}
		case "ad":
			if len(dl) != 5 || !prCanonical(sx.Str(dl[4])) {
				return false
			}
		case "adef":
			if len(dl) != 5 {
				return false
			}
			prValFromSx(dl[4])
		case "idef", "ddef":
			if len(dl) != 4 {
				return false
			}
			prValFromSx(dl[3])
		default:
			return false
		}
	}
	for _, d := range sx.List(l[2])[1:] {
		if !prCanonical(sx.Str(d)) {
			return false
		}
	}
	return scValid(l[3])
}

// every line non-empty, no (ASCII or Unicode) white space at its ends, no NUL
func prCanonical(s string) bool {
	if s == "" || strings.ContainsRune(s, 0) {
		return false
	}
	for _, line := range strings.Split(s, "\n") {
		if line == "" || strings.TrimSpace(line) != line {
			return false
		}
	}
	return true
}

func c15Gen(r *rand.Rand, tier string) []Case {
	n := 100
	if tier == "thorough" {
		n = 1000
	}
	var out []Case
	for i := 0; i < n; i++ {
		w := scWellFormed(r, 1+r.Intn(3))
		inputs := map[int][]scArg{}
		prCustom = map[int]bool{}
		for _, it := range w {
			if it.K == kInput {
				inputs[it.N] = it.Inputs
			}
			if it.K == kScalar {
				prCustom[it.N] = true
			}
		}
		decor := []sx.S{"decor"}
		descs := []sx.S{"descs"}
		desc := func() sx.S {
			d := prDesc(r)
			if !prCanonical(d) {
				d = "x"
			}
			if len(descs) < 6 {
				descs = append(descs, sx.Hex(d))
			}
			return sx.Hex(d)
		}
		for _, it := range w {
			if it.K == kSchema || it.K == kScalar {
				continue
			}
			if it.K == kDirective {
				if r.Intn(3) == 0 {
					decor = append(decor, sx.L("dd", sx.A(it.N), desc()))
				}
				for _, a := range it.Inputs {
					if r.Intn(3) == 0 {
						decor = append(decor, sx.L("dad", sx.A(it.N), sx.A(a.N), desc()))
					}
				}
				continue
			}
			if r.Intn(3) == 0 {
				decor = append(decor, sx.L("td", sx.A(it.N), desc()))
			}
			for _, f := range it.Fields {
				if r.Intn(3) == 0 {
					decor = append(decor, sx.L("fd", sx.A(it.N), sx.A(f.N), desc()))
				}
				for _, a := range f.Args {
					if r.Intn(3) == 0 {
						decor = append(decor, sx.L("ad", sx.A(it.N), sx.A(f.N), sx.A(a.N), desc()))
					}
					if r.Intn(2) == 0 && len(it.Ifaces) == 0 && it.K == kObject {
						if v := prConst(r, a.T, inputs, 0); v != nil && v != sx.S("null") {
							decor = append(decor, sx.L("adef", sx.A(it.N), sx.A(f.N), sx.A(a.N), v))
						}
					}
				}
			}
			for _, v := range it.Vals {
				if r.Intn(3) == 0 {
					decor = append(decor, sx.L("vd", sx.A(it.N), sx.A(v.N), desc()))
				}
			}
			if it.K == kInput {
				for _, f := range it.Inputs {
					if r.Intn(3) == 0 {
						decor = append(decor, sx.L("fd", sx.A(it.N), sx.A(f.N), desc()))
					}
					if r.Intn(2) == 0 {
						if v := prConst(r, f.T, inputs, 0); v != nil && v != sx.S("null") {
							decor = append(decor, sx.L("idef", sx.A(it.N), sx.A(f.N), v))
						}
					}
				}
			}
		}
		input := sx.L("print", decor, descs, sx.L("docs", scDocSx("ok", w)))
		out = append(out, Case{ID: fmt.Sprintf("p%d", i), Input: input, Tags: []string{"nontrivial"}, Human: scDocText(w)})
	}
	// a directive argument of a recursive input object type, with defaults on both: the printed
	// default must not pick up the defaults of the input type (it would grow on every reload)
	for i := 0; i < 3; i++ {
		obj := func(n int64) *scV { return &scV{K: "o", F: []int{10}, L: []scV{{K: "i", I: n}}} }
		in := scItem{K: kInput, N: 30, Inputs: []scArg{{N: 10, T: scT{N: 0}, Def: &scV{K: "i", I: 1}}, {N: 11, T: scT{N: 30}, Def: obj(int64(5 + i))}}}
		d := scItem{K: kDirective, N: 10, Inputs: []scArg{{N: 10, T: scT{N: 30}, Def: obj(2)}}, Locs: []int{9}}
		use := scDU{N: 10}
		if i > 0 {
			use.Args = []scAV{{N: 10, V: *obj(int64(7 + i))}}
		}
		q := scItem{K: kObject, N: 10, Fields: []scField{{N: 10, T: scT{N: 0}}}, Dirs: []scDU{use}}
		w := []scItem{in, d, q}
		if i == 2 {
			w = []scItem{q, d, in}
		}
		input := sx.L("print", sx.L("decor"), sx.L("descs"), sx.L("docs", scDocSx("ok", w)))
		out = append(out, Case{ID: fmt.Sprintf("precur%d", i), Input: input, Tags: []string{"nontrivial", "recursive-input-default"}, Human: scDocText(w)})
	}
	return out
}

func init() {
	props["C15"] = &Prop{Gen: c15Gen, Exec: prExec, Valid: prValid}
}
