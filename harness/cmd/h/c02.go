package main

// C02: the same schema, data and request under the resolver strategies: interface resolvers (R),
// the root AnyResolver over plain values (A), reflection over Go methods (F, zoo_f_gen.go), and
// mixtures; with and without explicit RegisterType.

import (
	"fmt"
	"math/rand"
	"reflect"
	"strconv"
	"strings"

	"github.com/uhn/ggql/pkg/ggql"

	"verifharness/sx"
)

// reflectCall is what the methods of the F types do: rebuild the argument map from the positions
// (every declared argument is supplied in the common feature set) and answer like a resolver.
func (w *world) reflectCall(id int, field int, pos []interface{}) (interface{}, error) {
	n := w.nodes[id]
	args := map[string]interface{}{}
	if n != nil {
		order := w.decl[[2]int{n.gotype, field}]
		if ro, ok := w.regOrder[[2]int{n.gotype, field}]; ok {
			order = ro // the Go parameter order given to RegisterField
		}
		for i, a := range order {
			if i < len(pos) {
				args["a"+strconv.Itoa(a)] = pos[i]
			}
		}
	}
	v, err := w.resolve(id, &ggql.Field{Name: "f" + strconv.Itoa(field)}, args)
	if n != nil && w.strat3[n.gotype] == 'V' && w.objField[[2]int{n.gotype, field}] && (id+field)%2 == 0 {
		// the struct itself instead of a pointer to it, where an object type is declared (under an
		// abstract type ggql tells the GraphQL type by the Go type that was registered: the pointer)
		if rv := reflect.ValueOf(v); rv.Kind() == reflect.Ptr && !rv.IsNil() && rv.Elem().Kind() == reflect.Struct && strings.HasPrefix(rv.Elem().Type().Name(), "V") {
			v = rv.Elem().Interface()
		}
	}
	return typedSlice(v), err
}

// typedSlice turns a list whose elements are all pointers of one Go type into a slice of that
// type ([]*F20 instead of []interface{}): the shape a Go program naturally returns
func typedSlice(v interface{}) interface{} {
	l, ok := v.([]interface{})
	if ok && len(l) == 0 {
		// an empty list the way a Go program has it when it appended nothing: a nil typed slice
		return []*F20(nil)
	}
	if !ok || len(l) < 2 {
		return v
	}
	t := reflect.TypeOf(l[0])
	if t == nil || t.Kind() != reflect.Ptr {
		return v
	}
	for _, e := range l {
		if reflect.TypeOf(e) != t {
			return v
		}
	}
	out := reflect.MakeSlice(reflect.SliceOf(t), 0, len(l))
	for _, e := range l {
		out = reflect.Append(out, reflect.ValueOf(e))
	}
	return out.Interface()
}

type c02SchemaObj struct {
	w    *world
	q, m int
}

// the schema-level object under reflection: a struct with Query and Mutation fields
type c02ReflectRoot struct {
	Query    interface{}
	Mutation interface{}
}

// input: (exec ... (assignments (asg reg (type strat)...)...))
// observed: (runs (run data errpaths)...) one run per assignment and call
func c02Exec(input sx.S) (obs sx.S) {
	secs := sx.List(input)[1:]
	out := []sx.S{"runs"}
	for _, asg := range section(secs, "assignments") {
		al := sx.List(asg)
		register := al[1].(string) != "0"
		regFields := al[1].(string) == "2" || al[1].(string) == "3"
		lateFields := al[1].(string) == "3" // RegisterField after the fields were bound by a first round of the calls
		strat := map[int]byte{}
		anyUsed, reflUsed := false, false
		for _, p := range al[2:] {
			pl := sx.List(p)
			c := pl[1].(string)[0]
			strat[sx.Int(pl[0])] = c
			if c == 'A' {
				anyUsed = true
			}
			if c == 'F' || c == 'G' || c == 'M' || c == 'V' {
				reflUsed = true
			}
		}
		out = append(out, c02Run(secs, strat, register, regFields, lateFields, anyUsed, reflUsed))
	}
	return out
}

func c02Run(secs []sx.S, strat map[int]byte, register, regFields, lateFields, anyUsed, reflUsed bool) (obs sx.S) {
	defer func() {
		if r := recover(); r != nil {
			obs = sx.L("panic", sx.Hex(fmt.Sprint(r)))
		}
	}()
	// the world as in execSetup, with the assignment of this run
	w := &world{nodes: map[int]*gnode{}, strat: map[int]bool{}, objs: map[int]interface{}{}, decl: map[[2]int][]int{}, strat3: strat, regOrder: map[[2]int][]int{}, objField: map[[2]int]bool{}, filled: map[int]bool{}}
	for _, n := range section(secs, "graph") {
		nl := sx.List(n)
		gn := &gnode{gotype: sx.Int(nl[2]), fields: map[int]behav{}}
		for _, f := range nl[3:] {
			fl := sx.List(f)
			bl := sx.List(fl[2])
			b := behav{kind: sx.Head(fl[2])}
			switch b.kind {
			case "const":
				b.v = bl[1]
			case "fail":
				b.k = sx.Int(bl[1])
				b.v = bl[2]
			case "echo":
				b.k = sx.Int(bl[1])
			}
			gn.fields[sx.Int(fl[1])] = b
		}
		w.nodes[sx.Int(nl[1])] = gn
	}
	types := section(secs, "schema")
	for _, t := range types {
		if sx.Head(t) != "obj" {
			continue
		}
		tl := sx.List(t)
		for _, f := range sx.List(tl[2])[1:] {
			fl := sx.List(f)
			var names []int
			for _, a := range sx.List(fl[3])[1:] {
				names = append(names, sx.Int(sx.List(a)[1]))
			}
			w.decl[[2]int{sx.Int(tl[1]), sx.Int(fl[1])}] = names
			// a field whose type is a plain (possibly non-null) object type
			ft := fl[2]
			if sx.Head(ft) == "nn" {
				ft = sx.List(ft)[1]
			}
			if sx.Head(ft) == "n" {
				for _, t2 := range types {
					if sx.Head(t2) == "obj" && sx.List(t2)[1].(string) == sx.List(ft)[1].(string) {
						w.objField[[2]int{sx.Int(tl[1]), sx.Int(fl[1])}] = true
					}
				}
			}
		}
	}
	rt := section(secs, "root")
	q, m := sx.Int(rt[0]), sx.Int(rt[1])
	var rootObj interface{}
	if strat[1] == 'F' && (m < 0 || strat[2] == 'F' || strat[2] == 0) {
		// a reflection root: a struct whose Query / Mutation fields hold the operation roots
		rr := &c02ReflectRoot{Query: w.obj(q)}
		if m >= 0 {
			rr.Mutation = w.obj(m)
		}
		rootObj = rr
	} else {
		rootObj = &execSchemaObj{w: w, q: q, m: m}
	}
	root := ggql.NewRoot(rootObj)
	if err := root.ParseString(schemaText(types)); err != nil {
		return sx.L("schema-error", sx.Hex(err.Error()))
	}
	if anyUsed {
		root.AnyResolver = &anyRes{w: w}
	}
	if register {
		for _, t := range types {
			if sx.Head(t) == "obj" {
				id := sx.Int(sx.List(t)[1])
				if err := root.RegisterType(w.sample(id), typeName(id)); err != nil {
					return sx.L("register-error", sx.Hex(err.Error()))
				}
			}
		}
	}
	registerFields := func() sx.S {
		// explicit field registration with the Go parameters in the reverse of the SDL order
		for key, names := range w.decl {
			if strat[key[0]] != 'F' || len(names) < 2 {
				continue
			}
			rev := make([]int, len(names))
			strs := make([]string, len(names))
			for i, n := range names {
				rev[len(names)-1-i] = n
			}
			for i, n := range rev {
				strs[i] = "a" + strconv.Itoa(n)
			}
			if err := root.RegisterField(typeName(key[0]), "f"+strconv.Itoa(key[1]), "F"+strconv.Itoa(key[1]), strs...); err != nil {
				return sx.L("register-error", sx.Hex(err.Error()))
			}
			w.regOrder[key] = rev
		}
		return nil
	}
	if regFields && !lateFields {
		if e := registerFields(); e != nil {
			return e
		}
	}
	text, _ := docText(section(secs, "doc"))
	if lateFields {
		// the fields are bound on first use by a round of the same calls, then registered another way
		for _, c := range section(secs, "calls") {
			cl := sx.List(c)
			opName := ""
			if cl[1].(string) != "-" {
				opName = "O" + cl[1].(string)
			}
			var vars map[string]interface{}
			if vs := sx.List(cl[2])[1:]; len(vs) > 0 {
				vars = map[string]interface{}{}
				for _, v := range vs {
					vl := sx.List(v)
					vars["v"+vl[0].(string)] = jsonValue(vl[1])
				}
			}
			_ = root.ResolveString(text, opName, vars)
		}
		if e := registerFields(); e != nil {
			return e
		}
	}
	runs := []sx.S{"run"}
	for _, c := range section(secs, "calls") {
		cl := sx.List(c)
		opName := ""
		if cl[1].(string) != "-" {
			opName = "O" + cl[1].(string)
		}
		var vars map[string]interface{}
		if vs := sx.List(cl[2])[1:]; len(vs) > 0 {
			vars = map[string]interface{}{}
			for _, v := range vs {
				vl := sx.List(v)
				vars["v"+vl[0].(string)] = jsonValue(vl[1])
			}
		}
		w.calls = nil
		res := root.ResolveString(text, opName, vars)
		er := &execRun{posToID: map[[2]int]int{}}
		paths := []sx.S{}
		if el, ok := res["errors"].([]interface{}); ok {
			for _, e := range el {
				if em, ok := e.(map[string]interface{}); ok {
					ce := sx.List(er.canonErr(em, true))
					if pl, ok := ce[1].([]sx.S); ok {
						for i, seg := range pl {
							if sx.Head(seg) == "fa" {
								pl[i] = sx.L("fa")
							}
						}
					}
					paths = append(paths, ce[1])
				}
			}
		}
		var data sx.S = "nodata"
		if d, ok := res["data"]; ok && d != nil {
			data = canonData(d)
		}
		runs = append(runs, sx.L("resp", data, sortSexps(paths)))
	}
	return runs
}

// sample is a value of the Go type that stands for object type id under the current assignment
func (w *world) sample(id int) interface{} {
	switch w.strat3[id] {
	case 'G':
		o, _ := newStructObj(w, -1, id)
		return o
	case 'F':
		return newReflectObj(w, -1, id)
	case 'V':
		return newValueObj(w, -1, id, true)
	case 'A':
		return newNodeObj(w, -1, id, false)
	}
	return newNodeObj(w, -1, id, true)
}

func c02Valid(input sx.S) bool {
	if !execValid(input) {
		return false
	}
	secs := sx.List(input)[1:]
	as := section(secs, "assignments")
	if len(as) == 0 {
		return false
	}
	for _, a := range as {
		al := sx.List(a)
		if len(al) < 2 || sx.Head(a) != "asg" {
			return false
		}
		for _, p := range al[2:] {
			pl := sx.List(p)
			if c := pl[1].(string); c != "R" && c != "A" && c != "F" && c != "G" && c != "M" && c != "V" {
				return false
			}
		}
	}
	return true
}

var profC02 = profile{noWrongType: true, pFail: 0.08, pIll: 0, pDir: 0.2, pAlias: 0.3, pFrag: 0.15, pInline: 0.15, pArgs: 0.7, pAny: 0, pBadCall: 0, pNullObj: 0.05, maxDepth: 4, calls: 1}

func c02Gen(r *rand.Rand, tier string) []Case {
	n := 400
	if tier == "thorough" {
		n = 8000
	}
	genCommon = true
	defer func() { genCommon = false }()
	var out []Case
	for i := 0; i < n; i++ {
		c := genExecCase(r, &profC02, fmt.Sprintf("g%d", i))
		secs := sx.List(c.Input)[1:]
		var objs []int
		for _, t := range section(secs, "schema") {
			if sx.Head(t) == "obj" {
				objs = append(objs, sx.Int(sx.List(t)[1]))
			}
		}
		all := func(c string, reg int) sx.S {
			a := []sx.S{"asg", sx.A(reg)}
			for _, o := range objs {
				a = append(a, sx.L(sx.A(o), c))
			}
			return a
		}
		mix := func(cs string, reg int) sx.S {
			a := []sx.S{"asg", sx.A(reg)}
			for _, o := range objs {
				a = append(a, sx.L(sx.A(o), string(cs[r.Intn(len(cs))])))
			}
			return a
		}
		// bindings discovered on first use cannot serve abstract types on a cold root (the documentation
		// asks for RegisterType there): with an interface or union in the schema every assignment registers
		disc := 0
		for _, t := range section(secs, "schema") {
			if sx.Head(t) == "iface" || sx.Head(t) == "union" {
				disc = 1
			}
		}
		asg := []sx.S{"assignments", all("R", 1), all("A", 1), all("F", 1), all("F", disc), mix("RA", 1), mix("RF", 1), mix("RF", disc), all("F", 2), all("F", 3)}
		// reflection over struct fields (promoted from an embedded struct) for the object types that
		// declare no arguments and whose data is constant; reflection over methods for the others
		elig := map[int]bool{}
		for _, t := range section(secs, "schema") {
			if sx.Head(t) == "obj" && !strings.Contains(sx.String(t), "(a ") {
				elig[sx.Int(sx.List(t)[1])] = true
			}
		}
		for _, nd := range section(secs, "graph") {
			nl := sx.List(nd)
			for _, f := range nl[3:] {
				if fl := sx.List(f); sx.Head(fl[2]) != "const" || sx.Int(fl[1]) > 8 {
					delete(elig, sx.Int(nl[2]))
				}
			}
		}
		if len(elig) > 0 {
			for _, reg := range []int{1, disc} {
				a := []sx.S{"asg", sx.A(reg)}
				for _, o := range objs {
					if elig[o] {
						a = append(a, sx.L(sx.A(o), "G"))
					} else {
						a = append(a, sx.L(sx.A(o), "F"))
					}
				}
				asg = append(asg, a)
			}
			c.Tags = append(c.Tags, "struct-field-reflection")
		}
		// reflection over methods with value receivers, the values of a type being struct values and
		// pointers side by side (registered as pointers, or discovered on first use)
		asg = append(asg, all("V", 1), all("V", disc))
		if disc == 0 {
			// the values of every type alternate between the Resolver interface and reflection (bindings
			// discovered on first use; without abstract types no registration is needed)
			asg = append(asg, all("M", 0))
			c.Tags = append(c.Tags, "strategies-mixed-within-a-type")
		}
		c.Input = append(sx.List(c.Input), asg)
		c.Tags = append(c.Tags, "nontrivial")
		out = append(out, c)
	}
	return out
}

func init() {
	props["C02"] = &Prop{Gen: c02Gen, Exec: c02Exec, Valid: c02Valid}
}
