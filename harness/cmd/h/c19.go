package main

// C19: histories over {subscribe, publish, unsubscribe} on the real registry.

import (
	"fmt"
	"math/rand"
	"sort"
	"strconv"
	"strings"
	"sync"

	"github.com/uhn/ggql/pkg/ggql"

	"verifharness/sx"
)

const c19SDL = `
type Query { x: Int }
type Subscription { w(p: Int, s: String, u: Int): Ev }
type Ev { f0: Int f1: Int f2: Int f3: Int k: Int }
`

// the schema of the (frag) histories: the subscribed field is reached through a fragment on an interface
// that Query implements too, with another (covariant) type for the field
const c19FragSDL = `
interface EvI { f0: Int f1: Int f2: Int f3: Int k: Int }
interface W { w(p: Int, s: String, u: Int): EvI }
type Ev implements EvI { f0: Int f1: Int f2: Int f3: Int k: Int }
type Ev2 implements EvI { f0: Int f1: Int f2: Int f3: Int k: Int }
type Query implements W { x: Int w(p: Int, s: String, u: Int): Ev2 }
type Subscription implements W { w(p: Int, s: String, u: Int): Ev }
`

// c19FragQuery answers Query.w with a value of type Ev2
type c19FragQuery struct{}
type c19Ev2 struct{}

func (q *c19FragQuery) Resolve(f *ggql.Field, _ map[string]interface{}) (interface{}, error) {
	if f.Name == "w" {
		return &c19Ev2{}, nil
	}
	return 0, nil
}
func (e *c19Ev2) Resolve(f *ggql.Field, _ map[string]interface{}) (interface{}, error) { return 0, nil }

type regLog struct {
	mu    sync.Mutex
	del   []sx.S
	clean []int
}

type hsub struct {
	uid   int
	pat   int // -1 = wildcard
	sched []bool
	log   *regLog
}

func (s *hsub) Send(v interface{}) error {
	fail := false
	if len(s.sched) > 0 {
		fail = s.sched[0]
		s.sched = s.sched[1:]
	}
	s.log.mu.Lock()
	s.log.del = append(s.log.del, sx.L(sx.A(s.uid), msgOf(v), sx.A(!fail)))
	s.log.mu.Unlock()
	if fail {
		return fmt.Errorf("send failed")
	}
	return nil
}

func (s *hsub) Match(id string) bool { return s.pat < 0 || id == "e"+strconv.Itoa(s.pat) }
func (s *hsub) Unsubscribe() {
	s.log.mu.Lock()
	s.log.clean = append(s.log.clean, s.uid)
	s.log.mu.Unlock()
}

// gsub is one Subscriber value behind several subscriptions (a connection that subscribes more than once
// to a topic, each time with its own selection): Match is the connection's, a message is handed to the
// subscription it was made for (told by the alias u<uid> the request puts into its selection), and a
// clean-up call cannot tell for which subscription it is made: it is logged under the connection (1000+pattern+1).
type gsub struct {
	pat     int
	members map[int]*hsub
	log     *regLog
}

func (g *gsub) Match(id string) bool { return g.pat < 0 || id == "e"+strconv.Itoa(g.pat) }
func (g *gsub) Unsubscribe() {
	g.log.mu.Lock()
	g.log.clean = append(g.log.clean, 1000+g.pat+1)
	g.log.mu.Unlock()
}
func (g *gsub) Send(v interface{}) error {
	m, _ := v.(map[string]interface{})
	rest := map[string]interface{}{}
	var h *hsub
	for k, x := range m {
		if strings.HasPrefix(k, "u") {
			uid, _ := strconv.Atoi(k[1:])
			h = g.members[uid]
			continue
		}
		rest[k] = x
	}
	if h == nil {
		g.log.mu.Lock()
		g.log.del = append(g.log.del, sx.L("0", sx.L("unaddressed"), "1"))
		g.log.mu.Unlock()
		return nil
	}
	return h.Send(rest)
}

var c19Share = false

// msgOf canonicalises a delivered message: (field index, value) sorted by index.
func msgOf(v interface{}) sx.S {
	m, ok := v.(map[string]interface{})
	if !ok {
		return sx.L("notmap", fmt.Sprintf("%T", v))
	}
	keys := make([]string, 0, len(m))
	for k := range m {
		keys = append(keys, k)
	}
	sort.Strings(keys)
	out := []sx.S{}
	for _, k := range keys {
		val := "null"
		switch t := m[k].(type) {
		case int32:
			val = strconv.Itoa(int(t))
		case int:
			val = strconv.Itoa(t)
		case int64:
			val = strconv.FormatInt(t, 10)
		case nil:
		default:
			val = fmt.Sprintf("?%T", t)
		}
		if k == "k" {
			k = "99" // the extra field of the (reuse) requests
		}
		out = append(out, sx.L(strings.TrimPrefix(k, "f"), val))
	}
	return out
}

type evObj struct {
	vals []int
	bad  []bool // the field's resolution fails on this event
}

func (e *evObj) Resolve(f *ggql.Field, _ map[string]interface{}) (interface{}, error) {
	i, err := strconv.Atoi(strings.TrimPrefix(f.Name, "f"))
	if f.Name == "k" {
		return 0, nil
	}
	if err != nil || i >= len(e.vals) {
		return nil, fmt.Errorf("no field %s", f.Name)
	}
	if i < len(e.bad) && e.bad[i] {
		return nil, fmt.Errorf("field %s fails on this event", f.Name)
	}
	return e.vals[i], nil
}

// evOf reads the values of an event: integers, or null for a field whose resolution fails
func evOf(vals sx.S) *evObj {
	ev := &evObj{}
	for _, x := range sx.List(vals) {
		if a, ok := x.(string); ok && a == "null" {
			ev.vals = append(ev.vals, 0)
			ev.bad = append(ev.bad, true)
		} else {
			ev.vals = append(ev.vals, sx.Int(x))
			ev.bad = append(ev.bad, false)
		}
	}
	return ev
}

type subRootObj struct {
	log    *regLog
	groups map[int]*gsub // share mode: pattern -> the connection subscribed to it
}

func (s *subRootObj) Resolve(f *ggql.Field, args map[string]interface{}) (interface{}, error) {
	p, _ := args["p"].(int32)
	u, _ := args["u"].(int32)
	if p == 77777 {
		return nil, fmt.Errorf("no such topic") // a sibling field of the request that cannot be subscribed to
	}
	sc, _ := args["s"].(string)
	h := &hsub{uid: int(u), pat: int(p), log: s.log}
	for _, c := range sc {
		h.sched = append(h.sched, c == '1')
	}
	if s.groups != nil {
		g := s.groups[h.pat]
		if g == nil {
			g = &gsub{pat: h.pat, members: map[int]*hsub{}, log: s.log}
			s.groups[h.pat] = g
		}
		g.members[h.uid] = h
		return ggql.NewSubscription(g, f, args), nil
	}
	return ggql.NewSubscription(h, f, args), nil
}

type c19Schema struct {
	Query        *struct{}
	Subscription *subRootObj
	FQ           *c19FragQuery
}

func (s *c19Schema) Resolve(f *ggql.Field, _ map[string]interface{}) (interface{}, error) {
	switch f.Name {
	case "subscription":
		return s.Subscription, nil
	case "query":
		if s.FQ != nil {
			return s.FQ, nil
		}
		return s.Query, nil
	}
	return nil, nil
}

func c19Exec(input sx.S) (obs sx.S) {
	defer func() {
		if r := recover(); r != nil {
			obs = sx.L("panic")
		}
	}()
	log := &regLog{}
	sro := &subRootObj{log: log}
	frag := false
	for _, o := range sx.List(input)[1:] {
		if sx.Head(o) == "frag" {
			frag = true
		}
	}
	sch := &c19Schema{Subscription: sro}
	sdl := c19SDL
	if frag {
		sch.FQ = &c19FragQuery{}
		sdl = c19FragSDL
	}
	root := ggql.NewRoot(sch)
	if err := root.ParseString(sdl); err != nil {
		return sx.L("schema-error", sx.Hex(err.Error()))
	}
	outs := []sx.S{}
	// (reuse): from here on subscription requests of one shape are parsed once and the parsed
	// executable is resolved again for every further subscriber, its arguments given as variables
	reuse := false
	parsed := map[string]*ggql.Executable{}
	for _, o := range sx.List(input)[1:] {
		ol := sx.List(o)
		log.del, log.clean = nil, nil
		switch sx.Head(o) {
		case "reuse":
			reuse = true
		case "share":
			sro.groups = map[int]*gsub{}
			c19Share = true
			defer func() { c19Share = false }()
		case "frag":
		case "sub":
			var res map[string]interface{}
			if frag {
				// one parsed document holds the subscription and a query that share a fragment on the
				// interface W; the query is resolved on the same executable right after the subscription
				text, vars := subRequestFrag(ol[1:])
				exe := parsed[text]
				if exe == nil {
					var err error
					if exe, err = root.ParseExecutableString(text); err != nil {
						outs = append(outs, sx.L("rsub-unexpected", sx.Hex(err.Error())))
						continue
					}
					parsed[text] = exe
				}
				res = map[string]interface{}{}
				if data, err := root.ResolveExecutable(exe, "S", vars); err != nil {
					res["errors"] = err.Error()
				} else if data != nil {
					res["data"] = data
				}
				if _, err := root.ResolveExecutable(exe, "Q", vars); err != nil {
					res["errors"] = "query: " + err.Error()
				}
			} else if reuse {
				text, vars := subRequestVars(ol[1:])
				exe := parsed[text]
				if exe == nil {
					var err error
					if exe, err = root.ParseExecutableString(text); err != nil {
						outs = append(outs, sx.L("rsub-unexpected", sx.Hex(err.Error())))
						continue
					}
					parsed[text] = exe
				}
				res = map[string]interface{}{}
				if data, err := root.ResolveExecutable(exe, "", vars); err != nil {
					res["errors"] = err.Error()
				} else if data != nil {
					res["data"] = data
				}
			} else {
				res = root.ResolveString(subRequest(ol[1:]), "", nil)
			}
			if _, has := res["errors"]; has || res["data"] != nil {
				outs = append(outs, sx.L("rsub-unexpected", sx.Hex(fmt.Sprint(res))))
			} else {
				outs = append(outs, sx.L("rsub"))
			}
		case "subfail":
			// the same request with one more field that fails: the request is answered with an error and
			// registers nobody (no output of its own: what follows shows whether somebody was registered)
			subs := append(append([]sx.S{}, ol[1:]...), sx.L("s", "9999", "77777", sx.L("0"), sx.L()))
			if len(outs)%2 == 0 { // the failing field first, or last
				subs = append([]sx.S{subs[len(subs)-1]}, subs[:len(subs)-1]...)
			}
			res := root.ResolveString(subRequest(subs), "", nil)
			if _, has := res["errors"]; !has {
				outs = append(outs, sx.L("rsubfail-accepted"))
			}
		case "pub":
			ev := evOf(ol[2])
			cnt, err := root.AddEvent("e"+ol[1].(string), ev)
			outs = append(outs, sx.L("rpub", sx.A(cnt), sx.A(err != nil), append([]sx.S{}, log.del...), sx.SortedInts(log.clean)))
		case "unsub":
			cnt := root.Unsubscribe("e" + ol[1].(string))
			if len(log.del) > 0 {
				outs = append(outs, sx.L("runsub-delivered"))
			} else {
				outs = append(outs, sx.L("runsub", sx.A(cnt), sx.SortedInts(log.clean)))
			}
		}
	}
	return outs
}

// subRequest renders the subscription operation registering the given subscribers.
func subRequest(subs []sx.S) string {
	var b strings.Builder
	b.WriteString("subscription {")
	for i, s := range subs {
		sl := sx.List(s)
		sched := ""
		for _, x := range sx.List(sl[4]) {
			sched += x.(string)
		}
		fmt.Fprintf(&b, " a%d: w(p: %d, s: \"%s\", u: %d) {", i, sx.Int(sl[2]), sched, sx.Int(sl[1]))
		if c19Share && sx.Int(sl[1]) != 9999 {
			fmt.Fprintf(&b, " u%d: k", sx.Int(sl[1]))
		}
		for _, f := range sx.List(sl[3]) {
			fmt.Fprintf(&b, " f%d", sx.Int(f))
		}
		b.WriteString(" }")
	}
	b.WriteString(" }")
	return b.String()
}

// subRequestVars renders the same operation with the arguments of every subscriber as variables:
// subscribers with equal selection sets share the text, and so the parsed executable.
func subRequestVars(subs []sx.S) (string, map[string]interface{}) {
	var head, body strings.Builder
	vars := map[string]interface{}{}
	for i, s := range subs {
		sl := sx.List(s)
		sched := ""
		for _, x := range sx.List(sl[4]) {
			sched += x.(string)
		}
		if i > 0 {
			head.WriteString(", ")
		}
		if sx.Int(sl[1])%2 == 0 {
			// the pattern is the default of its variable and the caller gives no value for it
			fmt.Fprintf(&head, "$p%d: Int = %d, $s%d: String, $u%d: Int", i, sx.Int(sl[2]), i, i)
		} else {
			fmt.Fprintf(&head, "$p%d: Int, $s%d: String, $u%d: Int", i, i, i)
			vars[fmt.Sprintf("p%d", i)] = sx.Int(sl[2])
		}
		vars[fmt.Sprintf("s%d", i)] = sched
		vars[fmt.Sprintf("u%d", i)] = sx.Int(sl[1])
		fmt.Fprintf(&body, " a%d: w(p: $p%d, s: $s%d, u: $u%d) {", i, i, i, i)
		if c19Share {
			fmt.Fprintf(&body, " u%d: k", sx.Int(sl[1]))
		}
		for j, f := range sx.List(sl[3]) {
			fmt.Fprintf(&body, " f%d", sx.Int(f))
			if j == 0 && sx.Int(sl[1])%3 == 0 {
				// a variable of the operation inside the subscriber's selection set: it holds when the
				// selection is applied to an event what it held when the request was made
				if sx.Int(sl[1])%2 == 0 {
					fmt.Fprintf(&head, ", $t%d: Boolean = true", i)
				} else {
					fmt.Fprintf(&head, ", $t%d: Boolean", i)
					vars[fmt.Sprintf("t%d", i)] = true
				}
				fmt.Fprintf(&body, " @include(if: $t%d)", i)
			}
		}
		if sx.Int(sl[1])%3 == 0 && !c19Share {
			// one more field under a variable that differs between the subscribers of this shape
			fmt.Fprintf(&head, ", $k%d: Boolean", i)
			vars[fmt.Sprintf("k%d", i)] = sx.Int(sl[1])%4 < 2 // differs between uids of one parity: their requests are one text
			fmt.Fprintf(&body, " k @include(if: $k%d)", i)
		}
		body.WriteString(" }")
	}
	return "subscription(" + head.String() + ") {" + body.String() + " }", vars
}

// subRequestFrag: the subscription and a query over one fragment on W; the subscriber's selection set
// stands inside "... on Ev", the type of the subscribed field
func subRequestFrag(subs []sx.S) (string, map[string]interface{}) {
	var head, body strings.Builder
	vars := map[string]interface{}{}
	for i, s := range subs {
		sl := sx.List(s)
		sched := ""
		for _, x := range sx.List(sl[4]) {
			sched += x.(string)
		}
		if i > 0 {
			head.WriteString(", ")
		}
		fmt.Fprintf(&head, "$p%d: Int, $s%d: String, $u%d: Int", i, i, i)
		vars[fmt.Sprintf("p%d", i)] = sx.Int(sl[2])
		vars[fmt.Sprintf("s%d", i)] = sched
		vars[fmt.Sprintf("u%d", i)] = sx.Int(sl[1])
		fmt.Fprintf(&body, " a%d: w(p: $p%d, s: $s%d, u: $u%d) { ... on Ev {", i, i, i, i)
		for _, f := range sx.List(sl[3]) {
			fmt.Fprintf(&body, " f%d", sx.Int(f))
		}
		body.WriteString(" } }")
	}
	return "fragment F on W {" + body.String() + " } query Q(" + head.String() + ") { ...F } subscription S(" + head.String() + ") { ...F }", vars
}

// registryOrder reads the live registry through the verif accessor (uids in registry order).
func registryOrder(root *ggql.Root) []int {
	var out []int
	for _, s := range root.VerifSubscribers() {
		if h, ok := s.(*hsub); ok {
			out = append(out, h.uid)
		}
	}
	return out
}

func c19Sub(r *rand.Rand, uid int, npat int) sx.S {
	pat := r.Intn(npat+1) - 1
	nsel := 1 + r.Intn(3)
	sel := []int{}
	for i := 0; i < nsel; i++ {
		sel = append(sel, r.Intn(4))
	}
	sort.Ints(sel)
	sel = dedupInts(sel)
	sched := []int{}
	if r.Intn(2) == 0 {
		n := 1 + r.Intn(3)
		for i := 0; i < n; i++ {
			sched = append(sched, r.Intn(2))
		}
	}
	return sx.L("s", sx.A(uid), sx.A(pat), sx.Ints(sel), sx.Ints(sched))
}

func dedupInts(xs []int) []int {
	out := []int{}
	for i, x := range xs {
		if i == 0 || x != xs[i-1] {
			out = append(out, x)
		}
	}
	return out
}

func c19Gen(r *rand.Rand, tier string) []Case {
	var cases []Case
	// exhaustive small scope: all histories up to length k over a 14-letter alphabet
	// (subscribe{wild,e0,e1,e2}x{never fails, fails on first delivery}, publish e0..e2, unsubscribe e0..e2)
	k := 3
	nrand := 2000
	maxlen := 12
	if tier == "thorough" {
		k = 4
		nrand = 40000
		maxlen = 16
	}
	type letter func(uid int) sx.S
	var alpha []letter
	for p := -1; p < 3; p++ {
		for f := 0; f < 2; f++ {
			p, f := p, f
			alpha = append(alpha, func(uid int) sx.S {
				sched := []int{}
				if f == 1 {
					sched = []int{1}
				}
				return sx.L("sub", sx.L("s", sx.A(uid), sx.A(p), sx.Ints([]int{uid % 4}), sx.Ints(sched)))
			})
		}
	}
	for e := 0; e < 3; e++ {
		e := e
		alpha = append(alpha, func(uid int) sx.S { return sx.L("pub", sx.A(e), sx.Ints([]int{10 + uid, 20, 30, 40})) })
		alpha = append(alpha, func(uid int) sx.S { return sx.L("unsub", sx.A(e)) })
	}
	var rec func(prefix []int)
	n := 0
	rec = func(prefix []int) {
		if len(prefix) > 0 {
			ops := []sx.S{"hist"}
			for i, a := range prefix {
				ops = append(ops, alpha[a](i+1))
			}
			n++
			cases = append(cases, Case{ID: fmt.Sprintf("x%d", n), Input: ops, Tags: c19Tags(ops, "exhaustive")})
		}
		if len(prefix) == k {
			return
		}
		for a := range alpha {
			rec(append(append([]int{}, prefix...), a))
		}
	}
	rec(nil)
	// twins: subscribers made from ONE parsed request (same text, same *Field) that differ only in the
	// values of their variables - the extra field k is included for some and not for the others - all
	// matching the same events, in every order
	for t, uids := range [][]int{{3, 9}, {9, 3}, {6, 12}, {12, 6, 18}, {3, 9, 15, 21}, {21, 15, 9, 3}} {
		ops := []sx.S{"hist", sx.L("reuse")}
		for _, uid := range uids {
			ops = append(ops, sx.L("sub", sx.L("s", sx.A(uid), sx.A(0), sx.Ints([]int{1}), sx.Ints([]int{}))))
		}
		ops = append(ops, sx.L("pub", sx.A(0), sx.Ints([]int{11, 20, 30, 40})), sx.L("pub", sx.A(0), sx.Ints([]int{12, 21, 31, 41})), sx.L("unsub", sx.A(0)))
		cases = append(cases, Case{ID: fmt.Sprintf("t%d", t), Input: ops, Tags: c19Tags(ops, "twins")})
	}
	for i := 0; i < nrand; i++ {
		ln := 1 + r.Intn(maxlen)
		ops := []sx.S{"hist"}
		uid := 0
		npat := 1 + r.Intn(3)
		if i%4 >= 2 {
			ops = append(ops, sx.L("reuse"))
		}
		if i%8 == 3 {
			// the subscribed field is reached through a fragment a query of the same document uses too
			ops = append(ops, sx.L("frag"))
		}
		if i%8 == 1 || i%8 == 6 {
			// subscribers of one pattern are one Go value (a connection subscribing several times)
			ops = append(ops, sx.L("share"))
		}
		if i%2 == 0 { // registry-heavy histories: several live subscribers before anything else happens
			for k := 3 + r.Intn(4); k > 0; k-- {
				uid++
				ops = append(ops, sx.L("sub", c19Sub(r, uid, npat)))
			}
		}
		for j := 0; j < ln; j++ {
			switch x := r.Intn(10); {
			case x < 4:
				uid++
				if r.Intn(8) == 0 {
					// a request with one more field that cannot be subscribed to: nobody is registered
					ops = append(ops, sx.L("subfail", c19Sub(r, uid, npat)))
					break
				}
				ops = append(ops, sx.L("sub", c19Sub(r, uid, npat)))
			case x < 8:
				ev := []sx.S{sx.A(r.Intn(100)), sx.A(r.Intn(100) - 50), sx.A(r.Intn(3)), "7"}
				if r.Intn(6) == 0 {
					ev[r.Intn(4)] = "null" // this field fails on this event: null in the message, an error reported, the subscriber stays
				}
				ops = append(ops, sx.L("pub", sx.A(r.Intn(npat)), ev))
			default:
				ops = append(ops, sx.L("unsub", sx.A(r.Intn(npat))))
			}
		}
		cases = append(cases, Case{ID: fmt.Sprintf("r%d", i), Input: ops, Tags: c19Tags(ops, "random")})
	}
	return cases
}

func c19Tags(ops []sx.S, kind string) []string {
	tags := []string{kind}
	var sub, pub, unsub, fail, reuse, reused bool
	shapes := map[string]bool{}
	for _, o := range ops[1:] {
		switch sx.Head(o) {
		case "reuse":
			reuse = true
		case "share":
			tags = append(tags, "one-subscriber-behind-several-subscriptions")
		case "frag":
			tags = append(tags, "subscription-and-query-share-a-fragment")
		case "sub":
			sub = true
			if reuse {
				sh := sx.String(sx.List(sx.List(o)[1])[3])
				if shapes[sh] {
					reused = true
				}
				shapes[sh] = true
			}
			for _, s := range sx.List(o)[1:] {
				for _, b := range sx.List(sx.List(s)[4]) {
					if b.(string) == "1" {
						fail = true
					}
				}
			}
		case "pub":
			if sub {
				pub = true
			}
		case "unsub":
			if sub {
				unsub = true
			}
		}
	}
	if sub && pub {
		tags = append(tags, "delivers")
	}
	if fail && pub {
		tags = append(tags, "failing-subscriber")
	}
	if unsub {
		tags = append(tags, "unsubscribe-after-subscribe")
	}
	if reused {
		tags = append(tags, "parsed-request-resolved-again")
	}
	if sub && pub && (fail || unsub) {
		tags = append(tags, "nontrivial")
	}
	return tags
}

func c19Valid(input sx.S) bool {
	if sx.Head(input) != "hist" {
		return false
	}
	seen := map[int]bool{}
	for _, o := range sx.List(input)[1:] {
		ol := sx.List(o)
		switch sx.Head(o) {
		case "reuse", "share", "frag":
			if len(ol) != 1 {
				return false
			}
		case "sub", "subfail":
			if len(ol) != 2 { // one subscription field per operation (several: Go map order, see DESIGN F19)
				return false
			}
			for _, s := range ol[1:] {
				sl := sx.List(s)
				if len(sl) != 5 || sx.Head(s) != "s" || len(sx.List(sl[3])) == 0 || seen[sx.Int(sl[1])] || sx.Int(sl[2]) < -1 {
					return false
				}
				seen[sx.Int(sl[1])] = true
				for _, f := range sx.List(sl[3]) {
					if sx.Int(f) < 0 || sx.Int(f) > 3 {
						return false
					}
				}
				for _, b := range sx.List(sl[4]) {
					if b.(string) != "0" && b.(string) != "1" {
						return false
					}
				}
			}
		case "pub":
			if len(ol) != 3 || len(sx.List(ol[2])) != 4 || sx.Int(ol[1]) < 0 {
				return false
			}
			for _, v := range sx.List(ol[2]) {
				if a, ok := v.(string); !ok || a != "null" {
					_ = sx.Int(v)
				}
			}
		case "unsub":
			if len(ol) != 2 || sx.Int(ol[1]) < 0 {
				return false
			}
		default:
			return false
		}
	}
	return true
}

func init() { props["C19"] = &Prop{Gen: c19Gen, Exec: c19Exec, Valid: c19Valid} }
