package main

// C20: block-level interleavings of concurrent subscribe/publish/unsubscribe calls on the real
// registry, forced through the verif yield hooks (one goroutine runs at a time; the schedule says
// which call runs its next critical section).

import (
	"fmt"
	"math/rand"
	"time"

	"github.com/uhn/ggql/pkg/ggql"

	"verifharness/sx"
)

type c20Event struct {
	thread int
	done   bool
	site   string
}

// c20Deadlocks counts the steps that did not come back in this run of the harness. Five seconds are
// granted to a step; once two steps have been given up (each is reported as a deadlock), later ones
// are given up after 300 ms, so that a tree in which most schedules block is reported in minutes.
var c20Deadlocks int

func c20Patience() time.Duration {
	if c20Deadlocks >= 2 {
		return 300 * time.Millisecond
	}
	return 5 * time.Second
}

func c20Exec(input sx.S) (obs sx.S) {
	il := sx.List(input)
	threads := sx.List(il[1])[1:]
	sched := sx.List(il[2])[1:]
	log := &regLog{}
	sro := &subRootObj{log: log}
	if len(il) > 3 && sx.Head(il[3]) == "share" {
		// the subscribers of one pattern are one Go value (see gsub in c19.go)
		sro.groups = map[int]*gsub{}
		c19Share = true
		defer func() { c19Share = false }()
	}
	root := ggql.NewRoot(&c19Schema{Subscription: sro})
	if err := root.ParseString(c19SDL); err != nil {
		return sx.L("schema-error", sx.Hex(err.Error()))
	}
	n := len(threads)
	evc := make(chan c20Event, 4*n+4)
	grant := make([]chan struct{}, n)
	cnts := make([]int, n)
	state := make([]int, n) // 0 parked, 1 done
	site := make([]string, n)
	cur := -1
	panicked := false
	ggql.VerifYield = func(s string) {
		i := cur
		evc <- c20Event{thread: i, site: s}
		<-grant[i]
	}
	defer func() { ggql.VerifYield = nil }()
	wait := func(i int) bool {
		select {
		case e := <-evc:
			if e.thread != i {
				return false
			}
			if e.done {
				state[i] = 1
			} else {
				site[i] = e.site
			}
			return true
		case <-time.After(c20Patience()):
			c20Deadlocks++
			return false
		}
	}
	// start every call and let it run up to its first lock acquisition
	for i, t := range threads {
		i, t := i, t
		grant[i] = make(chan struct{})
		cur = i
		go func() {
			defer func() {
				if r := recover(); r != nil {
					panicked = true
				}
				evc <- c20Event{thread: i, done: true}
			}()
			tl := sx.List(t)
			switch sx.Head(t) {
			case "sub":
				root.ResolveString(subRequest(tl[1:]), "", nil)
			case "pub":
				cnts[i], _ = root.AddEvent("e"+tl[1].(string), evOf(tl[2]))
			case "unsub":
				cnts[i] = root.Unsubscribe("e" + tl[1].(string))
			}
		}()
		if !wait(i) {
			return sx.L("deadlock")
		}
		if state[i] == 1 && !panicked {
			return sx.L("hook-missing") // the call finished without reaching a yield point
		}
	}
	blocks := []sx.S{}
	pending := map[int]int{} // thread -> index of its bpub1/bunsub block whose count is known at return
	for _, x := range sched {
		i := sx.Int(x)
		if i < 0 || i >= n || state[i] == 1 {
			continue
		}
		log.del, log.clean = nil, nil
		st := site[i]
		cur = i
		grant[i] <- struct{}{}
		if !wait(i) {
			return sx.L("deadlock")
		}
		if panicked {
			return sx.L("panic")
		}
		switch st {
		case "subscribe":
			blocks = append(blocks, sx.L("bsub", sx.A(i)))
		case "unsubscribe":
			blocks = append(blocks, sx.L("bunsub", sx.A(i), sx.A(cnts[i]), sx.SortedInts(log.clean)))
		case "addevent1":
			pending[i] = len(blocks)
			blocks = append(blocks, sx.L("bpub1", sx.A(i), "?", append([]sx.S{}, log.del...)))
			if len(log.clean) > 0 {
				blocks = append(blocks, sx.L("cleanup-in-phase1", sx.A(i)))
			}
		case "addevent2":
			blocks = append(blocks, sx.L("bpub2", sx.A(i), sx.SortedInts(log.clean)))
			if len(log.del) > 0 {
				blocks = append(blocks, sx.L("delivery-in-phase2", sx.A(i)))
			}
		default:
			blocks = append(blocks, sx.L("unknown-site", st))
		}
		if state[i] == 1 {
			if k, ok := pending[i]; ok {
				b := blocks[k].([]sx.S)
				b[2] = sx.A(cnts[i])
			}
		}
	}
	fin := "alldone"
	for i := range threads {
		if state[i] != 1 {
			fin = "unfinished"
		}
	}
	// let unfinished calls run to completion so goroutines do not leak
	for i := range threads {
		for state[i] != 1 {
			cur = i
			grant[i] <- struct{}{}
			if !wait(i) {
				return sx.L("deadlock")
			}
		}
	}
	if fin == "unfinished" {
		for _, b := range blocks {
			if bl := b.([]sx.S); len(bl) > 2 && bl[2] == "?" {
				bl[2] = sx.A(len(bl[3].([]sx.S)))
			}
		}
	}
	return sx.L(blocks, fin)
}

func c20Steps(t sx.S) int {
	if sx.Head(t) == "pub" {
		return 2
	}
	return 1
}

// interleavings enumerates all distinct merges of the threads' step sequences (up to limit).
func interleavings(steps []int, limit int) [][]int {
	var out [][]int
	var rec func(cur []int, left []int)
	rec = func(cur []int, left []int) {
		if len(out) >= limit {
			return
		}
		done := true
		for i, l := range left {
			if l > 0 {
				done = false
				left[i]--
				rec(append(cur, i), left)
				left[i]++
			}
		}
		if done {
			out = append(out, append([]int{}, cur...))
		}
	}
	rec(nil, append([]int{}, steps...))
	return out
}

func c20Gen(r *rand.Rand, tier string) []Case {
	var cases []Case
	nmix := 60
	maxThreads := 4
	limit := 40
	if tier == "thorough" {
		nmix = 600
		maxThreads = 5
		limit = 400
	}
	id := 0
	share := false
	add := func(threads []sx.S, kind string, lim int) {
		steps := make([]int, len(threads))
		for i, t := range threads {
			steps[i] = c20Steps(t)
		}
		all := interleavings(steps, 5000)
		if len(all) > lim {
			r.Shuffle(len(all), func(a, b int) { all[a], all[b] = all[b], all[a] })
			all = all[:lim]
		}
		for _, sc := range all {
			id++
			in := sx.L("conc", append([]sx.S{"threads"}, threads...), append([]sx.S{"sched"}, sx.Ints(sc)...))
			if share {
				in = append(in, sx.L("share"))
			}
			cases = append(cases, Case{ID: fmt.Sprintf("c%d", id), Input: in, Tags: c20Tags(threads, sc, kind)})
		}
	}
	// the scenarios the property names, exhaustively interleaved
	s1 := sx.L("sub", sx.L("s", "1", "-1", sx.Ints([]int{0}), sx.Ints([]int{1, 1})))
	s2 := sx.L("sub", sx.L("s", "2", "0", sx.Ints([]int{1}), sx.Ints(nil)))
	p0 := func(v int) sx.S { return sx.L("pub", "0", sx.Ints([]int{v, 2, 3, 4})) }
	u0 := sx.L("unsub", "0")
	add([]sx.S{s1, p0(7), p0(8), u0}, "two-publishers-fail-same-subscriber-unsub-races", 1000)
	add([]sx.S{s1, s2, p0(1), p0(2), u0}, "two-subs-two-pubs-unsub", 1000)
	add([]sx.S{s2, p0(5), u0, s1, p0(6)}, "sub-pub-unsub-sub-pub", 1000)
	// two subscribers fail on one event and an Unsubscribe removes the one that is first in the
	// registry between the two sections of the publish; a later event shows who is still registered
	sw := sx.L("sub", sx.L("s", "1", "-1", sx.Ints([]int{0}), sx.Ints([]int{1})))
	sz := sx.L("sub", sx.L("s", "2", "0", sx.Ints([]int{1}), sx.Ints([]int{1})))
	u1 := sx.L("unsub", "1")
	add([]sx.S{sw, sz, p0(3), u1}, "two-fail-on-one-event-unsub-between-the-sections", 100)
	add([]sx.S{sw, sz, p0(3), u1, p0(4)}, "two-fail-on-one-event-unsub-between-the-sections-then-an-event", 300)
	// one Subscriber value behind several subscriptions (a connection that subscribes again after its
	// first subscription failed and was removed; two subscriptions of one connection, one of which fails)
	share = true
	sa := sx.L("sub", sx.L("s", "1", "0", sx.Ints([]int{0}), sx.Ints([]int{1})))
	sb := sx.L("sub", sx.L("s", "2", "0", sx.Ints([]int{1}), sx.Ints(nil)))
	add([]sx.S{sa, p0(5), u0, sb, p0(6)}, "one-subscriber-behind-two-subscriptions-resubscribes", 600)
	add([]sx.S{sa, sb, p0(5), p0(6)}, "one-subscriber-behind-two-subscriptions-one-fails", 200)
	share = false
	for m := 0; m < nmix; m++ {
		nt := 2 + r.Intn(maxThreads-1)
		threads := []sx.S{}
		uid := 0
		npat := 1 + r.Intn(2)
		for i := 0; i < nt; i++ {
			switch x := r.Intn(10); {
			case x < 4 || i == 0:
				uid++
				threads = append(threads, sx.L("sub", c19Sub(r, uid, npat)))
			case x < 8:
				threads = append(threads, sx.L("pub", sx.A(r.Intn(npat)), sx.Ints([]int{r.Intn(50), r.Intn(50), 3, 4})))
			default:
				threads = append(threads, sx.L("unsub", sx.A(r.Intn(npat))))
			}
		}
		add(threads, "random-mix", limit)
	}
	return cases
}

func c20Tags(threads []sx.S, sc []int, kind string) []string {
	tags := []string{kind}
	var sub, pub, unsub, fail bool
	npub := 0
	for _, t := range threads {
		switch sx.Head(t) {
		case "sub":
			sub = true
			for _, b := range sx.List(sx.List(sx.List(t)[1])[4]) {
				if b.(string) == "1" {
					fail = true
				}
			}
		case "pub":
			pub = true
			npub++
		case "unsub":
			unsub = true
		}
	}
	// is the schedule a genuine interleaving (some call's two sections separated by another call)?
	inter := false
	last := map[int]int{}
	for k, i := range sc {
		if p, ok := last[i]; ok && k-p > 1 {
			inter = true
		}
		last[i] = k
	}
	if inter {
		tags = append(tags, "phases-separated")
	}
	if npub >= 2 && fail {
		tags = append(tags, "two-publishers-failing-subscriber")
	}
	if sub && pub && (inter || unsub || fail) {
		tags = append(tags, "nontrivial")
	}
	return tags
}

func c20Valid(input sx.S) bool {
	il := sx.List(input)
	if sx.Head(input) != "conc" || (len(il) != 3 && len(il) != 4) || sx.Head(il[1]) != "threads" || sx.Head(il[2]) != "sched" {
		return false
	}
	if len(il) == 4 && (sx.Head(il[3]) != "share" || len(sx.List(il[3])) != 1) {
		return false
	}
	hist := []sx.S{"hist"}
	for _, t := range sx.List(il[1])[1:] {
		hist = append(hist, t)
	}
	if len(hist) < 2 || !c19Valid(hist) {
		return false
	}
	// complete schedules only: every call gets exactly its number of critical sections
	cnt := map[int]int{}
	for _, x := range sx.List(il[2])[1:] {
		cnt[sx.Int(x)]++
	}
	for i, t := range sx.List(il[1])[1:] {
		if cnt[i] != c20Steps(t) {
			return false
		}
	}
	return len(cnt) == len(hist)-1
}

func init() { props["C20"] = &Prop{Gen: c20Gen, Exec: c20Exec, Valid: c20Valid} }
