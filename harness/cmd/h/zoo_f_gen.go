package main

// Code generated (python, see c02.go): the reflection zoo. One Go type per GraphQL object type id whose
// GraphQL fields f1..f8 are found by ggql as methods F1..F8 (case-insensitive lookup); arguments arrive
// positionally and are passed on to the world in declaration order.

type F1 struct{ nodeBase }

func (n *F1) F1(args ...interface{}) (interface{}, error) { return n.w.reflectCall(n.id, 1, args) }
func (n *F1) F2(args ...interface{}) (interface{}, error) { return n.w.reflectCall(n.id, 2, args) }
func (n *F1) F3(args ...interface{}) (interface{}, error) { return n.w.reflectCall(n.id, 3, args) }
func (n *F1) F4(args ...interface{}) (interface{}, error) { return n.w.reflectCall(n.id, 4, args) }
func (n *F1) F5(args ...interface{}) (interface{}, error) { return n.w.reflectCall(n.id, 5, args) }
func (n *F1) F6(args ...interface{}) (interface{}, error) { return n.w.reflectCall(n.id, 6, args) }
func (n *F1) F7(args ...interface{}) (interface{}, error) { return n.w.reflectCall(n.id, 7, args) }
func (n *F1) F8(args ...interface{}) (interface{}, error) { return n.w.reflectCall(n.id, 8, args) }

type F2 struct{ nodeBase }

func (n *F2) F1(args ...interface{}) (interface{}, error) { return n.w.reflectCall(n.id, 1, args) }
func (n *F2) F2(args ...interface{}) (interface{}, error) { return n.w.reflectCall(n.id, 2, args) }
func (n *F2) F3(args ...interface{}) (interface{}, error) { return n.w.reflectCall(n.id, 3, args) }
func (n *F2) F4(args ...interface{}) (interface{}, error) { return n.w.reflectCall(n.id, 4, args) }
func (n *F2) F5(args ...interface{}) (interface{}, error) { return n.w.reflectCall(n.id, 5, args) }
func (n *F2) F6(args ...interface{}) (interface{}, error) { return n.w.reflectCall(n.id, 6, args) }
func (n *F2) F7(args ...interface{}) (interface{}, error) { return n.w.reflectCall(n.id, 7, args) }
func (n *F2) F8(args ...interface{}) (interface{}, error) { return n.w.reflectCall(n.id, 8, args) }

type F20 struct{ nodeBase }

func (n *F20) F1(args ...interface{}) (interface{}, error) { return n.w.reflectCall(n.id, 1, args) }
func (n *F20) F2(args ...interface{}) (interface{}, error) { return n.w.reflectCall(n.id, 2, args) }
func (n *F20) F3(args ...interface{}) (interface{}, error) { return n.w.reflectCall(n.id, 3, args) }
func (n *F20) F4(args ...interface{}) (interface{}, error) { return n.w.reflectCall(n.id, 4, args) }
func (n *F20) F5(args ...interface{}) (interface{}, error) { return n.w.reflectCall(n.id, 5, args) }
func (n *F20) F6(args ...interface{}) (interface{}, error) { return n.w.reflectCall(n.id, 6, args) }
func (n *F20) F7(args ...interface{}) (interface{}, error) { return n.w.reflectCall(n.id, 7, args) }
func (n *F20) F8(args ...interface{}) (interface{}, error) { return n.w.reflectCall(n.id, 8, args) }

type F21 struct{ nodeBase }

func (n *F21) F1(args ...interface{}) (interface{}, error) { return n.w.reflectCall(n.id, 1, args) }
func (n *F21) F2(args ...interface{}) (interface{}, error) { return n.w.reflectCall(n.id, 2, args) }
func (n *F21) F3(args ...interface{}) (interface{}, error) { return n.w.reflectCall(n.id, 3, args) }
func (n *F21) F4(args ...interface{}) (interface{}, error) { return n.w.reflectCall(n.id, 4, args) }
func (n *F21) F5(args ...interface{}) (interface{}, error) { return n.w.reflectCall(n.id, 5, args) }
func (n *F21) F6(args ...interface{}) (interface{}, error) { return n.w.reflectCall(n.id, 6, args) }
func (n *F21) F7(args ...interface{}) (interface{}, error) { return n.w.reflectCall(n.id, 7, args) }
func (n *F21) F8(args ...interface{}) (interface{}, error) { return n.w.reflectCall(n.id, 8, args) }

type F22 struct{ nodeBase }

func (n *F22) F1(args ...interface{}) (interface{}, error) { return n.w.reflectCall(n.id, 1, args) }
func (n *F22) F2(args ...interface{}) (interface{}, error) { return n.w.reflectCall(n.id, 2, args) }
func (n *F22) F3(args ...interface{}) (interface{}, error) { return n.w.reflectCall(n.id, 3, args) }
func (n *F22) F4(args ...interface{}) (interface{}, error) { return n.w.reflectCall(n.id, 4, args) }
func (n *F22) F5(args ...interface{}) (interface{}, error) { return n.w.reflectCall(n.id, 5, args) }
func (n *F22) F6(args ...interface{}) (interface{}, error) { return n.w.reflectCall(n.id, 6, args) }
func (n *F22) F7(args ...interface{}) (interface{}, error) { return n.w.reflectCall(n.id, 7, args) }
func (n *F22) F8(args ...interface{}) (interface{}, error) { return n.w.reflectCall(n.id, 8, args) }

type F23 struct{ nodeBase }

func (n *F23) F1(args ...interface{}) (interface{}, error) { return n.w.reflectCall(n.id, 1, args) }
func (n *F23) F2(args ...interface{}) (interface{}, error) { return n.w.reflectCall(n.id, 2, args) }
func (n *F23) F3(args ...interface{}) (interface{}, error) { return n.w.reflectCall(n.id, 3, args) }
func (n *F23) F4(args ...interface{}) (interface{}, error) { return n.w.reflectCall(n.id, 4, args) }
func (n *F23) F5(args ...interface{}) (interface{}, error) { return n.w.reflectCall(n.id, 5, args) }
func (n *F23) F6(args ...interface{}) (interface{}, error) { return n.w.reflectCall(n.id, 6, args) }
func (n *F23) F7(args ...interface{}) (interface{}, error) { return n.w.reflectCall(n.id, 7, args) }
func (n *F23) F8(args ...interface{}) (interface{}, error) { return n.w.reflectCall(n.id, 8, args) }

type F24 struct{ nodeBase }

func (n *F24) F1(args ...interface{}) (interface{}, error) { return n.w.reflectCall(n.id, 1, args) }
func (n *F24) F2(args ...interface{}) (interface{}, error) { return n.w.reflectCall(n.id, 2, args) }
func (n *F24) F3(args ...interface{}) (interface{}, error) { return n.w.reflectCall(n.id, 3, args) }
func (n *F24) F4(args ...interface{}) (interface{}, error) { return n.w.reflectCall(n.id, 4, args) }
func (n *F24) F5(args ...interface{}) (interface{}, error) { return n.w.reflectCall(n.id, 5, args) }
func (n *F24) F6(args ...interface{}) (interface{}, error) { return n.w.reflectCall(n.id, 6, args) }
func (n *F24) F7(args ...interface{}) (interface{}, error) { return n.w.reflectCall(n.id, 7, args) }
func (n *F24) F8(args ...interface{}) (interface{}, error) { return n.w.reflectCall(n.id, 8, args) }

type F25 struct{ nodeBase }

func (n *F25) F1(args ...interface{}) (interface{}, error) { return n.w.reflectCall(n.id, 1, args) }
func (n *F25) F2(args ...interface{}) (interface{}, error) { return n.w.reflectCall(n.id, 2, args) }
func (n *F25) F3(args ...interface{}) (interface{}, error) { return n.w.reflectCall(n.id, 3, args) }
func (n *F25) F4(args ...interface{}) (interface{}, error) { return n.w.reflectCall(n.id, 4, args) }
func (n *F25) F5(args ...interface{}) (interface{}, error) { return n.w.reflectCall(n.id, 5, args) }
func (n *F25) F6(args ...interface{}) (interface{}, error) { return n.w.reflectCall(n.id, 6, args) }
func (n *F25) F7(args ...interface{}) (interface{}, error) { return n.w.reflectCall(n.id, 7, args) }
func (n *F25) F8(args ...interface{}) (interface{}, error) { return n.w.reflectCall(n.id, 8, args) }

type F26 struct{ nodeBase }

func (n *F26) F1(args ...interface{}) (interface{}, error) { return n.w.reflectCall(n.id, 1, args) }
func (n *F26) F2(args ...interface{}) (interface{}, error) { return n.w.reflectCall(n.id, 2, args) }
func (n *F26) F3(args ...interface{}) (interface{}, error) { return n.w.reflectCall(n.id, 3, args) }
func (n *F26) F4(args ...interface{}) (interface{}, error) { return n.w.reflectCall(n.id, 4, args) }
func (n *F26) F5(args ...interface{}) (interface{}, error) { return n.w.reflectCall(n.id, 5, args) }
func (n *F26) F6(args ...interface{}) (interface{}, error) { return n.w.reflectCall(n.id, 6, args) }
func (n *F26) F7(args ...interface{}) (interface{}, error) { return n.w.reflectCall(n.id, 7, args) }
func (n *F26) F8(args ...interface{}) (interface{}, error) { return n.w.reflectCall(n.id, 8, args) }

type F27 struct{ nodeBase }

func (n *F27) F1(args ...interface{}) (interface{}, error) { return n.w.reflectCall(n.id, 1, args) }
func (n *F27) F2(args ...interface{}) (interface{}, error) { return n.w.reflectCall(n.id, 2, args) }
func (n *F27) F3(args ...interface{}) (interface{}, error) { return n.w.reflectCall(n.id, 3, args) }
func (n *F27) F4(args ...interface{}) (interface{}, error) { return n.w.reflectCall(n.id, 4, args) }
func (n *F27) F5(args ...interface{}) (interface{}, error) { return n.w.reflectCall(n.id, 5, args) }
func (n *F27) F6(args ...interface{}) (interface{}, error) { return n.w.reflectCall(n.id, 6, args) }
func (n *F27) F7(args ...interface{}) (interface{}, error) { return n.w.reflectCall(n.id, 7, args) }
func (n *F27) F8(args ...interface{}) (interface{}, error) { return n.w.reflectCall(n.id, 8, args) }

func newReflectObj(w *world, id, gotype int) interface{} {
	b := nodeBase{id: id, w: w}
	switch gotype {
	case 1:
		return &F1{b}
	case 2:
		return &F2{b}
	case 20:
		return &F20{b}
	case 21:
		return &F21{b}
	case 22:
		return &F22{b}
	case 23:
		return &F23{b}
	case 24:
		return &F24{b}
	case 25:
		return &F25{b}
	case 26:
		return &F26{b}
	case 27:
		return &F27{b}
	}
	return nil
}
