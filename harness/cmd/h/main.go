// Command h is the correspondence harness: it generates inputs, runs the real ggql library
// (built from /repo's working tree with -tags verif) and writes case files for modelrun.
package main

import (
	"bufio"
	"encoding/json"
	"flag"
	"fmt"
	"math/rand"
	"os"
	"strings"
	"time"

	"verifharness/sx"
)

// Case is one generated input.
type Case struct {
	ID    string
	Input sx.S
	Tags  []string // feature tags: used for the non-triviality rule and known-finding classes
	Human string   // human-readable rendering for replays
}

// Prop is the harness side of one property.
type Prop struct {
	Gen   func(r *rand.Rand, tier string) []Case
	Exec  func(input sx.S) sx.S
	Valid func(input sx.S) bool // well-formedness of an input (shrinking produces ill-formed candidates)
}

func validInput(p *Prop, input sx.S) (ok bool) {
	defer func() {
		if r := recover(); r != nil {
			ok = false
		}
	}()
	return p.Valid == nil || p.Valid(input)
}

var props = map[string]*Prop{}

type metaLine struct {
	ID    string   `json:"id"`
	Tags  []string `json:"tags"`
	Human string   `json:"human,omitempty"`
}

func main() {
	if len(os.Args) < 2 {
		fmt.Fprintln(os.Stderr, "usage: h <property> [-seed n] [-tier quick|thorough] [-out file] [-in file]")
		os.Exit(2)
	}
	id := os.Args[1]
	if id == "stress20" {
		stressMain(os.Args[2:])
	}
	if id == "stress12" {
		stress12Main(os.Args[2:])
	}
	if id == "latebind" {
		latebindMain(os.Args[2:])
	}
	if id == "c03child" {
		mode := ""
		if len(os.Args) > 3 {
			mode = os.Args[3]
		}
		c03ChildMain(os.Args[2], mode)
		return
	}
	fs := flag.NewFlagSet("h", flag.ExitOnError)
	seed := fs.Int64("seed", 1, "PRNG seed")
	tier := fs.String("tier", "quick", "quick or thorough")
	out := fs.String("out", "/dev/stdout", "case file to write")
	in := fs.String("in", "", "re-execute the inputs of an existing case/corpus file instead of generating")
	_ = fs.Parse(os.Args[2:])
	p := props[id]
	if p == nil {
		fmt.Fprintln(os.Stderr, "unknown property", id)
		os.Exit(2)
	}
	var cases []Case
	if *in != "" {
		f, err := os.Open(*in)
		if err != nil {
			fmt.Fprintln(os.Stderr, err)
			os.Exit(2)
		}
		sc := bufio.NewScanner(f)
		sc.Buffer(make([]byte, 1<<20), 1<<28)
		n := 0
		for sc.Scan() {
			line := strings.TrimSpace(sc.Text())
			if !strings.HasPrefix(line, "(case ") {
				continue
			}
			v, err := sx.Parse(line)
			if err != nil {
				fmt.Fprintln(os.Stderr, "bad case line:", err)
				os.Exit(2)
			}
			l := sx.List(v)
			n++
			cases = append(cases, Case{ID: l[1].(string), Input: l[3], Tags: []string{"corpus"}})
		}
		f.Close()
	} else {
		r := rand.New(rand.NewSource(*seed*7919 + int64(len(id))*104729 + int64(id[len(id)-1])))
		cases = p.Gen(r, *tier)
	}
	f, err := os.Create(*out)
	if err != nil {
		fmt.Fprintln(os.Stderr, err)
		os.Exit(2)
	}
	w := bufio.NewWriterSize(f, 1<<20)
	mf, _ := os.Create(*out + ".meta")
	mw := bufio.NewWriterSize(mf, 1<<20)
	enc := json.NewEncoder(mw)
	for _, c := range cases {
		var obs sx.S = sx.L("invalid")
		if validInput(p, c.Input) {
			obs = execWatched(p, c.Input)
		}
		fmt.Fprintln(w, sx.String(sx.L("case", c.ID, id, c.Input, obs)))
		_ = enc.Encode(metaLine{ID: c.ID, Tags: c.Tags, Human: c.Human})
	}
	w.Flush()
	f.Close()
	mw.Flush()
	mf.Close()
}

// execWatched runs one case; a case that does not come back (the library blocked for good) is observed
// as (timeout) instead of stopping the whole run. Ninety seconds are granted (the slowest cases spawn
// watched child processes of their own); after three such cases, five seconds.
var execTimeouts int

func execWatched(p *Prop, input sx.S) sx.S {
	ch := make(chan sx.S, 1)
	go func() { ch <- p.Exec(input) }()
	patience := 90 * time.Second
	if execTimeouts >= 3 {
		patience = 5 * time.Second
	}
	select {
	case obs := <-ch:
		return obs
	case <-time.After(patience):
		execTimeouts++
		return sx.L("timeout")
	}
}
