package main

// Text family: value writer / value reader (C18), robustness of the text entry points (C03),
// JSON validity (C07 writer part).

import (
	"bytes"
	"encoding/json"
	"fmt"
	"io"
	"math"
	"math/rand"
	"os"
	"os/exec"
	"reflect"
	"regexp"
	"sort"
	"strconv"
	"strings"
	"time"
	"unicode/utf8"

	"github.com/uhn/ggql/pkg/ggql"

	"verifharness/sx"
)

// ---- values as s-expressions (the writer's view: wv) ----
//   null | (b 0|1) | (num int|f64|f32 x<text>) | (str (r <rune> x<utf8>)...) | (sym ...) | (var ...)
//   | (l v...) | (m (x<key> v)...)

func runesSexp(head string, s string) sx.S {
	out := []sx.S{head, sx.Hex(s)} // the raw bytes, then what Go's range decoding sees
	for _, r := range s {          // Go's decoding: invalid bytes arrive as U+FFFD
		buf := make([]byte, 4)
		n := utf8.EncodeRune(buf, r)
		out = append(out, sx.L("r", sx.A(int(r)), sx.Hex(string(buf[:n]))))
	}
	return out
}

func wvOf(v interface{}) sx.S {
	switch t := v.(type) {
	case nil:
		return "null"
	case bool:
		return sx.L("b", sx.A(t))
	case int64:
		return sx.L("num", "int", sx.Hex(strconv.FormatInt(t, 10)))
	case int:
		return sx.L("num", "int", sx.Hex(strconv.Itoa(t)))
	case int32:
		return sx.L("num", "int", sx.Hex(strconv.Itoa(int(t))))
	case float64:
		return sx.L("num", "f64", sx.Hex(strconv.FormatFloat(t, 'g', -1, 64)))
	case float32:
		return sx.L("num", "f32", sx.Hex(strconv.FormatFloat(float64(t), 'g', -1, 32)))
	case string:
		return runesSexp("str", t)
	case ggql.Symbol:
		return runesSexp("sym", string(t))
	case ggql.Var:
		return runesSexp("var", string(t))
	case []interface{}:
		out := []sx.S{"l"}
		for _, x := range t {
			out = append(out, wvOf(x))
		}
		return out
	case map[string]interface{}:
		keys := make([]string, 0, len(t))
		for k := range t {
			keys = append(keys, k)
		}
		sort.Strings(keys)
		out := []sx.S{"m"}
		for _, k := range keys {
			out = append(out, sx.L(runesSexp("k", k), wvOf(t[k])))
		}
		return out
	}
	return sx.L("other", sx.Hex(fmt.Sprintf("%v", v)))
}

func runesString(l []sx.S) string {
	return sx.Str(l[0]) // the raw bytes
}

func goOfWv(v sx.S) interface{} {
	if a, ok := v.(string); ok && a == "null" {
		return nil
	}
	l := sx.List(v)
	switch sx.Head(v) {
	case "b":
		return l[1].(string) != "0"
	case "num":
		txt := sx.Str(l[2])
		switch l[1].(string) {
		case "int":
			z, _ := strconv.ParseInt(txt, 10, 64)
			return z
		case "f32":
			f, _ := strconv.ParseFloat(txt, 32)
			return float32(f)
		default:
			f, _ := strconv.ParseFloat(txt, 64)
			return f
		}
	case "str":
		return runesString(l[1:])
	case "sym":
		return ggql.Symbol(runesString(l[1:]))
	case "var":
		return ggql.Var(runesString(l[1:]))
	case "l":
		out := []interface{}{}
		for _, x := range l[1:] {
			out = append(out, goOfWv(x))
		}
		return out
	case "m":
		out := map[string]interface{}{}
		for _, kv := range l[1:] {
			kvl := sx.List(kv)
			out[runesString(sx.List(kvl[0])[1:])] = goOfWv(kvl[1])
		}
		return out
	}
	panic("bad wv")
}

// pvOf renders a parsed value (what ParseValueString returns).
func pvOf(v interface{}) sx.S {
	switch t := v.(type) {
	case nil:
		return "null"
	case bool:
		return sx.L("b", sx.A(t))
	case int64:
		return sx.L("int", strconv.FormatInt(t, 10))
	case float64:
		return sx.L("flt", sx.Hex(strconv.FormatFloat(t, 'g', -1, 64)))
	case string:
		return sx.L("str", sx.Hex(t))
	case ggql.Symbol:
		return sx.L("sym", sx.Hex(string(t)))
	case ggql.Var:
		return sx.L("var", sx.Hex(string(t)))
	case []interface{}:
		out := []sx.S{"l"}
		for _, x := range t {
			out = append(out, pvOf(x))
		}
		return out
	case map[string]interface{}:
		keys := make([]string, 0, len(t))
		for k := range t {
			keys = append(keys, k)
		}
		sort.Strings(keys)
		out := []sx.S{"m"}
		for _, k := range keys {
			out = append(out, sx.L(sx.Hex(k), pvOf(t[k])))
		}
		return out
	}
	return sx.L("goval", sx.Hex(fmt.Sprintf("%T", v)))
}

// floatTable lists every maximal run of number bytes of a text with strconv.ParseFloat's verdict.
func floatTable(texts ...string) sx.S {
	seen := map[string]bool{}
	out := []sx.S{"floats"}
	for _, s := range texts {
		i := 0
		for i < len(s) {
			if strings.IndexByte("0123456789+-.eE", s[i]) < 0 {
				i++
				continue
			}
			j := i
			for j < len(s) && strings.IndexByte("0123456789+-.eE", s[j]) >= 0 {
				j++
			}
			// the reader starts a number at '-' or a digit only; every suffix starting there is a candidate
			for k := i; k < j; k++ {
				if s[k] == '-' || (s[k] >= '0' && s[k] <= '9') {
					tok := s[k:j]
					if !seen[tok] && len(seen) < 400 {
						seen[tok] = true
						_, err := strconv.ParseFloat(tok, 64)
						out = append(out, sx.L(sx.Hex(tok), sx.A(err == nil)))
					}
				}
			}
			i = j
		}
	}
	return out
}

// parseGuard runs ParseValueString with a recover.
func parseGuard(s string) (res sx.S) {
	defer func() {
		if r := recover(); r != nil {
			res = sx.L("panic")
		}
	}()
	v, err := ggql.ParseValueString(s)
	if err != nil {
		return sx.L("err")
	}
	return sx.L("ok", pvOf(v))
}

// jsonEqual: decode JSON text with encoding/json and compare with the value's JSON structure.
func jsonStructure(v interface{}) interface{} {
	switch t := v.(type) {
	case ggql.Symbol:
		return string(t)
	case ggql.Var:
		return "$" + string(t)
	case int64:
		return json.Number(strconv.FormatInt(t, 10))
	case int:
		return json.Number(strconv.FormatInt(int64(t), 10))
	case int32:
		return json.Number(strconv.FormatInt(int64(t), 10))
	case int16:
		return json.Number(strconv.FormatInt(int64(t), 10))
	case int8:
		return json.Number(strconv.FormatInt(int64(t), 10))
	case []map[string]interface{}:
		out := []interface{}{}
		for _, x := range t {
			out = append(out, jsonStructure(x))
		}
		return out
	case float64:
		return json.Number(strconv.FormatFloat(t, 'g', -1, 64))
	case float32:
		return json.Number(strconv.FormatFloat(float64(t), 'g', -1, 32))
	case string:
		return string([]rune(t)) // every byte that is not valid UTF-8 becomes U+FFFD, as encoding/json does when it encodes
	case []interface{}:
		out := []interface{}{}
		for _, x := range t {
			out = append(out, jsonStructure(x))
		}
		return out
	case map[string]interface{}:
		out := map[string]interface{}{}
		for k, x := range t {
			out[string([]rune(k))] = jsonStructure(x)
		}
		return out
	}
	return v
}

func stdJSON(text []byte, v interface{}) string {
	dec := json.NewDecoder(bytes.NewReader(text))
	dec.UseNumber()
	var got interface{}
	if err := dec.Decode(&got); err != nil {
		return "invalid"
	}
	if dec.More() {
		return "trailing"
	}
	if !reflect.DeepEqual(got, jsonStructure(v)) {
		return "differs"
	}
	return "same"
}

func c18Exec(input sx.S) (obs sx.S) {
	defer func() {
		if r := recover(); r != nil {
			obs = sx.L("panic", sx.Hex(fmt.Sprint(r)))
		}
	}()
	l := sx.List(input)
	v := goOfWv(l[1])
	indent := sx.Int(l[2])
	ggql.Sort = true
	defer func() { ggql.Sort = false }()
	var sb, jb bytes.Buffer
	if err := ggql.WriteSDLValue(&sb, v, indent); err != nil {
		return sx.L("write-error")
	}
	if err := ggql.WriteJSONValue(&jb, v, indent); err != nil {
		return sx.L("write-error")
	}
	// unsorted writing must parse back to the same value as well
	ggql.Sort = false
	var ub bytes.Buffer
	_ = ggql.WriteSDLValue(&ub, v, indent)
	unsorted := parseGuard(ub.String())
	ggql.Sort = true
	return sx.L(sx.L("sdl", sx.Hex(sb.String())), sx.L("json", sx.Hex(jb.String())),
		sx.L("parsed", parseGuard(sb.String())), sx.L("jparsed", parseGuard(jb.String())),
		sx.L("unsorted-parsed", unsorted), sx.L("stdjson", stdJSON(jb.Bytes(), v)),
		floatTable(sb.String(), jb.String()))
}

var textRunes = []rune{'a', 'b', 'Z', '0', '9', '_', ' ', '"', '\\', '/', '\n', '\r', '\t', '\b', '\f', 0, 1, 0x1f, 0x7f,
	'{', '}', '[', ']', ':', ',', '$', '#', '@', 0xe9, 0x20ac, 0x1f600, 0xfffd, 0xd7ff, 0xe000, 'n', 'u', 't'}

func genString(r *rand.Rand) string {
	var b strings.Builder
	for n := r.Intn(7); n > 0; n-- {
		if r.Intn(25) == 0 {
			// a byte sequence that is not valid UTF-8 (the JSON form must show U+FFFD for it)
			b.WriteString([]string{"\xff", "\xc3", "\xe2\x82", "\xf0\x9f\x98", "\x80", "\xed\xa0\x80"}[r.Intn(6)])
			continue
		}
		b.WriteRune(textRunes[r.Intn(len(textRunes))])
	}
	return b.String()
}

func genName(r *rand.Rand) string {
	const first = "abcdefghijklmnopqrstuvwxyzABCXYZ_"
	const restc = first + "0123456789"
	var b strings.Builder
	b.WriteByte(first[r.Intn(len(first))])
	for n := r.Intn(5); n > 0; n-- {
		b.WriteByte(restc[r.Intn(len(restc))])
	}
	return b.String()
}

var c18Floats = []float64{1.5, -0.25, 3.14159, 1e21, 1.5e-7, -2.5e+20, 0.1, 123456.789, 5e-324, 1.7976931348623157e308, 2.5}

func genValue(r *rand.Rand, depth int, domainOnly bool) interface{} {
	x := r.Intn(12)
	if depth >= 4 && x >= 9 {
		x = r.Intn(9)
	}
	switch x {
	case 0:
		return nil
	case 1:
		return r.Intn(2) == 0
	case 2:
		return intZoo[r.Intn(len(intZoo))]
	case 3:
		return int64(r.Intn(2000) - 1000)
	case 4:
		f := c18Floats[r.Intn(len(c18Floats))]
		if r.Intn(4) == 0 && !math.IsInf(float64(float32(f)), 0) && float32(f) != 0 {
			return float32(f)
		}
		return f
	case 5, 6:
		return genString(r)
	case 7:
		n := genName(r)
		for n == "true" || n == "false" || n == "null" {
			n = genName(r)
		}
		return ggql.Symbol(n)
	case 8:
		return ggql.Var(genName(r))
	case 9, 10:
		out := []interface{}{}
		if r.Intn(6) == 0 {
			// neighbours whose texts could run into one another without a separator: strings next to strings
			// (an empty one first: "" "b" must not read as the start of a block string), numbers next to
			// numbers and names, a string next to a name
			pool := []interface{}{"", "", genString(r), "b", int64(r.Intn(20)), ggql.Symbol("E"), float64(1.5), true, nil, "\"", "x\\"}
			for n := 2 + r.Intn(4); n > 0; n-- {
				out = append(out, pool[r.Intn(len(pool))])
			}
			return out
		}
		for n := r.Intn(4); n > 0; n-- {
			out = append(out, genValue(r, depth+1, domainOnly))
		}
		return out
	default:
		out := map[string]interface{}{}
		for n := r.Intn(4); n > 0; n-- {
			k := genName(r)
			if !domainOnly && r.Intn(12) == 0 {
				k = genString(r) // a key that is not a name (finding F18)
			}
			out[k] = genValue(r, depth+1, domainOnly)
		}
		return out
	}
}

func hasFeature(v interface{}, f func(interface{}) bool) bool {
	if f(v) {
		return true
	}
	switch t := v.(type) {
	case []interface{}:
		for _, x := range t {
			if hasFeature(x, f) {
				return true
			}
		}
	case map[string]interface{}:
		for _, x := range t {
			if hasFeature(x, f) {
				return true
			}
		}
	}
	return false
}

func nameKey(k string) bool {
	if k == "" {
		return false
	}
	for i := 0; i < len(k); i++ {
		c := k[i]
		if !(c == '_' || (c >= 'a' && c <= 'z') || (c >= 'A' && c <= 'Z') || (c >= '0' && c <= '9')) {
			return false
		}
	}
	return true
}

func c18Gen(r *rand.Rand, tier string) []Case {
	n := 2500
	if tier == "thorough" {
		n = 60000
	}
	var cases []Case
	for i := 0; i < n; i++ {
		v := genValue(r, 0, i%10 != 0)
		indent := []int{-1, 0, 2}[i%3]
		tags := []string{}
		if hasFeature(v, func(x interface{}) bool { _, ok := x.([]interface{}); return ok }) ||
			hasFeature(v, func(x interface{}) bool { _, ok := x.(map[string]interface{}); return ok }) {
			tags = append(tags, "container")
		}
		if hasFeature(v, func(x interface{}) bool {
			s, ok := x.(string)
			return ok && strings.ContainsAny(s, "\"\\\n\r\t\b\f\x00\x01\x1f")
		}) {
			tags = append(tags, "escapes")
		}
		if hasFeature(v, func(x interface{}) bool {
			m, ok := x.(map[string]interface{})
			if ok {
				for k := range m {
					if !nameKey(k) {
						return true
					}
				}
			}
			return false
		}) {
			tags = append(tags, "non-name-key")
		}
		if len(tags) > 0 {
			tags = append(tags, "nontrivial")
		}
		tags = append(tags, fmt.Sprintf("indent%d", indent))
		cases = append(cases, Case{ID: fmt.Sprintf("v%d", i), Input: sx.L("val", wvOf(v), sx.A(indent)), Tags: tags, Human: safeSDL(v)})
	}
	// wide values: far more containers than the nesting bound, side by side (depth 2): the reader's depth
	// counter has to come back down after every one of them
	for wi, indent := range []int{-1, 0} {
		if tier != "thorough" {
			break // the writer model is quadratic in the width: the quick tier sends such texts to the reader only (C03)
		}
		wide := make([]interface{}, 0, 10050)
		for i := 0; i < 10050; i++ {
			wide = append(wide, map[string]interface{}{"a": int64(i % 7)})
		}
		cases = append(cases, Case{ID: fmt.Sprintf("wide%d", wi), Input: sx.L("val", wvOf(wide), sx.A(indent)),
			Tags: []string{"container", "wide", "nontrivial", fmt.Sprintf("indent%d", indent)}, Human: "[{a: 0} {a: 1} ... 10050 objects]"})
	}
	return cases
}

// safeSDL renders a value for humans; the library may be broken, so recover.
func safeSDL(v interface{}) (s string) {
	defer func() {
		if r := recover(); r != nil {
			s = "<writer panicked>"
		}
	}()
	var hb bytes.Buffer
	ggql.Sort = true
	_ = ggql.WriteSDLValue(&hb, v, -1)
	ggql.Sort = false
	return hb.String()
}

func c18Valid(input sx.S) bool {
	l := sx.List(input)
	if sx.Head(input) != "val" || len(l) != 3 {
		return false
	}
	// the rune lists must be what Go's range decoding yields for the raw bytes
	if sx.String(wvOf(goOfWv(l[1]))) != sx.String(l[1]) {
		return false
	}
	i := sx.Int(l[2])
	return i == -1 || i == 0 || i == 2
}

// ---- C03: arbitrary bytes into the text entry points ----
// Each entry point runs in this process under recover with a watchdog; a fatal error (stack
// overflow) or a hang can only be observed from outside, so every case is also run in a child
// process when its size or nesting is large.

// c03Reader: how the bytes reach the library.  "" = the String entry points; r1 = a reader that
// returns io.EOF together with the last bytes (as an HTTP body with Content-Length does); r2 = one
// byte per Read; r3kN = a reader that fails with an error after N bytes (mid-stream)
type c03Reader struct {
	data []byte
	mode string
	fail int
	pos  int
}

func newC03Reader(data string, mode string) *c03Reader {
	r := &c03Reader{data: []byte(data), mode: mode, fail: -1}
	if strings.HasPrefix(mode, "r3k") {
		r.fail, _ = strconv.Atoi(mode[3:])
		r.mode = "r3"
	}
	return r
}

func (r *c03Reader) Read(p []byte) (int, error) {
	if len(p) == 0 {
		return 0, nil
	}
	rest := r.data[r.pos:]
	if r.mode == "r3" && r.pos >= r.fail {
		return 0, fmt.Errorf("reader failed mid-stream")
	}
	if len(rest) == 0 {
		return 0, io.EOF
	}
	n := len(rest)
	if n > len(p) {
		n = len(p)
	}
	switch r.mode {
	case "r2":
		n = 1
	case "r3":
		if r.pos+n > r.fail {
			n = r.fail - r.pos
		}
	}
	copy(p, rest[:n])
	r.pos += n
	if r.mode == "r1" && r.pos == len(r.data) {
		return n, io.EOF
	}
	return n, nil
}

func c03Entry(entry string, data string, mode string) (class string, detail sx.S) {
	defer func() {
		if r := recover(); r != nil {
			class, detail = "panic", sx.Hex(fmt.Sprint(r))
		}
	}()
	switch entry {
	case "value":
		var v interface{}
		var err error
		if mode == "" {
			v, err = ggql.ParseValueString(data)
		} else {
			v, err = ggql.ParseValue(newC03Reader(data, mode))
		}
		if err != nil {
			return "error", "-"
		}
		// what was read is printed in both forms and every indent mode (the text is not compared here)
		for _, ind := range []int{-1, 0, 2} {
			var b bytes.Buffer
			_ = ggql.WriteJSONValue(&b, v, ind)
			b.Reset()
			_ = ggql.WriteSDLValue(&b, v, ind)
		}
		return "ok", pvOf(v)
	case "sdl":
		root := ggql.NewRoot(nil)
		var err error
		if mode == "" {
			err = root.ParseString(data)
		} else {
			err = root.ParseReader(newC03Reader(data, mode))
		}
		// the same text as a second load on a root that already holds the seed schema: extensions of
		// loaded types, duplicates of loaded names, and the rollback of a refused load
		root2 := ggql.NewRoot(nil)
		if err2 := root2.ParseString(c03Seeds["sdl"][0]); err2 == nil {
			if mode == "" {
				_ = root2.ParseString(data)
			} else {
				_ = root2.ParseReader(newC03Reader(data, mode))
			}
			_ = root2.SDL(true, true)
		}
		// requests against whatever the root holds now: the schema the text defines, or no schema at all
		// when the load was refused (a server whose schema did not load still answers)
		// (on a root of its own that has a root object: a nil root object is the application's doing)
		root3 := ggql.NewRoot(&c02ReflectRoot{})
		if mode == "" {
			_ = root3.ParseString(data)
		} else {
			_ = root3.ParseReader(newC03Reader(data, mode))
		}
		for _, q := range []string{"{__typename}", "{__schema{queryType{name}}}", "mutation{a}", "subscription{a}", "{a{b}}"} {
			_ = root3.ResolveString(q, "", nil)
		}
		_, _ = root3.AddEvent("x", nil)
		_ = root3.Unsubscribe("x")
		if err != nil {
			return "error", "-"
		}
		_ = root.SDL(true, true)
		return "ok", "-"
	case "exe":
		// the same request on a root that holds no schema
		_ = ggql.NewRoot(&c02ReflectRoot{}).ResolveString(data, "", map[string]interface{}{"v1": 1})
		w := &world{nodes: map[int]*gnode{}, strat: map[int]bool{}, objs: map[int]interface{}{}}
		w.nodes[1] = &gnode{gotype: 1, fields: map[int]behav{1: {kind: "const", v: sx.L("node", "2")}, 2: {kind: "echo", k: 1}}}
		w.nodes[2] = &gnode{gotype: 20, fields: map[int]behav{3: {kind: "const", v: sx.L("str", "1")}, 1: {kind: "const", v: sx.L("node", "2")},
			4: {kind: "const", v: sx.L("list", sx.L("node", "2"), "nil")}}}
		root := ggql.NewRoot(&execSchemaObj{w: w, q: 1, m: -1})
		w.nodes[3] = &gnode{gotype: 21, fields: map[int]behav{7: {kind: "echo", k: 2}}}
		w.nodes[2].fields[7] = behav{kind: "echo", k: 2}
		w.nodes[1].fields[5] = behav{kind: "const", v: sx.L("node", "2")}
		w.nodes[1].fields[6] = behav{kind: "const", v: sx.L("node", "3")}
		_ = root.ParseString("input T42 { tags: [String] n: Int nums: [Int] }\n")
		_ = root.RegisterType(&c03In42{}, "T42") // an input type bound to a Go struct
		_ = root.ParseString("type Query { f1: T20 f2(a1: Int!, a2: [String], a3: T40, a4: T41, a5: T42): Int f5: T28 f6: T28 } interface T28 { f7(a1: Int, a2: Int): Int } type T20 implements T28 { f3: String f1: T20 f4: [T20] f7(a1: Int, a2: Int): Int } type T21 implements T28 { f7(a1: Int, a2: Int): Int } input T40 { a1: Int! a2: [T40] } input T41 { n: Int = 1 next: T41 = {} list: [T41] = [{}] }")
		_ = root.RegisterType(newNodeObj(w, -1, 20, true), "T20")
		_ = root.RegisterType(newNodeObj(w, -1, 21, true), "T21")
		// request parsing and printing of whatever the reader returned, then resolution
		vars := map[string]interface{}{"v1": 1, "v2": nil, "v3": []interface{}{"x", 2}}
		var res map[string]interface{}
		if mode == "" {
			if exe, _ := root.ParseExecutableString(data); exe != nil {
				_ = exe.String()
			}
			res = root.ResolveString(data, "", vars)
		} else {
			if exe, _ := root.ParseExecutableReader(newC03Reader(data, mode)); exe != nil {
				_ = exe.String()
			}
			res = root.ResolveReader(newC03Reader(data, mode), "", vars)
		}
		var b bytes.Buffer
		_ = ggql.WriteJSONValue(&b, res, 2)
		if _, has := res["errors"]; has {
			return "error", "-"
		}
		return "ok", "-"
	}
	return "bad-entry", "-"
}

// c03In42: the Go struct input type T42 is bound to
type c03In42 struct {
	Tags []string
	N    int32
	Nums []int32
}

func c03Exec(input sx.S) sx.S {
	l := sx.List(input)
	entry := l[1].(string)
	data := sx.Str(l[2])
	child, mode := entry != "value", ""
	for _, f := range l[3:] {
		if f.(string) == "child" {
			child = true
		} else {
			mode = f.(string) // reader mode: r1, r2, r3kN
		}
	}
	if child {
		// run in a child process: fatal errors and hangs become observable
		cmd := exec.Command(os.Args[0], "c03child", entry, mode)
		cmd.Stdin = strings.NewReader(data)
		var out bytes.Buffer
		cmd.Stdout = &out
		done := make(chan error, 1)
		if err := cmd.Start(); err != nil {
			return sx.L("class", "spawn-failed")
		}
		go func() { done <- cmd.Wait() }()
		select {
		case err := <-done:
			if err != nil {
				return sx.L("class", "fatal")
			}
			return sx.L("class", strings.TrimSpace(out.String()))
		case <-time.After(childTimeout(len(data))):
			_ = cmd.Process.Kill()
			return sx.L("class", "timeout")
		}
	}
	type result struct {
		class  string
		detail sx.S
	}
	ch := make(chan result, 1)
	go func() {
		c, d := c03Entry(entry, data, mode)
		ch <- result{c, d}
	}()
	select {
	case r := <-ch:
		if entry == "value" {
			seen := data // the bytes the reader delivers before it fails
			if strings.HasPrefix(mode, "r3k") {
				if k, err := strconv.Atoi(mode[3:]); err == nil && k < len(seen) {
					seen = seen[:k]
				}
			}
			return sx.L("class", r.class, r.detail, floatTable(seen))
		}
		return sx.L("class", r.class)
	case <-time.After(10 * time.Second):
		return sx.L("class", "timeout")
	}
}

func childTimeout(n int) time.Duration {
	if n > 100000 {
		return 30 * time.Second
	}
	return 3 * time.Second
}

func c03ChildMain(entry string, mode string) {
	data, _ := os.ReadFile("/dev/stdin")
	c, _ := c03Entry(entry, string(data), mode)
	fmt.Println(c)
}

var c03Seeds = map[string][]string{
	"value": {`{a: 1, b: [true, null, "x\n", E, $v], c: {d: 1.5e3}}`, `[1 2 3]`, `"""block "" string"""`, `-12`, `"é"`, `{"k": [[], {}]}`,
		"{\"😀\": \"𐍈 é 日\", k: [\"\\u00e9\", \"\"\"😀\"\"\"]}"},
	"sdl": {"type Query { a(x: Int = 3, y: [String!]! = [\"q\"]): Thing @deprecated(reason: \"no\") }\n\"desc\"\ntype Thing implements I { name: String }\ninterface I { name: String }\nunion U = Thing\nenum E { A B }\ninput In { p: Int! = 1 }\nscalar Date\ndirective @d(a: Int) on FIELD | OBJECT\nextend type Thing { more: Thing }\nschema { query: Query }\n",
		"\"\"\"\nblock\n\"\"\"\ntype Query { a: Int }",
		// extensions of types the root already holds (the second load of the sdl entry), several per type,
		// the last one refused: the rollback runs over all of them
		"extend type Thing { x: Int }\nextend type Thing { y: Int }\nextend type Thing { x: Int }\n",
		"extend enum E { C }\nextend enum E { D }\nextend input In { q: Int }\nextend input In { r: Int }\nextend interface I { z: Int }\nextend enum E { C }\n",
		"extend type Thing { x: Int }\nextend type Thing { y: Nope }\nextend union U = Query\nextend union U = Query\n",
		"type Query { a: Int }\nextend type Query { b: Int }\nextend type Query { c: Int }\nextend type Query { b: Int }\n",
		"input Node { n: Int = 1 next: Node = {} list: [Node] = [{}] }\ntype Query { f(x: Node = {}): Int }\n",
		// characters outside the basic plane in everything that is printed back
		"\"😀 𐍈\"\ntype Query { \"\"\"😀\"\"\" a(x: String = \"😀\", y: [String] = [\"𐍈\"]): Int @deprecated(reason: \"😀\") }\nenum E { \"𐍈\" A }\n"},
	"exe": {`query Q($v1: Int = 2, $v2: [String]) { f1 { f3 f1 { ...F } } f2(a1: $v1, a2: ["s"], a3: {a1: 1, a2: [{a1: 2}]}) ... on Query { f1 { f3 } } }
fragment F on T20 { f3 f1 { f3 } }`, `{ f1 { f3 f4 { f3 } } }`, `mutation M { f1 { f3 } }`, `{ __schema { types { name } } __type(name: "T20") { fields { name } } }`,
		`query($a:){f1{f3}}`, `{f1{...F}} fragment F on T20 {f3 ...F}`, `{f1{...F}} fragment F on T20 {f3 f1 { ...G }} fragment G on T20 { f1 { ...F } }`,
		`{ f2(a1: 1, a2: $v3) }`, `{ f2 }`, `{ f2(a1: null) }`, `{ f2(a1: "s") }`, `{ f2(a1: 4294967297) }`,
		`query($a: [Int!]! = [1]) { f1 { ... on T20 @skip(if: false) { f3 } ... @include(if: true) { f3 } } }`,
		`subscription S { f1 { f3 } }`, `{ f2(a1: [1], a2: {a: 1}, a3: E) }`, `{ f2(a1: 1, a3: {a1: 1, a2: [{a1: $v1}, null]}) }`,
		// an input type that reaches itself through defaulted fields: given empty, as a literal, a variable, a default
		`{ f2(a1: 1, a4: {}) }`, `query($v: T41 = {}) { f2(a1: 1, a4: $v) }`, `{ f2(a1: 1, a4: {next: {list: [{}]}}) }`,
		// a cycle that the first fragment (in name order) only leads into
		`{f1{...E}} fragment E on T20 { f3 ...L } fragment L on T20 { f3 ...L }`, `{f1{...A}} fragment A on T20 { ...M } fragment M on T20 { f1 { ...N } } fragment N on T20 { ... on T20 { ...M } }`,
		// one selection with a given and an omitted argument, evaluated in two object types
		`{ f5 { ...S } f6 { ...S } } fragment S on T28 { f7(a2: 2) }`, `{ f5 { f7(a1: 1) } f6 { f7(a2: 2) ... on T21 { f7(a1: 3) } } }`,
		// fragments that reach themselves only through an inline fragment, a field, a list, one another
		`{ ...A } fragment A on Query { f1 { f3 } ... on Query { ...A } }`, `{f1{...F}} fragment F on T20 { f3 ... { ...F } }`,
		// an input type bound to a Go struct: nulls for the field and inside its lists, numbers for strings
		`{ f2(a1: 1, a5: {tags: ["x", null], n: 2, nums: [1, null]}) }`, `{ f2(a1: 1, a5: {tags: null, n: null}) }`, `query($v: T42 = {tags: [null]}) { f2(a1: 1, a5: $v) }`, `{ f2(a1: 1, a5: {tags: [1], nums: ["x"], zzz: 1}) }`,
		// a variable whose default is the variable itself, alone and inside an input object, through a second variable
		`query Q($a: Int = $a) { f2(a1: $a) }`, `query Q($a: T40 = {a1: 1, a2: [$a]}) { f2(a1: 1, a3: $a) }`, `query Q($a: Int = $b, $b: Int = $a) { f2(a1: $a) }`,
		// a list under a key the input type does not declare
		`{ f2(a1: 1, a3: {a1: 1, bogus: [1, 2]}) }`, `{ f2(a1: 1, a3: {a1: 1, extra: [[$v1]]}) }`, `{ f2(a1: 1, a4: {zzz: {k: [1, {j: []}]}}) }`,
		"{ f2(a1: 1, a2: [\"😀\", \"𐍈\"]) f1 { f3 } }", "query($v: [String] = [\"😀\"]) { f2(a1: 1, a2: $v) }",
		`{f1{...F}} fragment F on T20 { f4 { ... on T20 { f1 { ...F } } } }`, `{f1{...F}} fragment F on T20 { ... on T20 { ...G } } fragment G on T20 { ... { ...F } }`},
}

// tokens the token-level mutator inserts
var c03Vocab = []string{"[", "]", "[]", "{", "}", "{}", "(", ")", "()", "!", ":", "=", "|", "&", "@", "@skip(if: true)", "@d", "...", "on", "$v1", "$",
	"type", "input", "enum", "union", "interface", "scalar", "schema", "extend", "directive", "implements", "fragment", "query", "mutation", "subscription",
	"Int", "T20", "Query", "null", "true", "1", "-", "1e", "\"", "\"\"\"", "#", ",", "\n", "\"😀\"", "\"\"\"𐍈\"\"\""}

var c03TokRe = regexp.MustCompile("[A-Za-z_][A-Za-z0-9_]*|\\$[A-Za-z0-9_]*|-?[0-9][0-9.eE+-]*|\"\"\"(?s:.*?)\"\"\"|\"(?:[^\"\\\\\n]|\\\\.)*\"|\\.\\.\\.|\\s+|.")

// mutateTokens deletes, duplicates, swaps and inserts whole tokens, so that the structure around
// the change stays well formed (an empty list type, a missing type condition, a stray directive)
func mutateTokens(r *rand.Rand, s string) string {
	toks := c03TokRe.FindAllString(s, -1)
	for n := 1 + r.Intn(3); n > 0 && len(toks) > 0; n-- {
		i := r.Intn(len(toks))
		switch r.Intn(5) {
		case 0, 1:
			toks = append(toks[:i], toks[i+1:]...)
		case 2:
			toks = append(toks[:i], append([]string{c03Vocab[r.Intn(len(c03Vocab))], " "}, toks[i:]...)...)
		case 3:
			toks[i] = c03Vocab[r.Intn(len(c03Vocab))]
		default:
			j := r.Intn(len(toks))
			toks[i], toks[j] = toks[j], toks[i]
		}
	}
	return strings.Join(toks, "")
}

func mutateBytes(r *rand.Rand, s string) string {
	b := []byte(s)
	junk := []byte("{}[]()\"\\$@!:=|#,.-+eE0 \n\t\x00\xef\xbb\xbfa_")
	for n := 1 + r.Intn(4); n > 0; n-- {
		switch r.Intn(6) {
		case 0:
			if len(b) > 0 {
				i := r.Intn(len(b))
				b = append(b[:i], b[i+1:]...)
			}
		case 1:
			i := r.Intn(len(b) + 1)
			b = append(b[:i], append([]byte{junk[r.Intn(len(junk))]}, b[i:]...)...)
		case 2:
			if len(b) > 0 {
				b[r.Intn(len(b))] = junk[r.Intn(len(junk))]
			}
		case 3:
			if len(b) > 0 {
				b = b[:r.Intn(len(b))]
			}
		case 4:
			if len(b) > 1 {
				i := r.Intn(len(b) - 1)
				j := i + 1 + r.Intn(len(b)-i-1)
				b = append(b[:j], append(append([]byte{}, b[i:j]...), b[j:]...)...)
			}
		default:
			if len(b) > 0 {
				i := r.Intn(len(b))
				b = append(b[:i], append([]byte(strings.Repeat(string(b[i]), 1+r.Intn(5))), b[i:]...)...)
			}
		}
	}
	return string(b)
}

func c03Gen(r *rand.Rand, tier string) []Case {
	n := 1500
	if tier == "thorough" {
		n = 60000
	}
	var cases []Case
	id := 0
	add := func(entry, data string, child bool, tags ...string) {
		id++
		in := sx.L("bytes", entry, sx.Hex(data))
		if child {
			in = append(in, "child")
		}
		h := data
		if len(h) > 120 {
			h = h[:120] + "..."
		}
		cases = append(cases, Case{ID: fmt.Sprintf("b%d", id), Input: in, Tags: append(tags, entry), Human: h})
	}
	addMode := func(entry, data, mode string) {
		id++
		in := sx.L("bytes", entry, sx.Hex(data), "child", mode) // a reader that misbehaves may make the library hang: always in a child
		h := data
		if len(h) > 120 {
			h = h[:120] + "..."
		}
		cases = append(cases, Case{ID: fmt.Sprintf("b%d", id), Input: in, Tags: []string{"reader-" + mode[:2], "nontrivial", entry}, Human: h + "  (reader " + mode + ")"})
	}
	for _, entry := range []string{"value", "sdl", "exe"} {
		for _, s := range c03Seeds[entry] {
			add(entry, s, entry != "value", "seed", "nontrivial")
		}
	}
	for i := 0; i < n; i++ {
		entry := []string{"value", "value", "sdl", "exe"}[i%4]
		seeds := c03Seeds[entry]
		s := seeds[r.Intn(len(seeds))]
		if entry == "value" && r.Intn(3) == 0 {
			s = safeSDL(genValue(r, 0, false))
		}
		var m string
		if i%2 == 0 {
			m = mutateBytes(r, s)
			add(entry, m, false, "mutated", "nontrivial")
		} else {
			m = mutateTokens(r, s)
			add(entry, m, false, "token-mutated", "nontrivial")
		}
		if i%5 == 0 {
			// the same bytes through a reader: EOF delivered with the last bytes, one byte per Read, failing mid-stream
			mode := []string{"r1", "r2", "r1", "r3k" + strconv.Itoa(r.Intn(len(m)+1))}[(i/5)%4]
			if entry == "value" && i%10 == 0 {
				// in process: the outcome and the value are compared with the model's reader (its failing
				// reader for r3kN)
				id++
				cases = append(cases, Case{ID: fmt.Sprintf("b%d", id), Input: sx.L("bytes", entry, sx.Hex(m), mode),
					Tags: []string{"reader-" + mode[:2] + "-compared", "nontrivial", entry}, Human: m + "  (reader " + mode + ")"})
			} else {
				addMode(entry, m, mode)
			}
		}
	}
	// every seed, and every seed cut short at every delimiter, through the EOF-with-the-last-bytes reader
	for _, entry := range []string{"value", "sdl", "exe"} {
		for _, s := range c03Seeds[entry] {
			addMode(entry, s, "r1")
			if tier == "thorough" || entry == "value" {
				for i := 1; i < len(s); i++ {
					if strings.ContainsRune("[{(,: ", rune(s[i-1])) {
						addMode(entry, s[:i]+"@", "r1")
						addMode(entry, s[:i], "r1")
					}
				}
			}
		}
	}
	// at the nesting bound (maxNesting = 10000), in process and compared with the model byte by byte:
	// the deepest value that is read, and the first that is refused
	for _, d := range []int{9999, 10000, 10001} {
		add("value", strings.Repeat("[", d)+strings.Repeat("]", d), false, "nesting-bound", "nontrivial")
		add("value", strings.Repeat("{a:", d)+"1"+strings.Repeat("}", d), false, "nesting-bound", "nontrivial")
		add("value", strings.Repeat("[{a:", d/2)+"[]"+strings.Repeat("}]", d/2), false, "nesting-bound", "nontrivial")
	}
	// wide values: more containers than the nesting bound, side by side: the depth counter comes back down
	add("value", "["+strings.Repeat("{a:1}", 10050)+"]", false, "wide", "nontrivial")
	add("value", "["+strings.Repeat("[1]", 10050)+"]", false, "wide", "nontrivial")
	add("value", "{a:"+strings.Repeat("{b:[]} ", 10050)+"}", false, "wide", "nontrivial")
	// nesting bombs and long runs, in child processes (a stack overflow is fatal, not a panic)
	depths := []int{1000, 100000}
	if tier == "thorough" {
		depths = append(depths, 5000000)
	}
	for _, d := range depths {
		add("value", strings.Repeat("[", d), true, "nesting-bomb", "nontrivial")
		add("value", strings.Repeat("{a:", d), true, "nesting-bomb", "nontrivial")
		add("exe", "{"+strings.Repeat("a{", d), true, "nesting-bomb", "nontrivial")
		add("sdl", "type Query { a: "+strings.Repeat("[", d)+"Int", true, "nesting-bomb", "nontrivial")
		// the same, closed: well-formed text whose only fault is its depth
		add("value", strings.Repeat("[", d)+strings.Repeat("]", d), true, "nesting-bomb", "nontrivial")
		add("value", strings.Repeat("{a:", d)+"1"+strings.Repeat("}", d), true, "nesting-bomb", "nontrivial")
		add("exe", "{"+strings.Repeat("f1{", d)+"f3"+strings.Repeat("}", d)+"}", true, "nesting-bomb", "nontrivial")
		add("sdl", "type Query { a: "+strings.Repeat("[", d)+"Int"+strings.Repeat("]", d)+" }", true, "nesting-bomb", "nontrivial")
	}
	_ = math.Pi
	return cases
}

func c03Valid(input sx.S) bool {
	l := sx.List(input)
	if sx.Head(input) != "bytes" || len(l) < 3 {
		return false
	}
	_ = sx.Str(l[2])
	e := l[1].(string)
	for _, f := range l[3:] {
		fs := f.(string)
		if fs != "child" && fs != "r1" && fs != "r2" && !strings.HasPrefix(fs, "r3k") {
			return false
		}
		if strings.HasPrefix(fs, "r3k") {
			if _, err := strconv.Atoi(fs[3:]); err != nil {
				return false
			}
		}
	}
	return e == "value" || e == "sdl" || e == "exe"
}

func init() {
	props["C18"] = &Prop{Gen: c18Gen, Exec: c18Exec, Valid: c18Valid}
	props["C03"] = &Prop{Gen: c03Gen, Exec: c03Exec, Valid: c03Valid}
}
