package main

// Code generated from zoo_f_gen.go (python, see c02.go): the same zoo with value receivers. A value of the
// GraphQL type is a V<k> struct value or a pointer to one: both have the methods.

type V1 struct{ nodeBase }

func (n V1) F1(args ...interface{}) (interface{}, error) { return n.w.reflectCall(n.id, 1, args) }
func (n V1) F2(args ...interface{}) (interface{}, error) { return n.w.reflectCall(n.id, 2, args) }
func (n V1) F3(args ...interface{}) (interface{}, error) { return n.w.reflectCall(n.id, 3, args) }
func (n V1) F4(args ...interface{}) (interface{}, error) { return n.w.reflectCall(n.id, 4, args) }
func (n V1) F5(args ...interface{}) (interface{}, error) { return n.w.reflectCall(n.id, 5, args) }
func (n V1) F6(args ...interface{}) (interface{}, error) { return n.w.reflectCall(n.id, 6, args) }
func (n V1) F7(args ...interface{}) (interface{}, error) { return n.w.reflectCall(n.id, 7, args) }
func (n V1) F8(args ...interface{}) (interface{}, error) { return n.w.reflectCall(n.id, 8, args) }

type V2 struct{ nodeBase }

func (n V2) F1(args ...interface{}) (interface{}, error) { return n.w.reflectCall(n.id, 1, args) }
func (n V2) F2(args ...interface{}) (interface{}, error) { return n.w.reflectCall(n.id, 2, args) }
func (n V2) F3(args ...interface{}) (interface{}, error) { return n.w.reflectCall(n.id, 3, args) }
func (n V2) F4(args ...interface{}) (interface{}, error) { return n.w.reflectCall(n.id, 4, args) }
func (n V2) F5(args ...interface{}) (interface{}, error) { return n.w.reflectCall(n.id, 5, args) }
func (n V2) F6(args ...interface{}) (interface{}, error) { return n.w.reflectCall(n.id, 6, args) }
func (n V2) F7(args ...interface{}) (interface{}, error) { return n.w.reflectCall(n.id, 7, args) }
func (n V2) F8(args ...interface{}) (interface{}, error) { return n.w.reflectCall(n.id, 8, args) }

type V20 struct{ nodeBase }

func (n V20) F1(args ...interface{}) (interface{}, error) { return n.w.reflectCall(n.id, 1, args) }
func (n V20) F2(args ...interface{}) (interface{}, error) { return n.w.reflectCall(n.id, 2, args) }
func (n V20) F3(args ...interface{}) (interface{}, error) { return n.w.reflectCall(n.id, 3, args) }
func (n V20) F4(args ...interface{}) (interface{}, error) { return n.w.reflectCall(n.id, 4, args) }
func (n V20) F5(args ...interface{}) (interface{}, error) { return n.w.reflectCall(n.id, 5, args) }
func (n V20) F6(args ...interface{}) (interface{}, error) { return n.w.reflectCall(n.id, 6, args) }
func (n V20) F7(args ...interface{}) (interface{}, error) { return n.w.reflectCall(n.id, 7, args) }
func (n V20) F8(args ...interface{}) (interface{}, error) { return n.w.reflectCall(n.id, 8, args) }

type V21 struct{ nodeBase }

func (n V21) F1(args ...interface{}) (interface{}, error) { return n.w.reflectCall(n.id, 1, args) }
func (n V21) F2(args ...interface{}) (interface{}, error) { return n.w.reflectCall(n.id, 2, args) }
func (n V21) F3(args ...interface{}) (interface{}, error) { return n.w.reflectCall(n.id, 3, args) }
func (n V21) F4(args ...interface{}) (interface{}, error) { return n.w.reflectCall(n.id, 4, args) }
func (n V21) F5(args ...interface{}) (interface{}, error) { return n.w.reflectCall(n.id, 5, args) }
func (n V21) F6(args ...interface{}) (interface{}, error) { return n.w.reflectCall(n.id, 6, args) }
func (n V21) F7(args ...interface{}) (interface{}, error) { return n.w.reflectCall(n.id, 7, args) }
func (n V21) F8(args ...interface{}) (interface{}, error) { return n.w.reflectCall(n.id, 8, args) }

type V22 struct{ nodeBase }

func (n V22) F1(args ...interface{}) (interface{}, error) { return n.w.reflectCall(n.id, 1, args) }
func (n V22) F2(args ...interface{}) (interface{}, error) { return n.w.reflectCall(n.id, 2, args) }
func (n V22) F3(args ...interface{}) (interface{}, error) { return n.w.reflectCall(n.id, 3, args) }
func (n V22) F4(args ...interface{}) (interface{}, error) { return n.w.reflectCall(n.id, 4, args) }
func (n V22) F5(args ...interface{}) (interface{}, error) { return n.w.reflectCall(n.id, 5, args) }
func (n V22) F6(args ...interface{}) (interface{}, error) { return n.w.reflectCall(n.id, 6, args) }
func (n V22) F7(args ...interface{}) (interface{}, error) { return n.w.reflectCall(n.id, 7, args) }
func (n V22) F8(args ...interface{}) (interface{}, error) { return n.w.reflectCall(n.id, 8, args) }

type V23 struct{ nodeBase }

func (n V23) F1(args ...interface{}) (interface{}, error) { return n.w.reflectCall(n.id, 1, args) }
func (n V23) F2(args ...interface{}) (interface{}, error) { return n.w.reflectCall(n.id, 2, args) }
func (n V23) F3(args ...interface{}) (interface{}, error) { return n.w.reflectCall(n.id, 3, args) }
func (n V23) F4(args ...interface{}) (interface{}, error) { return n.w.reflectCall(n.id, 4, args) }
func (n V23) F5(args ...interface{}) (interface{}, error) { return n.w.reflectCall(n.id, 5, args) }
func (n V23) F6(args ...interface{}) (interface{}, error) { return n.w.reflectCall(n.id, 6, args) }
func (n V23) F7(args ...interface{}) (interface{}, error) { return n.w.reflectCall(n.id, 7, args) }
func (n V23) F8(args ...interface{}) (interface{}, error) { return n.w.reflectCall(n.id, 8, args) }

type V24 struct{ nodeBase }

func (n V24) F1(args ...interface{}) (interface{}, error) { return n.w.reflectCall(n.id, 1, args) }
func (n V24) F2(args ...interface{}) (interface{}, error) { return n.w.reflectCall(n.id, 2, args) }
func (n V24) F3(args ...interface{}) (interface{}, error) { return n.w.reflectCall(n.id, 3, args) }
func (n V24) F4(args ...interface{}) (interface{}, error) { return n.w.reflectCall(n.id, 4, args) }
func (n V24) F5(args ...interface{}) (interface{}, error) { return n.w.reflectCall(n.id, 5, args) }
func (n V24) F6(args ...interface{}) (interface{}, error) { return n.w.reflectCall(n.id, 6, args) }
func (n V24) F7(args ...interface{}) (interface{}, error) { return n.w.reflectCall(n.id, 7, args) }
func (n V24) F8(args ...interface{}) (interface{}, error) { return n.w.reflectCall(n.id, 8, args) }

type V25 struct{ nodeBase }

func (n V25) F1(args ...interface{}) (interface{}, error) { return n.w.reflectCall(n.id, 1, args) }
func (n V25) F2(args ...interface{}) (interface{}, error) { return n.w.reflectCall(n.id, 2, args) }
func (n V25) F3(args ...interface{}) (interface{}, error) { return n.w.reflectCall(n.id, 3, args) }
func (n V25) F4(args ...interface{}) (interface{}, error) { return n.w.reflectCall(n.id, 4, args) }
func (n V25) F5(args ...interface{}) (interface{}, error) { return n.w.reflectCall(n.id, 5, args) }
func (n V25) F6(args ...interface{}) (interface{}, error) { return n.w.reflectCall(n.id, 6, args) }
func (n V25) F7(args ...interface{}) (interface{}, error) { return n.w.reflectCall(n.id, 7, args) }
func (n V25) F8(args ...interface{}) (interface{}, error) { return n.w.reflectCall(n.id, 8, args) }

type V26 struct{ nodeBase }

func (n V26) F1(args ...interface{}) (interface{}, error) { return n.w.reflectCall(n.id, 1, args) }
func (n V26) F2(args ...interface{}) (interface{}, error) { return n.w.reflectCall(n.id, 2, args) }
func (n V26) F3(args ...interface{}) (interface{}, error) { return n.w.reflectCall(n.id, 3, args) }
func (n V26) F4(args ...interface{}) (interface{}, error) { return n.w.reflectCall(n.id, 4, args) }
func (n V26) F5(args ...interface{}) (interface{}, error) { return n.w.reflectCall(n.id, 5, args) }
func (n V26) F6(args ...interface{}) (interface{}, error) { return n.w.reflectCall(n.id, 6, args) }
func (n V26) F7(args ...interface{}) (interface{}, error) { return n.w.reflectCall(n.id, 7, args) }
func (n V26) F8(args ...interface{}) (interface{}, error) { return n.w.reflectCall(n.id, 8, args) }

type V27 struct{ nodeBase }

func (n V27) F1(args ...interface{}) (interface{}, error) { return n.w.reflectCall(n.id, 1, args) }
func (n V27) F2(args ...interface{}) (interface{}, error) { return n.w.reflectCall(n.id, 2, args) }
func (n V27) F3(args ...interface{}) (interface{}, error) { return n.w.reflectCall(n.id, 3, args) }
func (n V27) F4(args ...interface{}) (interface{}, error) { return n.w.reflectCall(n.id, 4, args) }
func (n V27) F5(args ...interface{}) (interface{}, error) { return n.w.reflectCall(n.id, 5, args) }
func (n V27) F6(args ...interface{}) (interface{}, error) { return n.w.reflectCall(n.id, 6, args) }
func (n V27) F7(args ...interface{}) (interface{}, error) { return n.w.reflectCall(n.id, 7, args) }
func (n V27) F8(args ...interface{}) (interface{}, error) { return n.w.reflectCall(n.id, 8, args) }

// newValueObj: the value itself (ptr false) or a pointer to it
func newValueObj(w *world, id, gotype int, ptr bool) interface{} {
	b := nodeBase{id: id, w: w}
	switch gotype {
	case 1:
		if ptr {
			return &V1{b}
		}
		return V1{b}
	case 2:
		if ptr {
			return &V2{b}
		}
		return V2{b}
	case 20:
		if ptr {
			return &V20{b}
		}
		return V20{b}
	case 21:
		if ptr {
			return &V21{b}
		}
		return V21{b}
	case 22:
		if ptr {
			return &V22{b}
		}
		return V22{b}
	case 23:
		if ptr {
			return &V23{b}
		}
		return V23{b}
	case 24:
		if ptr {
			return &V24{b}
		}
		return V24{b}
	case 25:
		if ptr {
			return &V25{b}
		}
		return V25{b}
	case 26:
		if ptr {
			return &V26{b}
		}
		return V26{b}
	case 27:
		if ptr {
			return &V27{b}
		}
		return V27{b}
	}
	return nil
}
